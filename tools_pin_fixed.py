#!/usr/bin/env python3
"""Pin a regression input for a repaired defect.

tools_pin_fixed.py <prop> <fix-commit> <finding-id> "<what failed>" [--only a,b] [--scale f] [--replay file]

Makes a scratch worktree of /repo HEAD with <fix-commit> reverted, runs the property's check there (or the given
replay file), keeps the smallest failing case as replays/<finding-id>.json, verifies that it passes on /repo, and
records a "fixed" entry in known_findings.json.  The worktree is removed afterwards.
"""
import json, os, re, shutil, subprocess, sys
ROOT = os.path.dirname(os.path.abspath(__file__))
args = sys.argv[1:]
opts = {}
while '--only' in args or '--scale' in args or '--replay' in args or '--seed' in args:
    for o in ('--only', '--scale', '--replay', '--seed'):
        if o in args:
            i = args.index(o); opts[o] = args[i + 1]; del args[i:i + 2]
prop, commit, fid, what = args
wt = f'/tmp/wt-pin-{fid}'
def sh(*a, **k): return subprocess.run(a, text=True, capture_output=True, **k)
sh('git', '-C', '/repo', 'worktree', 'remove', '--force', wt)
r = sh('git', '-C', '/repo', 'worktree', 'add', '-q', '--detach', wt, 'HEAD'); assert r.returncode == 0, r.stderr
try:
    r = sh('git', '-C', wt, 'revert', '--no-commit', commit)
    assert r.returncode == 0, 'revert failed: ' + r.stderr
    env = dict(os.environ, VERIF_REPO=wt)
    if '--seed' in opts: env['VERIF_SEED'] = opts['--seed']
    if '--replay' in opts:
        cand = [opts['--replay']]
    else:
        cmd = [os.path.join(ROOT, 'run_check.py'), prop, '--shards', '8', '--no-evidence']
        if '--only' in opts: cmd += ['--only', opts['--only']]
        if '--scale' in opts: cmd += ['--scale', opts['--scale']]
        r = sh(*cmd, env=env, cwd=ROOT)
        cand = re.findall(r'^VIOLATION property=\S+ replay=(\S+)$', r.stdout, re.M)
        assert cand, 'no violation with the fix reverted:\n' + r.stdout[-2000:] + r.stderr[-2000:]
    cand = [p for p in cand if os.path.exists(os.path.join(ROOT, p))]
    best = min(cand, key=lambda p: os.path.getsize(os.path.join(ROOT, p)))
    rec = json.load(open(os.path.join(ROOT, best)))
    dst = os.path.join(ROOT, 'replays', f'{fid}.json')
    json.dump(rec, open(dst, 'w'), indent=1)
    r1 = sh(os.path.join(ROOT, 'run_check.py'), prop, '--replay', dst, env=env, cwd=ROOT)
    r2 = sh(os.path.join(ROOT, 'run_check.py'), prop, '--replay', dst, cwd=ROOT)
    assert r1.returncode == 1, 'pinned replay does not fail with the fix reverted: ' + r1.stdout + r1.stderr
    assert r2.returncode == 0, 'pinned replay still fails on /repo: ' + r2.stdout + r2.stderr
    short = sh('git', '-C', '/repo', 'rev-parse', '--short', commit).stdout.strip()
    kf = os.path.join(ROOT, 'known_findings.json')
    items = json.load(open(kf))
    items = [k for k in items if k['id'] != fid]
    items.append({'id': fid, 'property': prop, 'status': 'fixed', 'commit': short,
                  'line': f'fixed: property={prop} {short} {what}',
                  'signatures': [rec.get('signature', '')], 'replay': f'replays/{fid}.json'})
    json.dump(items, open(kf, 'w'), indent=1)
    print('pinned', fid, rec.get('signature'), 'from', len(cand), 'candidates')
finally:
    sh('git', '-C', '/repo', 'worktree', 'remove', '--force', wt)
    sh('git', '-C', '/repo', 'worktree', 'prune')
