#!/usr/bin/env python3
"""Confirm and file a seeded breaking change, and run the checks against it.

tools_seeded.py add <src-dir> <seed-id> <prop> [--skip-tests]   verify demo/tests in a scratch worktree, store under seeded/<seed-id>/, run the quick check
tools_seeded.py run <seed-id> [<prop> ...] [--tier quick]        re-run check(s) against a stored seed (default: its own property)
tools_seeded.py runall [--jobs N] [--only C01,C02-s]               run every stored seed (or those with the id prefixes) against its property, update seeded/RESULTS.json

Everything happens in scratch worktrees under /tmp (removed afterwards); /repo is never modified.
"""
import json, os, re, shutil, subprocess, sys, time
ROOT = os.path.dirname(os.path.abspath(__file__))
PY = '/venv/bin/python'
EXPECTED_FAIL = {'tests/test_chemical.py::test_chemical_creation', 'tests/test_network.py::test_disconnect',
                 'thermosteam/equilibrium/bubble_point.py::thermosteam.equilibrium.bubble_point.BubblePointBeta',
                 'thermosteam/equilibrium/bubble_point.py::thermosteam.equilibrium.bubble_point.BubblePointBeta.solve_Ty',
                 'thermosteam/equilibrium/flash_package.py::thermosteam.equilibrium.flash_package.FlashPackage'}


def sh(*a, **k):
    return subprocess.run(a, text=True, capture_output=True, **k)


def worktree(tag):
    wt = f'/tmp/wt-seed-{tag}'
    sh('git', '-C', '/repo', 'worktree', 'remove', '--force', wt)
    r = sh('git', '-C', '/repo', 'worktree', 'add', '-q', '--detach', wt, 'HEAD')
    assert r.returncode == 0, r.stderr
    return wt


def drop(wt):
    sh('git', '-C', '/repo', 'worktree', 'remove', '--force', wt)
    sh('git', '-C', '/repo', 'worktree', 'prune')


def run_demo(wt, demo):
    env = dict(os.environ, NUMBA_DISABLE_JIT='1', PYTHONWARNINGS='ignore', PYTHONPATH=wt, PYTHONDONTWRITEBYTECODE='1')
    r = sh(PY, demo, env=env, cwd=wt)
    return r.returncode, (r.stdout + r.stderr)[-1500:]


def run_tests(wt):
    r = sh(PY, '-m', 'pytest', '-q', '-p', 'no:cacheprovider', '--timeout=900', '--continue-on-collection-errors', cwd=wt,
           env=dict(os.environ, PYTHONDONTWRITEBYTECODE='1'))
    out = r.stdout
    failed = set(re.findall(r'^FAILED (\S+)', out, re.M))
    m = re.search(r'(\d+) failed, (\d+) passed', out) or re.search(r'(\d+) passed', out)
    return failed, (m.group(0) if m else out[-300:])


def run_check(wt, prop, tier='quick', seed='1'):
    env = dict(os.environ, VERIF_REPO=wt, VERIF_SEED=seed)
    t = time.time()
    r = sh(os.path.join(ROOT, 'run_check.py'), prop, '--tier', tier, '--no-evidence', env=env, cwd=ROOT)
    viol = re.findall(r'^violation: (.*)$', r.stdout, re.M)
    return {'exit': r.returncode, 'violations': [v[:300] for v in viol[:5]], 'n_violation_lines': len(re.findall(r'^VIOLATION ', r.stdout, re.M)),
            'wall_s': round(time.time() - t, 1), 'stderr_tail': r.stderr[-400:] if r.returncode not in (0, 1) else ''}


def cmd_add(src, sid, prop, skip_tests=False):
    dst = os.path.join(ROOT, 'seeded', sid)
    os.makedirs(dst, exist_ok=True)
    for f in ('patch.diff', 'demo.py'):
        shutil.copy(os.path.join(src, f), os.path.join(dst, f))
    meta = json.load(open(os.path.join(src, 'meta.json'))) if os.path.exists(os.path.join(src, 'meta.json')) else {}
    wt = worktree(sid)
    try:
        shutil.copy(os.path.join(dst, 'demo.py'), os.path.join(wt, '_demo_seed.py'))
        rc0, out0 = run_demo(wt, '_demo_seed.py')
        r = sh('git', '-C', wt, 'apply', '--3way', os.path.join(dst, 'patch.diff'))
        assert r.returncode == 0, 'patch does not apply to HEAD: ' + r.stderr
        rc1, out1 = run_demo(wt, '_demo_seed.py')
        os.remove(os.path.join(wt, '_demo_seed.py'))
        if skip_tests:
            failed, summary = None, 'not re-run'
        else:
            failed, summary = run_tests(wt)
        chk = run_check(wt, prop)
        ok = rc0 == 0 and rc1 != 0 and (failed is None or failed == EXPECTED_FAIL)
        meta.update({'property': prop, 'confirmed': ok,
                     'ran': {'demo_without_change_exit': rc0, 'demo_with_change_exit': rc1, 'demo_with_change_tail': out1[-400:],
                             'repo_tests_with_change': summary,
                             'unexpected_test_failures': sorted(failed - EXPECTED_FAIL) if failed is not None else None,
                             'quick_check': chk,
                             'commands': ['git -C /repo worktree add --detach /tmp/wt-seed-<id> HEAD; git apply patch.diff',
                                          'PYTHONPATH=<wt> /venv/bin/python demo.py (before and after applying the patch)',
                                          'cd <wt> && /venv/bin/python -m pytest -q -p no:cacheprovider --timeout=900 --continue-on-collection-errors',
                                          f'VERIF_REPO=<wt> ./run_check.py {prop} --tier quick']}})
        json.dump(meta, open(os.path.join(dst, 'meta.json'), 'w'), indent=1)
        print(sid, 'confirmed' if ok else 'NOT CONFIRMED', '| demo', rc0, '->', rc1, '| tests', summary, '| check exit', chk['exit'],
              chk['violations'][:1])
    finally:
        drop(wt)


def cmd_run(sid, props, tier='quick'):
    dst = os.path.join(ROOT, 'seeded', sid)
    meta = json.load(open(os.path.join(dst, 'meta.json')))
    props = props or [meta['property']]
    wt = worktree(sid)
    res = {}
    try:
        r = sh('git', '-C', wt, 'apply', '--3way', os.path.join(dst, 'patch.diff'))
        assert r.returncode == 0, 'patch does not apply to HEAD: ' + r.stderr
        for p in props:
            res[p] = run_check(wt, p, tier)
            print(sid, p, 'exit', res[p]['exit'], res[p]['violations'][:1], res[p]['stderr_tail'][-200:])
            key = 'quick_check' if (p == meta['property'] and tier == 'quick') else None
            if key:
                meta.setdefault('ran', {})[key] = res[p]
            else:
                meta.setdefault('ran', {}).setdefault('other_checks', {})[f'{p}:{tier}'] = res[p]
        json.dump(meta, open(os.path.join(dst, 'meta.json'), 'w'), indent=1)
    finally:
        drop(wt)
    return res


if __name__ == '__main__':
    a = sys.argv[1:]
    if a[0] == 'add':
        cmd_add(a[1], a[2], a[3], '--skip-tests' in a)
    elif a[0] == 'run':
        tier = 'quick'
        if '--tier' in a:
            i = a.index('--tier'); tier = a[i + 1]; del a[i:i + 2]
        cmd_run(a[1], a[2:], tier)
    elif a[0] == 'runall':
        from concurrent.futures import ThreadPoolExecutor
        jobs = int(a[a.index('--jobs') + 1]) if '--jobs' in a else 3
        sids = [s for s in sorted(os.listdir(os.path.join(ROOT, 'seeded'))) if os.path.isdir(os.path.join(ROOT, 'seeded', s))]
        prev = {}
        if '--only' in a:      # re-run a subset (comma-separated id prefixes), keep the other results
            pre = tuple(a[a.index('--only') + 1].split(','))
            rp = os.path.join(ROOT, 'seeded', 'RESULTS.json')
            prev = json.load(open(rp)) if os.path.exists(rp) else {}
            sids = [s for s in sids if s.startswith(pre)]
        def one(sid):
            try:
                return sid, cmd_run(sid, [])
            except AssertionError as e:
                print(sid, 'ERROR', str(e)[:200])
                return sid, {'error': str(e)[:300]}
        with ThreadPoolExecutor(jobs) as ex:
            out = dict(prev, **dict(ex.map(one, sids)))
        json.dump(out, open(os.path.join(ROOT, 'seeded', 'RESULTS.json'), 'w'), indent=1)
        bad = [s for s, r in out.items() if 'error' in r]
        missed = [s for s, r in out.items() if 'error' not in r and all(v.get('exit') != 1 for v in r.values())]
        print('seeds:', len(out), 'errors:', bad, 'not caught by own property:', missed)
