#!/venv/bin/python
"""Entry point: run_check.py <Cxx> --tier quick|thorough | --replay <file>"""
import os, sys
sys.path.insert(0, os.path.dirname(os.path.abspath(__file__)))
from vlib.runner import main
if __name__ == '__main__':
    sys.exit(main())
