#!/usr/bin/env python3
"""Commit selected hunks of the working-tree diff of /repo:  tools_commit_hunks.py "<msg>" file:h1,h2 [file:h3 ...]
Hunk numbers are 1-based positions in `git diff <file>` (vs the index)."""
import subprocess, sys, re
msg = sys.argv[1]
patch = ''
for spec in sys.argv[2:]:
    f, hs = spec.rsplit(':', 1)
    want = {int(x) for x in hs.split(',')}
    d = subprocess.run(['git', '-C', '/repo', 'diff', '--', f], capture_output=True, text=True, check=True).stdout
    parts = re.split(r'(?m)^(?=@@ )', d)
    header, hunks = parts[0], parts[1:]
    patch += header + ''.join(h for i, h in enumerate(hunks, 1) if i in want)
subprocess.run(['git', '-C', '/repo', 'apply', '--cached', '--recount', '-'], input=patch, text=True, check=True)
subprocess.run(['git', '-C', '/repo', 'commit', '-q', '-m', msg], check=True)
print(subprocess.run(['git', '-C', '/repo', 'log', '--oneline', '-1'], capture_output=True, text=True).stdout)
