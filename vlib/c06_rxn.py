"""Helpers for C06: CHO universe with known heats of formation, exactly balanced
stoichiometries (rational null space of the formula matrix), a NumPy reference
model of reactions / reaction sets, and independent enthalpy bookkeeping.

Self-contained on purpose (does not import vlib/c05_rxn.py).
"""
from __future__ import annotations

from fractions import Fraction
from math import gcd

import numpy as np
import thermosteam as tmo
from thermosteam.base import PhaseHandle

from . import chem

# name -> (C, H, O).  The check asserts these against chemical.atoms in setup().
FORMULAS = {
    'Glucose': (6, 12, 6), 'Ethanol': (2, 6, 1), 'CO2': (1, 0, 2), 'Water': (0, 2, 1),
    'O2': (0, 0, 2), 'H2': (0, 2, 0), 'CH4': (1, 4, 0), 'Methanol': (1, 4, 1),
    'AceticAcid': (2, 4, 2), 'Glycerol': (3, 8, 3), 'Ethylene': (2, 4, 0), 'Acetone': (3, 6, 1),
    'CO': (1, 0, 1), 'LacticAcid': (3, 6, 3), 'FormicAcid': (1, 2, 2), 'Propanol': (3, 8, 1),
}

# Packages (order matters: positions differ between packages so that index handling is exercised).
#  GL : every chemical has liquid and gas enthalpy models  -> gas or liquid feeds, phase-tagged g/l
#  LQ : adds Glucose (no gas heat capacity model)          -> liquid feeds only
#  LK : phase-locked chemicals as in the ReactionSystem doctest (Glucose 's', light gases 'g')
PKG = {
    'GL': ('Ethanol', 'CO2', 'Water', 'O2', 'H2', 'CH4', 'Methanol', 'AceticAcid', 'Glycerol', 'Ethylene',
           'Acetone', 'CO', 'LacticAcid', 'FormicAcid', 'Propanol'),
    'LQ': ('Water', 'Glucose', 'Ethanol', 'CO2', 'O2', 'AceticAcid', 'Glycerol', 'LacticAcid', 'Methanol',
           'H2', 'Acetone', 'CH4'),
    'LK': ('Glucose', 'Water', 'Ethanol', 'CO2', 'O2', 'H2', 'CH4', 'AceticAcid', 'LacticAcid', 'Glycerol',
           'Methanol'),
}
LOCKED = {'LK': {'Glucose': 's', 'CO2': 'g', 'O2': 'g', 'H2': 'g', 'CH4': 'g'}}
FILLERS = ('O2', 'CO2', 'Water', 'H2')   # appended (in this order) until a balanced reaction exists
T_REF = 298.15


def thermo(pkg):
    return chem.thermo_of(PKG[pkg], locked=LOCKED.get(pkg))


# ---------------------------------------------------------------------------
# exact rational null space
# ---------------------------------------------------------------------------

def nullspace(names):
    """Basis (list of lists of Fraction) of {v : sum_i v_i * formula_i = 0} over ``names``."""
    n = len(names)
    rows = [[Fraction(FORMULAS[nm][e]) for nm in names] for e in range(3)]
    pivots = []
    r = 0
    for c in range(n):
        p = None
        for i in range(r, len(rows)):
            if rows[i][c] != 0:
                p = i; break
        if p is None:
            continue
        rows[r], rows[p] = rows[p], rows[r]
        pv = rows[r][c]
        rows[r] = [x / pv for x in rows[r]]
        for i in range(len(rows)):
            if i != r and rows[i][c] != 0:
                f = rows[i][c]
                rows[i] = [a - f * b for a, b in zip(rows[i], rows[r])]
        pivots.append(c)
        r += 1
        if r == len(rows):
            break
    free = [c for c in range(n) if c not in pivots]
    basis = []
    for f in free:
        v = [Fraction(0)] * n
        v[f] = Fraction(1)
        for i, pc in enumerate(pivots):
            v[pc] = -rows[i][f]
        basis.append(v)
    return basis


def to_integers(v):
    """Scale a rational vector to coprime integers (sign kept)."""
    den = 1
    for x in v:
        den = den * x.denominator // gcd(den, x.denominator)
    ints = [int(x * den) for x in v]
    g = 0
    for x in ints:
        g = gcd(g, abs(x))
    return [x // g for x in ints] if g else ints


def is_balanced(names, nu):
    """Exact check (Fractions) that ``nu`` conserves C, H and O."""
    for e in range(3):
        if sum(Fraction(x) * FORMULAS[nm][e] for nm, x in zip(names, nu)) != 0:
            return False
    return True


def draw_stoichiometry(ch, tag, pool, kmin=2, kmax=5):
    """Draw an exactly balanced stoichiometry over a subset of ``pool``.

    Returns (names, nu) with nu a list of non-zero floats (integer or integer/divisor valued);
    the integer vector before division is exactly balanced in rational arithmetic.
    """
    pool = list(pool)
    sub = ch.subset(f'{tag}.subset', pool, min_size=kmin, max_size=kmax)
    sub = sorted(sub, key=pool.index)
    basis = nullspace(sub)
    for f in FILLERS:
        if basis:
            break
        if f not in sub and f in pool:
            sub.append(f)
            basis = nullspace(sub)
    if not basis:
        return None, None
    coefs = [ch.int(f'{tag}.c{j}', -2, 2) for j in range(len(basis))]
    if not any(coefs):
        coefs[0] = 1
    v = [sum(Fraction(c) * b[i] for c, b in zip(coefs, basis)) for i in range(len(sub))]
    ints = to_integers(v)
    assert is_balanced(sub, ints)
    div = ch.choice(f'{tag}.div', [1, 1, 2, 3, 4, 7])
    names = [nm for nm, x in zip(sub, ints) if x]
    nu = [x / div for x in ints if x]
    return names, nu


# ---------------------------------------------------------------------------
# reaction descriptions -> thermosteam objects
# ---------------------------------------------------------------------------

def fmt(x):
    return repr(float(x))


def reaction_string(names, nu, phase_of=None):
    left, right = [], []
    for nm, x in zip(names, nu):
        ID = nm + (',' + phase_of[nm] if phase_of else '')
        (left if x < 0 else right).append(f'{fmt(abs(x))} {ID}')
    return ' + '.join(left) + ' -> ' + ' + '.join(right)


def reaction_dict(names, nu, phase_of=None):
    if phase_of:
        return {nm: (phase_of[nm], float(x)) for nm, x in zip(names, nu)}
    return {nm: float(x) for nm, x in zip(names, nu)}


def build_reaction(spec, th):
    """spec: dict(names, nu, reactant, X, basis, how, form, phase_of|None)."""
    names, nu, phase_of = spec['names'], spec['nu'], spec.get('phase_of')
    chems = th.chemicals
    if spec['how'] == 'wt_coeff':
        # definition given directly in weight coefficients
        MW = {nm: chems[nm].MW for nm in names}
        coeff = [x * MW[nm] for nm, x in zip(names, nu)]
        basis = 'wt'
    else:
        coeff = list(nu)
        basis = 'mol'
    if spec['form'] == 'str':
        defn = reaction_string(names, coeff, phase_of)
    else:
        defn = reaction_dict(names, coeff, phase_of)
    rxn = tmo.Reaction(defn, reactant=None if spec.get('infer') else spec['reactant'], X=spec['X'],
                       chemicals=chems, basis=basis)
    if spec['how'] == 'copy_wt':
        rxn = rxn.copy(basis='wt')
    elif spec['how'] == 'set_wt':
        rxn.basis = 'wt'
    return rxn


# ---------------------------------------------------------------------------
# reference model (plain NumPy, molar)
# ---------------------------------------------------------------------------

def ref_nu(spec, chems, phases):
    """Molar stoichiometry normalised per mole of reactant, as (n_phases x n_chem) array,
    plus the (row, col) of the reactant."""
    idx = {c.ID: i for i, c in enumerate(chems)}
    a = np.zeros((len(phases), len(idx)))
    phase_of = spec.get('phase_of')
    for nm, x in zip(spec['names'], spec['nu']):
        r = phases.index(phase_of[nm]) if phase_of else 0
        a[r, idx[nm]] = x
    r = phases.index(phase_of[spec['reactant']]) if phase_of else 0
    c = idx[spec['reactant']]
    a = a / -a[r, c]
    return a, (r, c)


def ref_react(struct, mol, chems, phases):
    """Apply a reaction structure to a dense molar array (n_phases x n_chem).

    struct: ('rxn', spec) | ('par', [spec...]) | ('ser', [spec...]) | ('sys', [struct...])
    Returns (new_mol, extents) with extents = list of (spec, moles of reactant converted).
    """
    kind, body = struct
    mol = mol.copy()
    ext = []
    if kind == 'rxn':
        nu, rc = ref_nu(body, chems, phases)
        e = body['X'] * mol[rc]
        mol = mol + e * nu
        ext.append((body, e))
    elif kind == 'par':
        feed = mol.copy()
        for sp in body:
            nu, rc = ref_nu(sp, chems, phases)
            e = sp['X'] * feed[rc]
            mol = mol + e * nu
            ext.append((sp, e))
    elif kind == 'ser':
        for sp in body:
            nu, rc = ref_nu(sp, chems, phases)
            e = sp['X'] * mol[rc]
            mol = mol + e * nu
            ext.append((sp, e))
    elif kind == 'sys':
        for sub in body:
            mol, e2 = ref_react(sub, mol, chems, phases)
            ext.extend(e2)
    else:
        raise ValueError(kind)
    return mol, ext


def make_feasible(struct, mol, chems, phases, margin, rounds=6):
    """Top the feed up (deterministically) until the reference result has no negative entry.
    Returns (feed, ok)."""
    mol = mol.copy()
    for _ in range(rounds):
        out, _e = ref_react(struct, mol, chems, phases)
        neg = out < 0
        if not neg.any():
            return mol, True
        mol = mol + np.where(neg, -out * (1.0 + margin), 0.0)
    out, _e = ref_react(struct, mol, chems, phases)
    return mol, not (out < 0).any()


def all_specs(struct):
    kind, body = struct
    if kind == 'rxn':
        return [body]
    if kind in ('par', 'ser'):
        return list(body)
    out = []
    for sub in body:
        out.extend(all_specs(sub))
    return out


def build_struct(struct, th):
    kind, body = struct
    if kind == 'rxn':
        return build_reaction(body, th)
    if kind == 'par':
        return tmo.ParallelReaction([build_reaction(sp, th) for sp in body])
    if kind == 'ser':
        return tmo.SeriesReaction([build_reaction(sp, th) for sp in body])
    return tmo.ReactionSystem(*[build_struct(sub, th) for sub in body])


# ---------------------------------------------------------------------------
# independent thermodynamic bookkeeping
# ---------------------------------------------------------------------------

def pure_H(c, phase, T, P):
    """Pure-component enthalpy [J/mol] read straight from the Chemical object."""
    H = c.H
    return H(phase, T, P) if isinstance(H, PhaseHandle) else H(T, P)


def pure_Cn(c, phase, T, P):
    Cn = c.Cn
    return Cn(phase, T) if isinstance(Cn, PhaseHandle) else Cn(T)


def H_total(chems, phases, mol, T, P):
    """sum_p sum_i n_pi * H_i(p, T, P)  [kJ/hr] (ideal mixture, no excess terms)."""
    tot = 0.0
    for r, p in enumerate(phases):
        for j, c in enumerate(chems):
            n = mol[r, j]
            if n:
                tot += n * pure_H(c, p, T, P)
    return tot


def C_total(chems, phases, mol, T, P):
    tot = 0.0
    for r, p in enumerate(phases):
        for j, c in enumerate(chems):
            n = mol[r, j]
            if n:
                tot += n * pure_Cn(c, p, T, P)
    return tot


def Hf_total(chems, mol):
    return float(sum(mol[:, j].sum() * c.Hf for j, c in enumerate(chems) if mol[:, j].any()))


def latent(c, phase):
    """Enthalpy level of ``phase`` relative to the chemical's reference phase at 298.15 K
    (levels: solid 0, liquid Hfus, gas Hfus + Hvap(298.15))."""
    Hfus = c.Hfus or 0.0
    level = {'s': 0.0, 'l': Hfus, 'g': Hfus + c.Hvap(T_REF)}
    return level[phase] - level[c.phase_ref]


def dH_oracle(spec, chems, wt):
    """X * sum nu_i (Hf_i + L_i) per mole (or per gram) of reactant."""
    by = {c.ID: c for c in chems}
    phase_of = spec.get('phase_of')
    nu_r = dict(zip(spec['names'], spec['nu']))[spec['reactant']]
    tot = 0.0
    for nm, x in zip(spec['names'], spec['nu']):
        c = by[nm]
        L = latent(c, phase_of[nm]) if phase_of else 0.0
        tot += (x / -nu_r) * (c.Hf + L)
    tot *= spec['X']
    if wt:
        tot /= by[spec['reactant']].MW
    return tot


def make_stream(th, phases, mol, T, P, multi):
    """Stream (single phase) or MultiStream with the dense molar flows ``mol`` (n_phases x n_chem)."""
    if not multi:
        return tmo.Stream(None, flow=np.array(mol[0], float), phase=phases[0], T=T, P=P, thermo=th)
    s = tmo.MultiStream(None, phases=tuple(phases), T=T, P=P, thermo=th)
    for r, p in enumerate(phases):
        d = s.imol.data.rows[s.imol.get_phase_index(p)].dct
        for j, v in enumerate(mol[r]):
            if v:
                d[j] = float(v)
    return s


def dense(s):
    a = s.imol.data.to_array()
    return a.reshape(1, -1) if a.ndim == 1 else a
