"""Shared runner for the thermosteam property checks.

Every check is a module ``checks/cXX_*.py`` that exposes

    PROPERTY  = 'C09'
    RULE      = '<how cases are generated and what makes one non-trivial>'
    ASSUMPTIONS = [...]
    PROPS     = {name: (function(ch, ctx), n_quick, n_thorough)}

A *property function* takes a ``Chooser`` (``ch``) and the shard context.  All
randomness flows through ``ch`` which in generation mode draws from Hypothesis
(``st.data()``) and logs ``[label, value]`` pairs, and in replay mode feeds the
logged values back.  A case therefore *is* the list of drawn values; the replay
file re-executes it with plain Python and no Hypothesis.

Exit codes: 0 property held, 1 VIOLATION (not listed in known_findings.json),
2 harness error.
"""
from __future__ import annotations

import copy
import hashlib
import importlib
import json
import math
import os
import sys
import time
import traceback
import fnmatch

ROOT = os.path.dirname(os.path.dirname(os.path.abspath(__file__)))
REPO = os.environ.get('VERIF_REPO', '/repo')

PINNED_ENV = {
    'NUMBA_DISABLE_JIT': '1',
    'DISABLE_PREFERENCES': '1',
    'FILTER_WARNINGS': '1',
    'PYTHONHASHSEED': '0',
    'PYTHONDONTWRITEBYTECODE': '1',
    'MPLBACKEND': 'Agg',
    'PYTHONWARNINGS': 'ignore',
    'OMP_NUM_THREADS': '1',
    'OPENBLAS_NUM_THREADS': '1',
    'MKL_NUM_THREADS': '1',
}


class Violation(Exception):
    """An oracle disagreement.  ``sig`` identifies clause|site|region|kind."""

    def __init__(self, sig, msg=''):
        super().__init__(f'{sig}: {msg}')
        self.sig = sig
        self.msg = msg


class HarnessError(Exception):
    pass


class Reject(Exception):
    """The case is outside the quantified domain (documented rejection)."""


class ReplayEnd(Exception):
    """A replayed log ran out: everything that was logged has been re-executed."""


# ---------------------------------------------------------------------------
# Chooser: the single source of randomness
# ---------------------------------------------------------------------------

class Chooser:
    """Draws values from Hypothesis and logs them / replays a logged list.

    Replay is keyed by label (FIFO per label), so a replay file survives a generator that later gains new draws:
    a label absent from the log takes the draw's *default* (the first / smallest choice, which new draws are
    written to make "the old behaviour").  A draw without default whose label is absent ends the replay: the log
    of a failing run stops where the failure happened, so everything logged has been re-executed and held.
    """

    _NO = object()

    def __init__(self, data=None, log=None):
        self.data = data
        self.replaying = data is None
        self.log = [] if log is None else log
        self.queues = {}
        if self.replaying:
            for lab, val in self.log:
                self.queues.setdefault(lab, []).append(val)
            for q in self.queues.values():
                q.reverse()

    # -- core -------------------------------------------------------------
    def _next(self, label, make, default=_NO):
        if self.replaying:
            q = self.queues.get(label)
            if q:
                return copy.deepcopy(q.pop())
            if default is Chooser._NO:
                raise ReplayEnd(label)
            return copy.deepcopy(default)
        val = make()
        self.log.append([label, copy.deepcopy(val)])
        return val

    def draw(self, label, strategy, default=_NO):
        """Generic draw; the value must be JSON-able."""
        return self._next(label, lambda: self.data.draw(strategy, label=label), default)

    def int(self, label, lo, hi):
        from hypothesis import strategies as st
        return self._next(label, lambda: self.data.draw(st.integers(lo, hi), label=label), lo)

    def bool(self, label, p=None):
        from hypothesis import strategies as st
        return self._next(label, lambda: self.data.draw(st.booleans(), label=label), False)

    def float(self, label, lo, hi):
        from hypothesis import strategies as st
        return self._next(label, lambda: self.data.draw(
            st.floats(lo, hi, allow_nan=False, allow_infinity=False, allow_subnormal=False), label=label), lo)

    def logfloat(self, label, lo_exp, hi_exp):
        """10**u, u uniform in [lo_exp, hi_exp]; the logged value is the float itself."""
        from hypothesis import strategies as st
        return self._next(label, lambda: 10.0 ** self.data.draw(
            st.floats(lo_exp, hi_exp, allow_nan=False, allow_subnormal=False), label=label), 10.0 ** lo_exp)

    def choice(self, label, seq):
        """Pick an element of a sequence of JSON-able values (logged by value)."""
        from hypothesis import strategies as st
        seq = list(seq)
        if not seq:
            raise HarnessError(f'empty choice for {label}')
        return self._next(label, lambda: seq[self.data.draw(st.integers(0, len(seq) - 1), label=label)], seq[0])

    def index(self, label, n):
        return self.int(label, 0, n - 1)

    def subset(self, label, seq, min_size=0, max_size=None):
        from hypothesis import strategies as st
        seq = list(seq)
        if max_size is None: max_size = len(seq)
        if not seq:
            return self._next(label, lambda: [], [])
        def make():
            idx = self.data.draw(st.lists(st.integers(0, len(seq) - 1), min_size=min_size,
                                          max_size=max_size, unique=True), label=label)
            return [seq[i] for i in idx]
        return self._next(label, make, seq[:min_size])

    def permutation(self, label, n):
        from hypothesis import strategies as st
        return self._next(label, lambda: list(self.data.draw(st.permutations(list(range(n))), label=label)),
                          list(range(n)))

    def flows(self, label, n, lo_exp=-3, hi_exp=3, p_zero=None):
        """Flow vector: each entry 0 or 10**u (non-negative, finite)."""
        from hypothesis import strategies as st
        elem = st.one_of(st.just(0.0),
                         st.floats(lo_exp, hi_exp, allow_nan=False).map(lambda u: 10.0 ** u),
                         st.sampled_from([1.0, 2.0, 0.5, 10.0]))
        return self._next(label, lambda: self.data.draw(st.lists(elem, min_size=n, max_size=n), label=label),
                          [0.0] * n)


# ---------------------------------------------------------------------------
# Shard context
# ---------------------------------------------------------------------------

def canon(obj):
    return json.dumps(obj, sort_keys=True, separators=(',', ':'), default=str)


def h64(obj):
    return hashlib.sha1(canon(obj).encode()).hexdigest()[:16]


class Ctx:
    def __init__(self, prop, tier, seed, shard, nshards, known, collect=False,
                 wall_limit=None, shrink_budget=None):
        self.prop = prop
        self.tier = tier
        self.seed = seed
        self.shard = shard
        self.nshards = nshards
        self.known = known            # list of known-finding dicts (status == 'known')
        self.collect = collect
        self.t0 = time.time()
        self.wall_limit = wall_limit
        self.shrink_budget = shrink_budget
        self.first_fail_t = None
        self.evaluations = 0
        self.rejected = {}
        self.skipped_time = 0
        self.nontrivial = set()
        self.cells = {}
        self.samples = []
        self.failures = {}            # sig -> dict(case, msg, size, prop_name)
        self.known_tally = {}
        self.metrics = {}
        self.cur_name = None
        self.per_prop = {}

    # -- called by checks ---------------------------------------------------
    def cell(self, name, n=1):
        self.cells[name] = self.cells.get(name, 0) + n

    def nontriv(self, key):
        self.nontrivial.add(h64([self.cur_name, key]))

    def metric_max(self, name, value):
        if value is None or (isinstance(value, float) and math.isnan(value)):
            return
        if name not in self.metrics or value > self.metrics[name]:
            self.metrics[name] = float(value)

    def reject(self, why):
        self.rejected[why] = self.rejected.get(why, 0) + 1
        raise Reject(why)

    def fail(self, sig, msg=''):
        raise Violation(f'{self.prop}|{sig}', msg)

    def check(self, cond, sig, msg=''):
        if not cond:
            raise Violation(f'{self.prop}|{sig}', msg() if callable(msg) else msg)

    def known_id(self, sig):
        for k in self.known:
            for pat in k.get('signatures', []):
                if fnmatch.fnmatchcase(sig, pat):
                    return k['id']
        return None

    def call(self, site, fn, *args, allowed=(), region='any', **kw):
        """Call code under test; an exception outside ``allowed`` is a violation."""
        try:
            return fn(*args, **kw)
        except (Violation, HarnessError, Reject, ReplayEnd):
            raise
        except allowed:
            raise
        except RecursionError as e:
            raise Violation(f'{self.prop}|{site}|{region}|exc:RecursionError', str(e)[:200])
        except Exception as e:
            raise Violation(f'{self.prop}|{site}|{region}|exc:{type(e).__name__}@{innermost_frame(e)}',
                            f'{type(e).__name__}: {str(e)[:300]}')

    def time_left(self):
        if self.wall_limit is None:
            return True
        return (time.time() - self.t0) < self.wall_limit


def innermost_frame(exc):
    tb = exc.__traceback__
    name = '?'
    while tb is not None:
        fn = tb.tb_frame.f_code.co_filename
        if '/thermosteam/' in fn:
            name = os.path.basename(fn)[:-3] + '.' + tb.tb_frame.f_code.co_name
        tb = tb.tb_next
    return name


# ---------------------------------------------------------------------------
# fresh global state before every case
# ---------------------------------------------------------------------------

_universes = []  # compiled Chemicals objects registered by vlib.chem


def register_chemicals(chems):
    _universes.append(chems)


def fresh_state():
    import thermosteam as tmo
    from thermosteam import indexer, network
    for cls in (indexer.MaterialIndexer,):
        try:
            cls._index_caches.clear()
        except AttributeError:
            pass
    for c in _universes:
        try:
            c._index_cache.clear()
        except AttributeError:
            pass
    try:
        tmo.Stream._flow_cache.clear()
    except AttributeError:
        pass
    # class-level solver settings a case may have changed (C02 draws Mixture.maxiter)
    m = sys.modules.get('thermosteam.mixture.mixture')
    if m is not None:
        m.Mixture.maxiter = 20; m.Mixture.T_tol = 1e-6
    try:
        network.disjunctions.clear()
    except AttributeError:
        pass
    try:
        tmo.AbstractStream.feed_priorities.clear()
    except AttributeError:
        pass
    # process-global solver/model caches keyed by chemicals (and, for bubble/dew points, by the package's models):
    # a case must not depend on which packages earlier cases happened to touch
    for modname in ('thermosteam.equilibrium.bubble_point', 'thermosteam.equilibrium.dew_point',
                    'thermosteam.equilibrium.activity_coefficients'):
        mod = sys.modules.get(modname)
        if mod is None: continue
        for obj in vars(mod).values():
            if isinstance(obj, type) and isinstance(obj.__dict__.get('_cached'), dict):
                obj.__dict__['_cached'].clear()
    # the switch the reaction code reads is thermosteam.reaction.CHECK_FEASIBILITY (package attribute)
    from thermosteam import reaction as _r
    if getattr(_r, 'CHECK_FEASIBILITY', True) is not True:
        _r.CHECK_FEASIBILITY = True


# ---------------------------------------------------------------------------
# running one property function under Hypothesis in one shard
# ---------------------------------------------------------------------------

def run_property(ctx, name, fn, n_examples, phases_shrink=True):
    import hypothesis
    from hypothesis import given, settings, HealthCheck, Phase, strategies as st
    from hypothesis.errors import Flaky

    ctx.cur_name = name
    stats = ctx.per_prop.setdefault(name, {'evaluations': 0, 'rejected': 0, 'skipped_time': 0})
    phases = [Phase.generate, Phase.target]
    if phases_shrink:
        phases.append(Phase.shrink)

    def body(data):
        if not ctx.time_left():
            stats['skipped_time'] += 1
            return
        if ctx.first_fail_t is not None and ctx.shrink_budget is not None \
                and time.time() - ctx.first_fail_t > ctx.shrink_budget:
            return
        ch = Chooser(data)
        fresh_state()
        try:
            fn(ch, ctx)
            stats['evaluations'] += 1
            ctx.evaluations += 1
            if len(ctx.samples) < 3 or (len(ctx.samples) < 6 and ctx.evaluations % 97 == 0):
                ctx.samples.append({'check': name, 'case': ch.log})
        except Reject:
            stats['rejected'] += 1
            stats['evaluations'] += 1
            ctx.evaluations += 1
        except Violation as v:
            stats['evaluations'] += 1
            ctx.evaluations += 1
            kid = ctx.known_id(v.sig)
            if kid is not None:
                ctx.known_tally[kid] = ctx.known_tally.get(kid, 0) + 1
                return
            size = len(canon(ch.log))
            old = ctx.failures.get(v.sig)
            if old is None or size < old['size']:
                ctx.failures[v.sig] = {'check': name, 'case': list(ch.log), 'msg': v.msg, 'size': size, 'sig': v.sig}
            if ctx.collect:
                return
            if ctx.first_fail_t is None:
                ctx.first_fail_t = time.time()
            raise

    test = given(st.data())(body)
    test = settings(max_examples=max(1, n_examples), deadline=None, database=None,
                    derandomize=False, report_multiple_bugs=False, phases=phases,
                    suppress_health_check=list(HealthCheck),
                    print_blob=False)(test)
    test = hypothesis.seed(ctx.seed)(test)
    try:
        test()
    except Violation:
        pass
    except Flaky:
        pass
    except Exception as e:
        if type(e).__name__.startswith('Flaky') and ctx.failures:
            return
        raise


def shard_main(args):
    """Executed in a worker process."""
    modname, tier, seed, shard, nshards, known, collect, wall_limit, shrink_budget, only = args
    try:
        setup_imports()
        mod = importlib.import_module(modname)
        ctx = Ctx(mod.PROPERTY, tier, seed * 1009 + shard, shard, nshards, known, collect,
                  wall_limit, shrink_budget)
        if hasattr(mod, 'setup'):
            mod.setup(ctx)
        for name, spec in mod.PROPS.items():
            if only and name not in only:
                continue
            fn, nq, nt = spec[:3]
            opts = spec[3] if len(spec) > 3 else {}
            n = nq if tier == 'quick' else nt
            if n <= 0:
                continue
            if opts.get('exhaustive'):
                # fn(ctx) enumerates its own finite space, sharded by ctx.shard/ctx.nshards
                ctx.cur_name = name
                fn(None, ctx)
                continue
            per = -(-n // nshards)
            run_property(ctx, name, fn, per, phases_shrink=opts.get('shrink', True))
            ctx.first_fail_t = None
        return {
            'ok': True, 'shard': shard, 'evaluations': ctx.evaluations,
            'nontrivial': sorted(ctx.nontrivial), 'cells': ctx.cells, 'samples': ctx.samples,
            'failures': ctx.failures, 'known_tally': ctx.known_tally, 'rejected': ctx.rejected,
            'metrics': ctx.metrics, 'per_prop': ctx.per_prop,
            'exhaustive': getattr(ctx, 'exhaustive_done', {}),
        }
    except BaseException as e:
        return {'ok': False, 'shard': shard, 'error': ''.join(traceback.format_exception(type(e), e, e.__traceback__))[-6000:]}


def setup_imports():
    if REPO not in sys.path:
        sys.path.insert(0, REPO)
    if ROOT not in sys.path:
        sys.path.insert(0, ROOT)
    deps = os.path.join(ROOT, '.deps')
    if os.path.isdir(deps) and deps not in sys.path:
        sys.path.append(deps)
    import warnings
    warnings.filterwarnings('ignore')
    import thermosteam
    if not os.path.abspath(thermosteam.__file__).startswith(os.path.abspath(REPO) + os.sep):
        raise HarnessError(f'thermosteam imported from {thermosteam.__file__}, not {REPO}')


# ---------------------------------------------------------------------------
# replay
# ---------------------------------------------------------------------------

def replay_case(mod, check_name, case, known=()):
    """Run one logged case with plain Python. Returns None or a Violation."""
    fn = mod.PROPS[check_name][0]
    ctx = Ctx(mod.PROPERTY, 'replay', 0, 0, 1, list(known))
    ctx.cur_name = check_name
    if hasattr(mod, 'setup'):
        mod.setup(ctx)
    ch = Chooser(None, [list(x) for x in case])
    fresh_state()
    try:
        fn(ch, ctx)
    except (Reject, ReplayEnd):
        return None
    except Violation as v:
        return v
    return None


# ---------------------------------------------------------------------------
# main
# ---------------------------------------------------------------------------

def load_known(prop):
    items = []
    path = os.path.join(ROOT, 'known_findings.json')
    if os.path.exists(path):
        with open(path) as f:
            items = json.load(f)
    # per-property working files (merged into known_findings.json by the integrator)
    wpath = os.path.join(ROOT, 'findings', f'{prop}.json')
    if os.path.exists(wpath):
        with open(wpath) as f:
            items = items + json.load(f)
    return [k for k in items if k.get('property') == prop]


def find_module(prop):
    d = os.path.join(ROOT, 'checks')
    for f in sorted(os.listdir(d)):
        if f.lower().startswith(prop.lower()) and f.endswith('.py'):
            return 'checks.' + f[:-3]
    raise HarnessError(f'no check module for {prop}')


def main(argv=None):
    import argparse
    p = argparse.ArgumentParser()
    p.add_argument('property')
    p.add_argument('--tier', default=os.environ.get('VERIF_TIER', 'quick'), choices=['quick', 'thorough'])
    p.add_argument('--replay')
    p.add_argument('--collect', action='store_true', default=os.environ.get('VERIF_COLLECT') == '1')
    p.add_argument('--shards', type=int, default=int(os.environ.get('VERIF_SHARDS', '0')))
    p.add_argument('--only', default=os.environ.get('VERIF_ONLY', ''))
    p.add_argument('--scale', type=float, default=float(os.environ.get('VERIF_SCALE', '1')))
    p.add_argument('--no-evidence', action='store_true')
    a = p.parse_args(argv)

    # re-exec once with the pinned environment
    if any(os.environ.get(k) != v for k, v in PINNED_ENV.items()):
        env = dict(os.environ)
        env.update(PINNED_ENV)
        os.execve(sys.executable, [sys.executable] + sys.argv, env)

    prop = a.property.upper()
    try:
        seed = int(os.environ.get('VERIF_SEED', '1'))
    except ValueError:
        seed = 1
    t0 = time.time()
    try:
        return _main(a, prop, seed, t0)
    except HarnessError as e:
        print(f'HARNESS-ERROR {prop}: {e}', file=sys.stderr)
        return 2
    except Exception:
        print(f'HARNESS-ERROR {prop}:\n{traceback.format_exc()}', file=sys.stderr)
        return 2


def _main(a, prop, seed, t0):
    setup_imports()
    modname = find_module(prop)
    mod = importlib.import_module(modname)
    known_all = load_known(prop)
    known = [k for k in known_all if k.get('status') == 'known']

    if a.replay:
        with open(a.replay) as f:
            rec = json.load(f)
        v = replay_case(mod, rec['check'], rec['case'], [])
        if v is None:
            print(f'replay {a.replay}: property held')
            return 0
        kid = None
        for k in known:
            if any(fnmatch.fnmatchcase(v.sig, pat) for pat in k.get('signatures', [])):
                kid = k
        if kid is not None:
            print(kid['line'])
            return 0
        print(f'replay: {v.sig}: {v.msg}')
        print(f'VIOLATION property={prop} replay={a.replay}')
        return 1

    violations = []   # (sig, check, case, msg)
    printed = []
    replays_run = 0

    # (a) pinned replays: known findings, fixed findings, regression inputs
    for k in known_all:
        rp = k.get('replay')
        if not rp:
            continue
        path = os.path.join(ROOT, rp)
        if not os.path.exists(path):
            raise HarnessError(f'missing pinned replay {rp}')
        with open(path) as f:
            rec = json.load(f)
        v = replay_case(mod, rec['check'], rec['case'], [])
        replays_run += 1
        if k.get('status') == 'known':
            if v is None:
                print(f'note: known finding {k["id"]} no longer reproduces from its pinned input', file=sys.stderr)
            elif any(fnmatch.fnmatchcase(v.sig, pat) for pat in k.get('signatures', [])):
                print(k['line'])
                printed.append(k['id'])
            else:
                violations.append((v.sig, rec['check'], rec['case'], v.msg))
        else:  # fixed: suppresses nothing
            if v is not None:
                violations.append((v.sig, rec['check'], rec['case'], v.msg))
    rdir = os.path.join(ROOT, 'replays', 'regress')
    if os.path.isdir(rdir):
        for fn in sorted(os.listdir(rdir)):
            if not fn.startswith(prop) or not fn.endswith('.json'):
                continue
            with open(os.path.join(rdir, fn)) as f:
                rec = json.load(f)
            if rec['check'] not in mod.PROPS:
                raise HarnessError(f'regress replay {fn} names unknown check {rec["check"]}')
            v = replay_case(mod, rec['check'], rec['case'], [])
            replays_run += 1
            if v is not None:
                kid = None
                for k in known:
                    if any(fnmatch.fnmatchcase(v.sig, pat) for pat in k.get('signatures', [])):
                        kid = k['id']
                if kid is None:
                    violations.append((v.sig, rec['check'], rec['case'], v.msg))

    # (b) generated search
    import multiprocessing as mp
    nsh = a.shards or min(16, os.cpu_count() or 1)
    wall = getattr(mod, 'WALL', {}).get(a.tier, 540 if a.tier == 'quick' else 3300)
    shrink_budget = getattr(mod, 'SHRINK_BUDGET', {}).get(a.tier, 45 if a.tier == 'quick' else 240)
    only = [x for x in a.only.split(',') if x]
    if a.scale != 1:
        for name, spec in list(mod.PROPS.items()):
            spec = list(spec)
            spec[1] = int(spec[1] * a.scale); spec[2] = int(spec[2] * a.scale)
            mod.PROPS[name] = tuple(spec)
    jobs = [(modname, a.tier, seed, k, nsh, known, a.collect, wall, shrink_budget, only) for k in range(nsh)]
    if nsh == 1:
        results = [shard_main(jobs[0])]
    else:
        ctxmp = mp.get_context('fork')
        with ctxmp.Pool(nsh) as pool:
            results = pool.map(shard_main, jobs, chunksize=1)
    errs = [r for r in results if not r['ok']]
    if errs:
        raise HarnessError('shard failed:\n' + errs[0]['error'])

    evaluations = sum(r['evaluations'] for r in results)
    nontrivial = set()
    cells, known_tally, rejected, metrics, per_prop, samples = {}, {}, {}, {}, {}, []
    exhaustive = {}
    failures = {}
    for r in results:
        nontrivial.update(r['nontrivial'])
        for k, v in r['cells'].items(): cells[k] = cells.get(k, 0) + v
        for k, v in r['known_tally'].items(): known_tally[k] = known_tally.get(k, 0) + v
        for k, v in r['rejected'].items(): rejected[k] = rejected.get(k, 0) + v
        for k, v in r['metrics'].items(): metrics[k] = max(metrics.get(k, v), v)
        for k, v in r['per_prop'].items():
            d = per_prop.setdefault(k, {})
            for kk, vv in v.items(): d[kk] = d.get(kk, 0) + vv
        for k, v in r.get('exhaustive', {}).items():
            exhaustive[k] = exhaustive.get(k, 0) + v
        if len(samples) < 6: samples.extend(r['samples'][:2])
        for sig, f in r['failures'].items():
            if sig not in failures or f['size'] < failures[sig]['size']:
                failures[sig] = f
    samples = samples[:6]

    # required coverage cells
    missing = [c for c in getattr(mod, 'REQUIRED_CELLS', {}).get(a.tier, []) if not cells.get(c)]
    if missing and not only and a.scale >= 1 and not failures:
        raise HarnessError(f'coverage cells never reached: {missing}')

    unreproduced = []
    for sig, f in sorted(failures.items()):
        v = replay_case(mod, f['check'], f['case'], [])
        if v is None:
            unreproduced.append(sig)
            continue
        violations.append((v.sig, f['check'], f['case'], v.msg))

    # (c) coverage-guided engine (atheris/libFuzzer driving the same property functions), thorough tier only
    fuzz_stats = None
    plan = ATHERIS_PLAN.get(prop)
    if plan and a.tier == 'thorough' and not only and os.environ.get('VERIF_NO_ATHERIS') != '1':
        fuzz_stats = run_atheris(prop, plan, seed, nsh)
        evaluations += fuzz_stats['executions']
        for k, v in fuzz_stats['known_tally'].items(): known_tally[k] = known_tally.get(k, 0) + v
        for path in fuzz_stats['violation_replays']:
            with open(os.path.join(ROOT, path)) as f:
                rec = json.load(f)
            violations.append((rec['signature'], rec['check'], rec['case'], rec.get('oracle_message', '')))

    vdir = os.path.join(ROOT, 'replays', 'violations')
    seen = set()
    nviol = 0
    for sig, check, case, msg in violations:
        if sig in seen:
            continue
        seen.add(sig)
        os.makedirs(vdir, exist_ok=True)
        rec = {'property': prop, 'check': check, 'case': case, 'signature': sig,
               'oracle_message': msg, 'seed': seed, 'tier': a.tier}
        path = os.path.join(vdir, f'{prop}-{h64([check, case])[:12]}.json')
        with open(path, 'w') as f:
            json.dump(rec, f, indent=1)
        print(f'violation: {sig}: {msg[:400]}')
        print(f'VIOLATION property={prop} replay={os.path.relpath(path, ROOT)}')
        nviol += 1

    if a.collect and violations:
        groups = {}
        for sig, check, case, msg in violations:
            parts = sig.split('|')
            key = (parts[1] if len(parts) > 1 else '?') + ' :: ' + (parts[-1] if len(parts) > 2 else '?')
            groups.setdefault(key, []).append(sig)
        print('--- collect summary (site :: kind -> number of distinct regions) ---')
        for key, sigs in sorted(groups.items(), key=lambda kv: -len(kv[1])):
            print(f'{len(sigs):4d}  {key}')
    wall_s = time.time() - t0
    if not a.no_evidence:
        ev = {
            'property_id': prop, 'tier': a.tier, 'seed': seed, 'level': 'exploration',
            'coverage': {
                'evaluations': int(evaluations),
                'distinct_nontrivial': len(nontrivial),
                'rule': mod.RULE,
                'samples': samples,
                'exhaustive': bool(getattr(mod, 'EXHAUSTIVE', False)) and all(
                    not v.get('skipped_time') for v in per_prop.values()),
                'cells': dict(sorted(cells.items())),
                'per_check': per_prop,
                'rejected_documented': rejected,
                'excluded_by_known_finding': known_tally,
                'known_findings_printed': printed,
                'pinned_replays_run': replays_run,
                'max_residuals': metrics,
                'exhaustive_counts': exhaustive,
                'shards': nsh,
                'atheris': ({k: v for k, v in fuzz_stats.items() if k != 'violation_replays'} if fuzz_stats else None),
            },
            'assumptions': list(getattr(mod, 'ASSUMPTIONS', [])),
            'wall_s': round(wall_s, 2),
            'violations': nviol,
        }
        if not ev['coverage']['exhaustive']:
            del ev['coverage']['exhaustive']
        validate_and_write(ev, prop)

    if unreproduced and not nviol:
        raise HarnessError(f'failure(s) did not reproduce from the saved case (state leak?): {unreproduced}')
    print(f'{prop} {a.tier}: evaluations={evaluations} nontrivial={len(nontrivial)} '
          f'violations={nviol} known_tally={known_tally} wall={wall_s:.1f}s')
    return 1 if nviol else 0


# property -> (property-function names, libFuzzer runs per function); executed by fuzz_check.py in the thorough tier
ATHERIS_PLAN = {
    'C09': (['binop', 'getitem', 'setitem', 'reduce', 'construct', 'observe', 'mutate', 'readonly', 'history'], 40000),
    'C10': (['key', 'names', 'shared'], 15000),
    'C18': (['history'], 20000),
    'C01': (['mix', 'split', 'separate', 'copy_flow', 'scale'], 15000),
    'C17': (['binary', 'scale', 'purity', 'items'], 15000),
}


def run_atheris(prop, plan, seed, nsh):
    import subprocess, re
    names, runs = plan
    out = {'engine': 'atheris (libFuzzer) feeding Hypothesis fuzz_one_input of the same property functions',
           'available': True, 'executions': 0, 'per_check': {}, 'known_tally': {}, 'violation_replays': []}
    procs = []
    for i, name in enumerate(names):
        cmd = [sys.executable, os.path.join(ROOT, 'fuzz_check.py'), prop, '--prop', name, '--runs', str(runs),
               '--seed', str(seed * 1009 + i + 1)]
        procs.append((name, subprocess.Popen(cmd, stdout=subprocess.PIPE, stderr=subprocess.DEVNULL, text=True, cwd=ROOT)))
        if len(procs) >= nsh:
            _collect_fuzz(procs, out); procs = []
    _collect_fuzz(procs, out)
    return out


def _collect_fuzz(procs, out):
    import re
    for name, p in procs:
        stdout, _ = p.communicate()
        m = re.search(r'^FUZZ-STATS (.*)$', stdout, re.M)
        st = json.loads(m.group(1)) if m else {'available': True, 'executions': 0, 'error': 'no stats line'}
        if not st.get('available', True):
            out['available'] = False
        out['executions'] += st.get('executions', 0)
        out['per_check'][name] = {k: st.get(k) for k in ('executions', 'wall_s', 'violation', 'error') if st.get(k) is not None}
        for k, v in (st.get('known_tally') or {}).items():
            out['known_tally'][k] = out['known_tally'].get(k, 0) + v
        out['violation_replays'] += re.findall(r'^VIOLATION property=\S+ replay=(\S+)$', stdout, re.M)


def validate_and_write(ev, prop):
    import jsonschema
    with open(os.path.join(ROOT, 'vlib', 'EVIDENCE.schema.json')) as f:
        schema = json.load(f)
    try:
        jsonschema.validate(ev, schema)
    except jsonschema.ValidationError as e:
        if ev.get('violations'):
            # a run cut short by a violation may not have explored enough; keep what was measured
            print(f'note: evidence below schema minimum after a violation: {e.message}', file=sys.stderr)
        else:
            raise HarnessError(f'evidence does not validate: {e.message}')
    os.makedirs(os.path.join(ROOT, 'evidence'), exist_ok=True)
    with open(os.path.join(ROOT, 'evidence', f'{prop}.json'), 'w') as f:
        json.dump(ev, f, indent=1, sort_keys=True, default=str)
        f.write('\n')
