"""Independent reference vapour-liquid flash for the C03/C04 checks.

Modified Raoult's law  K_i = gamma_i(x, T) * Psat_i(T) / P  evaluated with the *same model
objects* the package hands to thermosteam's solvers (``thermo.Gamma(chemicals)`` and
``chemical.Psat``), but with its own numerics:

* Rachford-Rice by ``scipy.optimize.brentq`` on the negative-flash window,
* successive substitution on ln K until ``max|d ln K| < 1e-12``,
* bubble pressure in closed form, dew pressure by substitution on x,
* bubble / dew temperature by ``brentq`` on the pressure residual.

Nothing from ``thermosteam.equilibrium`` (VLE, BubblePoint, DewPoint, binary_phase_fraction) is
used.  The gas phase is ideal; the Poynting factor comes from the package's own `thermo.PCF(chemicals)` object
(1 for the default `MockPoyintingCorrectionFactors`).
"""
from __future__ import annotations

import numpy as np
from scipy.optimize import brentq

LNK_TOL = 1e-12
T_LO, T_HI = 150.0, 700.0


class RefFlash:
    def __init__(self, chemicals, thermo, ideal=False):
        self.chemicals = tuple(chemicals)
        self.n = len(self.chemicals)
        self.ideal = ideal or self.n < 2
        self._gamma = None if self.ideal else thermo.Gamma(self.chemicals)
        self._psat = [c.Psat for c in self.chemicals]
        # Poynting factors from the package's own model object (1 for the default MockPoyintingCorrectionFactors)
        self._pcf = None if self.ideal else thermo.PCF(self.chemicals)
        self.has_pcf = self._pcf is not None and type(self._pcf).__name__ != 'MockPoyintingCorrectionFactors'

    # -- models ---------------------------------------------------------------
    def Psats(self, T):
        return np.array([float(f(T)) for f in self._psat], float)

    def pcf(self, T, P, Ps=None):
        if not self.has_pcf:
            return np.ones(self.n)
        Ps = self.Psats(T) if Ps is None else Ps
        try:
            with np.errstate(all='ignore'):
                f = np.ones(self.n) * np.asarray(self._pcf(float(T), float(P), np.array(Ps, float)), float)
        except Exception:
            return np.ones(self.n)
        # far outside the liquid range (bracket ends of the temperature solves) the liquid volume model is meaningless
        f = np.where(np.isfinite(f), f, 1.0)
        return np.clip(f, 1.0, 3.0)

    def gamma(self, x, T):
        if self._gamma is None:
            return np.ones(self.n)
        x = np.array(x, float)          # private copy: some models write into their argument
        x = x / x.sum()
        return np.array(self._gamma(x, float(T)), float)

    # -- envelope at fixed T --------------------------------------------------
    def bubble_P(self, z, T):
        z = np.asarray(z, float); z = z / z.sum()
        Ps = self.Psats(T)
        base = z * self.gamma(z, T) * Ps
        P = float(base.sum()); pp = base
        if self.has_pcf:
            for _ in range(200):            # the Poynting factor depends (weakly) on P: substitution on P
                pp = base * self.pcf(T, P, Ps)
                Pn = float(pp.sum())
                if abs(Pn - P) <= 1e-13 * Pn: P = Pn; break
                P = Pn
        return P, pp / P

    def dew_P(self, z, T, maxiter=2000):
        z = np.asarray(z, float); z = z / z.sum()
        Ps = self.Psats(T)
        x = z / Ps; x /= x.sum()
        P = None
        for _ in range(maxiter):
            g = self.gamma(x, T)
            if self.has_pcf and P is not None: g = g * self.pcf(T, P, Ps)
            w = z / (g * Ps)
            Pn = 1.0 / w.sum()
            xn = w * Pn
            done = P is not None and abs(Pn - P) <= 1e-13 * Pn and np.abs(xn - x).max() <= 1e-13
            x, P = xn, Pn
            if done or (self.ideal and not self.has_pcf):
                break
        return float(P), x

    # -- envelope at fixed P --------------------------------------------------
    def _solve_T(self, fP, P, z):
        f = lambda T: np.log(fP(z, T)[0] / P)
        lo, hi = T_LO, T_HI
        Tc = max(c.Tc for c in self.chemicals)
        hi = min(hi, Tc - 1e-3) if Tc else hi
        flo, fhi = f(lo), f(hi)
        if flo > 0 or fhi < 0:
            raise ValueError('pressure outside the reference envelope bracket')
        return float(brentq(f, lo, hi, xtol=1e-11, rtol=1e-14, maxiter=200))

    def bubble_T(self, z, P):
        return self._solve_T(self.bubble_P, P, z)

    def dew_T(self, z, P):
        return self._solve_T(self.dew_P, P, z)

    # -- Rachford-Rice --------------------------------------------------------
    @staticmethod
    def rachford_rice(z, K):
        """Root of sum z(K-1)/(1+V(K-1)) on the negative-flash window (may lie outside [0,1])."""
        Km1 = K - 1.0
        kmax, kmin = K.max(), K.min()
        if kmax <= 1.0 or kmin >= 1.0:
            return None
        lo = 1.0 / (1.0 - kmax); hi = 1.0 / (1.0 - kmin)
        w = hi - lo
        a = lo + 1e-13 * w; b = hi - 1e-13 * w
        f = lambda V: float((z * Km1 / (1.0 + V * Km1)).sum())
        fa, fb = f(a), f(b)
        if not (fa > 0 > fb):
            return None
        return float(brentq(f, a, b, xtol=1e-16, rtol=8.9e-16, maxiter=300))

    # -- isothermal flash -----------------------------------------------------
    def flash_TP(self, z, T, P, maxiter=5000):
        """Return dict(phase='l'|'g'|'lg', V, x, y, P_bub, P_dew, iters, converged)."""
        z = np.asarray(z, float); z = z / z.sum()
        if self.n == 1:
            Ps = float(self.Psats(T)[0])
            ph = 'l' if P > Ps else ('g' if P < Ps else 'lg')
            return dict(phase=ph, V=0.0 if ph == 'l' else 1.0, x=z, y=z, P_bub=Ps, P_dew=Ps,
                        iters=0, converged=True)
        P_bub, y_b = self.bubble_P(z, T)
        P_dew, x_d = self.dew_P(z, T)
        out = dict(P_bub=P_bub, P_dew=P_dew, iters=0, converged=True)
        if P >= P_bub:
            out.update(phase='l', V=0.0, x=z, y=y_b); return out
        if P <= P_dew:
            out.update(phase='g', V=1.0, x=x_d, y=z); return out
        Ps = self.Psats(T)
        theta = (P_bub - P) / (P_bub - P_dew)
        x = (1 - theta) * z + theta * x_d
        pc = self.pcf(T, P, Ps)
        lnK = np.log(self.gamma(x, T) * pc * Ps / P)
        V = theta
        ok = False
        for it in range(1, maxiter + 1):
            K = np.exp(lnK)
            Vn = self.rachford_rice(z, K)
            if Vn is None:
                break
            V = Vn
            x = z / (1.0 + V * (K - 1.0)); x = x / x.sum()
            lnKn = np.log(self.gamma(x, T) * pc * Ps / P)
            d = np.abs(lnKn - lnK).max()
            lnK = lnKn
            if d < LNK_TOL:
                ok = True
                break
        K = np.exp(lnK)
        Vf = self.rachford_rice(z, K)
        if Vf is None:
            ok = False
        else:
            V = Vf
        x = z / (1.0 + V * (K - 1.0))
        y = K * x
        out.update(phase='lg', V=float(V), x=x / x.sum(), y=y / y.sum(), K=K, iters=it, converged=ok)
        return out

    def V_at(self, z, T, P):
        r = self.flash_TP(z, T, P)
        return r['V'], r

    # -- helpers used to *construct* inputs -----------------------------------
    def T_window(self, z, P_lo, P_hi, T_lo, T_hi):
        """[T_a, T_b] inside [T_lo, T_hi] in which a two-phase pressure in [P_lo, P_hi] exists."""
        try: Ta = max(T_lo, self.bubble_T(z, P_lo))
        except ValueError: Ta = T_lo if self.bubble_P(z, T_lo)[0] >= P_lo else None
        try: Tb = min(T_hi, self.dew_T(z, P_hi))
        except ValueError: Tb = T_hi if self.dew_P(z, T_hi)[0] <= P_hi else None
        return Ta, Tb
