"""C15 helper: rebuild the pinned replay files replays/C15-F*.json from scripted draws (run: /venv/bin/python -m vlib.c15_mkreplay from /verif with NUMBA_DISABLE_JIT=1)."""
import sys, os, json
sys.path.insert(0, os.path.dirname(os.path.dirname(os.path.abspath(__file__))))
from vlib import runner
runner.setup_imports()
from vlib.runner import Chooser, Ctx, Violation, Reject, fresh_state
import importlib
mod = importlib.import_module('checks.c15_lle_sle')

class Script(Chooser):
    def __init__(self, ov):
        super().__init__(data=object()); self.ov = dict(ov); self.used=set()
    def _v(self, label, default):
        if label in self.ov: self.used.add(label); v = self.ov[label]
        else: v = default
        self.log.append([label, v]); return v
    def int(self, label, lo, hi): return self._v(label, lo)
    def bool(self, label, p=None): return self._v(label, False)
    def float(self, label, lo, hi): return self._v(label, lo)
    def logfloat(self, label, lo, hi): return self._v(label, 1.0 if lo <= 0 <= hi else 10.0**lo)
    def choice(self, label, seq): return self._v(label, list(seq)[0])
    def subset(self, label, seq, min_size=0, max_size=None): return self._v(label, list(seq)[:min_size])
    def permutation(self, label, n): return self._v(label, list(range(n)))

def make(check, ov, out, expect):
    ch = Script(ov)
    ctx = Ctx('C15','replay',0,0,1,[]); ctx.cur_name=check
    mod.setup(ctx); fresh_state()
    sig=None; msg=''
    try: mod.PROPS[check][0](ch, ctx)
    except Violation as v: sig, msg = v.sig, v.msg
    except Reject as r: sig='REJECT '+str(r)
    unused = set(ov)-ch.used
    print(out, '->', sig, '| unused overrides:', unused)
    print('   ', msg[:300])
    if sig is None:
        print('    (passes on this tree: finding repaired; file rewritten with the same draws)')
    else:
        assert sig == expect, (sig, expect)
    rec = {'property':'C15','check':check,'case':ch.log,'signature':sig,'oracle_message':msg,'seed':0,'tier':'pinned'}
    json.dump(rec, open(os.path.join(os.path.dirname(os.path.dirname(os.path.abspath(__file__))), out),'w'), indent=1)

if __name__ == '__main__':
    # F1: equimolar water/butanol at 298.15 K: activities of the two liquids differ
    make('lle_fresh', {'organic':'Butanol','kind':'M','T':298.15,'feed.f0':1.0,'feed.f1':1.0}, 'replays/C15-F1.json',
         'C15|lle.isoactivity|method=pseudo|mismatch')
    # F1 (history form): water/butanol 1:1 at 340->... a call at 350 K then the same material at 300 K with other composition
    make('lle_history', {'organic':'Hexanol','kind':'M','T':300.0,'feed.f0':1.0,'feed.f1':1.0,'boundary':1,'nh':1,
                         'h0.comp':'other','h0.f0':3.0,'h0.f1':1.0,'h0.T':'higher','h0.dT':40.0,'h0.use_cache':False},
         'replays/regress/C15-F1-history.json', 'C15|lle.history|cache=0,mem=K,dT=lower,dz=diff|mismatch')
    # F2: 1 water : 9 ethyl acetate, one liquid at 320 K, same material at 290 K
    make('lle_history', {'organic':'EthylAcetate','kind':'M','T':290.0,'feed.f0':1.0,'feed.f1':9.0,'boundary':1,'nh':1,
                         'h0.comp':'same','h0.T':'higher','h0.dT':30.0,'h0.use_cache':True},
         'replays/C15-F2.json', 'C15|lle.cache|mem=none,dT=lower,dz=same|mismatch')
    # F3: equimolar water/butanol at 340 K
    make('lle_call', {'organic':'Butanol','kind':'M','T':340.0,'feed.f0':1.0,'feed.f1':1.0}, 'replays/C15-F3.json',
         'C15|lle.call|method=pseudo,hist=0|exc:FloatingPointError@activity_coefficients.group_activity_coefficients')
    # F4: given solubility on a fresh solver
    make('sle_fresh', {'solute':'Glucose','solvents':['Water'],'second_solute':None,'ideal':1,'pure':1,'feed.solute':1.0,
                       'feed.solute.liqfrac':1.0,'feed.f1':10.0,'kind':'M','T0':298.15,'call.spec':'T','call.T':298.15,
                       'call.given':0,'call.x.special':None,'call.x':0.0833},
         'replays/C15-F4.json', 'C15|sle.call|spec=T,sol=given,hist=0|exc:AttributeError@sle.__call__')
    # F5: tetradecanol alone at 300 K, then in methanol
    make('sle_history', {'solute':'Tetradecanol','solvents':['Methanol'],'second_solute':None,'ideal':1,'T0':300.0,
                         'feed.solute':30.0,'feed.solute.liqfrac':1.0,'feed.f1':10.0,'nh':1,'h0.op':'pure','h0.spec':'T','h0.T':300.0,
                         'final.newcomp':False,'final.spec':'T','final.T':300.0,'final.given':1},
         'replays/C15-F5.json', 'C15|sle.history|spec=T,sol=computed,hist=pure|mismatch')
    # F6: computed, given, computed
    make('sle_history', {'solute':'Tetradecanol','solvents':['Methanol','Water'],'second_solute':None,'ideal':1,'T0':300.0,
                         'n_solvents':2,'order':[2,0,1],
                         'feed.solute':30.0,'feed.solute.liqfrac':1.0,'feed.f2':10.0,'feed.zero0':0,'nh':2,
                         'h0.op':'call','h0.spec':'T','h0.T':300.0,'h1.op':'given','h1.spec':'T','h1.T':300.0,'h1.x':0.1,
                         'final.newcomp':False,'final.spec':'T','final.T':290.0,'final.given':1},
         'replays/C15-F6.json', 'C15|sle.history|spec=T,sol=computed,hist=given|mismatch')
    # F7: lactic acid first, then tetradecanol on the same mixture
    make('sle_history', {'solute':'Tetradecanol','solvents':['Methanol'],'second_solute':'LacticAcid','ideal':1,'T0':300.0,
                         'feed.solute':30.0,'feed.solute.liqfrac':1.0,'feed.f1':10.0,'feed.second.absent':False,'feed.second':5.0,
                         'feed.second.liqfrac':1.0,'nh':1,'h0.op':'osol','h0.spec':'T','h0.T':285.0,
                         'final.newcomp':False,'final.spec':'T','final.T':285.0,'final.given':1},
         'replays/C15-F7.json', 'C15|sle.solubility|spec=T,sol=computed,hist=osol,nonideal=1|exceeds')
    # F8: glucose/acetone 1:1 at 375 K
    make('sle_fresh', {'solute':'Glucose','solvents':['Acetone'],'second_solute':None,'ideal':1,'pure':1,'feed.solute':1.0,
                       'feed.solute.liqfrac':0.0,'feed.f1':1.0,'kind':'M','T0':298.15,'call.spec':'T','call.T':375.0,'call.given':1},
         'replays/C15-F8.json', 'C15|sle.solubility|spec=T,sol=computed,hist=0,nonideal=1|exceeds')
    # F9: shgo on water/pentanol
    make('lle_global', {'organic':'Pentanol','kind':'M','T':296.7,'feed.f0':2.188,'feed.f1':2.687,'method':'shgo'}, 'replays/C15-F9.json',
         'C15|lle.isoactivity|method=shgo|mismatch')
    # F10: dodecanol (Hfus 40 kJ/mol) 0.1 mol in 0.048 mol ethanol/acetone, H of the mixture at 259 K
    make('sle_fresh', {'solute':'Dodecanol','n_solvents':2,'solvents':['Ethanol','Acetone'],'second_solute':None,'ideal':1,'pure':1,
                       'feed.solute':0.1,'feed.solute.liqfrac':0.9,'feed.f1':0.010000000000000005,'feed.zero2':4,'feed.f2':0.038025628661186354,'kind':'S',
                       'T0':364.339609284393,'P':500000.0,'call.spec':'H','call.T':259.01922299332716,'call.given':1},
         'replays/C15-F10.json', 'C15|sle.solubility|spec=H,sol=computed,hist=0,nonideal=0|exceeds')
