"""Shared helpers for C05 / C17 (reactions).

* a CHO(N) chemical universe with several property packages (different orders / subsets),
* exactly balanced stoichiometries: rational null-space combinations (``fractions.Fraction``) of the
  hard-coded formula matrix restricted to a drawn subset of chemicals,
* builders that turn a drawn reaction *spec* into real ``thermosteam`` objects (dict / string / list
  definitions, mol / wt bases, phase-less / phase-tagged, Reaction / Parallel / Series / System),
* a NumPy reference implementation of the reaction semantics,
* feed / target construction and the shared "apply and compare" oracle with the two-way
  InfeasibleRegion clause.

Nothing here reads the stoichiometry, formula arrays or balance helpers of the code under test:
the atom table below is hard-coded and only *verified* against the package data in ``verify_universe``.
"""
from __future__ import annotations

from fractions import Fraction
from math import gcd

import numpy as np
import thermosteam as tmo
from thermosteam.exceptions import InfeasibleRegion

from . import chem
from .runner import HarnessError

ELEMENTS = ('C', 'H', 'O', 'N')
ATOMS = {
    'Glucose': (6, 12, 6, 0), 'Ethanol': (2, 6, 1, 0), 'CO2': (1, 0, 2, 0), 'Water': (0, 2, 1, 0),
    'O2': (0, 0, 2, 0), 'H2': (0, 2, 0, 0), 'CH4': (1, 4, 0, 0), 'Methanol': (1, 4, 1, 0),
    'AceticAcid': (2, 4, 2, 0), 'LacticAcid': (3, 6, 3, 0), 'Glycerol': (3, 8, 3, 0), 'NH3': (0, 3, 0, 1),
    'N2': (0, 0, 0, 2), 'Ethylene': (2, 4, 0, 0), 'Acetone': (3, 6, 1, 0),
}
NAMES = tuple(ATOMS)

PACKAGES = {
    'U': NAMES,
    'V': ('Acetone', 'N2', 'Water', 'Glycerol', 'CO2', 'NH3', 'Glucose', 'H2', 'Ethylene', 'O2', 'LacticAcid',
          'Ethanol', 'Methanol', 'CH4', 'AceticAcid'),
    'W': ('Water', 'CO2', 'Ethanol', 'Glucose', 'O2', 'AceticAcid', 'H2', 'LacticAcid', 'CH4'),
    'X': ('O2', 'Glycerol', 'Methanol', 'Water', 'CO2', 'H2', 'Acetone', 'Ethylene'),
    'Y': ('NH3', 'N2', 'H2', 'O2', 'Water', 'CH4', 'CO2'),
}
PHASES = ('g', 'l', 's', 'L', 'S')

_verified = set()


def thermo(pid):
    th = chem.thermo_of(PACKAGES[pid])
    if pid not in _verified:
        verify_universe(th, PACKAGES[pid])
        _verified.add(pid)
    return th


def verify_universe(th, names):
    """The hard-coded atom table must describe the package's chemicals (else the oracle is void)."""
    for name, c in zip(names, th.chemicals):
        if c.ID != name:
            raise HarnessError(f'package order changed: {c.ID} != {name}')
        want = {e: n for e, n in zip(ELEMENTS, ATOMS[name]) if n}
        if dict(c.atoms) != want:
            raise HarnessError(f'atom table mismatch for {name}: {c.atoms} vs {want}')


def mw(pid):
    return np.array(thermo(pid).chemicals.MW, float)


def atom_matrix(names):
    """elements x chemicals integer matrix (NumPy, for conservation residuals)."""
    return np.array([[ATOMS[n][e] for n in names] for e in range(len(ELEMENTS))], float)


# ---------------------------------------------------------------------------
# exact null space
# ---------------------------------------------------------------------------

def nullspace(rows):
    """Basis of {x : rows @ x = 0} in exact rational arithmetic; every vector is returned with
    coprime integer entries."""
    m = [[Fraction(v) for v in r] for r in rows]
    ncol = len(m[0]) if m else 0
    pivots = []
    r = 0
    for c in range(ncol):
        piv = None
        for i in range(r, len(m)):
            if m[i][c] != 0:
                piv = i; break
        if piv is None:
            continue
        m[r], m[piv] = m[piv], m[r]
        pv = m[r][c]
        m[r] = [v / pv for v in m[r]]
        for i in range(len(m)):
            if i != r and m[i][c] != 0:
                f = m[i][c]
                m[i] = [a - f * b for a, b in zip(m[i], m[r])]
        pivots.append(c)
        r += 1
        if r == len(m):
            break
    free = [c for c in range(ncol) if c not in pivots]
    basis = []
    for fc in free:
        x = [Fraction(0)] * ncol
        x[fc] = Fraction(1)
        for i, pc in enumerate(pivots):
            x[pc] = -m[i][fc]
        den = 1
        for v in x:
            den = den * v.denominator // gcd(den, v.denominator)
        xi = [int(v * den) for v in x]
        g = 0
        for v in xi:
            g = gcd(g, abs(v))
        basis.append([Fraction(v // g) for v in xi])
    return basis


def _basis_for(names):
    rows = [[ATOMS[n][e] for n in names] for e in range(len(ELEMENTS))]
    return nullspace(rows)


def draw_stoich(ch, tag, pkg_names, reactant=None, kmax=6):
    """Draw an exactly balanced stoichiometry {name: Fraction != 0} over ``pkg_names``.

    A subset of 2..kmax chemicals is drawn and, when no balanced reaction exists on it (or none that
    involves the requested reactant), extended along a drawn order until one does.  The result is an
    integer combination of the null-space basis divided by a drawn small integer, so coefficients such as
    1/3 or 7/4 occur."""
    n = len(pkg_names)
    sub = ch.subset(f'{tag}.subset', list(range(n)), min_size=2, max_size=min(kmax, n))
    if reactant is not None:
        ri = pkg_names.index(reactant)
        if ri not in sub:
            sub = [ri] + sub
    order = None
    while True:
        names = [pkg_names[i] for i in sub]
        basis = _basis_for(names)
        if reactant is not None:
            k = names.index(reactant)
            ok = any(b[k] != 0 for b in basis)
        else:
            ok = bool(basis)
        if ok:
            break
        if order is None:
            order = ch.permutation(f'{tag}.extend', n)
        rest = [i for i in order if i not in sub]
        if not rest:
            raise HarnessError(f'no balanced reaction for {reactant} in {pkg_names}')
        sub = sub + [rest[0]]
    coefs = [ch.int(f'{tag}.c{j}', -3, 3) for j in range(len(basis))]
    if not any(coefs):
        coefs[0] = 1
    nu = [sum((c * b[i] for c, b in zip(coefs, basis)), Fraction(0)) for i in range(len(names))]
    if reactant is not None and nu[k] == 0:
        for b in basis:
            if b[k] != 0:
                nu = [a + v for a, v in zip(nu, b)]
                if nu[k] == 0:
                    nu = [a + v for a, v in zip(nu, b)]
                break
    den = ch.choice(f'{tag}.den', [1, 1, 1, 2, 3, 4, 7])
    return {nm: v / den for nm, v in zip(names, nu) if v != 0}


def is_balanced(nu):
    """Exact check (Fractions) that a {name: Fraction} stoichiometry conserves every element."""
    return all(sum(ATOMS[n][e] * v for n, v in nu.items()) == 0 for e in range(len(ELEMENTS)))


def draw_X(ch, tag, lo=0.0, hi=1.0, specials=(0.0, 1.0, 0.5, None, None, None)):
    x = ch.choice(f'{tag}.X.special', [s for s in specials if s is None or lo <= s <= hi] or [None])
    if x is None:
        x = ch.float(f'{tag}.X', lo, hi)
    return float(x)


def draw_phase_map(ch, tag, pkg_names):
    """A phase set (1..3 of the five labels) and one phase per chemical of the package."""
    phases = ch.subset(f'{tag}.phases', list(PHASES), min_size=1, max_size=3)
    phases = sorted(set(phases))
    pm = {nm: phases[ch.int(f'{tag}.ph.{nm}', 0, len(phases) - 1)] for nm in pkg_names}
    return tuple(phases), pm


# ---------------------------------------------------------------------------
# reaction specs -> reference arrays
# ---------------------------------------------------------------------------

class RSpec:
    """One reaction: exact stoichiometry, reactant, conversion, optional phase map."""

    def __init__(self, nu, reactant, X, phase_of=None):
        self.nu = dict(nu)
        self.reactant = reactant
        self.X = float(X)
        self.phase_of = phase_of    # {name: phase} for participants, or None

    @property
    def participants(self):
        return list(self.nu)

    def normalized(self):
        s = -self.nu[self.reactant]
        return {n: v / s for n, v in self.nu.items()}

    def summary(self):
        return [sorted(self.nu), self.reactant, 0 if self.X == 0 else (1 if self.X == 1 else 2),
                sorted(self.phase_of.items()) if self.phase_of else None]


def ref_stoich(spec, pkg_names, basis, MW, phases=()):
    """Normalised dense stoichiometry (reactant coefficient -1) in the given basis, from the exact
    fractions: 1-d over the package, or phases x chemicals when ``phases``.  Returns (array, index)."""
    nn = spec.normalized()
    N = len(pkg_names)
    ri = pkg_names.index(spec.reactant)
    if phases:
        a = np.zeros((len(phases), N))
        for nm, v in nn.items():
            j = pkg_names.index(nm)
            a[phases.index(spec.phase_of[nm]), j] = float(v) if basis == 'mol' else float(v) * MW[j] / MW[ri]
        return a, (phases.index(spec.phase_of[spec.reactant]), ri)
    a = np.zeros(N)
    for nm, v in nn.items():
        j = pkg_names.index(nm)
        a[j] = float(v) if basis == 'mol' else float(v) * MW[j] / MW[ri]
    return a, ri


class RefRxn:
    """Reference node: kind in {'rxn','par','ser','sys'}."""

    def __init__(self, kind, items=None, nu=None, idx=None, X=None):
        self.kind = kind
        self.items = items or []
        self.nu = nu
        self.idx = idx
        self.X = X

    def apply(self, m):
        """Return the reacted copy of the dense array ``m`` (no feasibility handling)."""
        m = np.array(m, float)
        if self.kind == 'rxn':
            return m + m[self.idx] * self.X * self.nu
        if self.kind == 'par':
            ext = [it.X * m[it.idx] for it in self.items]      # all extents from the feed
            out = m.copy()
            for e, it in zip(ext, self.items):
                out = out + e * it.nu
            return out
        if self.kind == 'ser':
            for it in self.items:                                # running composition
                m = m + m[it.idx] * it.X * it.nu
            return m
        if self.kind == 'sys':
            for it in self.items:
                m = it.apply(m)
            return m
        raise HarnessError(self.kind)

    def apply_mag(self, m, mag=None):
        """Like ``apply`` but also returns, per entry, the sum of the magnitudes of all terms that were
        added (feed included): the natural scale of that entry's round-off."""
        m = np.array(m, float)
        mag = np.abs(m) if mag is None else mag
        if self.kind == 'rxn':
            d = m[self.idx] * self.X * self.nu
            return m + d, mag + np.abs(d)
        if self.kind == 'par':
            ext = [it.X * m[it.idx] for it in self.items]
            out = m.copy()
            for e, it in zip(ext, self.items):
                out = out + e * it.nu
                mag = mag + np.abs(e * it.nu)
            return out, mag
        if self.kind == 'ser':
            for it in self.items:
                d = m[it.idx] * it.X * it.nu
                m = m + d
                mag = mag + np.abs(d)
            return m, mag
        for it in self.items:
            m, mag = it.apply_mag(m, mag)
        return m, mag

    def leaves(self):
        if self.kind == 'rxn':
            return [self]
        out = []
        for it in self.items:
            out.extend(it.leaves())
        return out


def ref_of(spec, pkg_names, basis, MW, phases=()):
    nu, idx = ref_stoich(spec, pkg_names, basis, MW, phases)
    return RefRxn('rxn', nu=nu, idx=idx, X=spec.X)


# ---------------------------------------------------------------------------
# building the real objects
# ---------------------------------------------------------------------------

def _fmt_coef(ch, tag, v):
    """Text of a positive coefficient: repr of the float; integers optionally as '2' or '2.0';
    1 optionally omitted."""
    f = float(v)
    if f == 1.0:
        style = ch.choice(f'{tag}.one', ['', '', '1', '1.0'])
        return style
    if f == int(f):
        return str(int(f)) if ch.bool(f'{tag}.int') else repr(f)
    return repr(f)


def definition(ch, tag, spec, pkg_names, form, basis_coeffs, MW, phases=(), scale=Fraction(1)):
    """Build the ``reaction`` argument.  ``basis_coeffs`` 'mol' gives molar coefficients, 'wt' gives
    weight coefficients (nu_i * MW_i).  Coefficients are *not* normalised (scaled by ``scale``)."""
    def coef(nm):
        v = float(spec.nu[nm] * scale)
        if basis_coeffs == 'wt':
            v = v * MW[pkg_names.index(nm)]
        return v
    parts = spec.participants
    if form == 'dict':
        if phases:
            return {nm: (spec.phase_of[nm], coef(nm)) for nm in parts}
        d = {nm: coef(nm) for nm in parts}
        if ch.bool(f'{tag}.dict.zero'):
            extra = [n for n in pkg_names if n not in d]
            if extra:
                d[extra[0]] = 0.0           # zero entries are documented to be ignored
        return d
    if form == 'list':
        if phases:
            a = np.zeros((len(phases), len(pkg_names)))
            for nm in parts:
                a[phases.index(spec.phase_of[nm]), pkg_names.index(nm)] = coef(nm)
            return a.tolist()
        a = np.zeros(len(pkg_names))
        for nm in parts:
            a[pkg_names.index(nm)] = coef(nm)
        return a.tolist()
    if form == 'str':
        rot = ch.int(f'{tag}.str.rot', 0, len(parts) - 1)
        parts = parts[rot:] + parts[:rot]
        sp_plus = ch.choice(f'{tag}.str.plus', [' + ', '+', ' +', '+ '])
        sp_arrow = ch.choice(f'{tag}.str.arrow', [' -> ', '->'])
        left, right = [], []
        for nm in parts:
            c = coef(nm)
            txt = _fmt_coef(ch, f'{tag}.str.{nm}', abs(c))
            sep = ' ' if (txt and ch.bool(f'{tag}.str.{nm}.sp')) else ''
            term = txt + sep + nm + ((',' + spec.phase_of[nm]) if phases else '')
            (left if c < 0 else right).append(term)
        return sp_plus.join(left) + sp_arrow + sp_plus.join(right)
    raise HarnessError(form)


BASIS_MODES = ('mol', 'wt_copy', 'wt_coeff', 'wt_setter', 'mol_from_wt')


def build_reaction(ch, tag, spec, pid, form, basis_mode, phases=(), pass_phases=False, ctx=None,
                   site='build', region='any'):
    """Real ``Reaction`` for ``spec`` on package ``pid``.  Returns (reaction, basis)."""
    th = thermo(pid)
    names = list(PACKAGES[pid])
    MW = mw(pid)
    scale = Fraction(ch.choice(f'{tag}.scale', [1, 1, 2, 3, 5])) / ch.choice(f'{tag}.scale.den', [1, 1, 2, 3])
    kw = {}
    if phases and (pass_phases or form == 'list'):
        kw['phases'] = ''.join(phases) if ch.bool(f'{tag}.phases.str') else tuple(phases)
    reactant = spec.reactant
    give_reactant = True
    neg = [n for n, v in spec.nu.items() if v < 0]
    if len(neg) == 1 and neg[0] == reactant and form != 'list':
        give_reactant = ch.bool(f'{tag}.give_reactant')   # documented default: the only reactant
    def make(coefs, basis):
        d = definition(ch, tag, spec, names, form, coefs, MW, phases, scale)
        X = spec.X
        if getattr(spec, 'x_as_int', False) and X == int(X):
            X = int(X)                # users (and the doctests) write X=1 / X=0
        args = dict(X=X, chemicals=th.chemicals, basis=basis, **kw)
        if give_reactant:
            args['reactant'] = reactant
        return tmo.Reaction(d, **args)
    call = ctx.call if ctx is not None else (lambda s, f, *a, **k: f(*a))
    if basis_mode == 'mol':
        return call(site, make, 'mol', 'mol', region=region), 'mol'
    if basis_mode == 'wt_coeff':
        return call(site, make, 'wt', 'wt', region=region), 'wt'
    if basis_mode == 'wt_copy':
        r = call(site, make, 'mol', 'mol', region=region)
        return call(site + '.copy_wt', lambda: r.copy(basis='wt'), region=region), 'wt'
    if basis_mode == 'wt_setter':
        r = call(site, make, 'mol', 'mol', region=region)
        def f():
            r.basis = 'wt'
            return r
        return call(site + '.set_wt', f, region=region), 'wt'
    if basis_mode == 'mol_from_wt':
        r = call(site, make, 'wt', 'wt', region=region)
        return call(site + '.copy_mol', lambda: r.copy(basis='mol'), region=region), 'mol'
    raise HarnessError(basis_mode)


# ---------------------------------------------------------------------------
# feeds and targets
# ---------------------------------------------------------------------------

_SPECIAL_FLOWS = (1.0, 2.0, 0.5, 10.0)


def _flow_of(code, lo_exp, hi_exp):
    """Integer code -> flow: 0..20 -> 0 (one third), 21..24 -> round numbers, 25..63 -> 10**u on a grid
    of 39 exponents spanning [lo_exp, hi_exp] (non-round binary fractions)."""
    if code <= 20:
        return 0.0
    if code <= 24:
        return _SPECIAL_FLOWS[code - 21]
    return 10.0 ** (lo_exp + (hi_exp - lo_exp) * (code - 25) / 38.0)


def draw_feed(ch, tag, n, nrows, lo_exp=-3, hi_exp=3):
    """Feed rows: every entry 0 (p = 1/3) or positive, spanning [10**lo_exp, 10**hi_exp]; whole rows of a
    multi-phase feed are empty one time in six.  Drawn as integer codes (cheap to generate and to shrink)."""
    from hypothesis import strategies as st
    rows = []
    for r in range(nrows):
        if nrows > 1 and ch.int(f'{tag}.row{r}.empty', 0, 5) == 0:
            rows.append([0.0] * n)
        else:
            codes = ch.draw(f'{tag}.row{r}', st.lists(st.integers(0, 63), min_size=n, max_size=n))
            rows.append([_flow_of(c, lo_exp, hi_exp) for c in codes])
    return np.array(rows, float)


def make_ample(feed, ref, factor=2.0, both=False):
    """Raise the flows of consumed co-reactants (``both``: of every participant) so that the reference
    result is clearly feasible."""
    feed = feed.copy()
    tot = feed.sum() + 1.0
    for lf in ref.leaves():
        need = (np.abs(lf.nu) if both else np.where(lf.nu < 0, -lf.nu, 0.0)) * tot * factor
        if feed.ndim == 2 and lf.nu.ndim == 1:
            feed = feed + need[None, :]
        else:
            feed = feed + need
    return feed


def snapshot(x):
    return np.array(x, float).tobytes()


def dense_of(target):
    """Dense NumPy image of a target after the call."""
    if isinstance(target, np.ndarray):
        return np.array(target, float)
    if isinstance(target, tmo.Stream):
        return np.array(target.imol.data.to_array(), float)
    return np.array(target.to_array(), float)


# ---------------------------------------------------------------------------
# applying a real reaction object to a target and judging the outcome
# ---------------------------------------------------------------------------

TARGETS_1D = ('nd', 'sv', 'S', 'S', 'mol', 'mass')
TARGETS_2D = ('nd', 'sv', 'S', 'S', 'mol', 'mass')


def map_feed(feed, pnames, qnames):
    """Re-order a feed over the reaction package P to the stream package Q (zeros elsewhere)."""
    feed = np.atleast_2d(feed)
    out = np.zeros((feed.shape[0], len(qnames)))
    for j, nm in enumerate(qnames):
        if nm in pnames:
            out[:, j] = feed[:, pnames.index(nm)]
    return out


def build_stream(qid, rows, phases, T=300., P=101325.):
    from . import streams as vs
    th = thermo(qid)
    kind = 'M' if len(rows) > 1 or phases.__class__ is tuple else 'S'
    spec = {'kind': kind, 'pkg': th, 'phases': list(phases), 'flows': [list(map(float, r)) for r in rows], 'T': T, 'P': P}
    return vs.build(spec)


def apply_and_judge(ctx, site, region, rxn, ref, basis, pid, feed, tgt, phases=(), qid=None,
                    stream_phase='l', T=300., P=101325., rtol=1e-12, check_conservation=True, coef_tol=0.0,
                    repeat=1, touch_mass=False):
    """Apply the real object ``rxn`` (defined on package ``pid``, reference model ``ref`` in ``basis``)
    to a fresh target holding ``feed`` (dense, P order; 1-d for phase-less reactions, phases x N
    otherwise) and compare with the NumPy reference.  Returns the outcome dict of the first application.

    ``repeat`` > 1 applies the object again to the SAME target (site ``<site>.again``), the reference being
    applied to the previous reference result; ``touch_mass`` reads the stream's mass view before the first call
    (both must not matter)."""
    from thermosteam.base import SparseVector, SparseArray
    pnames = list(PACKAGES[pid])
    qid = qid or pid
    qnames = list(PACKAGES[qid])
    feed = np.array(feed, float)
    two_d = bool(phases)
    stream = None
    if tgt == 'nd':
        target = feed.copy()
        units = 'array'
    elif tgt == 'sv':
        target = SparseArray(feed.copy()) if two_d else SparseVector(feed.copy())
        units = 'array'
    else:
        rows = map_feed(feed, pnames, qnames)
        stream = build_stream(qid, rows, tuple(phases) if two_d else [stream_phase], T, P)
        if tgt == 'S':
            target = stream; units = 'stream'
        elif tgt == 'mol':
            target = stream.imol.data; units = 'array'
        elif tgt == 'mass':
            target = stream.imass.data; units = 'array'
        else:
            raise HarnessError(tgt)
        if tgt != 'S' and qid != pid:
            raise HarnessError('array views of a stream need the reaction package')
    if touch_mass and stream is not None:
        stream.imass.data.to_array(); stream.mass      # creates / caches the mass view
    first = None
    cur = feed
    for it in range(max(1, repeat)):
        out = _react_once(ctx, site if it == 0 else site + '.again', region, rxn, ref, basis, pid, qid, cur, tgt, phases,
                          target, stream, units, T, P, rtol, check_conservation, coef_tol, again=it > 0)
        first = first or out
        if out['raised']:
            break                 # a mol-basis target keeps the infeasible flows: nothing more to compare
        nxt = np.where(out['cmp_out'] < 0, 0.0, out['cmp_out'])
        cur = nxt / mw(qid) if tgt == 'mass' else nxt
    return first


def _react_once(ctx, site, region, rxn, ref, basis, pid, qid, feed, tgt, phases, target, stream, units, T, P, rtol,
                check_conservation, coef_tol, again=False):
    pnames = list(PACKAGES[pid])
    qnames = list(PACKAGES[qid])
    MWp = mw(pid)
    two_d = bool(phases)
    # ---- reference --------------------------------------------------------
    if units == 'stream':
        mol_in = feed
        if basis == 'wt':
            feas_in = mol_in * MWp
            feas_out, mag = ref.apply_mag(feas_in)
            cmp_out = feas_out / MWp
        else:
            feas_in = mol_in
            feas_out, mag = ref.apply_mag(mol_in)
            cmp_out = feas_out
        cmp_in = mol_in
    else:
        if tgt == 'mass':
            feas_in = feed * mw(qid)          # the array that is reacted holds mass flows
        else:
            feas_in = feed
        feas_out, mag = ref.apply_mag(feas_in)
        cmp_in, cmp_out = feas_in, feas_out
    scale_feas = max(1.0, float(np.abs(feas_in).sum()), float(np.abs(feas_out).sum()))
    scale = max(1.0, float(np.abs(cmp_in).sum()), float(np.abs(cmp_out).sum()))
    if stream is not None:
        chem_before = stream.chemicals
        fmass_before = float(stream.F_mass)
    # ---- call -------------------------------------------------------------
    raised = False
    try:
        ctx.call(site, rxn, target, allowed=(InfeasibleRegion,), region=region)
    except InfeasibleRegion:
        raised = True
    # ---- judge ------------------------------------------------------------
    # The code raises iff the sum of its negative entries is < -1e-12.  Entries the reference leaves
    # untouched are exact; a changed entry may differ from the reference by round-off, at most ~45 ulp of
    # the summed magnitudes of the terms that formed it (delta), so the sum seen by the code lies in
    # [s_lo, s_hi] and only outcomes outside that interval are judged.
    neg = float(feas_out[feas_out < 0].sum()) if (feas_out < 0).any() else 0.0
    # (an entry counts as touched when any term was added to it, also if the terms cancel exactly in the reference -
    # e.g. a series whose second member undoes an intermediate negative flow of the first)
    delta = np.where(mag > np.abs(feas_in), 1e-14 * mag, 0.0)
    if coef_tol:
        # the reaction object itself is only known up to ``coef_tol`` per stoichiometric coefficient (results of
        # cancelling arithmetic such as (a+b)-b): any entry may be off by coef_tol * (amount of reactant converted)
        delta = delta + coef_tol * sum(abs(lf.X * feas_in[lf.idx]) for lf in ref.leaves())
    if again:
        # the target holds the code's own previous result, the reference continues from the reference result:
        # every entry may start off by round-off of the first pass
        delta = delta + 1e-14 * scale_feas
    s_lo = float(np.minimum(feas_out - delta, 0.0).sum())
    s_hi = float(np.minimum(feas_out + delta, 0.0).sum())
    out = {'raised': raised, 'feas_out': feas_out, 'cmp_out': cmp_out, 'cmp_in': cmp_in, 'stream': stream}
    if raised:
        ctx.cell('outcome:InfeasibleRegion')
        if s_lo >= -1e-12:
            ctx.fail(f'{site}|{region}|spurious-InfeasibleRegion',
                     f'InfeasibleRegion raised but the reference result has no negative flow (min entry {float(feas_out.min())!r})')
        return out
    if s_hi < -1e-12:
        ctx.fail(f'{site}|{region}|negative-accepted',
                 f'reference result has negative flows (sum {neg!r}) but the call returned normally')
    if neg < 0:
        ctx.cell('outcome:roundoff-negative-zeroed')
    ctx.cell('outcome:returned')
    if stream is not None and tgt == 'S':
        if stream.chemicals is not chem_before or stream.imol.chemicals is not chem_before:
            ctx.fail(f'{site}|{region}|chemicals-not-restored', 'stream is left on another chemicals object')
        got_q = np.array(stream.imol.data.to_array(), float)
        got_q = got_q.reshape(1, -1) if got_q.ndim == 1 else got_q
        if got_q.shape != (feed.shape[0] if two_d else 1, len(qnames)):
            ctx.fail(f'{site}|{region}|shape', f'flow data has shape {got_q.shape} on a package of {len(qnames)} chemicals')
        want_q = map_feed(np.where(cmp_out < 0, 0.0, cmp_out), pnames, qnames)
        got, want = got_q, want_q
    else:
        got = dense_of(target)
        want = np.where(cmp_out < 0, 0.0, cmp_out)
        if got.shape != want.shape:
            ctx.fail(f'{site}|{region}|shape', f'{got.shape} vs {want.shape}')
    err = float(np.abs(got - want).max()) if got.size else 0.0
    if not err <= rtol * scale + 2e-12:     # round-off negatives down to -1e-12 in total are zeroed by design
        k = int(np.abs(got - want).argmax())
        ctx.fail(f'{site}|{region}|mismatch',
                 f'max |got-ref| = {err!r} at flat index {k}: got {got.ravel()[k]!r} want {want.ravel()[k]!r} (scale {scale!r})')
    ctx.metric_max(f'flows:rel_err(rtol={rtol:g})', err / scale)
    if (got < 0).any() or np.isnan(got).any():
        ctx.fail(f'{site}|{region}|negative', f'negative/NaN entry {got.min()!r} after a normal return')
    out['got'] = got
    # ---- conservation of mass and of every element --------------------------
    if check_conservation:
        names = qnames if (stream is not None and tgt == 'S') else pnames
        MW = mw(qid) if names is qnames else MWp
        A = atom_matrix(names)
        g = np.atleast_2d(got).sum(axis=0)
        f0 = (map_feed(feed, pnames, qnames) if names is qnames else np.atleast_2d(cmp_in)).sum(axis=0)
        if units == 'array':
            f0 = np.atleast_2d(cmp_in).sum(axis=0)
        if units == 'array' and basis == 'wt':
            # a weight-basis reaction treats the entries as masses
            n_out, n_in = g / MW, f0 / MW
            m_out, m_in = float(g.sum()), float(f0.sum())
        else:
            n_out, n_in = g, f0
            m_out, m_in = float(MW @ g), float(MW @ f0)
        if n_out is not None:
            ea, eb = A @ n_out, A @ n_in
            sc = max(1.0, float((A @ np.abs(n_in)).max()), float((A @ np.abs(n_out)).max()))
            r = float(np.abs(ea - eb).max()) / sc
            if not r <= 1e-9:
                e = ELEMENTS[int(np.abs(ea - eb).argmax())]
                ctx.fail(f'{site}|{region}|atoms', f'element {e}: {eb.tolist()} -> {ea.tolist()}')
            ctx.metric_max('atoms:rel_err', r)
            r = abs(m_out - m_in) / max(1.0, abs(m_in))
            if not r <= 1e-9:
                ctx.fail(f'{site}|{region}|mass', f'total mass {m_in!r} -> {m_out!r}')
            ctx.metric_max('mass:rel_err', r)
    if stream is not None and tgt == 'S':
        fm = float(stream.F_mass)
        r = abs(fm - fmass_before) / max(1.0, abs(fmass_before))
        if not r <= 1e-9:
            ctx.fail(f'{site}|{region}|F_mass', f'Stream.F_mass {fmass_before!r} -> {fm!r}')
        ctx.metric_max('F_mass:rel_err', r)
        if stream.T != T or stream.P != P:
            ctx.fail(f'{site}|{region}|thermal', 'T or P changed by an isothermal reaction call')
        # the mass view of the stream describes the same material as its molar flows
        mv = np.atleast_2d(np.array(stream.imass.data.to_array(), float))
        mq = np.atleast_2d(got) * mw(qid)
        if mv.shape != mq.shape or not np.abs(mv - mq).max() <= 1e-9 * max(1.0, float(np.abs(mq).sum())):
            ctx.fail(f'{site}|{region}|mass-view', f'stream.imass {mv.tolist()} does not describe stream.imol * MW {mq.tolist()}')
    return out
