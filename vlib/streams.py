"""Stream construction from drawn values and a dense, CAS-keyed reference view."""
from __future__ import annotations

import numpy as np
import thermosteam as tmo
from . import chem

ALL_PHASES = ('s', 'l', 'g', 'S', 'L')


def draw_spec(ch, tag, pkg_ids, kinds=('S', 'M'), phases=ALL_PHASES, T=(250., 500.), P=(1e4, 1e7),
              lo_exp=-3, hi_exp=3, allow_empty=True, min_phases=1, max_phases=None):
    """Draw the description of a stream (JSON-able dict)."""
    kind = ch.choice(f'{tag}.kind', list(kinds))
    pkg = ch.choice(f'{tag}.pkg', list(pkg_ids))
    n = len(chem.PACKAGES[pkg])
    spec = {'kind': kind, 'pkg': pkg,
            'T': ch.float(f'{tag}.T', *T), 'P': ch.float(f'{tag}.P', *P)}
    if kind == 'S':
        spec['phases'] = [ch.choice(f'{tag}.phase', list(phases))]
    else:
        spec['phases'] = ch.subset(f'{tag}.phases', list(phases), min_size=min_phases,
                                   max_size=max_phases or len(phases))
    rows = []
    for p in spec['phases']:
        if allow_empty and ch.int(f'{tag}.{p}.empty', 0, 3) == 0:
            rows.append([0.0] * n)
        else:
            rows.append(ch.flows(f'{tag}.{p}.flow', n, lo_exp, hi_exp))
    spec['flows'] = rows
    return spec


def build(spec):
    """Create the real Stream / MultiStream described by ``spec`` (ID=None)."""
    th = chem.package(spec['pkg']) if isinstance(spec['pkg'], str) else spec['pkg']
    order = spec.get('order')   # optional insertion order of the stored entries (a hidden degree of freedom of sparse data)
    if spec['kind'] == 'S' and order is None:
        s = tmo.Stream(None, flow=np.array(spec['flows'][0], float), phase=spec['phases'][0],
                       T=spec['T'], P=spec['P'], thermo=th)
    elif spec['kind'] == 'S':
        s = tmo.Stream(None, phase=spec['phases'][0], T=spec['T'], P=spec['P'], thermo=th)
        d = s.imol.data.dct
        for i in order:
            if spec['flows'][0][i]: d[i] = float(spec['flows'][0][i])
    else:
        s = tmo.MultiStream(None, phases=tuple(spec['phases']), T=spec['T'], P=spec['P'], thermo=th)
        for p, row in zip(spec['phases'], spec['flows']):
            d = s.imol.data.rows[s.imol.get_phase_index(p)].dct
            for i in (order if order is not None else range(len(row))):
                if row[i]: d[i] = float(row[i])
    return s


def dense(s):
    """2-d dense array of the molar flows (phases x chemicals)."""
    a = s.imol.data.to_array()
    return a.reshape(1, -1) if a.ndim == 1 else a


def phases_of(s):
    return tuple(s.phases) if isinstance(s, tmo.MultiStream) else (s.phase,)


def totals(s):
    """{CAS: total molar flow} over all phases, plain NumPy."""
    a = dense(s).sum(axis=0)
    return {c: float(v) for c, v in zip(s.chemicals.CASs, a)}


def by_phase(s):
    """{phase: {CAS: flow}}"""
    a = dense(s)
    cas = s.chemicals.CASs
    return {p: {c: float(v) for c, v in zip(cas, row)} for p, row in zip(phases_of(s), a)}


def spec_totals(spec):
    cas = chem.package(spec['pkg']).chemicals.CASs
    a = np.array(spec['flows'], float).sum(axis=0)
    return {c: float(v) for c, v in zip(cas, a)}


def add_totals(*ds):
    out = {}
    for d in ds:
        for k, v in d.items():
            out[k] = out.get(k, 0.0) + v
    return out


def totals_close(a, b, scale=None, rtol=1e-12):
    keys = set(a) | set(b)
    if scale is None:
        scale = max([1.0] + [abs(v) for v in a.values()] + [abs(v) for v in b.values()])
    worst = 0.0; wk = None
    for k in keys:
        d = abs(a.get(k, 0.0) - b.get(k, 0.0))
        if d > worst: worst, wk = d, k
    return worst <= rtol * scale, worst, wk


def kind_tag(spec):
    if spec['kind'] == 'S':
        return 'S'
    return 'M1' if len(spec['phases']) == 1 else 'M'
