"""Reference model for the stream-history checks C11 / C12.

The model is deliberately *not* built on thermosteam data structures: flows are
dense NumPy vectors keyed by phase label, thermal conditions and phase labels
live in explicit cells so that sharing (links, proxies) is an identity relation
between Python objects of the model, never a lookup in the code under test.

    DataCell   rows: list of dense vectors (one per phase row; 1 row for a Stream)
    PhCell     label of a single-phase stream
    TCCell     T, P
    CacheCell  what the code's ``_data_cache`` dict would hold (only used to name
               the trigger regions of known defects, never to compute an oracle)
    Ix         the "indexer": package id, kind 'S'/'M', phase tuple, data, ph, cache
    SM         a stream: (ix, tc) + bookkeeping for phase sub-streams

Also here: the conversion table (own constants, not pint), reference molar
volumes evaluated directly on the chemical objects, and the expected outcome of
phase-set conversions (case-twin rule).
"""
from __future__ import annotations

import numpy as np
from . import chem

ALL_PHASES = ('s', 'l', 'g', 'S', 'L')
T_RANGE = (250.0, 450.0)
P_RANGE = (1.0e4, 5.0e6)


def fam(p):
    """Phase family = the molar-volume model used for the label."""
    return p.lower()


def twin(p):
    if p == 'g':
        return None
    return p.lower() if p.isupper() else p.upper()


def sort_phases(ps):
    return sorted(set(ps))        # same order as thermosteam.phase_tuple (plain str sort)


# ---------------------------------------------------------------------------
# units of measure: factor = (units per base unit); base = kmol/hr, kg/hr, m3/hr
# ---------------------------------------------------------------------------
LB = 0.45359237                    # kg, exact (international avoirdupois pound)
GAL = 3.785411784e-3               # m3, exact (US liquid gallon, 231 in^3)
FT = 0.3048                        # m, exact
UNITS = {
    'mol': {'kmol/hr': 1.0, 'mol/s': 1000.0 / 3600.0, 'mol/min': 1000.0 / 60.0, 'lbmol/hr': 1.0 / LB,
            'kmol/day': 24.0},
    'mass': {'kg/hr': 1.0, 'lb/hr': 1.0 / LB, 'g/min': 1000.0 / 60.0, 'kg/s': 1.0 / 3600.0,
             'ton/day': 24.0 / (2000 * LB), 'kg/day': 24.0},
    'vol': {'m3/hr': 1.0, 'L/min': 1000.0 / 60.0, 'gal/min': 1.0 / (GAL * 60.0), 'm3/s': 1.0 / 3600.0,
            'ft3/s': 1.0 / (FT ** 3 * 3600.0), 'gal/hr': 1.0 / GAL, 'm^3/hr': 1.0},
}
UNIT_DIM = {u: d for d, us in UNITS.items() for u in us}
UNIT_FACTOR = {u: f for d, us in UNITS.items() for u, f in us.items()}
QUANT_UNITS = ['kmol/hr', 'mol/s', 'kg/hr', 'lb/hr', 'g/min', 'm3/hr', 'L/min', 'gal/min']   # the quantifier's list
ALL_UNITS = QUANT_UNITS + sorted(u for u in UNIT_DIM if u not in QUANT_UNITS)
BAD_UNITS = ['kg', 'm', 'K', 'kg/m3', 'hr', 'mol', 'm3', 'J/hr', '1/hr', 'kg/hr/m', 'Pa*s', 'mol/m3']


# ---------------------------------------------------------------------------
# package facts
# ---------------------------------------------------------------------------
class Pk:
    _cache = {}

    def __new__(cls, pid):
        self = cls._cache.get(pid)
        if self is None:
            self = object.__new__(cls)
            th = chem.package(pid)
            self.pid = pid
            self.thermo = th
            self.names = list(chem.PACKAGES[pid])
            self.cas = list(th.chemicals.CASs)
            self.n = len(self.names)
            # molecular weights straight from the chemical objects
            self.MW = np.array([c.MW for c in th.chemicals], float)
            self.chems = list(th.chemicals)
            cls._cache[pid] = self
        return self


_vcache = {}


def reset_case():
    _vcache.clear()


def Vref(pk, i, family, T, P):
    """1000 * V_i(phase, T, P) [m3/kmol] evaluated on the chemical object itself."""
    key = (pk.names[i], family, T, P)
    v = _vcache.get(key)
    if v is None:
        v = _vcache[key] = 1000.0 * float(getattr(pk.chems[i].V, family)(T, P))
    return v


def Vvec(pk, family, T, P):
    return np.array([Vref(pk, i, family, T, P) for i in range(pk.n)], float)


def remap(vec, pk_from, pk_to):
    """Move a dense vector to another package by CAS (chemicals absent there must be zero)."""
    out = np.zeros(pk_to.n)
    for i, v in enumerate(vec):
        if v:
            out[pk_to.cas.index(pk_from.cas[i])] = v
    return out


def can_hold(pk_to, pk_from, rows):
    for row in rows:
        for i, v in enumerate(row):
            if v and pk_from.cas[i] not in pk_to.cas:
                return False
    return True


# ---------------------------------------------------------------------------
# cells
# ---------------------------------------------------------------------------
class DataCell:
    __slots__ = ('rows', 'broken')

    def __init__(self, rows):
        self.rows = [np.array(r, float) for r in rows]
        self.broken = False     # rows were re-laid out in place while another indexer shares them (trigger bookkeeping)

    def copy(self):
        return DataCell([r.copy() for r in self.rows])


class PhCell:
    __slots__ = ('label',)

    def __init__(self, label):
        self.label = label


class TCCell:
    __slots__ = ('T', 'P')

    def __init__(self, T, P):
        self.T = float(T)
        self.P = float(P)

    def copy(self):
        return TCCell(self.T, self.P)


class CacheCell:
    """Shadow of ``indexer._data_cache`` (trigger bookkeeping only)."""
    __slots__ = ('mass', 'vol', 'dirty', 'diverged')

    def __init__(self):
        self.diverged = False      # a holder replaced its data / TC / phase container but kept sharing the dict
        self.clear()

    def clear(self):
        self.mass = False          # a mass view object is cached
        self.vol = {}              # id(TCCell) -> {chem index: (T, P, family)}  (kind S)  /  {} marker (kind M)
        self.dirty = set()         # names of trigger conditions that have fired on this cache


class Ix:
    __slots__ = ('pkg', 'kind', 'phases', 'data', 'ph', 'cache')

    def __init__(self, pkg, kind, phases, data, ph=None, cache=None):
        self.pkg = pkg
        self.kind = kind
        self.phases = list(phases)      # kind 'M': sorted labels; kind 'S': unused
        self.data = data
        self.ph = ph
        self.cache = cache or CacheCell()

    @property
    def pk(self):
        return Pk(self.pkg)


class Subs:
    """Shadow of a stream object's ``_streams`` dict (phase sub-streams handed out by ``MultiStream.__getitem__``).
    Each entry remembers whether it is attached and to which model stream's (indexer, thermal condition) it was
    bound last; a proxy shares the dict object with its origin."""

    def __init__(self):
        self.d = {}          # phase -> [status 'ok' | 'stale', owner SM, package id of the sub-stream's _thermo]

    def state(self, sm, p):
        e = self.d.get(p)
        if e is None:
            return None
        st, owner, pkg = e
        if st != 'ok' or pkg != sm.ix.pkg:
            return 'stale'
        if owner is sm or (owner.ix is sm.ix and owner.tc is sm.tc):
            return 'ok'
        return 'stale'

    def create(self, sm, p):
        if p not in self.d:
            self.d[p] = ['ok', sm, sm.ix.pkg]

    def relink(self, sm):
        """_relink_phase_streams: entries of phases ``sm`` no longer has are dropped, every other entry gets ``sm``'s
        flow data and thermal condition"""
        labels = sm.labels()
        for q in [q for q in self.d if q not in labels]:
            del self.d[q]                      # streams of phases that were removed are dropped
        for q, e in self.d.items():
            e[0] = 'ok'; e[1] = sm

    def relink_data(self, sm):
        """_reset_thermo: entries get this stream's new flow data, their thermal condition is untouched"""
        labels = sm.labels()
        for q, e in self.d.items():
            same_tc = e[1] is sm or e[1].tc is sm.tc
            e[0] = 'ok' if (same_tc and q in labels) else 'stale'
            e[2] = sm.ix.pkg                 # _reset_thermo also sets the sub-stream's _thermo
            if same_tc:
                e[1] = sm

    def detach_all(self):
        for e in self.d.values():
            e[0] = 'stale'

    def clear(self):
        self.d.clear()

    def phases(self):
        return list(self.d)


class SM:
    """Model of one stream object."""

    def __init__(self, name, ix, tc, born):
        self.name = name
        self.ix = ix
        self.tc = tc
        self.born = born        # 'S' or 'M': class whose constructor made the object
        self.subs = Subs()      # shadow of the object's _streams dict (shared with proxies)
        self.last = 'new'       # last structural operation applied (for messages)

    # -- convenience -------------------------------------------------------
    @property
    def kind(self):
        return self.ix.kind

    @property
    def pk(self):
        return Pk(self.ix.pkg)

    def labels(self):
        return list(self.ix.phases) if self.ix.kind == 'M' else [self.ix.ph.label]

    def rows(self):
        return self.ix.data.rows

    def row_of(self, p):
        return self.ix.data.rows[self.labels().index(p)]

    def dense(self):
        return np.array(self.ix.data.rows, float)

    def total(self):
        return self.dense().sum(axis=0)

    def nonempty_labels(self):
        return [p for p, r in zip(self.labels(), self.rows()) if r.any()]

    def is_empty(self):
        return not any(r.any() for r in self.rows())

    # -- expected views ----------------------------------------------------
    def mass_rows(self):
        MW = self.pk.MW
        return [r * MW for r in self.rows()]

    def vol_rows(self):
        pk = self.pk
        out = []
        for p, r in zip(self.labels(), self.rows()):
            v = np.zeros(pk.n)
            for i, x in enumerate(r):
                if x:
                    v[i] = x * Vref(pk, i, fam(p), self.tc.T, self.tc.P)
            out.append(v)
        return out

    def view_rows(self, name):
        if name == 'mol':
            return [r.copy() for r in self.rows()]
        return self.mass_rows() if name == 'mass' else self.vol_rows()

    def to_mol(self, name, p, i, value):
        """Molar flow that corresponds to ``value`` of chemical i in phase p written through view ``name``."""
        if name == 'mol':
            return value
        if name == 'mass':
            return value / self.pk.MW[i]
        return value / Vref(self.pk, i, fam(p), self.tc.T, self.tc.P)


def from_spec(name, spec):
    """Model of the stream that ``vlib.streams.build(spec)`` creates."""
    tc = TCCell(spec['T'], spec['P'])
    if spec['kind'] == 'S':
        ix = Ix(spec['pkg'], 'S', [], DataCell([spec['flows'][0]]), PhCell(spec['phases'][0]))
    else:
        order = sort_phases(spec['phases'])
        rows = [spec['flows'][spec['phases'].index(p)] for p in order]
        ix = Ix(spec['pkg'], 'M', order, DataCell(rows))
    return SM(name, ix, tc, spec['kind'])


# ---------------------------------------------------------------------------
# expected result of phase-representation changes (case-twin rule)
# ---------------------------------------------------------------------------
class Precondition(Exception):
    pass


def target_ok(labels_nonempty, target):
    """Every non-empty phase is in the target set, exactly or as its case twin."""
    for p in labels_nonempty:
        if p not in target and twin(p) not in target:
            return False
    return True


def convert_rows(labels, rows, target, n):
    """Rows after ``phases = target`` (len(target) >= 2): a row stays under its label, or moves to the
    case twin when the exact label is absent; twins merge when only one of them is in the target."""
    target = sort_phases(target)
    new = {p: np.zeros(n) for p in target}
    for p, r in zip(labels, rows):
        if not r.any():
            continue
        q = p if p in new else twin(p)
        if q not in new:
            raise Precondition(f'{p} not representable in {target}')
        new[q] = new[q] + r
    return target, [new[p] for p in target]


def families_present(labels, rows):
    """'g', 'l', 's' families holding material, in thermosteam's order g, l, s."""
    f = {fam(p) for p, r in zip(labels, rows) if r.any()}
    return [x for x in ('g', 'l', 's') if x in f]
