"""Chemical universes and property packages shared by the checks.

Everything is built lazily and cached per process.  Packages are immutable as far
as the checks are concerned; every compiled ``Chemicals`` object is registered
with the runner so that its lookup cache is cleared before each case.
"""
from __future__ import annotations

import thermosteam as tmo
from . import runner

_chem_cache = {}
_thermo_cache = {}

U_A = ('Water', 'Ethanol', 'Methanol', 'Propanol', 'Acetone', 'Hexane', 'Glycerol', 'AceticAcid')

# A fixed pool of packages over U_A: different orders, subsets, a single chemical.
PACKAGES = {
    'A': U_A,
    'B': ('AceticAcid', 'Hexane', 'Water', 'Glycerol', 'Methanol', 'Ethanol', 'Acetone', 'Propanol'),
    'C': ('Propanol', 'Water', 'Hexane', 'Ethanol', 'Acetone'),
    'D': ('Ethanol', 'Water', 'Methanol'),
    'E': ('Glycerol', 'Water'),
    'F': ('Water',),
    'G': ('Hexane', 'Acetone', 'AceticAcid', 'Glycerol'),
}
SUPERSETS = ('A', 'B')   # packages containing every chemical of every other one


def chemical(name, **kw):
    key = (name, tuple(sorted(kw.items())))
    c = _chem_cache.get(key)
    if c is None:
        c = _chem_cache[key] = tmo.Chemical(name, **kw)
    return c


def thermo_of(names, ideal=False, locked=None, key=None):
    """Cached Thermo over the given chemical names (optionally phase-locked)."""
    locked = locked or {}
    k = key or (tuple(names), ideal, tuple(sorted(locked.items())))
    th = _thermo_cache.get(k)
    if th is None:
        chems = [chemical(n, **({'phase': locked[n]} if n in locked else {})) for n in names]
        th = tmo.Thermo(tmo.Chemicals(chems))
        if ideal:
            th = th.ideal()
        _thermo_cache[k] = th
        runner.register_chemicals(th.chemicals)
    return th


def package(pid):
    return thermo_of(PACKAGES[pid])


def cas_of(th):
    return list(th.chemicals.CASs)
