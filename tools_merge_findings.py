#!/usr/bin/env python3
"""Merge findings/<prop>.json working files into known_findings.json (and delete them)."""
import json, os, sys
ROOT = os.path.dirname(os.path.abspath(__file__))
kf = os.path.join(ROOT, 'known_findings.json')
items = json.load(open(kf))
for prop in sys.argv[1:]:
    wf = os.path.join(ROOT, 'findings', f'{prop}.json')
    if not os.path.exists(wf): continue
    for e in json.load(open(wf)):
        items = [k for k in items if k['id'] != e['id']] + [e]
    os.remove(wf)
items.sort(key=lambda k: (k['property'], k['status'] != 'known', k['id']))
json.dump(items, open(kf, 'w'), indent=1)
print(len(items), 'entries;', sum(k['status'] == 'known' for k in items), 'known,', sum(k['status'] == 'fixed' for k in items), 'fixed')
