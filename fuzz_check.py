#!/venv/bin/python
"""Coverage-guided fuzzing (atheris / libFuzzer) of one chooser-based property function.

    fuzz_check.py Cxx --prop NAME [--runs N] [--max-seconds T] [--seed S] [--include mod1,mod2] [--corpus DIR] [--max-len L]

The libFuzzer byte string is handed to Hypothesis' `fuzz_one_input`, i.e. it *is* the choice sequence behind the
same `st.data()` draws the Hypothesis engine makes; the oracle runs inside the target (the property function).
The modules named by --include (default: the property's anchor modules, see INCLUDE below) are instrumented for
coverage.  A violation that is not a known finding stops the campaign: the logged draws are written as a normal
replay file and `VIOLATION property=<id> replay=<path>` is printed (exit 1).  Exit 0 = no violation in N runs.
Prints one line `FUZZ-STATS {...}` with executions, violations, known-finding tallies for the caller.
"""
import argparse, importlib, json, os, sys, time

ROOT = os.path.dirname(os.path.abspath(__file__))
sys.path.insert(0, ROOT)
from vlib import runner

INCLUDE = {
    'C09': ['thermosteam.base.sparse'],
    'C10': ['thermosteam.indexer', 'thermosteam._chemicals', 'thermosteam.utils.cache'],
    'C18': ['thermosteam.network'],
    'C19': ['thermosteam.network'],
    'C17': ['thermosteam.reaction._reaction'],
    'C05': ['thermosteam.reaction._reaction', 'thermosteam.reaction._parse', 'thermosteam.reaction._xparse'],
    'C01': ['thermosteam.indexer', 'thermosteam._stream', 'thermosteam._multi_stream', 'thermosteam.base.sparse'],
}


def main():
    p = argparse.ArgumentParser()
    p.add_argument('property'); p.add_argument('--prop', required=True)
    p.add_argument('--runs', type=int, default=20000); p.add_argument('--seed', type=int, default=1)
    p.add_argument('--include', default=''); p.add_argument('--corpus', default='')
    p.add_argument('--max-len', type=int, default=4096)
    p.add_argument('--max-seconds', type=int, default=300)
    a = p.parse_args()
    if any(os.environ.get(k) != v for k, v in runner.PINNED_ENV.items()):
        env = dict(os.environ); env.update(runner.PINNED_ENV)
        os.execve(sys.executable, [sys.executable] + sys.argv, env)
    prop = a.property.upper()
    deps = os.path.join(ROOT, '.deps')
    if deps not in sys.path: sys.path.append(deps)
    try:
        import atheris
    except ImportError:
        print('FUZZ-STATS ' + json.dumps({'available': False, 'executions': 0}))
        return 0
    include = [m for m in a.include.split(',') if m] or INCLUDE.get(prop, ['thermosteam'])
    if runner.REPO not in sys.path: sys.path.insert(0, runner.REPO)
    import warnings; warnings.filterwarnings('ignore')
    with atheris.instrument_imports(include=include):
        runner.setup_imports()
        mod = importlib.import_module(runner.find_module(prop))
    from hypothesis import given, settings, HealthCheck, strategies as st
    known = [k for k in runner.load_known(prop) if k.get('status') == 'known']
    ctx = runner.Ctx(prop, 'thorough', a.seed, 0, 1, known)
    if hasattr(mod, 'setup'): mod.setup(ctx)
    fn = mod.PROPS[a.prop][0]
    ctx.cur_name = a.prop
    state = {'execs': 0, 'violation': None, 't0': time.time()}

    def body(data):
        ch = runner.Chooser(data)
        runner.fresh_state()
        try:
            fn(ch, ctx)
        except runner.Reject:
            pass
        except runner.Violation as v:
            kid = ctx.known_id(v.sig)
            if kid is not None:
                ctx.known_tally[kid] = ctx.known_tally.get(kid, 0) + 1
                return
            state['violation'] = (v.sig, v.msg, list(ch.log))
            raise

    test = settings(database=None, deadline=None, suppress_health_check=list(HealthCheck))(given(st.data())(body))
    fuzz_one = test.hypothesis.fuzz_one_input

    def finish(code):
        stats = {'available': True, 'executions': state['execs'], 'known_tally': ctx.known_tally,
                 'wall_s': round(time.time() - state['t0'], 1), 'include': include, 'prop': a.prop,
                 'violation': state['violation'][0] if state['violation'] else None}
        print('FUZZ-STATS ' + json.dumps(stats), flush=True)
        sys.stdout.flush()
        os._exit(code)

    def one_input(data):
        state['execs'] += 1
        try:
            fuzz_one(data)
        except runner.Violation:
            sig, msg, log = state['violation']
            v = runner.replay_case(mod, a.prop, log, [])
            if v is None:
                # not reproducible from the saved case: do not report, keep fuzzing
                state['violation'] = None
                return
            vdir = os.path.join(ROOT, 'replays', 'violations'); os.makedirs(vdir, exist_ok=True)
            path = os.path.join(vdir, f'{prop}-fz{runner.h64([a.prop, log])[:12]}.json')
            json.dump({'property': prop, 'check': a.prop, 'case': log, 'signature': v.sig, 'oracle_message': v.msg,
                       'seed': a.seed, 'tier': 'thorough', 'engine': 'atheris'}, open(path, 'w'), indent=1)
            print(f'violation: {v.sig}: {v.msg[:300]}')
            print(f'VIOLATION property={prop} replay={os.path.relpath(path, ROOT)}', flush=True)
            finish(1)
        if state['execs'] >= a.runs or time.time() - state['t0'] > a.max_seconds:
            finish(0)   # a time budget hit only lowers the number of executions; it is never a violation

    import tempfile
    corpus = a.corpus or tempfile.mkdtemp(prefix=f'fz-{prop}-')
    argv = [sys.argv[0], f'-seed={a.seed}', f'-max_len={a.max_len}', '-len_control=0', '-print_final_stats=0', f'-verbosity={int(os.environ.get("FUZZ_VERBOSE", "0"))}', corpus]
    atheris.Setup(argv, one_input)
    try:
        atheris.Fuzz()
    finally:
        finish(0)


if __name__ == '__main__':
    main()
