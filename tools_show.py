#!/venv/bin/python
import json, sys
for p in sys.argv[1:]:
    r = json.load(open(p))
    print(p, r.get('signature'), '\n  ', r.get('oracle_message', '')[:300])
    print('  ', '  '.join(f'{k}={v}' for k, v in r['case']))
