#!/bin/bash
# run every claimed check's quick (or $1) tier; summary line per property
tier=${1:-quick}
cd "$(dirname "$0")"
for p in $(/venv/bin/python -c "import json; print(' '.join(c['property_id'] for c in json.load(open('MANIFEST.json'))['checks']))"); do
  out=$(/venv/bin/python run_check.py $p --tier $tier 2>&1); rc=$?
  echo "$p exit=$rc $(echo "$out" | grep -c '^KNOWN-FINDING') known-lines | $(echo "$out" | tail -1 | cut -c1-200)"
  if [ $rc -ne 0 ]; then echo "$out" | grep -v '^KNOWN-FINDING' | tail -6 | cut -c1-300; fi
done
