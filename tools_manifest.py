#!/venv/bin/python
"""Regenerate MANIFEST.json from the check modules present (keeps it valid at all times)."""
import json, os, sys, importlib
ROOT = os.path.dirname(os.path.abspath(__file__))
sys.path.insert(0, ROOT); sys.path.insert(0, '/repo')
os.environ.setdefault('NUMBA_DISABLE_JIT', '1')
META = json.load(open(os.path.join(ROOT, 'manifest_meta.json')))
props = [json.loads(l) for l in open(os.path.join(ROOT, 'properties.jsonl'))]
checks, na = [], []
for p in props:
    pid = p['id']
    mods = [f for f in sorted(os.listdir(os.path.join(ROOT, 'checks'))) if f.lower().startswith(pid.lower()) and f.endswith('.py')]
    m = META.get(pid, {})
    if mods and m.get('claimed', False):
        checks.append({
            'property_id': pid,
            'quick_cmd': f'/venv/bin/python run_check.py {pid} --tier quick',
            'thorough_cmd': f'/venv/bin/python run_check.py {pid} --tier thorough',
            'evidence_file': f'evidence/{pid}.json',
            'replay_cmd_template': f'/venv/bin/python run_check.py {pid} --replay {{path}}',
            'engine': 'hypothesis-chooser',
            'level_claimed': {'category': 'exploration', 'text': m['level_text'], 'design_ref': f'DESIGN.md section 6 {pid}'},
            'level_note': m['level_note'],
            'technique': m['technique'],
        })
    else:
        na.append({'property_id': pid, 'reason': m.get('na_reason', 'check not built yet in this revision (property-based check planned, see DESIGN.md section 6)')})
man = {
    'version': 1,
    'setup_cmd': "(/venv/bin/python -c 'import hypothesis, jsonschema' || /venv/bin/pip install --no-index --find-links /opt/veriftools/wheels hypothesis jsonschema) && (test -d .deps/atheris || /venv/bin/pip install -q --no-index --find-links /opt/veriftools/wheels --target .deps atheris || true)",
    'hooks': {'guard': 'THERMOSTEAM_VERIF', 'enable': 'no hooks are needed: every observation point is a public attribute; checks import /repo (editable install) directly',
              'baseline_off_cmd': 'cd /repo && /venv/bin/python -m pytest -ra -q -p no:cacheprovider --timeout=900 --continue-on-collection-errors',
              'source_commits': [], 'add_only': True},
    'engines': [{'name': 'atheris-fuzz', 'path': 'fuzz_check.py', 'serves_properties': ['C01', 'C09', 'C10', 'C17', 'C18'],
                 'kind_free_text': 'coverage-guided fuzzing (atheris 3.1 / libFuzzer) of the same chooser-based property functions through Hypothesis fuzz_one_input; runs inside the thorough tier (vlib.runner.ATHERIS_PLAN); the thermosteam modules are instrumented; oracle inside the target; crashes are written as ordinary replay files'},
                {'name': 'hypothesis-chooser', 'path': 'vlib/runner.py', 'serves_properties': [c['property_id'] for c in checks],
                 'kind_free_text': 'Hypothesis st.data()-driven generation through a logging Chooser; 16 forked shards; replay of logged draws without Hypothesis; signature-based known-finding matching'}],
    'checks': checks,
    'not_applicable': na,
    'notes': META.get('notes', ''),
}
json.dump(man, open(os.path.join(ROOT, 'MANIFEST.json'), 'w'), indent=1)
import jsonschema
jsonschema.validate(man, json.load(open('/root/.vp/MANIFEST.schema.json')))
print('MANIFEST.json written:', len(checks), 'checks,', len(na), 'not_applicable')
