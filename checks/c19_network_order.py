"""C19 - the simulation order derived from a flowsheet is complete and follows material flow."""
from __future__ import annotations

import itertools
import warnings

import thermosteam as tmo
from thermosteam import network as nw
from vlib.runner import HarnessError

PROPERTY = 'C19'
RULE = ('Hypothesis draws a connected DAG of 2-10 units (random spanning tree plus extra edges, directed by a hidden '
        'rank, so several source and sink units occur), every unit with 1-3 inlets and 1-3 outlets on variable-size '
        'port lists, a feed on every source unit, a product on every sink unit, extra feeds/products, optional '
        'parallel edges, a permutation of every port list, optional feed priorities, then 0-3 back-edges (added '
        'streams from a unit to one of its ancestors; no edge is removed, so every unit still reaches a product), '
        'and permutations of the unit list handed to Network.from_units (all n! for n<=4, else the identity, the '
        'reverse and drawn ones).  Oracle: own DFS decides acyclicity; flattened path as a set = unit set; acyclic: '
        'each unit once, every stream forward, no recycle; cyclic: >=1 recycle and every stream whose source does '
        'not precede its sink lies inside one (nested) network that carries a recycle (recorded only: whether that '
        'stream lies on a cycle of the flowsheet, and whether removing the reported recycles leaves an acyclic graph).  Non-trivial: some unit has '
        '>=2 inlets or outlets between units, or the flowsheet is cyclic; distinct by (edge list, port order, '
        'unit order).')
ASSUMPTIONS = [
    'units have variable-size port lists holding exactly their streams (no placeholder ports)',
    'all streams are AbstractStream with F_mass = 0, so the main feedstock is chosen by feed priority / unit order',
    'no self-loops; back-edges only add streams',
    'in cyclic flowsheets a unit may appear more than once in the flattened path; positions are first occurrences',
]
REQUIRED_CELLS = {'quick': ['acyclic', 'cyclic', 'back=1', 'back=2', 'back=3', 'n=2', 'n=10', 'perm:all', 'perm:drawn',
                            'multi-source', 'multi-sink'],
                  'thorough': []}

AS = tmo.AbstractStream
_TH = None


class V(tmo.AbstractUnit):
    _N_ins = 1
    _N_outs = 1
    _ins_size_is_fixed = False
    _outs_size_is_fixed = False


def setup(ctx):
    global _TH
    if _TH is None:
        tmo.settings.set_thermo([])
        _TH = tmo.settings.get_thermo()


# ---------------------------------------------------------------------------
# graph generation (pure Python on integer ids)
# ---------------------------------------------------------------------------

def ancestors(n, edges):
    """reach[v] = set of units reachable from v (v itself only if it lies on a cycle); u is an ancestor of v iff
    v in reach[u]."""
    succ = {i: [] for i in range(n)}
    for a, b in edges:
        succ[a].append(b)
    reach = {}
    for s in range(n):
        seen = set(); stack = list(succ[s])
        while stack:
            x = stack.pop()
            if x in seen: continue
            seen.add(x); stack.extend(succ[x])
        reach[s] = seen
    return reach


def has_cycle(n, edges):
    """Own DFS (three colours)."""
    succ = {i: [] for i in range(n)}
    for a, b in edges:
        succ[a].append(b)
    colour = [0] * n
    for r in range(n):
        if colour[r]: continue
        stack = [(r, iter(succ[r]))]
        colour[r] = 1
        while stack:
            v, it = stack[-1]
            for x in it:
                if colour[x] == 1: return True
                if colour[x] == 0:
                    colour[x] = 1
                    stack.append((x, iter(succ[x])))
                    break
            else:
                colour[v] = 2
                stack.pop()
    return False


def draw_flowsheet(ch, ctx):
    n = ch.int('n', 2, 10)
    rank = ch.permutation('rank', n)          # rank[i] = position of unit i in the hidden topological order
    indeg = [0] * n; outdeg = [0] * n
    edges = []

    def directed(i, j):
        return (i, j) if rank[i] < rank[j] else (j, i)

    # spanning tree: unit i attaches to an earlier-numbered unit with spare capacity
    for i in range(1, n):
        cands = []
        for j in range(i):
            a, b = directed(i, j)
            if outdeg[a] < 3 and indeg[b] < 3: cands.append(j)
        if not cands:
            ctx.reject('no partner with a spare port for the spanning tree')
        j = ch.choice('tree', cands)
        a, b = directed(i, j)
        edges.append([a, b]); outdeg[a] += 1; indeg[b] += 1
    # extra forward edges (parallel edges allowed)
    nextra = ch.int('extra', 0, min(6, n))
    for k in range(nextra):
        cands = [[a, b] for a in range(n) for b in range(n)
                 if a != b and rank[a] < rank[b] and outdeg[a] < 3 and indeg[b] < 3]
        if not cands: break
        a, b = ch.choice('edge', cands)
        edges.append([a, b]); outdeg[a] += 1; indeg[b] += 1
    # mandatory feeds / products
    feeds = [i for i in range(n) if indeg[i] == 0]
    prods = [i for i in range(n) if outdeg[i] == 0]
    for i in feeds: indeg[i] += 1
    for i in prods: outdeg[i] += 1
    # back edges: from a unit to one of its ancestors
    nback = ch.int('back', 0, 3)
    back = []
    reach = ancestors(n, edges)            # reachability in the DAG: a back-edge closes a cycle of forward edges
    for k in range(nback):
        cands = [[u, v] for u in range(n) for v in range(n)
                 if u != v and u in reach[v] and outdeg[u] < 3 and indeg[v] < 3]
        if not cands: break
        u, v = ch.choice('backedge', cands)
        back.append([u, v]); outdeg[u] += 1; indeg[v] += 1
    # extra feeds / products on the remaining capacity
    for i in range(n):
        if indeg[i] < 3 and ch.bool('xfeed'):
            feeds.append(i); indeg[i] += 1
        if outdeg[i] < 3 and ch.bool('xprod'):
            prods.append(i); outdeg[i] += 1
    # port orders
    ins = {i: [] for i in range(n)}; outs = {i: [] for i in range(n)}
    streams = []          # (source or None, sink or None)
    for a, b in edges + back:
        k = len(streams); streams.append((a, b)); outs[a].append(k); ins[b].append(k)
    for i in feeds:
        k = len(streams); streams.append((None, i)); ins[i].append(k)
    for i in prods:
        k = len(streams); streams.append((i, None)); outs[i].append(k)
    for i in range(n):
        if len(ins[i]) > 1:
            p = ch.permutation('inorder', len(ins[i])); ins[i] = [ins[i][q] for q in p]
        if len(outs[i]) > 1:
            p = ch.permutation('outorder', len(outs[i])); outs[i] = [outs[i][q] for q in p]
    prio = None
    nfeeds = len(feeds)
    if nfeeds > 1 and ch.bool('priorities'):
        prio = ch.permutation('prio', nfeeds)
    return dict(n=n, edges=edges, back=back, feeds=feeds, prods=prods, ins=ins, outs=outs, streams=streams,
                prio=prio, rank=rank)


def build(fs):
    S = [AS(None, thermo=_TH) for _ in fs['streams']]
    U = [V(None, ins=[S[k] for k in fs['ins'][i]], outs=[S[k] for k in fs['outs'][i]], thermo=_TH)
         for i in range(fs['n'])]
    for k, (a, b) in enumerate(fs['streams']):
        if S[k].source is not (U[a] if a is not None else None) or S[k].sink is not (U[b] if b is not None else None):
            raise HarnessError('flowsheet was not built as drawn')
    if fs['prio'] is not None:
        feed_ids = [k for k, (a, b) in enumerate(fs['streams']) if a is None]
        for k, p in zip(feed_ids, fs['prio']):
            S[k].set_feed_priority(p)
    return U, S


def flatten(net, out=None):
    if out is None: out = []
    for i in net.path:
        if isinstance(i, nw.Network): flatten(i, out)
        else: out.append(i)
    return out


def recycle_networks(net, out=None):
    """[(set of unit ids of the flattened sub-path)] of every (nested) network carrying a recycle."""
    if out is None: out = []
    if net.recycle:
        out.append({id(u) for u in flatten(net)})
    for i in net.path:
        if isinstance(i, nw.Network): recycle_networks(i, out)
    return out


def permutations_for(ch, ctx, n):
    if n <= 4:
        ctx.cell('perm:all')
        return [list(p) for p in itertools.permutations(range(n))]
    ctx.cell('perm:drawn')
    perms = [list(range(n)), list(range(n - 1, -1, -1))]
    for k in range(3):
        perms.append(ch.permutation('perm', n))
    return perms


def prop_order(ch, ctx):
    if _TH is None: setup(ctx)
    fs = draw_flowsheet(ch, ctx)
    n = fs['n']
    all_edges = fs['edges'] + fs['back']
    cyclic = has_cycle(n, all_edges)
    if cyclic != bool(fs['back']):
        raise HarnessError('back-edges and own DFS disagree about acyclicity')
    U, S = build(fs)
    index_of = {id(u): i for i, u in enumerate(U)}
    ctx.cell('cyclic' if cyclic else 'acyclic'); ctx.cell(f'n={n}'); ctx.cell(f'back={len(fs["back"])}')
    nsrc = sum(1 for i in range(n) if not any(b == i for a, b in all_edges))
    nsnk = sum(1 for i in range(n) if not any(a == i for a, b in all_edges))
    if nsrc > 1: ctx.cell('multi-source')
    if nsnk > 1: ctx.cell('multi-sink')
    if fs['prio'] is not None: ctx.cell('priorities')
    shape = ('cyclic,back=%d' % len(fs['back'])) if cyclic else 'acyclic'
    size = 'n<=4' if n <= 4 else 'n>4'
    region = f'{shape},{size}'
    perms = permutations_for(ch, ctx, n)
    reach_all = ancestors(n, all_edges)      # reach_all[v] = units reachable from v (own search)
    for perm in perms:
        units = [U[i] for i in perm]
        with warnings.catch_warnings(record=True) as wlist:
            warnings.simplefilter('always')
            net = ctx.call('from_units', nw.Network.from_units, units, region=region)
        if any('could not be determined' in str(x.message) for x in wlist):
            ctx.cell('warned:path-not-determined')
        flat = ctx.call('flatten', flatten, net, region=region)
        names = [index_of.get(id(u), '?') for u in flat]
        where = f'units given as {perm}, path {names}, edges {fs["edges"]}, back {fs["back"]}, ' \
                f'feeds {fs["feeds"]}, products {fs["prods"]}, ins {fs["ins"]}, outs {fs["outs"]}'
        if any(x == '?' for x in names):
            ctx.fail(f'path|{region}|foreign-unit', where)
        missing = sorted(set(range(n)) - set(names))
        if missing:
            ctx.fail(f'path|{region}|missing-unit', f'units {missing} absent; {where}')
        recycles = ctx.call('get_all_recycles', net.get_all_recycles, region=region)
        first = {}
        for pos, x in enumerate(names):
            first.setdefault(x, pos)
        if not cyclic:
            if len(names) != n:
                ctx.fail(f'path|{region}|duplicate-unit', where)
            for a, b in all_edges:
                if not first[a] < first[b]:
                    ctx.fail(f'order|{region}|edge-backward', f'stream {a}->{b} runs against the path; {where}')
            if recycles:
                ctx.fail(f'recycle|{region}|reported-in-acyclic', f'{len(recycles)} recycle stream(s) reported; {where}')
        else:
            if len(names) != n: ctx.cell('cyclic:duplicates')
            if not recycles:
                ctx.fail(f'recycle|{region}|none-reported', where)
            rec_ids = {id(x) for x in recycles}
            rest = [list(fs['streams'][k]) for k in range(len(all_edges)) if id(S[k]) not in rec_ids]
            ctx.cell('cyclic:recycles-tear-all-loops' if not has_cycle(n, rest) else 'cyclic:recycles-leave-a-loop')
            loops = recycle_networks(net)
            for a, b in all_edges:
                if first[a] >= first[b]:
                    ctx.cell('backward-streams')
                    if a not in reach_all[b]:
                        # Recorded only.  The stream is not on a cycle of the flowsheet (e.g. a feed-side unit placed
                        # after the loop it feeds when Network.sort gives up); the property is still met when a
                        # recycle-carrying network holds both units, because such a network re-runs its whole path.
                        ctx.cell('backward:not-on-cycle')
                    if not any(id(U[a]) in L and id(U[b]) in L for L in loops):
                        ctx.fail(f'order|{region}|backward-outside-loop',
                                 f'stream {a}->{b} runs against the path but no recycle network holds both; {where}')
    branching = any(sum(1 for a, b in all_edges if a == i) >= 2 or sum(1 for a, b in all_edges if b == i) >= 2
                    for i in range(n))
    if cyclic or branching:
        ctx.nontriv([n, sorted(fs['edges']), sorted(fs['back']), sorted(fs['feeds']), sorted(fs['prods']),
                     [fs['ins'][i] for i in range(n)], [fs['outs'][i] for i in range(n)], fs['prio'], perms[-1]])


PROPS = {
    'order': (prop_order, 8000, 200000),
}
