"""C10 - name-keyed flow access equals positional access, independent of lookup history.

Every case builds its own chemical universe (fresh ``Chemical`` copies, compiled, user aliases,
groups), so nothing a case does to the name table, the group table or a lookup cache can leak into
another case.  The oracle is a dense NumPy array (phases x chemicals, molar) plus a name -> position
table and group table built by this module from the drawn universe description; the code under test
is only ever asked through ``indexer[key]`` / ``indexer[key] = data`` / ``chemicals.index`` and is
compared against plain positional access on the model.
"""
from __future__ import annotations

import math

import numpy as np
import thermosteam as tmo
from hypothesis import strategies as st
from thermosteam import indexer as tix
from thermosteam.base import SparseVector
from thermosteam.exceptions import UndefinedChemicalAlias, UndefinedPhase
from vlib.runner import HarnessError

PROPERTY = 'C10'
RULE = ('Each case draws a universe (1-8 chemicals: 16 database chemicals and 2 user-defined nameless ones in any order, three ID styles, 0-6 user aliases set '
        'through any existing name, 0-3 groups with none/mol/wt compositions incl. zero entries; optional twin universe '
        'with the same IDs but other aliases/groups), streams (Stream in any phase, MultiStream over any non-empty subset '
        'of s/l/g/S/L; imol or imass view; finite flows incl. 0 and negatives) and keys from the grammar name(ID|CAS|'
        'database alias|user alias) | group | tuple/list of names | tuple/list mixing names and groups | ... | phase '
        '(swapped case when unambiguous) | (phase, key) | (..., key). "key": one read, one write (scalar, vector, '
        'per-phase, 2-d or sparse data), read-back, all other entries untouched. "history": up to 40 steps of read / '
        'write / re-read / the same key on another stream / bulk lookup of 50-700 distinct tuple keys / new indexer '
        '(same phases, copy, other phases, single-phase, '
        'twin universe) / cross-package copy_like|mix_from|separate_out from a stream on a package that orders the shared '
        'chemicals differently (subset, or with extra chemicals), followed by reads/writes through exactly the CAS '
        'tuple/list it looked up on the receiver, the sender and a third stream of each package / set_alias / define_group, all reads compared with the model, memoised reads repeated at the end '
        '(bitwise equal when the stream was not written in between), all names resolved again, lookup caches audited. '
        '"shared": 2-4 streams over one universe or its twin (same phases, same number of other phases, any phases, '
        'single-phase) and 1-8 keys, each applied to every stream on which it is a valid key. "names": every name '
        'through index/indices/get_aliases/attribute access, write through one name and read through all others. '
        'Oracle: own dense array + own name and group tables. Non-trivial: a history in which a bounded cache '
        'overflowed before a checked read or that wrote through a group/nested key; a key case whose key is not a '
        'bare ID. Distinct by (check, stream kind, phases, view, key shape, data shape, cache-overflow flags, op names).')
ASSUMPTIONS = ['names are at least two characters long (a one-letter alias would shadow a phase letter) and do not '
               'collide with attribute names of CompiledChemicals',
               'groups are defined once, over distinct member chemicals, with a positive total composition, and never '
               'share a name with a chemical; new aliases/groups may be added mid-history but never redefined',
               'keys written through address pairwise disjoint positions (overlapping writes have no defined result)',
               'a chemical key without a phase on multi-phase data reads the sum over phases and refuses writes with '
               'IndexError (by design, DESIGN.md appendix A)',
               '(..., group) is written with scalars only; (..., name) accepts a scalar or one value per phase; '
               '(..., tuple) a scalar, one value per element or a phases x elements array (NumPy broadcasting)',
               'cross-package copies use a sender whose chemicals (by CAS) are a subset of the receiver package and whose '
               'phase is one of the receiver phases',
               'values are finite, |x| <= 1e150; every comparison allows 1e-12 * max(1, largest model entry, largest expected entry)']
REQUIRED_CELLS = {'quick': ['key:ix=S', 'key:ix=M', 'key:pk=sum', 'key:pk=phase', 'key:pk=pk', 'key:pk=allp',
                            'key:ck=name', 'key:ck=group', 'key:ck=seq', 'key:ck=nested', 'key:ck=all',
                            'key:fl=mass', 'key:swapcase', 'hist:ev100', 'hist:crossed500', 'hist:op=xcopy',
                            'hist:op=casread', 'hist:new=same', 'hist:new=copy', 'hist:new=phases', 'hist:new=twin',
                            'hist:op=set_alias', 'hist:op=define_group', 'hist:write-group', 'hist:mirror=twin',
                            'hist:mirror=phases', 'hist:probe=recv', 'hist:probe=send', 'hist:probe=recv3',
                            'hist:probe=send3', 'hist:xcopy-order=different', 'hist:xcopy-sender-has-extra', 'hist:xcopy-grows=same-pkg',
                            'hist:xcopy-grows=other-pkg', 'hist:api=1', 'hist:api=2', 'key:api=0', 'key:get_data,api=2',
                            'key:set_data,api=2', 'group:array-reused', 'uni:nameless-first', 'uni:nameless-later', 'shared:to=twin', 'shared:to=same', 'shared:to=other'],
                  'thorough': []}
WALL = {'quick': 540, 'thorough': 3300}

RTOL = 1e-12
POOL = ['Water', 'Ethanol', 'Methanol', 'Propanol', 'Isopropanol', 'Acetone', 'Propanal', 'Hexane', 'Glycerol',
        'AceticAcid', 'Butanol', 'Octane', 'CO2', 'N2', 'Glucose', 'LacticAcid']
NAMELESS = ['Yeast', 'Ash']      # user-defined chemicals without formula, common name or IUPAC name
ALL_PHASES = ['s', 'l', 'g', 'S', 'L']
_BASE = {}

VAL = st.one_of(st.just(0.0),
                st.sampled_from([1.0, 2.0, 0.5, 3.0, 0.25, 10.0, -1.0, 1e-30]),
                st.floats(-6, 6, allow_nan=False).map(lambda u: 10.0 ** u),
                st.floats(-1e9, 1e9, allow_nan=False, allow_infinity=False, allow_subnormal=False),
                st.floats(-1e150, 1e150, allow_nan=False, allow_infinity=False, allow_subnormal=False))
COMPVAL = st.one_of(st.sampled_from([1.0, 2.0, 0.5, 3.0, 0.25, 0.0]),
                    st.floats(-2, 2, allow_nan=False).map(lambda u: 10.0 ** u))


def setup(ctx):
    for n in POOL:
        if n not in _BASE:
            _BASE[n] = tmo.Chemical(n)
    if 'Yeast' not in _BASE:
        _BASE['Yeast'] = tmo.Chemical('Yeast', search_db=False, default=True, phase='s')
        _BASE['Ash'] = tmo.Chemical('Ash', search_db=False, default=True, phase='l')


# ---------------------------------------------------------------------------
# universe: real CompiledChemicals + own name/group tables
# ---------------------------------------------------------------------------
class Uni:
    pass


def _mk_id(style, name):
    if style == 'prefixed': return 'x_' + name
    if style == 'spaced': return name + ' (1)'
    return name


def base_universe(ctx, tag, members, style):
    """Compiled package over the given database chemicals plus the own name table (no aliases, no groups)."""
    U = Uni()
    U.tag = tag
    U.members = list(members)
    U.style = style
    U.n = n = len(members)
    bases = [_BASE[m] for m in members]
    U.ids = [_mk_id(style, m) for m in members]
    U.cas = [b.CAS for b in bases]
    U.MW = np.array([b.MW for b in bases], float)
    copies = [b.copy(i, CAS=b.CAS, **{k: getattr(b, k) for k in ('common_name', 'iupac_name') if getattr(b, k)})
              for b, i in zip(bases, U.ids)]
    chems = tmo.Chemicals(copies)
    ctx.call('compile', chems.compile, region=f'n={n}')
    U.chems = chems
    U.thermo = tmo.Thermo(chems)
    # own name table: ID and CAS always; a database name only when exactly one chemical claims it
    names = {}
    names_of = [[] for _ in range(n)]
    for pos in range(n):
        for nm in (U.ids[pos], U.cas[pos]):
            if nm in names and names[nm] != pos:
                raise HarnessError(f'pool collision on {nm}')
            if nm not in names:
                names[nm] = pos
                names_of[pos].append(nm)
    claims = {}
    for pos, b in enumerate(bases):
        iup = b.iupac_name
        iup = (iup,) if isinstance(iup, str) else tuple(iup or ())
        for nm in {b.formula, b.common_name, *iup}:
            if nm:
                claims.setdefault(nm, set()).add(pos)
    for nm in sorted(claims):
        ps = claims[nm]
        if len(ps) != 1: continue
        pos = next(iter(ps))
        if nm in names:
            if names[nm] != pos: raise HarnessError(f'pool collision on {nm}')
            continue
        names[nm] = pos
        names_of[pos].append(nm)
    U.names = names
    U.names_of = names_of
    U.groups = {}      # name -> (members, molc, wtc)
    U.gorder = []
    U.nalias = 0
    return U


def build_universe(ch, ctx, tag, members=None, style=None):
    if members is None:
        members = ch.subset(f'{tag}.chems', POOL, 1, 8)
        # user-defined chemicals without any database name, at any position (also first)
        for k, m in enumerate(ch.subset(f'{tag}.nameless', NAMELESS, 0, 2)):
            at = ch.int(f'{tag}.nameless{k}.at', 0, len(members))
            members.insert(at, m)
            ctx.cell('uni:nameless'); ctx.cell('uni:nameless-first' if at == 0 else 'uni:nameless-later')
        members = members[:8]
    if style is None:
        style = ch.choice(f'{tag}.idstyle', ['db', 'db', 'prefixed', 'spaced'])
    U = base_universe(ctx, tag, members, style)
    n = U.n; chems = U.chems; names_of = U.names_of
    # user aliases
    k = ch.int(f'{tag}.nalias', 0, min(2 * n, 6))
    for j in range(k):
        add_alias(ch, ctx, U, f'{tag}.al{j}')
    if n >= 2 and ch.bool(f'{tag}.conflict'):
        a = ch.int(f'{tag}.conflict.a', 0, n - 1)
        b = ch.int(f'{tag}.conflict.b', 0, n - 2)
        if b >= a: b += 1
        alias = ch.choice(f'{tag}.conflict.alias', names_of[b])
        via = ch.choice(f'{tag}.conflict.via', names_of[a])
        try:
            ctx.call('set_alias', chems.set_alias, via, alias, allowed=(ValueError,), region='conflict')
        except ValueError:
            pass
        else:
            ctx.fail('set_alias|conflict|accepted', f'alias {alias!r} of chemical {b} accepted for chemical {a}')
    g = ch.int(f'{tag}.ngroups', 0, 3)
    for _ in range(g):
        add_group(ch, ctx, U, f'{tag}.g{len(U.gorder)}')
    return U


def add_alias(ch, ctx, U, label):
    pos = ch.int(f'{label}.pos', 0, U.n - 1)
    via = ch.choice(f'{label}.via', U.names_of[pos])
    style = ch.choice(f'{label}.style', ['plain', 'upper', 'caslike', 'spaced', 'dup'])
    j = U.nalias
    U.nalias += 1
    if style == 'dup':
        alias = ch.choice(f'{label}.dup', U.names_of[pos])
    else:
        alias = {'plain': f'a{j}', 'upper': U.ids[pos].upper(), 'caslike': f'{100 + j}-{10 + j}-{j}',
                 'spaced': f'alias {j}'}[style]
        if alias in U.names or alias in U.groups:
            alias = f'{alias}_{j}'
        if alias in U.names or alias in U.groups:
            raise HarnessError(f'alias generator collision {alias}')
    ctx.call('set_alias', U.chems.set_alias, via, alias, region=f'style={style}')
    if alias not in U.names:
        U.names[alias] = pos
        U.names_of[pos].append(alias)
    ctx.cell('alias:' + style)


def add_group(ch, ctx, U, label):
    k = len(U.gorder)
    name = f'G{k}'
    mem = ch.subset(f'{label}.members', list(range(U.n)), 1, U.n)
    ids = [ch.choice(f'{label}.m{i}', U.names_of[p]) for i, p in enumerate(mem)]
    mode = ch.choice(f'{label}.mode', ['none', 'mol', 'wt'])
    if mode == 'none':
        c = np.ones(len(mem))
        comp = None
    else:
        vals = ch.draw(f'{label}.comp', st.lists(COMPVAL, min_size=len(mem), max_size=len(mem)))
        if not any(vals): vals[0] = 1.0
        c = np.array(vals, float)
        if ch.bool(f'{label}.comp.array'):
            old = getattr(U, 'caller_arrays', {}).get(len(vals))
            if old is not None and ch.bool(f'{label}.comp.reuse'):
                comp = old; comp[:] = vals          # the caller recycles the array it passed for an earlier group
                ctx.cell('group:array-reused')
            else:
                comp = np.array(vals, float)
        else:
            comp = list(vals)
    if ch.bool(f'{label}.ids.tuple'): ids = tuple(ids)
    kw = {}
    if mode == 'wt': kw['wt'] = True
    if comp is None and ch.bool(f'{label}.explicit_none'): kw['composition'] = None
    if comp is not None: kw['composition'] = comp
    ctx.call('define_group', U.chems.define_group, name, ids, region=f'mode={mode}', **kw)
    if isinstance(comp, np.ndarray):
        if not np.array_equal(comp, c):
            ctx.fail(f'define_group|mode={mode},comp=array|argument-modified',
                     f'composition array passed as {c.tolist()} is {comp.tolist()} after define_group')
        # the caller goes on using its array; the group must keep the composition given at definition time
        comp[:] = 7.0 * np.arange(1, len(comp) + 1)
        if not hasattr(U, 'caller_arrays'): U.caller_arrays = {}
        U.caller_arrays[len(comp)] = comp
    elif isinstance(comp, list) and comp != list(c):
        ctx.fail(f'define_group|mode={mode},comp=list|argument-modified', f'composition list changed to {comp}')
    MW = U.MW[mem]
    if mode == 'wt':
        wtc = c / c.sum(); m = c / MW; molc = m / m.sum()
    else:
        molc = c / c.sum(); w = c * MW; wtc = w / w.sum()
    U.groups[name] = (list(mem), molc, wtc)
    U.gorder.append(name)
    ctx.cell('group:' + mode)


def verify_names(ctx, U, region):
    chems = U.chems
    for name, pos in U.names.items():
        got = ctx.call('index', chems.index, name, region=region)
        if got != pos or isinstance(got, bool):
            ctx.fail(f'index|{region}|mismatch', f'{name!r} -> {got!r}, expected {pos}')
    allnames = list(U.names)
    got = ctx.call('indices', chems.indices, allnames, region=region)
    if list(got) != [U.names[x] for x in allnames]:
        ctx.fail(f'indices|{region}|mismatch', f'{allnames} -> {got}')
    for pos in range(U.n):
        got = ctx.call('get_aliases', chems.get_aliases, U.names_of[pos][-1], region=region)
        if sorted(got) != sorted(U.names_of[pos]):
            ctx.fail(f'get_aliases|{region}|mismatch', f'chemical {pos}: {sorted(got)} != {sorted(U.names_of[pos])}')
        for nm in U.names_of[pos]:
            if nm not in chems or getattr(chems, nm, None) is not chems.tuple[pos]:
                ctx.fail(f'attribute|{region}|mismatch', f'chemicals.{nm} is not chemical {pos}')
    for g in U.gorder:
        got = ctx.call('get_index', chems.get_index, g, region=region)
        if list(got) != U.groups[g][0]:
            ctx.fail(f'get_index|{region},group|mismatch', f'{g}: {got} != {U.groups[g][0]}')


# ---------------------------------------------------------------------------
# keys
# ---------------------------------------------------------------------------
def draw_name(ch, label, U, pos=None):
    if pos is None:
        pos = ch.int(f'{label}.pos', 0, U.n - 1)
    return ('name', pos, ch.choice(f'{label}.name', U.names_of[pos]))


def draw_ckey(ch, label, U, write, allow_all=True, forms=None):
    if forms is None:
        forms = ['name', 'seq'] + (['group', 'nested'] if U.gorder else []) + (['all'] if allow_all else [])
    form = ch.choice(f'{label}.form', forms)
    if form == 'name': return draw_name(ch, label, U)
    if form == 'group': return ('group', ch.choice(f'{label}.group', U.gorder))
    if form == 'all': return ('all',)
    container = ch.choice(f'{label}.container', ['tuple', 'list'])
    L = ch.int(f'{label}.len', 1, 6)
    used = set()
    first = None
    if form == 'nested':
        g = ch.choice(f'{label}.group', U.gorder)
        first = ('group', g)
        used.update(U.groups[g][0])
        L -= 1
    elems = []
    for e in range(L):
        if write:
            cc = [p for p in range(U.n) if p not in used]
            cg = [g for g in U.gorder if not (used & set(U.groups[g][0]))] if form == 'nested' else []
        else:
            cc = list(range(U.n))
            cg = list(U.gorder) if form == 'nested' else []
        if not cc and not cg: break
        if cg and (not cc or ch.int(f'{label}.e{e}.isgroup', 0, 2) == 0):
            g = ch.choice(f'{label}.e{e}.group', cg)
            elems.append(('group', g)); used.update(U.groups[g][0])
        else:
            p = ch.choice(f'{label}.e{e}.pos', cc)
            elems.append(draw_name(ch, f'{label}.e{e}', U, p)); used.add(p)
    if first is not None:
        at = ch.int(f'{label}.gslot', 0, len(elems))
        elems.insert(at, first)
    return ('seq', container, elems)


def ck_kind(ck):
    if ck is None: return '-'
    if ck[0] == 'seq':
        return 'nested' if any(e[0] == 'group' for e in ck[2]) else 'seq'
    return ck[0]


def ck_py(ck):
    t = ck[0]
    if t == 'name': return ck[2]
    if t == 'group': return ck[1]
    if t == 'all': return ...
    items = [e[2] if e[0] == 'name' else e[1] for e in ck[2]]
    return tuple(items) if ck[1] == 'tuple' else items


def ck_shape(ck):
    """Structural summary for distinctness (no names)."""
    if ck is None: return None
    if ck[0] == 'seq':
        return [ck[1], ['g' if e[0] == 'group' else 'c' for e in ck[2]]]
    return ck[0]


def draw_phase(ch, label, phases):
    p = ch.choice(f'{label}.phase', list(phases))
    row = phases.index(p)
    alt = p.swapcase()
    if alt not in phases and ch.int(f'{label}.swapcase', 0, 2) == 0:
        return alt, row, True
    return p, row, False


def draw_mkey(ch, label, U, phases, write, allow_pall=True, pforms=None):
    """Key for multi-phase data: (pform, phase string|None, row|None, ckey|None)."""
    pform = ch.choice(f'{label}.pform', pforms or ['sum', 'phase', 'pk', 'pk', 'allp'])
    if pform == 'sum':
        return ('sum', None, None, draw_ckey(ch, label, U, write))
    if pform == 'phase':
        p, row, sw = draw_phase(ch, label, phases)
        return ('phase', p, row, None)
    if pform == 'pk':
        p, row, sw = draw_phase(ch, label, phases)
        return ('pk', p, row, draw_ckey(ch, label, U, write, allow_all=allow_pall))
    return ('allp', None, None, draw_ckey(ch, label, U, write, allow_all=allow_pall))


def mk_py(mk):
    pform, p, row, ck = mk
    if pform == 'single' or pform == 'sum': return ck_py(ck)
    if pform == 'phase': return p
    if pform == 'pk': return (p, ck_py(ck))
    return (..., ck_py(ck))


def canon_key(key):
    if isinstance(key, (list, tuple)): return tuple(canon_key(k) for k in key)
    return '...' if key is ... else key


# ---------------------------------------------------------------------------
# the reference model
# ---------------------------------------------------------------------------
def ck_read(U, row, ck, fl):
    t = ck[0]
    if t == 'name': return float(row[ck[1]])
    if t == 'group': return math.fsum(row[i] for i in U.groups[ck[1]][0])
    if t == 'all': return np.array(row, float)
    return np.array([ck_read(U, row, e, fl) for e in ck[2]], float)


def ck_read_sum(U, F, ck):
    """Chemical key without a phase on multi-phase data: sums over the rows."""
    t = ck[0]
    P = F.shape[0]
    if t == 'name': return math.fsum(F[p][ck[1]] for p in range(P))
    if t == 'group': return math.fsum(F[p][i] for i in U.groups[ck[1]][0] for p in range(P))
    if t == 'all': return np.array([math.fsum(F[:, i]) for i in range(F.shape[1])], float)
    return np.array([ck_read_sum(U, F, e) for e in ck[2]], float)


def model_read(U, F, mk):
    """F: phases x chemicals array in the units of the view."""
    pform, p, row, ck = mk
    if pform == 'single': return ck_read(U, F[0], ck, None)
    if pform == 'sum': return ck_read_sum(U, F, ck)
    if pform == 'phase': return np.array(F[row], float)
    if pform == 'pk': return ck_read(U, F[row], ck, None)
    return np.array([ck_read(U, F[r], ck, None) for r in range(F.shape[0])], float)


def assignments(U, ck, data, scalar, fl):
    """[(position, value in view units)] for writing data through a chemical key."""
    t = ck[0]
    ci = 2 if fl == 'mass' else 1
    if t == 'name': return [(ck[1], float(data))]
    if t == 'group':
        mem = U.groups[ck[1]][0]
        if scalar: return [(m, float(data * c)) for m, c in zip(mem, U.groups[ck[1]][ci])]
        return [(m, float(v)) for m, v in zip(mem, data)]
    if t == 'all':
        if scalar: return [(i, float(data)) for i in range(U.n)]
        return [(i, float(v)) for i, v in enumerate(data)]
    out = []
    for k, e in enumerate(ck[2]):
        v = data if scalar else data[k]
        out.extend(assignments(U, e, v, True, fl))
    return out


def to_dense(x):
    if hasattr(x, 'to_array'): x = x.to_array()
    a = np.asarray(x)
    if a.dtype == object: raise TypeError('object array')
    return np.asarray(a, float)


class Str:
    """A real stream and its model (molar, phases x chemicals)."""

    def __init__(self, U, kind, phases, flows):
        self.U = U
        self.kind = kind
        self.phases = tuple(sorted(set(phases)))
        if kind == 'S':
            self.stream = tmo.Stream(None, phase=phases[0], thermo=U.thermo)
            rows = [self.stream.imol.data]
        else:
            self.stream = tmo.MultiStream(None, phases=tuple(phases), thermo=U.thermo)
            rows = self.stream.imol.data.rows
        self.model = np.zeros((len(self.phases), U.n))
        for r, (row, vals) in enumerate(zip(rows, flows)):
            for i, v in enumerate(vals):
                if v:
                    row.dct[i] = float(v)
                    self.model[r, i] = float(v)
        self.version = 0

    def ix(self, fl):
        return self.stream.imol if fl == 'mol' else self.stream.imass

    def view(self, fl):
        return self.model * self.U.MW if fl == 'mass' else self.model.copy()

    def scale(self, fl):
        return float(np.max(np.abs(self.view(fl)))) if self.model.size else 1.0

    def set_view(self, fl, r, pos, value):
        self.model[r, pos] = value / self.U.MW[pos] if fl == 'mass' else value


def draw_stream(ch, label, U, kind=None, phases=None):
    if kind is None:
        kind = ch.choice(f'{label}.kind', ['S', 'M', 'M'])
    if phases is None:
        if kind == 'S':
            phases = [ch.choice(f'{label}.phase', ALL_PHASES)]
        else:
            phases = ch.subset(f'{label}.phases', ALL_PHASES, 1, 5)
    phases = sorted(set(phases))
    flows = []
    for p in phases:
        if ch.int(f'{label}.{p}.empty', 0, 3) == 0:
            flows.append([0.0] * U.n)
        else:
            flows.append(ch.draw(f'{label}.{p}.flow', st.lists(VAL, min_size=U.n, max_size=U.n)))
    return Str(U, kind, phases, flows)


def compare(ctx, got, want, sig, what, scale=1.0):
    """|got - want| <= 1e-12 * max(1, largest model entry, largest expected entry) (DESIGN.md section 4)."""
    try:
        g = to_dense(got)
    except Exception as e:
        ctx.fail(sig + '|badtype', f'{what}: result {type(got).__name__} not numeric ({e})')
    w = np.asarray(want, float)
    if g.shape != w.shape:
        ctx.fail(sig + '|shape', f'{what}: shape {g.shape} != {w.shape}; got {g.tolist()} want {w.tolist()}')
    if g.size:
        err = float(np.max(np.abs(g - w)))
        scale = max(1.0, scale, float(np.max(np.abs(w))))
        ctx.metric_max('rel_err', err / scale)
        if not err <= RTOL * scale:
            ctx.fail(sig + '|mismatch', f'{what}: got {g.tolist()} want {w.tolist()}')
    return g


def check_data(ctx, S, fl, sig, what):
    compare(ctx, S.stream.imol.data, S.model if S.kind == 'M' else S.model[0], sig, what + ' (molar data)',
            S.scale('mol'))
    if fl == 'mass':
        v = S.view('mass')
        compare(ctx, S.stream.imass.data, v if S.kind == 'M' else v[0], sig, what + ' (mass data)', S.scale('mass'))


def key_region(S, fl, mk, data='-', ev=''):
    pform = mk[0]
    pk = 'none' if pform == 'single' else pform
    return f'ix={S.kind},fl={fl},pk={pk},ck={ck_kind(mk[3])},data={data}{ev}'


def draw_single_or_mkey(ch, label, S, write, allow_pall=True, pforms=None):
    if S.kind == 'S':
        return ('single', None, None, draw_ckey(ch, label, S.U, write))
    return draw_mkey(ch, label, S.U, S.phases, write, allow_pall, pforms)


# own conversion factors (requested unit per base unit kmol/hr resp. kg/hr)
UNITS = {'mol': {'kmol/hr': 1.0, 'mol/hr': 1000.0, 'mol/s': 1000.0 / 3600.0, 'kmol/s': 1.0 / 3600.0,
                 'lbmol/hr': 1.0 / 0.45359237},
         'mass': {'kg/hr': 1.0, 'g/hr': 1000.0, 'kg/s': 1.0 / 3600.0, 'tonne/day': 24.0 / 1000.0,
                  'lb/hr': 1.0 / 0.45359237}}


def draw_api(ch, label, fl, key):
    """None = indexer[key]; otherwise (units, factor, components) for get_data/set_data(units, *components)."""
    if ch.choice(f'{label}.api', ['item', 'item', 'data']) == 'item': return None
    units = ch.choice(f'{label}.units', list(UNITS[fl]))
    comps = (key,)
    if isinstance(key, (tuple, list)) and len(key) >= 2 and \
            ch.choice(f'{label}.comps', ['one', 'several', 'several']) == 'several':
        comps = tuple(key)
    return units, UNITS[fl][units], comps


def api_tag(api):
    return '' if api is None else f',api={min(len(api[2]), 2)}'


def do_read(ctx, S, fl, mk, ev='', site='read', api=None):
    region = key_region(S, fl, mk, ev=api_tag(api) + ev)
    key = mk_py(mk)
    want = model_read(S.U, S.view(fl), mk)
    scale = S.scale(fl)
    if api is None:
        got = ctx.call(site, S.ix(fl).__getitem__, key, region=region)
    else:
        units, factor, comps = api
        got = ctx.call(site, S.ix(fl).get_data, units, *comps, region=region)
        want = np.asarray(want, float) * factor
        scale *= factor
    g = compare(ctx, got, want, f'{site}|{region}', f'read {key!r}' + (f' in {api[0]}' if api else ''), scale)
    return g


# ---------------------------------------------------------------------------
# writes
# ---------------------------------------------------------------------------
def wrap_scalar(ch, label, v):
    forms = ['float', 'np']
    if float(v).is_integer() and abs(v) < 2 ** 53: forms.append('int')
    f = ch.choice(f'{label}.sform', forms)
    return {'float': float, 'np': np.float64, 'int': int}[f](v)


def wrap_vector(ch, label, vals, allow_sparse=False):
    forms = ['list', 'tuple', 'array'] + (['sparse'] if allow_sparse else [])
    f = ch.choice(f'{label}.vform', forms)
    if f == 'list': return list(vals), f
    if f == 'tuple': return tuple(vals), f
    if f == 'array': return np.array(vals, float), f
    return SparseVector(np.array(vals, float)), f


def draw_write(ch, label, S, fl, mk, hist=False, ctx=None):
    """Draw data for the key; return (data object, data tag, [(row, pos, value)] or None if IndexError expected)."""
    U = S.U
    pform, p, row, ck = mk
    P = len(S.phases)
    kind = ck_kind(ck)
    if pform == 'sum':
        v = ch.draw(f'{label}.value', VAL)
        return wrap_scalar(ch, label, v), 'scalar', None
    if pform in ('single', 'pk', 'phase'):
        r = 0 if pform == 'single' else row
        if pform == 'phase': ck = ('all',); kind = 'all'
        if kind == 'name':
            dforms = ['scalar']
        else:
            dforms = ['scalar', 'vector']
        dform = ch.choice(f'{label}.dform', dforms)
        if dform == 'scalar':
            v = ch.draw(f'{label}.value', VAL)
            return wrap_scalar(ch, label, v), 'scalar', [(r, i, x) for i, x in assignments(U, ck, v, True, fl)]
        L = {'group': lambda: len(U.groups[ck[1]][0]), 'all': lambda: U.n}.get(kind, lambda: len(ck[2]))()
        vals = ch.draw(f'{label}.values', st.lists(VAL, min_size=L, max_size=L))
        data, vf = wrap_vector(ch, label, vals, allow_sparse=(kind == 'all'))
        return data, 'vector' if vf != 'sparse' else 'sparse', [(r, i, x) for i, x in assignments(U, ck, vals, False, fl)]
    # allp
    if kind == 'name': dforms = ['scalar', 'perphase']
    elif kind == 'group': dforms = ['scalar']
    elif kind == 'all': dforms = ['scalar', 'vector']
    elif kind == 'nested' and hist:
        # scalar data on (..., nested) raises before touching the data (finding F4, covered by the key check)
        dforms = ['vector']; ctx.cell('avoided:allp-nested-scalar')
    elif kind == 'nested': dforms = ['scalar', 'vector']    # 2-d data with groups has no stated meaning
    else: dforms = ['scalar', 'vector', '2d']
    dform = ch.choice(f'{label}.dform', dforms)
    if dform == 'scalar':
        v = ch.draw(f'{label}.value', VAL)
        a = assignments(U, ck, v, True, fl)
        return wrap_scalar(ch, label, v), 'scalar', [(r, i, x) for r in range(P) for i, x in a]
    if dform == 'perphase':
        vals = ch.draw(f'{label}.values', st.lists(VAL, min_size=P, max_size=P))
        data, _ = wrap_vector(ch, label, vals)
        return data, 'perphase', [(r, ck[1], float(vals[r])) for r in range(P)]
    L = U.n if kind == 'all' else len(ck[2])
    if dform == 'vector':
        vals = ch.draw(f'{label}.values', st.lists(VAL, min_size=L, max_size=L))
        data, _ = wrap_vector(ch, label, vals)
        a = assignments(U, ck, vals, False, fl)
        return data, 'vector', [(r, i, x) for r in range(P) for i, x in a]
    rows = [ch.draw(f'{label}.values{r}', st.lists(VAL, min_size=L, max_size=L)) for r in range(P)]
    out = []
    for r in range(P):
        out.extend((r, i, x) for i, x in assignments(U, ck, rows[r], False, fl))
    data = np.array(rows, float) if ch.bool(f'{label}.2d.array') else [list(r) for r in rows]
    return data, '2d', out


def do_write(ch, ctx, label, S, fl, mk, ev='', hist=False, api=None):
    data, dtag, assign = draw_write(ch, label, S, fl, mk, hist, ctx)
    if dtag == 'sparse': api = None
    region = key_region(S, fl, mk, data=dtag, ev=api_tag(api) + ev)
    key = mk_py(mk)
    ix = S.ix(fl)
    if api is None:
        setter = lambda: ix.__setitem__(key, data)
    else:
        units, factor, comps = api
        shown = data * factor if dtag == 'scalar' else np.asarray(data, float) * factor   # the same flows in `units`
        setter = lambda: ix.set_data(shown, units, *comps)
    if assign is None:
        try:
            ctx.call('write', setter, allowed=(IndexError,), region=region)
        except IndexError:
            check_data(ctx, S, fl, f'write|{region}', f'refused write {key!r} changed the data')
            return region, dtag
        ctx.fail(f'write|{region}|accepted', f'write {key!r} without a phase on multi-phase data was accepted')
    ctx.call('write', setter, region=region)
    for r, pos, value in assign:
        S.set_view(fl, r, pos, value)
    S.version += 1
    check_data(ctx, S, fl, f'write|{region}', f'after write {key!r} = {data!r}')
    return region, dtag


# ---------------------------------------------------------------------------
# check 1: one key on one fresh indexer (stateless)
# ---------------------------------------------------------------------------
def prop_key(ch, ctx):
    U = build_universe(ch, ctx, 'u')
    S = draw_stream(ch, 's', U)
    fl = ch.choice('view', ['mol', 'mol', 'mass'])
    write = ch.bool('write')
    mk = draw_single_or_mkey(ch, 'k', S, write)
    ctx.cell(f'key:ix={S.kind}'); ctx.cell(f'key:pk={mk[0]}'); ctx.cell(f'key:ck={ck_kind(mk[3])}')
    ctx.cell(f'key:fl={fl}')
    if mk[1] is not None and mk[1] not in S.phases: ctx.cell('key:swapcase')
    if mk[0] in ('pk', 'allp') and mk[3][0] == 'all': ctx.cell('key:region=phase-ellipsis')
    dtag = None
    trivial = mk[3] is not None and mk[3][0] == 'name' and mk[3][2] == U.ids[mk[3][1]] and mk[0] == 'single'
    if not trivial:
        ctx.nontriv(['key', S.kind, list(S.phases), fl, mk[0], ck_shape(mk[3]), write,
                     [[1 if v else 0 for v in r] for r in S.model.tolist()]])
    rapi = draw_api(ch, 'r', fl, mk_py(mk))
    if rapi: ctx.cell(f'key:get_data{api_tag(rapi)}')
    if not write or ch.bool('read_first'):
        do_read(ctx, S, fl, mk, api=rapi)
        check_data(ctx, S, fl, f'read|{key_region(S, fl, mk)}', 'data changed by a read')
    if write:
        wapi = draw_api(ch, 'w', fl, mk_py(mk))
        if wapi: ctx.cell(f'key:set_data{api_tag(wapi)}')
        region, dtag = do_write(ch, ctx, 'w', S, fl, mk, api=wapi)
        ctx.cell(f'key:data={dtag}')
        if mk[0] != 'sum':
            do_read(ctx, S, fl, mk, site='readback', api=rapi)
        whole = ('single', None, None, ('all',)) if S.kind == 'S' else ('sum', None, None, ('all',))
        do_read(ctx, S, fl, whole, site='readback')
    # no index component at all: the whole data in the requested units
    if ch.bool('whole_api'):
        units = ch.choice('whole.units', list(UNITS[fl]))
        factor = UNITS[fl][units]
        region = f'ix={S.kind},fl={fl},api=0'
        ix = S.ix(fl)
        if ch.bool('whole.write'):
            v = ch.draw('whole.value', VAL)
            ctx.call('write', ix.set_data, wrap_scalar(ch, 'whole', v) * factor, units, region=region)
            for r in range(len(S.phases)):
                for pos in range(U.n): S.set_view(fl, r, pos, v)
            check_data(ctx, S, fl, f'write|{region}', f'after set_data({v * factor!r}, {units!r})')
        got = ctx.call('read', ix.get_data, units, region=region)
        F = S.view(fl) * factor
        compare(ctx, got, F if S.kind == 'M' else F[0], f'read|{region}', f'get_data({units!r})', S.scale(fl) * factor)
        ctx.cell('key:api=0')


# ---------------------------------------------------------------------------
# check 2: names
# ---------------------------------------------------------------------------
def prop_names(ch, ctx):
    U = build_universe(ch, ctx, 'u')
    verify_names(ctx, U, 'fresh')
    # every name of one chemical reads and writes the same entry
    S = draw_stream(ch, 's', U, kind='S')
    pos = ch.int('pos', 0, U.n - 1)
    v = ch.draw('value', VAL)
    wname = ch.choice('wname', U.names_of[pos])
    ctx.call('write', S.stream.imol.__setitem__, wname, v, region='names')
    S.model[0, pos] = v
    for nm in U.names_of[pos]:
        got = ctx.call('read', S.stream.imol.__getitem__, nm, region='names')
        if got != v:
            ctx.fail('read|names|mismatch', f'written through {wname!r}={v!r}, read through {nm!r} gives {got!r}')
    check_data(ctx, S, 'mol', 'write|names', f'write through {wname!r}')
    # an unknown name is refused with the documented exception
    for bad in ('no such chemical', 'G9'):
        try:
            ctx.call('read', S.stream.imol.__getitem__, bad, allowed=(UndefinedChemicalAlias,), region='unknown')
        except UndefinedChemicalAlias:
            pass
        else:
            ctx.fail('read|unknown|accepted', f'unknown name {bad!r} accepted')
    if U.n > 1 or U.gorder or U.nalias:
        ctx.nontriv(['names', U.n, U.style, U.nalias, len(U.gorder), sorted(len(x) for x in U.names_of)])


# ---------------------------------------------------------------------------
# check 3: histories
# ---------------------------------------------------------------------------
def nth_tuple(atoms, m):
    """Bijective base-N numeration: m = 0, 1, 2, ... -> distinct non-empty tuples over atoms."""
    N = len(atoms)
    out = []
    m += 1
    while m > 0:
        m, r = divmod(m - 1, N)
        out.append(atoms[r])
    return out


class World:
    def __init__(self):
        self.unis = []
        self.others = []        # sender packages of cross-package operations
        self.streams = []
        self.memo = []
        self.chem_keys = {}     # id(U) -> set of canonical chemical keys looked up
        self.mat_keys = {}      # (phases, id(U)) -> set of canonical keys looked up
        self.last_cas = {}      # id(U) -> CAS tuple cached by the last cross-package operation
        self.xcas = {}          # id(U) -> set of CAS tuples looked up by cross-package operations so far
        self.ops = []

    def note(self, S, mk, ctx):
        key = mk_py(mk)
        ck = mk[3]
        if ck is not None:
            s = self.chem_keys.setdefault(id(S.U), set())
            s.add(canon_key(ck_py(ck)))
            if len(s) == 101: ctx.cell('hist:ev100')
        if S.kind == 'M':
            s = self.mat_keys.setdefault((S.phases, id(S.U)), set())
            s.add(canon_key(key))
            if len(s) == 501: ctx.cell('hist:crossed500')

    def ev(self, S):
        e100 = int(len(self.chem_keys.get(id(S.U), ())) > 100)
        e500 = int(S.kind == 'M' and len(self.mat_keys.get((S.phases, id(S.U)), ())) > 500)
        return e100, e500

    def evtag(self, S, mk=None):
        e100, e500 = self.ev(S)
        x = ''
        if mk is not None and mk[3] is not None and canon_key(ck_py(mk[3])) in self.xcas.get(id(S.U), ()):
            x = ',xcas=1'   # the chemical key is a CAS tuple that a cross-package operation looked up before
        return f',ev100={e100},ev500={e500}{x}'


def remember(W, si, fl, mk, g, limit=60):
    if len(W.memo) < limit:
        W.memo.append((si, fl, mk, g.copy(), W.streams[si].version))


def op_bulk(ch, ctx, W, label, big):
    si = ch.int(f'{label}.stream', 0, len(W.streams) - 1)
    S = W.streams[si]
    U = S.U
    n = ch.int(f'{label}.n', 50, 700 if big else 150)
    start = ch.int(f'{label}.start', 0, 1500)
    fl = 'mol'
    atoms = []
    for pos in range(U.n):
        atoms.extend(('name', pos, nm) for nm in U.names_of[pos])
    atoms.extend(('group', g) for g in U.gorder)
    if len(atoms) == 1:     # a single name: tuple m is that name m+1 times, keep the tuples short
        n = min(n, 60); start = min(start, 60)
    if S.kind == 'M':
        form = ch.choice(f'{label}.form', ['sum', 'pk', 'allp', 'mixed'])
        prow = ch.int(f'{label}.row', 0, len(S.phases) - 1)
    else:
        form = 'single'
    F = S.view(fl)
    scale = S.scale(fl)
    ix = S.ix(fl)
    for j in range(n):
        m = start + j
        ck = ('seq', 'tuple', nth_tuple(atoms, m))
        f = form if form != 'mixed' else ('sum', 'pk', 'allp')[m % 3]
        if f == 'pk':
            r = (prow + m) % len(S.phases) if form == 'mixed' else prow
            mk = ('pk', S.phases[r], r, ck)
        else:
            mk = (f, None, None, ck)
        W.note(S, mk, ctx)
        region = f'ix={S.kind},form={f}' + W.evtag(S, mk)
        key = mk_py(mk)
        got = ctx.call('bulk', ix.__getitem__, key, region=region)
        want = model_read(U, F, mk)
        g = compare(ctx, got, want, f'bulk|{region}', f'read {key!r}', scale)
        if j % 97 == 0:
            remember(W, si, fl, mk, g)
    check_data(ctx, S, fl, f'bulk|ix={S.kind},form={form}', 'data changed by bulk reads')
    return [form, n > 100, n > 500]


def draw_other(ch, ctx, label, W, S, method):
    """A single-phase sender: on the receiver's own package, or on another package holding the receiver's
    chemicals (a subset, in another order, maybe other IDs) plus up to two chemicals the receiver does not know
    (always with zero flow, so the operation stays admissible).  For copy_like/mix_from onto multi-phase data the
    sender's phase may be one the receiver lacks (the receiver then grows that phase)."""
    U = S.U
    if S.kind == 'M':
        known = [p for p in ALL_PHASES if p in S.phases or p.swapcase() in S.phases]
        cands = list(S.phases) + [p for p in known if p not in S.phases]
        if method != 'separate_out': cands += [p for p in ALL_PHASES if p not in known]
    else:
        cands = ALL_PHASES
    if ch.bool(f'{label}.samepkg'):
        phase = ch.choice(f'{label}.phase', cands)
        flows = ch.draw(f'{label}.flow', st.lists(VAL, min_size=U.n, max_size=U.n))
        return U, Str(U, 'S', [phase], [flows]), phase, list(flows)
    sub = ch.subset(f'{label}.chems', U.members, 1, U.n)
    style = ch.choice(f'{label}.idstyle', ['db', 'prefixed', 'spaced'])
    phase = ch.choice(f'{label}.phase', cands)
    flows = ch.draw(f'{label}.flow', st.lists(VAL, min_size=len(sub), max_size=len(sub)))
    members = list(sub); flows = list(flows)
    room = min(2, 8 - len(members))
    extra = ch.subset(f'{label}.extra', [m for m in POOL if m not in U.members], 0, room) if room > 0 else []
    for k, m in enumerate(extra):
        at = ch.int(f'{label}.extra{k}.at', 0, len(members))
        members.insert(at, m); flows.insert(at, 0.0)
    O = base_universe(ctx, label, members, style)
    T = Str(O, 'S', [phase], [flows])
    return O, T, phase, flows


def expect_undefined_phase(ctx, X, key, region):
    try:
        ctx.call('read', X.stream.imol.__getitem__, key, allowed=(UndefinedPhase, UndefinedChemicalAlias), region=region)
    except (UndefinedPhase, UndefinedChemicalAlias):
        return
    ctx.fail(f'read|{region}|accepted', f'{key!r} answered on phases {X.phases}')


def cas_key(X, cas, container):
    return ('seq', container, [('name', X.names[c], c) for c in cas])


def cas_mkey(ch, label, X, cas, container, write):
    """The exact CAS tuple/list as a key for stream X (with a phase part on multi-phase data)."""
    ck = cas_key(X.U, cas, container)
    if X.kind == 'S':
        return ('single', None, None, ck)
    pf = ch.choice(f'{label}.pform', ['pk', 'allp'] if write else ['sum', 'pk', 'allp'])
    if pf == 'pk':
        p, row, sw = draw_phase(ch, label, X.phases)
        return ('pk', p, row, ck)
    return (pf, None, None, ck)


def probe(ch, ctx, W, label, X, cas, side):
    """Read and/or write stream X through exactly the CAS tuple (or list) a cross-package operation looked up."""
    how = ch.choice(f'{label}.how', ['none', 'read', 'write', 'both', 'read'])
    if how == 'none': return how
    container = ch.choice(f'{label}.container', ['tuple', 'list'])
    if how in ('read', 'both'):
        mk = cas_mkey(ch, f'{label}.r', X, cas, container, False)
        W.note(X, mk, ctx)
        do_read(ctx, X, 'mol', mk, ev=f',side={side}' + W.evtag(X, mk), site='casread')
    if how in ('write', 'both'):
        mk = cas_mkey(ch, f'{label}.w', X, cas, container, True)
        W.note(X, mk, ctx)
        do_write(ch, ctx, f'{label}.w', X, 'mol', mk, ev=f',side={side}' + W.evtag(X, mk), hist=True)
        do_read(ctx, X, 'mol', mk, ev=f',side={side}' + W.evtag(X, mk), site='casread')
    ctx.cell(f'hist:probe={side}')
    return how


def op_xcopy(ch, ctx, W, label):
    si = ch.int(f'{label}.stream', 0, len(W.streams) - 1)
    S = W.streams[si]
    U = S.U
    method = ch.choice(f'{label}.method', ['copy_like', 'copy_like', 'separate_out', 'mix_from'])
    O, T, phase, flows = draw_other(ch, ctx, label, W, S, method)
    same_pkg = O is U
    if not same_pkg: W.others.append(O)
    grows = S.kind == 'M' and phase not in S.phases and phase.swapcase() not in S.phases
    old_phases = S.phases
    if grows:
        # lookups with a phase part right before the receiver grows a phase: they fill the (old phases, package) cache
        for r, p in enumerate(old_phases):
            for mk in (('phase', p, r, None), ('pk', p, r, ('name', 0, U.ids[0])), ('pk', p, r, ('seq', 'tuple', [('name', U.n - 1, U.cas[-1])]))):
                W.note(S, mk, ctx)
                g = do_read(ctx, S, 'mol', mk, ev=',before=grow' + W.evtag(S, mk))
                remember(W, si, 'mol', mk, g, limit=80)
    # the CAS numbers of the sender's non-zero entries in stored (= ascending) order
    cas = tuple(O.cas[j] for j, v in enumerate(flows) if v)
    pre = ch.choice(f'{label}.preread', ['no', 'tuple', 'list', 'recv-tuple'])
    if cas and pre != 'no':
        # a lookup of the very same CAS key before the operation, on the sender or on the receiver package
        if pre == 'recv-tuple':
            mk = cas_mkey(ch, f'{label}.pre', S, cas, 'tuple', False)
            W.note(S, mk, ctx)
            do_read(ctx, S, 'mol', mk, ev=',side=recv-pre' + W.evtag(S, mk), site='casread')
        else:
            mk = cas_mkey(ch, f'{label}.pre', T, cas, pre, False)
            W.note(T, mk, ctx)
            do_read(ctx, T, 'mol', mk, ev=',side=send-pre' + W.evtag(T, mk), site='casread')
    region = f'recv={S.kind},method={method}' + W.evtag(S)
    recv = S.stream.imol
    if method == 'mix_from':
        ctx.call('xcopy', recv.mix_from, [T.stream.imol], region=region)
    else:
        ctx.call('xcopy', getattr(recv, method), T.stream.imol, region=region)
    if grows:
        # the receiver now has the union of the phases, rows in sorted order, the new row empty
        new_phases = tuple(sorted(set(old_phases) | {phase}))
        model = np.zeros((len(new_phases), U.n))
        for r0, p in enumerate(old_phases): model[new_phases.index(p)] = S.model[r0]
        S.model = model; S.phases = new_phases
        got = tuple(S.stream.imol.phases)
        if got != new_phases:
            ctx.fail(f'xcopy|{region}|phases', f'phases {got} after receiving phase {phase!r} on {old_phases}')
        ctx.cell('hist:xcopy-grows-phase'); ctx.cell('hist:xcopy-grows=' + ('same-pkg' if same_pkg else 'other-pkg'))
    if S.kind == 'M':
        r = S.phases.index(phase) if phase in S.phases else S.phases.index(phase.swapcase())
    else:
        r = 0
    pos_of = {c: i for i, c in enumerate(U.cas)}
    if method in ('copy_like', 'mix_from'):
        S.model[:] = 0.0
        for j, v in enumerate(flows):
            if v: S.model[r, pos_of[O.cas[j]]] = float(v)
    else:
        for j, v in enumerate(flows):
            if v: S.model[r, pos_of[O.cas[j]]] -= float(v)
    S.version += 1
    check_data(ctx, S, 'mol', f'xcopy|{region}', f'after {method} from a stream of another package')
    check_data(ctx, T, 'mol', f'xcopy|{region},sender', f'sender changed by {method}')
    hows = []
    if grows:
        # every earlier key of the grown stream again, and a fresh stream on the old phases: earlier keys answer
        # from its (empty) data and the new phase is unknown there
        for k, m in enumerate(W.memo):
            if m[0] == si: reread(ctx, W, k, 'grown')
        F = Str(U, 'M', list(old_phases), [[0.0] * U.n for _ in old_phases])
        fi = len(W.streams)
        W.streams.append(F)
        for k, m in enumerate(list(W.memo)):
            if m[0] == si and m[1] == 'mol':
                mk2 = translate(m[2], F)
                if mk2 is not None:
                    W.note(F, mk2, ctx)
                    do_read(ctx, F, 'mol', mk2, ev=',fresh=old-phases' + W.evtag(F, mk2), site='reread')
        expect_undefined_phase(ctx, F, phase, 'fresh=old-phases,key=phase')
        expect_undefined_phase(ctx, F, (phase, U.ids[0]), 'fresh=old-phases,key=pk')
        expect_undefined_phase(ctx, F, (phase, (U.cas[-1],)), 'fresh=old-phases,key=pk')
        if len(W.streams) > 7: W.streams.pop()
    if cas and same_pkg:
        hows.append(probe(ch, ctx, W, f'{label}.recv', S, cas, 'recv'))
    elif cas:
        for X in (S, T):
            W.last_cas[id(X.U)] = cas
            W.xcas.setdefault(id(X.U), set()).add(cas)
            W.chem_keys.setdefault(id(X.U), set()).add(cas)
        # the same key on the receiver, the sender, and a third stream of either package
        hows.append(probe(ch, ctx, W, f'{label}.recv', S, cas, 'recv'))
        hows.append(probe(ch, ctx, W, f'{label}.send', T, cas, 'send'))
        if ch.bool(f'{label}.third'):
            R3 = draw_stream(ch, f'{label}.recv3', U)
            T3 = draw_stream(ch, f'{label}.send3', O)
            hows.append(probe(ch, ctx, W, f'{label}.recv3p', R3, cas, 'recv3'))
            hows.append(probe(ch, ctx, W, f'{label}.send3p', T3, cas, 'send3'))
            check_data(ctx, R3, 'mol', 'xcopy|third', 'third receiver-package stream')
            check_data(ctx, T3, 'mol', 'xcopy|third', 'third sender-package stream')
        check_data(ctx, S, 'mol', f'xcopy|{region},probed', 'receiver after the probes')
        check_data(ctx, T, 'mol', f'xcopy|{region},probed', 'sender after the probes')
    if len(W.streams) < 6:
        W.streams.append(T)     # the sender lives on: later steps read, write, bulk-read and audit it too
    same_order = [c for c in U.cas if c in O.cas] == [c for c in O.cas if c in U.cas]
    if not same_pkg:
        ctx.cell('hist:xcopy-order=' + ('same' if same_order else 'different'))
        if len(O.members) > len([m for m in O.members if m in U.members]): ctx.cell('hist:xcopy-sender-has-extra')
    return [S.kind, method, len(cas), pre, hows, same_order, same_pkg, grows]


def op_casread(ch, ctx, W, label):
    """Read through the tuple of CAS numbers that the last cross-package operation looked up."""
    cands = [i for i, S in enumerate(W.streams) if id(S.U) in W.last_cas]
    if not cands: return None
    si = ch.choice(f'{label}.stream', cands)
    S = W.streams[si]
    U = S.U
    cas = W.last_cas[id(U)]
    ck = ('seq', 'tuple', [('name', U.names[c], c) for c in cas])
    if S.kind == 'S':
        mk = ('single', None, None, ck)
    else:
        pf = ch.choice(f'{label}.pform', ['sum', 'pk', 'allp'])
        if pf == 'pk':
            p, row, sw = draw_phase(ch, label, S.phases)
            mk = ('pk', p, row, ck)
        else:
            mk = (pf, None, None, ck)
    W.note(S, mk, ctx)
    mode = ch.choice(f'{label}.mode', ['read', 'read', 'write'])
    if mode == 'read':
        do_read(ctx, S, 'mol', mk, ev=W.evtag(S, mk), site='casread')
    else:
        do_write(ch, ctx, label, S, 'mol', mk, ev=W.evtag(S, mk), hist=True)
    return [S.kind, mk[0], mode]


def op_new(ch, ctx, W, label):
    si = ch.int(f'{label}.from', 0, len(W.streams) - 1)
    S0 = W.streams[si]
    kinds = ['same', 'copy', 'phases', 'single']
    if len(W.unis) > 1: kinds.append('twin')
    how = ch.choice(f'{label}.how', kinds)
    if how == 'same':
        S = draw_stream(ch, label, S0.U, kind=S0.kind, phases=list(S0.phases))
    elif how == 'copy':
        S = Str.__new__(Str)
        S.U = S0.U; S.kind = S0.kind; S.phases = S0.phases
        S.stream = ctx.call('new', S0.stream.copy, region='copy')
        S.model = S0.model.copy(); S.version = 0
    elif how == 'phases':
        S = draw_stream(ch, label, S0.U, kind='M')
    elif how == 'single':
        S = draw_stream(ch, label, S0.U, kind='S')
    else:
        other = [u for u in W.unis if u is not S0.U][0]
        S = draw_stream(ch, label, other, kind=S0.kind, phases=list(S0.phases))
    W.streams.append(S)
    ctx.cell(f'hist:new={how}')
    check_data(ctx, S, 'mol', f'new|how={how}', 'new stream')
    return [how, S.kind, list(S.phases)]


def audit(ctx, W):
    """White-box: every memoised entry must be what a fresh resolution of its key gives."""
    for U in W.unis + W.others:
        cache = U.chems._index_cache
        if len(cache) > 100:
            ctx.fail('audit|cache=chem100|oversize', f'{len(cache)} entries')
        items = sorted(cache.items(), key=lambda kv: entry_kind(kv[0], U) == 'castuple')  # stable
        for key, val in items:
            want = resolve(U, key)
            if want is None: continue
            if not same_index(val, want):
                ctx.fail(f'audit|cache=chem100,entry={entry_kind(key, U)}|mismatch',
                         f'{key!r} -> {val!r}, a fresh lookup gives {want!r}')
    for ckey, cache in list(tix.MaterialIndexer._index_caches.items()):
        if not (isinstance(ckey, tuple) and len(ckey) == 2): continue
        phases, chems = ckey
        U = next((u for u in W.unis + W.others if u.chems is chems), None)
        if U is None or not (isinstance(phases, tuple) and all(isinstance(p, str) for p in phases)): continue
        if len(cache) > 500:
            ctx.fail('audit|cache=material500|oversize', f'{len(cache)} entries')
        prow = {p: i for i, p in enumerate(phases)}
        for p in list(prow):
            prow.setdefault(p.swapcase(), prow[p])
        def mkind(key):
            ck = key
            if isinstance(key, tuple) and len(key) == 2 and (key[0] is ... or (isinstance(key[0], str) and key[0] in prow)):
                ck = key[1]
            return entry_kind(ck, U)
        items = sorted(cache.items(), key=lambda kv: mkind(kv[0]) == 'castuple')  # stable
        for key, val in items:
            want = resolve_material(U, prow, key)
            if want is None: continue
            ok = len(val) == 3 and val[2] == want[2] and val[1] == want[1] and _eq_index(val[0], want[0])
            if not ok:
                ctx.fail(f'audit|cache=material500,entry={mkind(key)}|mismatch',
                         f'{phases} {key!r} -> {val!r}, fresh lookup gives {want!r}')


def entry_kind(key, U):
    if isinstance(key, tuple) and all(k in U.cas for k in key): return 'castuple'
    return 'other'


def _eq_index(a, b):
    if isinstance(a, tuple) and isinstance(b, tuple):
        return len(a) == len(b) and all(_eq_index(x, y) for x, y in zip(a, b))
    if type(a) is not type(b): return False
    return a == b


def same_index(val, want):
    return len(val) == 2 and val[1] == want[1] and _eq_index(val[0], want[0])


def resolve(U, key):
    """(index, kind) of a chemical key by the own tables; None if the key is outside the grammar."""
    if key is ...: return (None, None)
    if isinstance(key, str):
        if key in U.names: return (U.names[key], 0)
        if key in U.groups: return (list(U.groups[key][0]), 1)
        return None
    if isinstance(key, tuple):
        idx = []
        kind = 3
        for k in key:
            if not isinstance(k, str): return None
            if k in U.names: idx.append(U.names[k])
            elif k in U.groups: idx.append(list(U.groups[k][0])); kind = 2
            else: return None
        return (idx, kind)
    return None


def resolve_material(U, prow, key):
    r = resolve(U, key)
    if r is not None: return (r[0], r[1], True)
    if isinstance(key, str):
        return (prow[key], None, False) if key in prow else None
    if isinstance(key, tuple) and len(key) == 2:
        p, ck = key
        if p is ...: pi = None
        elif isinstance(p, str) and p in prow: pi = prow[p]
        else: return None
        r = resolve(U, ck)
        if r is None: return None
        return ((pi, r[0]), r[1], False)
    return None


def prop_history(ch, ctx):
    W = World()
    U = build_universe(ch, ctx, 'u')
    W.unis.append(U)
    if ch.int('twin', 0, 2) == 0:
        W.unis.append(build_universe(ch, ctx, 'v', members=U.members, style=U.style))
    W.streams.append(draw_stream(ch, 's0', U))
    big = ch.bool('big_bulk')
    nsteps = ch.int('nsteps', 1, 40)
    ops = ['read'] * 6 + ['write'] * 5 + ['bulk'] * 3 + ['reread'] * 2 + ['new'] * 2 + ['xcopy'] * 2 + \
          ['casread'] * 2 + ['mirror'] * 3 + ['set_alias', 'define_group']
    flags = set()
    summary = []
    for step in range(nsteps):
        op = ch.choice(f'{step}.op', ops)
        label = f'{step}'
        if op in ('read', 'write'):
            si = ch.int(f'{label}.stream', 0, len(W.streams) - 1)
            S = W.streams[si]
            fl = ch.choice(f'{label}.view', ['mol', 'mol', 'mass'])
            pforms = ['sum', 'phase', 'pk', 'pk', 'allp'] if op == 'read' else ['phase', 'pk', 'pk', 'pk', 'allp', 'sum']
            mk = draw_single_or_mkey(ch, label, S, op == 'write', allow_pall=False, pforms=pforms)
            W.note(S, mk, ctx)
            ev = W.evtag(S, mk)
            api = draw_api(ch, label, fl, mk_py(mk))
            if api: ctx.cell(f'hist:api={min(len(api[2]), 2)}')
            if op == 'read':
                g = do_read(ctx, S, fl, mk, ev=ev, api=api)
                if api is None: remember(W, si, fl, mk, g)
                summary.append(['read', S.kind, fl, mk[0], ck_shape(mk[3]), ev])
            else:
                region, dtag = do_write(ch, ctx, label, S, fl, mk, ev=ev, hist=True, api=api)
                if ck_kind(mk[3]) in ('group', 'nested') and mk[0] != 'sum':
                    flags.add('write-group'); ctx.cell('hist:write-group')
                summary.append(['write', S.kind, fl, mk[0], ck_shape(mk[3]), dtag, ev])
        elif op == 'bulk':
            summary.append(['bulk'] + op_bulk(ch, ctx, W, label, big))
        elif op == 'reread':
            if W.memo:
                k = ch.int(f'{label}.memo', 0, len(W.memo) - 1)
                reread(ctx, W, k, 'mid')
                summary.append(['reread'])
        elif op == 'new':
            if len(W.streams) < 4:
                summary.append(['new'] + op_new(ch, ctx, W, label))
        elif op == 'xcopy':
            summary.append(['xcopy'] + op_xcopy(ch, ctx, W, label))
        elif op == 'casread':
            r = op_casread(ch, ctx, W, label)
            if r is not None: summary.append(['casread'] + r)
            else: continue
        elif op == 'mirror':
            r = op_mirror(ch, ctx, W, label)
            if r is None: continue
            summary.append(['mirror'] + r)
            if not r[2]: ctx.cell('hist:mirror=twin')
            elif not r[3]: ctx.cell('hist:mirror=phases')
        elif op == 'set_alias':
            Ux = W.unis[ch.int(f'{label}.uni', 0, len(W.unis) - 1)]
            add_alias(ch, ctx, Ux, label)
            summary.append(['set_alias'])
        elif op == 'define_group':
            Ux = W.unis[ch.int(f'{label}.uni', 0, len(W.unis) - 1)]
            if len(Ux.gorder) < 3:
                add_group(ch, ctx, Ux, label)
                summary.append(['define_group'])
            else:
                continue
        ctx.cell(f'hist:op={op}')
    # the end of the history: repeat memoised reads, resolve every name again, audit the caches
    for k in range(len(W.memo)):
        reread(ctx, W, k, 'end')
    for Ux in W.unis + W.others:
        verify_names(ctx, Ux, 'after-history')
    for S in W.streams:
        check_data(ctx, S, 'mass', 'final|data', 'final data')
    audit(ctx, W)
    overflow = any(len(v) > 100 for v in W.chem_keys.values()) or any(len(v) > 500 for v in W.mat_keys.values())
    if overflow or flags:
        ctx.nontriv(['history', summary])


def translate(mk, T):
    """The same Python key addressed to another stream; None when it is not a valid key there."""
    pform, p, row, ck = mk
    U = T.U

    def tr(c):
        if c is None: return None
        if c[0] == 'name': return ('name', U.names[c[2]], c[2]) if c[2] in U.names else False
        if c[0] == 'group': return c if c[1] in U.groups else False
        if c[0] == 'all': return c
        elems = [tr(e) for e in c[2]]
        return False if any(e is False for e in elems) else ('seq', c[1], elems)
    ck2 = tr(ck)
    if ck2 is False: return None
    if T.kind == 'S':
        return ('single', None, None, ck2) if pform in ('single', 'sum') else None
    if pform in ('single', 'sum'): return ('sum', None, None, ck2)
    if pform == 'allp': return ('allp', None, None, ck2)
    if p in T.phases: r = T.phases.index(p)
    elif p.swapcase() in T.phases: r = T.phases.index(p.swapcase())
    else: return None
    return (pform, p, r, ck2)


def op_mirror(ch, ctx, W, label):
    """Repeat an earlier key on another stream (other phases, other universe, other kind)."""
    if not W.memo or len(W.streams) < 2: return None
    k = ch.int(f'{label}.memo', 0, len(W.memo) - 1)
    si, fl, mk, first, version = W.memo[k]
    cands = [i for i, T in enumerate(W.streams) if i != si and translate(mk, T) is not None]
    if not cands: return None
    ti = ch.choice(f'{label}.to', cands)
    T = W.streams[ti]
    mk2 = translate(mk, T)
    W.note(T, mk2, ctx)
    g = do_read(ctx, T, fl, mk2, ev=W.evtag(T, mk2), site='mirror')
    remember(W, ti, fl, mk2, g)
    S = W.streams[si]
    return [S.kind, T.kind, S.U is T.U, S.phases == T.phases]


def reread(ctx, W, k, when):
    si, fl, mk, first, version = W.memo[k]
    S = W.streams[si]
    mk = translate(mk, S)       # same key; the row of its phase is looked up again (the stream may have grown a phase)
    ev = W.evtag(S, mk)
    g = do_read(ctx, S, fl, mk, ev=ev, site='reread')
    if S.version == version and not (g.shape == first.shape and np.array_equal(g, first)):
        ctx.fail(f'reread|{key_region(S, fl, mk, ev=ev)}|history-dependent',
                 f'{mk_py(mk)!r}: first answer {first.tolist()}, now {g.tolist()} with unchanged data')


# ---------------------------------------------------------------------------
# check 4: the same keys on several indexers that may share a lookup cache
# ---------------------------------------------------------------------------
def prop_shared(ch, ctx):
    W = World()
    U = build_universe(ch, ctx, 'u')
    W.unis.append(U)
    if ch.bool('twin'):
        W.unis.append(build_universe(ch, ctx, 'v', members=U.members, style=U.style))
    ns = ch.int('nstreams', 2, 4)
    for i in range(ns):
        Ux = W.unis[ch.int(f's{i}.uni', 0, len(W.unis) - 1)]
        if i == 0:
            S = draw_stream(ch, f's{i}', Ux)
        else:
            S0 = W.streams[0]
            how = ch.choice(f's{i}.how', ['same', 'same_size', 'free', 'single'])
            if how == 'same':
                S = draw_stream(ch, f's{i}', Ux, kind=S0.kind, phases=list(S0.phases))
            elif how == 'same_size':
                k = len(S0.phases)
                S = draw_stream(ch, f's{i}', Ux, kind='M', phases=ch.subset(f's{i}.phases', ALL_PHASES, k, k))
            elif how == 'free':
                S = draw_stream(ch, f's{i}', Ux, kind='M')
            else:
                S = draw_stream(ch, f's{i}', Ux, kind='S')
        W.streams.append(S)
    nk = ch.int('nkeys', 1, 8)
    shape = []
    for j in range(nk):
        si = ch.int(f'k{j}.stream', 0, ns - 1)
        S = W.streams[si]
        fl = ch.choice(f'k{j}.view', ['mol', 'mol', 'mass'])
        write = ch.bool(f'k{j}.write')
        mk = draw_single_or_mkey(ch, f'k{j}', S, write, allow_pall=False,
                                 pforms=['sum', 'phase', 'pk', 'pk', 'allp'] if not write else ['phase', 'pk', 'pk', 'allp'])
        if write:
            if mk[0] == 'allp' and ck_kind(mk[3]) == 'nested': write = False
            else: do_write(ch, ctx, f'k{j}', S, fl, mk)
        order = list(range(si, ns)) + list(range(si))
        hits = 0
        for ti in order:
            T = W.streams[ti]
            mk2 = mk if ti == si else translate(mk, T)
            if mk2 is None: continue
            hits += 1
            tag = 'src' if ti == si else ('twin' if T.U is not S.U else 'same' if T.phases == S.phases and T.kind == S.kind else 'other')
            do_read(ctx, T, fl, mk2, ev=f',to={tag}', site='shared')
            if tag != 'src': ctx.cell(f'shared:to={tag}')
        shape.append([S.kind, fl, mk[0], ck_shape(mk[3]), write, hits])
    for S in W.streams:
        check_data(ctx, S, 'mass', 'final|data', 'final data')
    audit(ctx, W)
    if any(x[5] > 1 for x in shape):
        ctx.nontriv(['shared', [[T.kind, list(T.phases), T.U is U] for T in W.streams], shape])


PROPS = {
    'key': (prop_key, 10000, 100000),
    'names': (prop_names, 1500, 12000),
    'history': (prop_history, 3200, 32000),
    'shared': (prop_shared, 2400, 24000),
}
