"""C01 - mixing, splitting, separating, moving and scaling conserve every chemical."""
from __future__ import annotations

import numpy as np
import thermosteam as tmo
from vlib import chem, streams as vs
from vlib.runner import Violation

PROPERTY = 'C01'
RULE = ('Hypothesis draws n in 0..5 inlets (Stream in any of s/l/g/S/L or MultiStream over any subset of those '
        'phases; flows 0 or 10**u, u in [-3,3]; seven property packages over permuted subsets of 8 chemicals), a '
        'receiver on a superset package that may itself be one of the inlets, and an operation (mix_from / '
        'Stream.sum / + / += ; split_to with scalar or per-chemical split incl. 0 and 1; mix then separate_out; '
        'copy_flow(remove=True) with IDs/exclude/phase; scale, *, /, *=, /=, F_mol=, F_mass=). Oracle: dense '
        'CAS-keyed NumPy sums taken before the call. Non-trivial: >=2 non-empty inlets, or self-mixing, or a '
        'cross-package or multi-phase participant (split/copy/scale: non-empty source). Distinct by (check, '
        'kinds, phase labels, packages, zero pattern, flags).')
ASSUMPTIONS = ['receiver package lists every chemical of the inlets (stated precondition)',
               'flows are finite and non-negative', 'energy_balance=True only drawn for l/g inlets at 280-400 K',
               'Stream.sum / a+b create the result on the current settings thermo, which the check sets to the receiver package']
REQUIRED_CELLS = {'quick': ['mix:recv=S', 'mix:recv=M', 'mix:multi', 'mix:xpkg', 'mix:self', 'mix:n=0', 'mix:n=1',
                            'mix:n>=2', 'mix:repeated-inlet', 'mix:receiver-repeated', 'split:scalar', 'split:array', 'split:xpkg', 'split:src=M', 'split:outlets-reused', 'mix:view-inlet', 'mix:view-of-receiver'],
                  'thorough': []}

TOL = 1e-12


def _close(a, b):
    # per-phase rows are summed in a different order by the sparse code and by NumPy
    return abs(a - b) <= 1e-12 * max(1.0, abs(a), abs(b))


def zero_pattern(spec):
    return [[1 if v else 0 for v in row] for row in spec['flows']]


def skey(spec):
    return [spec['kind'], spec['pkg'], spec['phases'], zero_pattern(spec)]


FEW = ('Water', 'Ethanol')


def _specs_for(ch, tag, pkgs, eb):
    if eb:
        sp = vs.draw_spec(ch, tag, pkgs, phases=('l', 'g'), T=(280., 400.), P=(1e4, 1e7))
    else:
        sp = vs.draw_spec(ch, tag, pkgs)
    # Two hidden degrees of freedom of cross-package transfers: (a) inlets of different packages carrying exactly
    # the same few chemicals (their CAS tuples then differ only in order), (b) the insertion order of the stored
    # sparse entries (flows written in another sequence).
    mode = ch.choice(f'{tag}.mode', ['full', 'full', 'few', 'reordered'])
    names = chem.PACKAGES[sp['pkg']]
    if mode == 'few':
        keep = [i for i, nme in enumerate(names) if nme in FEW]
        sp['flows'] = [[(v if v else 1.0) if i in keep else 0.0 for i, v in enumerate(row)] for row in sp['flows']]
    if mode in ('few', 'reordered'):
        sp['order'] = ch.permutation(f'{tag}.order', len(names))
    return sp


def check_totals(ctx, got, want, site, region, scale=None):
    ok, worst, k = vs.totals_close(got, want, scale=scale, rtol=TOL)
    ctx.metric_max(site + ':abs_err', worst)
    if not ok:
        ctx.fail(f'{site}|{region}|mismatch', f'chemical {k}: got {got.get(k, 0.0)!r} want {want.get(k, 0.0)!r}')


def check_nonneg(ctx, s, site, region):
    a = vs.dense(s)
    if (a < 0).any():
        ctx.fail(f'{site}|{region}|negative', f'negative entry {a.min()!r}')


# ---------------------------------------------------------------------------
def prop_mix(ch, ctx):
    recv_pkg = ch.choice('recv.pkg', chem.SUPERSETS)
    op = ch.choice('op', ['mix_from', 'mix_from', 'sum', 'add', 'iadd'])
    eb = ch.bool('energy_balance') if op in ('mix_from', 'sum') else True
    conserve = ch.bool('conserve_phases') if op == 'mix_from' else False
    n = ch.int('n', 0, 5)
    if op in ('add', 'iadd'): n = 2
    self_idx = ch.int('self', -1, n - 1) if (n > 0 and op == 'mix_from') else -1
    if op == 'iadd': self_idx = 0
    all_pkgs = list(chem.PACKAGES)
    specs = []
    dup_of = []
    for i in range(n):
        # the same stream object may be listed several times (the doctest of Stream.sum does so), incl. the receiver
        d = ch.choice(f'in{i}.dup', [-1, -1, -1] + list(range(i))) if (i > 0 and op in ('mix_from', 'sum')) else -1
        if d >= 0 and i != self_idx:
            dup_of.append(d); specs.append(specs[d]); continue
        dup_of.append(-1)
        pk = [recv_pkg] if i == self_idx else all_pkgs
        specs.append(_specs_for(ch, f'in{i}', pk, eb))
    if self_idx < 0 and op in ('mix_from',):
        rspec = _specs_for(ch, 'recv', [recv_pkg], eb)
    else:
        rspec = None
    inlets = []
    for i, sp in enumerate(specs):
        inlets.append(inlets[dup_of[i]] if dup_of[i] >= 0 else vs.build(sp))
    if any(d >= 0 for d in dup_of): ctx.cell('mix:repeated-inlet')
    if self_idx >= 0 and sum(1 for s in inlets if s is inlets[self_idx]) > 1: ctx.cell('mix:receiver-repeated')
    th = chem.package(recv_pkg)
    tmo.settings.set_thermo(th)
    if self_idx >= 0:
        recv = inlets[self_idx]
    elif rspec is not None:
        recv = vs.build(rspec)
    else:
        recv = None
    # Phase views (ms['l']) of a multi-phase inlet or of the receiver listed as further inlets: they share their
    # parent's flow data, so a receiver that is emptied or rewritten before it is read changes them under the sum.
    nview = 0; recv_views = []
    if op == 'mix_from' and ch.choice('views', [0, 0, 0, 1, 1, 2]):
        parents = [s for s in (inlets + ([recv] if recv is not None else [])) if isinstance(s, tmo.MultiStream)]
        parents = list({id(s): s for s in parents}.values())
        if parents:
            for j in range(1 + ch.int('views.extra', 0, 1)):
                par = parents[ch.index(f'view{j}.parent', len(parents))]
                ph = ch.choice(f'view{j}.phase', list(par.phases))
                v = par[ph]
                inlets.insert(ch.int(f'view{j}.pos', 0, len(inlets)), v)
                nview += 1
                if par is recv: recv_views.append(v)
    before = [vs.by_phase(s) for s in inlets]
    want = vs.add_totals(*[vs.totals(s) for s in inlets]) if inlets else {}
    nonempty = sum(1 for s in inlets if vs.dense(s).any())
    multi = any(sp['kind'] == 'M' for sp in specs)
    xpkg = any(sp['pkg'] != recv_pkg for sp in specs)
    sum_cls_S = ch.bool('sum.cls.S') if op == 'sum' else True
    rkind = (specs[self_idx]['kind'] if self_idx >= 0 else (rspec['kind'] if rspec else ('S' if sum_cls_S else 'M')))
    region = f'recv={rkind},multi={int(multi)},xpkg={int(xpkg)},self={int(self_idx >= 0)},eb={int(eb)}'
    if nview:
        region += f',view={"recv" if recv_views else "inlet"}'
        ctx.cell('mix:view-inlet')
        if recv_views: ctx.cell('mix:view-of-receiver')
    ctx.cell(f'mix:recv={rkind}'); ctx.cell('mix:n=0' if n == 0 else 'mix:n=1' if n == 1 else 'mix:n>=2')
    if multi: ctx.cell('mix:multi')
    if xpkg: ctx.cell('mix:xpkg')
    if self_idx >= 0: ctx.cell('mix:self')
    ctx.cell('mix:op=' + op)
    site = 'mix.' + op
    if op == 'mix_from':
        # "any collection": list, tuple or a one-shot iterator (conserve_phases documents a second pass over it)
        cont = ch.choice('container', ['list', 'list', 'tuple', 'iter']) if not conserve else 'list'
        arg = inlets if cont == 'list' else tuple(inlets) if cont == 'tuple' else iter(list(inlets))
        if cont != 'list': ctx.cell('mix:container=' + cont)
        ctx.call(site, recv.mix_from, arg, energy_balance=eb, conserve_phases=conserve, region=region)
        result = recv
    elif op == 'sum':
        cls = tmo.Stream if sum_cls_S else tmo.MultiStream
        result = ctx.call(site, cls.sum, inlets, None, th, eb, region=region)
    elif op == 'add':
        result = ctx.call(site, lambda: inlets[0] + inlets[1], region=region)
    else:
        def f():
            x = inlets[0]; x += inlets[1]; return x
        result = ctx.call(site, f, region=region)
    got = vs.totals(result)
    scale = max([1.0] + list(want.values()))
    check_totals(ctx, got, want, site, region, scale)
    check_nonneg(ctx, result, site, region)
    for k, (s, b) in enumerate(zip(inlets, before)):
        if s is result or any(s is v for v in recv_views): continue
        if vs.by_phase(s) != b:
            ctx.fail(f'{site}|{region}|inlet-modified', f'inlet {k} changed by mixing')
    if nonempty >= 2 or self_idx >= 0 or (nonempty and (multi or xpkg)):
        ctx.nontriv(['mix', op, eb, conserve, self_idx, dup_of, [skey(s) for s in specs],
                     skey(rspec) if rspec else None, nview, len(recv_views)])


# ---------------------------------------------------------------------------
def draw_split(ch, n):
    kind = ch.choice('split.kind', ['scalar', 'array', 'zero', 'one'])
    if kind == 'scalar': return kind, ch.float('split', 0.0, 1.0)
    if kind == 'zero': return kind, 0.0
    if kind == 'one': return kind, 1.0
    from hypothesis import strategies as st
    elem = st.one_of(st.sampled_from([0.0, 1.0, 0.5]), st.floats(0.0, 1.0, allow_nan=False, allow_subnormal=False))
    return kind, ch.draw('split', st.lists(elem, min_size=n, max_size=n))


def prop_split(ch, ctx):
    src = vs.draw_spec(ch, 'src', list(chem.PACKAGES), T=(280., 400.))
    eb = ch.bool('energy_balance')
    xp = ch.bool('xpkg')
    outs = []
    # Soundness (DESIGN.md Appendix A, C01): Stream.split_to writes `outlet.mol[:]`, which is a read-only sum on
    # a MultiStream, so with energy_balance=False a single-phase source is only split onto single-phase outlets
    # (with energy_balance=True the outlets are first converted to the source's phase).  Outlets are fresh/empty or
    # hold material from an earlier split of a source with the same phases (non-empty phases within the source's
    # phases), because converting an outlet to a phase set lacking one of its non-empty phases is outside C12's domain.
    okinds = ('S',) if (src['kind'] == 'S' and not eb) else ('S', 'M')
    # the second outlet may sit on the other side: one outlet on the feed's package, the other on a foreign one
    xp2 = xp if ch.choice('s2.xpkg', ['same', 'same', 'flip']) == 'same' else not xp
    for t in ('s1', 's2'):
        foreign = xp if t == 's1' else xp2
        pk = [p for p in chem.SUPERSETS if p != src['pkg']] if foreign else [src['pkg']]
        if ch.bool(f'{t}.fresh'):
            sp = vs.draw_spec(ch, t, pk, kinds=okinds, T=(280., 400.), allow_empty=True)
            sp['flows'] = [[0.0] * len(r) for r in sp['flows']]
        else:
            sp = vs.draw_spec(ch, t, pk, kinds=okinds, phases=tuple(src['phases']), T=(280., 400.))
        outs.append(sp)
    n = len(chem.PACKAGES[src['pkg']])
    skind, split = draw_split(ch, n)
    s = vs.build(src); s1 = vs.build(outs[0]); s2 = vs.build(outs[1])
    # Outlets reused across iterations: an earlier split of another multi-phase feed (phase set overlapping the
    # checked feed's; material only in the common phases so that the later conversion stays inside C12's domain)
    # is performed first on the same outlet objects, and their phase sub-streams are touched.
    if src['kind'] == 'M' and eb and ch.bool('earlier.split'):
        common = ch.subset('earlier.common', list(src['phases']), min_size=1)
        extra = ch.subset('earlier.extra', [p for p in vs.ALL_PHASES if p not in src['phases']], max_size=2)
        first = {'kind': 'M', 'pkg': src['pkg'], 'T': 300.0, 'P': 101325.0, 'phases': common + extra,
                 'flows': [ch.flows(f'earlier.{p}.flow', n) if p in common else [0.0] * n for p in common + extra]}
        if len(first['phases']) >= 2:
            f0 = vs.build(first)
            try:
                f0.split_to(s1, s2, 0.5, energy_balance=True)
                for o in (s1, s2):
                    if isinstance(o, tmo.MultiStream):
                        for p in o.phases: _ = o[p].mol
                ctx.cell('split:outlets-reused')
            except Exception:
                ctx.reject('earlier split failed (reported by its own case)')
    feed = vs.totals(s)
    before = vs.by_phase(s)
    cas = list(s.chemicals.CASs)
    sv = np.ones(n) * np.array(split, float)
    want1 = {c: feed[c] * sv[i] for i, c in enumerate(cas)}
    want2 = {c: feed[c] - feed[c] * sv[i] for i, c in enumerate(cas)}
    region = f'src={vs.kind_tag(src)},out={outs[0]["kind"]}{outs[1]["kind"]},xpkg={int(xp)}{int(xp2) if xp2 != xp else ""},split={skind},eb={int(eb)}'
    ctx.cell('split:' + ('array' if skind == 'array' else 'scalar'))
    if xp: ctx.cell('split:xpkg')
    if xp != xp2: ctx.cell('split:outlets-on-different-sides')
    ctx.cell('split:src=' + src['kind'])
    arg = np.array(split, float) if skind == 'array' else split
    ctx.call('split.split_to', s.split_to, s1, s2, arg, energy_balance=eb, region=region)
    scale = max([1.0] + list(feed.values()))
    check_totals(ctx, vs.totals(s1), want1, 'split.s1', region, scale)
    check_totals(ctx, vs.totals(s2), want2, 'split.s2', region, scale)
    check_nonneg(ctx, s1, 'split.s1', region); check_nonneg(ctx, s2, 'split.s2', region)
    if vs.by_phase(s) != before:
        ctx.fail(f'split.split_to|{region}|source-modified', 'source changed by split_to')
    if any(feed.values()):
        ctx.nontriv(['split', skey(src), skey(outs[0]), skey(outs[1]), skind, eb,
                     [1 if v else 0 for v in sv.tolist()] if skind == 'array' else None])


# ---------------------------------------------------------------------------
def prop_separate(ch, ctx):
    recv_pkg = ch.choice('recv.pkg', chem.SUPERSETS)
    n = ch.int('n', 1, 4)
    specs = [vs.draw_spec(ch, f'in{i}', list(chem.PACKAGES)) for i in range(n)]
    k = ch.int('k', 0, n - 1)
    rkind = ch.choice('recv.kind', ['S', 'M'])
    inlets = [vs.build(sp) for sp in specs]
    th = chem.package(recv_pkg)
    tmo.settings.set_thermo(th)
    recv = tmo.Stream(None, thermo=th) if rkind == 'S' else tmo.MultiStream(None, phases=('l', 'g'), thermo=th)
    multi = any(sp['kind'] == 'M' for sp in specs)
    xpkg = any(sp['pkg'] != recv_pkg for sp in specs)
    region = f'recv={rkind},other={vs.kind_tag(specs[k])},xpkg={int(specs[k]["pkg"] != recv_pkg)},n={min(n, 2)}'
    try:
        recv.mix_from(inlets, energy_balance=False)
    except Exception:
        ctx.reject('mix failed (reported by the mix check)')
    tot = [vs.totals(s) for s in inlets]
    if not vs.totals_close(vs.totals(recv), vs.add_totals(*tot))[0]:
        ctx.reject('mix wrong (reported by the mix check)')
    want = vs.add_totals(*[t for i, t in enumerate(tot) if i != k]) if n > 1 else {}
    other_before = vs.by_phase(inlets[k])
    scale = max([1.0] + list(vs.add_totals(*tot).values()))
    if rkind == 'M' and ch.choice('other.own-view', [False, False, False, True]):
        # separating one of the mixture's own phase streams out of it (ms.separate_out(ms['g'])) leaves the other phases
        ph = ch.choice('view.phase', list(recv.phases))
        view = recv[ph]
        rows = vs.by_phase(recv)
        want = vs.add_totals(*[rows[q] for q in rows if q != ph]) if len(rows) > 1 else {}
        ctx.cell('separate:own-phase-stream')
        region += ',other=own-view'
        ctx.call('separate.separate_out', recv.separate_out, view, energy_balance=False, region=region)
        check_totals(ctx, vs.totals(recv), want, 'separate.separate_out', region, scale)
        if any(rows[ph].values()): ctx.nontriv(['separate-view', ph, [skey(s) for s in specs]])
        return
    ctx.call('separate.separate_out', recv.separate_out, inlets[k], energy_balance=False, region=region)
    check_totals(ctx, vs.totals(recv), want, 'separate.separate_out', region, scale)
    if vs.by_phase(inlets[k]) != other_before:
        ctx.fail(f'separate.separate_out|{region}|other-modified', 'separated stream changed')
    a = vs.dense(recv)
    if (a < -TOL * scale).any():
        ctx.fail(f'separate.separate_out|{region}|negative', f'negative entry {a.min()!r}')
    if vs.dense(inlets[k]).any():
        ctx.nontriv(['separate', rkind, k, [skey(s) for s in specs]])
    # separating a stream from itself leaves nothing
    if ch.bool('self_separate'):
        ctx.call('separate.self', recv.separate_out, recv, energy_balance=False, region=region)
        if vs.dense(recv).any():
            ctx.fail(f'separate.self|{region}|mismatch', 'stream minus itself is not empty')


# ---------------------------------------------------------------------------
def prop_copy_flow(ch, ctx):
    pkg = ch.choice('pkg', list(chem.PACKAGES))
    xp = ch.bool('xpkg')
    dkind = ch.choice('dest.kind', ['S', 'M'])
    src = vs.draw_spec(ch, 'src', [pkg])
    names = list(chem.PACKAGES[pkg])
    if dkind == 'M':
        xp = False  # MultiStream.copy_flow documents: same chemicals required
    dpk = [p for p in chem.SUPERSETS if p != pkg] if xp else [pkg]
    if dkind == 'M' and src['kind'] == 'M':
        # positional phase rows: both sides on the same phase tuple (callers' implicit precondition)
        dest = vs.draw_spec(ch, 'dest', dpk, kinds=('M',))
        dest['phases'] = list(src['phases'])
        n = len(chem.PACKAGES[dest['pkg']])
        dest['flows'] = [ch.flows(f'dest.{p}.flow2', n) for p in dest['phases']]
    elif dkind == 'M':
        dest = vs.draw_spec(ch, 'dest', dpk, kinds=('M',))
        if src['phases'][0] not in dest['phases']:
            dest['phases'].append(src['phases'][0]); dest['flows'].append([0.0] * len(names))
    else:
        dest = vs.draw_spec(ch, 'dest', dpk, kinds=('S',))
    idk = ch.choice('IDs.kind', ['all', 'one', 'tuple'])
    if idk == 'all': IDs = ...; chosen = set(names)
    elif idk == 'one':
        IDs = ch.choice('ID', names); chosen = {IDs}
    else:
        sub = ch.subset('IDs', names, min_size=1); IDs = tuple(sub); chosen = set(sub)
    exclude = ch.bool('exclude')
    s = vs.build(src); d = vs.build(dest)
    src_before = vs.by_phase(s); dest_before = vs.by_phase(d)
    stot = vs.totals(s)
    kw = dict(remove=True, exclude=exclude)
    phase = ...
    if dkind == 'M':
        if ch.bool('phase.given'):
            phase = ch.choice('phase', list(dest['phases']))
    region = f'dest={dkind},src={vs.kind_tag(src)},xpkg={int(xp)},ids={idk},excl={int(exclude)},phase={"any" if phase is ... else "one"}'
    ctx.cell(f'copy:dest={dkind},src={src["kind"]}')
    if dkind == 'M':
        ctx.call('copy_flow', d.copy_flow, s, phase, IDs, region=region, **kw)
    else:
        ctx.call('copy_flow', d.copy_flow, s, IDs, region=region, **kw)
    src_after = vs.totals(s); dest_after = vs.totals(d); dbt = vs.totals(d) if False else None
    dest_before_tot = {}
    for p, row in dest_before.items():
        for c, v in row.items(): dest_before_tot[c] = dest_before_tot.get(c, 0.0) + v
    cas_of = {n: c for n, c in zip(names, s.chemicals.CASs)}
    for nme in names:
        c = cas_of[nme]
        b = stot[c]
        if b == 0: continue
        moved = src_after[c] == 0
        if moved:
            if dkind == 'M' and phase is not ...:
                # only the selected phase row moves; totals of that row
                continue
            # the destination may keep what it held in rows the copy does not overwrite
            da = dest_after.get(c, 0.0); keep = dest_before_tot.get(c, 0.0)
            if da > b + keep and not _close(da, b + keep):
                ctx.fail(f'copy_flow|{region}|duplicated', f'{nme}: source had {b!r}, destination held {keep!r}, now has {da!r}')
            if da < b and not _close(da, b):
                ctx.fail(f'copy_flow|{region}|lost', f'{nme}: source had {b!r}, removed, destination has {dest_after.get(c, 0.0)!r}')
        else:
            if not _close(src_after[c], b) and not (dkind == 'M' and phase is not ...):
                ctx.fail(f'copy_flow|{region}|partial', f'{nme}: source {b!r} -> {src_after[c]!r}')
            if not (_close(dest_after.get(c, 0.0), 0.0) or _close(dest_after.get(c, 0.0), dest_before_tot.get(c, 0.0))) and not (dkind == 'M' and phase is not ...):
                ctx.fail(f'copy_flow|{region}|duplicated', f'{nme}: kept in source ({b!r}) but destination has {dest_after.get(c, 0.0)!r}')
    # effectiveness: chemicals that were requested must have moved (phase unrestricted)
    if phase is ... and not (idk == 'all' and exclude):
        for nme in names:
            c = cas_of[nme]
            req = (nme in chosen) != exclude
            if stot[c] and req and src_after[c] != 0:
                ctx.fail(f'copy_flow|{region}|not-moved', f'{nme} requested but still in source')
            if stot[c] and not req and not _close(src_after[c], stot[c]):
                ctx.fail(f'copy_flow|{region}|moved-unrequested', f'{nme} not requested but source changed')
    # a single-phase source copied into a MultiStream with an explicit phase argument
    if dkind == 'M' and phase is not ... and src['kind'] == 'S':
        sph = src['phases'][0]
        same = (phase == sph)          # both labels are phases of the destination, so no case-twin aliasing
        da = vs.by_phase(d)
        ctx.cell(f'copy:M<-S,phase={"same" if same else "other"},excl={int(exclude)}')
        for nme in names:
            c = cas_of[nme]; b = stot[c]
            if not b: continue
            selected = (nme in chosen) if same else False      # (phase, IDs) selects nothing of a source in another phase
            copied = selected != exclude
            if copied:
                if src_after[c] != 0:
                    ctx.fail(f'copy_flow|{region},same={int(same)}|duplicated', f'{nme}: copied to the destination ({da[sph][c]!r}) but still {src_after[c]!r} in the source')
                if not _close(da[sph][c], b):
                    ctx.fail(f'copy_flow|{region},same={int(same)}|lost', f'{nme}: source had {b!r} in {sph}, destination row has {da[sph][c]!r}')
            else:
                if not _close(src_after[c], b):
                    ctx.fail(f'copy_flow|{region},same={int(same)}|lost', f'{nme}: not selected, but the source went from {b!r} to {src_after[c]!r}')
                if da[sph][c] != 0 and not _close(da[sph][c], dest_before[sph][c]):
                    ctx.fail(f'copy_flow|{region},same={int(same)}|duplicated', f'{nme}: kept in the source but destination row {sph} now has {da[sph][c]!r}')
    # per-phase bookkeeping when one phase of a multi-phase pair is moved
    if dkind == 'M' and phase is not ... and src['kind'] == 'M':
        sa = vs.by_phase(s); da = vs.by_phase(d)
        for p in src['phases']:
            for nme in names:
                c = cas_of[nme]; b = src_before[p][c]
                if not b: continue
                req = ((nme in chosen) != exclude) and p == phase
                if req and (sa[p][c] != 0 or da[p][c] != b):
                    ctx.fail(f'copy_flow|{region}|phase-move', f'{nme} in {p}: src {b!r}->{sa[p][c]!r}, dest {da[p][c]!r}')
                # (phase, IDs) selects entries of that phase row only: everything else is either moved as a whole
                # (exclude=True) or stays in the source untouched (exclude=False) - never removed without being copied
                selected = (p == phase and nme in chosen)
                if not exclude and not selected and sa[p][c] != b:
                    ctx.fail(f'copy_flow|{region}|phase-lost', f'{nme} in {p} not selected (phase={phase}), but the source went from {b!r} to {sa[p][c]!r}')
                if sa[p][c] == 0 and not _close(da[p][c], b):
                    ctx.fail(f'copy_flow|{region}|phase-lost', f'{nme} in {p}: removed from the source ({b!r}) but destination row has {da[p][c]!r}')
    if any(stot.values()):
        ctx.nontriv(['copy', skey(src), skey(dest), idk, sorted(chosen) if idk != 'all' else None, exclude,
                     None if phase is ... else phase])


# ---------------------------------------------------------------------------
def prop_scale(ch, ctx):
    sp = vs.draw_spec(ch, 's', list(chem.PACKAGES), T=(280., 400.), phases=('l', 'g', 's', 'L', 'S'))
    op = ch.choice('op', ['scale', 'mul', 'rmul', 'div', 'imul', 'idiv', 'F_mol', 'F_mass'])
    k = ch.choice('k.special', [0.0, 1.0, 2.0, 0.5, None])
    if k is None or (k == 0.0 and op in ('div', 'idiv')):
        k = ch.logfloat('k', -3, 3)
    # k as the scalar types arithmetic on flow arrays produces (a NumPy scalar on the left must defer to the stream)
    ktype = ch.choice('k.type', ['float', 'float', 'int', 'np.float64', 'np.float32', 'np.int64'])
    if ktype in ('int', 'np.int64'):
        if k != int(k) or (k == 0 and op in ('div', 'idiv')): ktype = 'float' if ktype == 'int' else 'np.float64'
    if ktype == 'np.float32': k = float(np.float32(k))
    kk = {'float': float, 'int': int, 'np.float64': np.float64, 'np.float32': np.float32, 'np.int64': np.int64}[ktype](k)
    s = vs.build(sp)
    a0 = vs.dense(s).copy()
    region = f'kind={vs.kind_tag(sp)},op={op}' + (',k=np' if ktype.startswith('np') else '')
    if ktype.startswith('np'): ctx.cell('scale:numpy-scalar' + ('-left' if op == 'rmul' else ''))
    preview = ch.bool('mass.view.before')   # a mass view handed out earlier must show the scaled flows too
    if preview:
        _ = s.imass.data.to_array(); _ = s.mass
        ctx.cell('scale:mass-view-before')
    if op in ('F_mol', 'F_mass'):
        if not a0.any(): ctx.reject('empty stream has no total to rescale')
        if k == 0: k = 0.25
    def f():
        nonlocal s
        if op == 'scale': s.scale(kk); return s
        if op == 'mul': return s * kk
        if op == 'rmul': return kk * s
        if op == 'div': return s / kk
        if op == 'imul': s *= kk; return s
        if op == 'idiv': s /= kk; return s
        if op == 'F_mol': s.F_mol = k * s.F_mol; return s
        if op == 'F_mass': s.F_mass = k * s.F_mass; return s
    r = ctx.call('scale.' + op, f, region=region)
    want = a0 / k if op in ('div', 'idiv') else a0 * k
    got = vs.dense(r)
    if got.shape != want.shape or not np.allclose(got, want, rtol=1e-12, atol=0):
        ctx.fail(f'scale.{op}|{region}|mismatch', f'got {got.tolist()} want {want.tolist()}')
    if op in ('mul', 'rmul', 'div') and not np.array_equal(vs.dense(s), a0):
        ctx.fail(f'scale.{op}|{region}|operand-modified', 'binary scaling changed its operand')
    MW = np.array(r.chemicals.MW, float)
    gm = r.imass.data.to_array()
    gm = gm.reshape(1, -1) if gm.ndim == 1 else gm
    if gm.shape != want.shape or not np.allclose(gm, want * MW, rtol=1e-12, atol=0):
        ctx.fail(f'scale.{op}|{region},view={int(preview)}|mass-view', f'mass flows {gm.tolist()} want mol*MW {(want * MW).tolist()}')
    if a0.any():
        ctx.nontriv(['scale', op, skey(sp), k in (0.0, 1.0)])


PROPS = {
    'mix': (prop_mix, 3000, 150000),
    'split': (prop_split, 1500, 80000),
    'separate': (prop_separate, 1200, 60000),
    'copy_flow': (prop_copy_flow, 1500, 80000),
    'scale': (prop_scale, 800, 30000),
}
