"""C09 - sparse flow arrays behave exactly like the dense NumPy arrays they represent.

Engines (one oracle: NumPy on dense images + representation invariant):
  * stateless differential checks (binop / getitem / setitem / reduce / construct / convert),
  * a history check (pool of objects mirrored by ndarrays),
  * an exhaustive enumeration of all operands with <= 2 (quick) / <= 3 (thorough) elements over a
    4-value alphabet; every enumerated tuple is a log list of the chooser-based props 'binop', 'getitem',
    'setitem', 'reduce', so it replays without the enumerator.
"""
from __future__ import annotations

import copy
import importlib
import itertools
import operator

import numpy as np

from vlib.runner import Violation, HarnessError, Reject, canon

sp = importlib.import_module('thermosteam.base.sparse')
SV, SLV, SA = sp.SparseVector, sp.SparseLogicalVector, sp.SparseArray

PROPERTY = 'C09'
EXHAUSTIVE = True
RULE = ('Operands are specs (kind, shape, flat values): kinds SparseVector/SparseLogicalVector/SparseArray(float,bool), '
        'Python float/int/bool, NumPy scalars, 0-d arrays, (nested) lists and 1/2/3-d ndarrays of float/int/bool; shapes up '
        'to 3x6 incl. length-1, column, row-count and last-axis mismatching forms; values from the dyadic alphabet '
        '{0,+-1,+-2,+-2.5,0.5,3,2^-20,2^20} (exact sums/products). Stateless props draw (mode in binary/in-place/'
        'reflected/aliased, operator, operands), (index form, index) for get/set, (method, axis, keepdims), constructor '
        'and conversion forms; the history prop applies <=30 mutators/observers to a pool of <=4 objects mirrored by '
        'ndarrays; the exhaustive engine enumerates every operand with <=2 (quick) / <=3 (thorough) elements over '
        '{0,1,-1,2.5} / {False,True}. Oracle: NumPy on the dense images (exact ==, shapes after dropping leading '
        'length-1 axes), must-raise where NumPy cannot broadcast, library conventions 0/0->0, x/0 raises or inf, '
        'size-1 in-place targets grow; representation invariant (no stored zero, keys in range, dict/set types) on '
        'every result and operand. Non-trivial: at least one operand has a non-zero element; distinct by (site, '
        'operator, kinds, shapes, zero patterns, index form).')
ASSUMPTIONS = ['indices are in range and non-negative; axes are non-negative',
               'values are finite with magnitude 0 or within [1e-150, 1e150] (no overflow/underflow/NaN inputs)',
               'assigned values have a shape NumPy accepts for the selection (tests freeze "size is not strict" for [:] = shorter list)',
               'logical operators only on boolean operands; operations for which NumPy raises TypeError (bool - bool, '
               'float result into a bool target) are outside the domain',
               'leading length-1 axes of the right operand are dropped, 0/0 -> 0 and growing size-1 in-place targets '
               'are library conventions frozen by tests/test_sparse.py and part of the oracle',
               'zero-length vectors/arrays are not generated']

ARITH = ['add', 'sub', 'mul', 'truediv']
CMP = ['eq', 'ne', 'gt', 'lt', 'ge', 'le']
LOGIC = ['and', 'or', 'xor']
PYOP = {'add': operator.add, 'sub': operator.sub, 'mul': operator.mul, 'truediv': operator.truediv,
        'eq': operator.eq, 'ne': operator.ne, 'gt': operator.gt, 'lt': operator.lt, 'ge': operator.ge,
        'le': operator.le, 'and': operator.and_, 'or': operator.or_, 'xor': operator.xor}
IOP = {'add': operator.iadd, 'sub': operator.isub, 'mul': operator.imul, 'truediv': operator.itruediv,
       'and': operator.iand, 'or': operator.ior, 'xor': operator.ixor}

SPARSE = ('SV', 'SLV', 'SA', 'SAb')
SCALARS = ('pyf', 'pyi', 'pyb', 'npf', 'npb', 'nd0f')
DENSE_SEQ = ('lstf', 'lsti', 'lstb', 'ndf', 'ndi', 'ndb')
R_KINDS = SCALARS + DENSE_SEQ + SPARSE
BOOL_KINDS = ('pyb', 'npb', 'lstb', 'ndb', 'SLV', 'SAb')

ALPHA = {
    'f': [0.0, 0.0, 0.0, 0.0, 1.0, -1.0, 2.5, -2.5, 0.5, 3.0, 2.0 ** -20, 2.0 ** 20, 2.0, -2.0, 1.0],
    'i': [0, 0, 1, -1, 2, 3],
    'b': [False, True],
}
NZ = {'f': [1.0, -1.0, 2.5, -2.5, 0.5, 3.0, 2.0 ** -20, 2.0 ** 20, 2.0, -2.0], 'i': [1, -1, 2, 3], 'b': [True]}
EXH = {'f': [0.0, 1.0, -1.0, 2.5], 'i': [0, 1, -1, 2], 'b': [False, True]}
DT = {'f': float, 'i': np.int64, 'b': bool}


def dchar(kind):
    if kind in ('SV', 'SA'): return 'f'
    if kind in ('SLV', 'SAb'): return 'b'
    return kind[-1]


def dims_of(kind):
    if kind in SCALARS: return (0,)
    if kind in ('SV', 'SLV'): return (1,)
    if kind in ('SA', 'SAb'): return (2,)
    return (1, 2, 3)


def nelem(shape):
    n = 1
    for k in shape: n *= k
    return n


# ---------------------------------------------------------------------------
# building operands from specs, dense images, representation invariant
# ---------------------------------------------------------------------------

def mk_sv(row):
    return SV.from_dict({i: float(v) for i, v in enumerate(row) if v}, len(row))


def mk_slv(row):
    return SLV.from_set({i for i, v in enumerate(row) if v}, len(row))


def mk_sparse(d):
    """Raw construction (no constructor logic of the code under test involved)."""
    if d.ndim == 1:
        return mk_slv(d.tolist()) if d.dtype == bool else mk_sv(d.tolist())
    mk = mk_slv if d.dtype == bool else mk_sv
    return SA.from_rows([mk(r) for r in d.tolist()])


def dense_of(spec):
    return np.array(spec['v'], dtype=DT[dchar(spec['k'])]).reshape(tuple(spec['s']))


def build(spec, d=None):
    k = spec['k']
    if d is None: d = dense_of(spec)
    if k in SPARSE: return mk_sparse(d)
    if k in ('pyf', 'pyi', 'pyb'): return d.item()
    if k == 'npf': return np.float64(d.item())
    if k == 'npb': return np.bool_(d.item())
    if k == 'nd0f': return np.array(d.item())
    if k.startswith('lst'): return d.tolist()
    return d.copy()


def rep_problem(x):
    """None if the representation invariant holds, else a short tag."""
    cls = x.__class__
    if cls is SV:
        if not isinstance(x.dct, dict): return 'dct-type'
        if not isinstance(x.size, (int, np.integer)) or x.size < 0: return 'size'
        for k, v in x.dct.items():
            if isinstance(k, (bool, np.bool_)) or not isinstance(k, (int, np.integer)): return 'key-type'
            if k < 0 or k >= x.size: return 'key-range'
            if not v: return 'stored-zero'
            if isinstance(v, np.bool_) or not isinstance(v, (float, int, np.floating, np.integer)): return 'value-type'
            if v != v or v in (np.inf, -np.inf): return 'non-finite'
        return None
    if cls is SLV:
        if not isinstance(x.set, set): return 'set-type'
        if not isinstance(x.size, (int, np.integer)) or x.size < 0: return 'size'
        for k in x.set:
            if isinstance(k, (bool, np.bool_)) or not isinstance(k, (int, np.integer)): return 'key-type'
            if k < 0 or k >= x.size: return 'key-range'
        return None
    if cls is SA:
        if not isinstance(x.rows, list): return 'rows-type'
        first = None
        for r in x.rows:
            if r.__class__ not in (SV, SLV): return 'row-type'
            p = rep_problem(r)
            if p: return p
            if first is None: first = r
            elif r.size != first.size: return 'ragged'
            elif r.__class__ is not first.__class__: return 'mixed-dtype'
        return None
    return 'class'


def raw_image(x):
    """Dense image from the raw representation (call after rep_problem returned None)."""
    cls = x.__class__
    if cls is SV:
        a = np.zeros(x.size)
        for k, v in x.dct.items(): a[k] = v
        return a
    if cls is SLV:
        a = np.zeros(x.size, dtype=bool)
        for k in x.set: a[k] = True
        return a
    rows = [raw_image(r) for r in x.rows]
    if not rows: return np.zeros((0, 0))
    return np.array(rows)


def is_sparse(x):
    return x.__class__ in (SV, SLV, SA)


def drop_lead(a):
    while a.ndim and a.shape[0] == 1:
        a = a[0]
    return a


def image(ctx, x, site, region, what='result'):
    """Dense image of anything an operation may return; checks the invariant of sparse results."""
    if is_sparse(x):
        p = rep_problem(x)
        if p: ctx.fail(f'{site}|{region}|rep:{p}', f'{what} breaks the representation invariant ({p}): {describe(x)}')
        return raw_image(x)
    return np.asarray(x)


def describe(x):
    cls = x.__class__
    if cls is SV: return f'SV(dct={x.dct!r}, size={x.size})'
    if cls is SLV: return f'SLV(set={x.set!r}, size={x.size})'
    if cls is SA: return 'SA[' + ', '.join(describe(r) for r in x.rows) + ']'
    if isinstance(x, np.ndarray): return f'ndarray({x.tolist()!r})'
    return repr(x)


def differs(got, want, exact_shape=False):
    """None if equal, else 'shape' or 'mismatch'.  NaN in ``want`` (NumPy's 0/0) accepts 0 or NaN."""
    g = np.asarray(got); w = np.asarray(want)
    if not exact_shape:
        g = drop_lead(g); w = drop_lead(w)
    if g.size == 0 and w.size == 0: return None
    if g.shape != w.shape: return 'shape'
    if g.dtype == object:
        try: g = g.astype(float)
        except Exception: return 'mismatch'
    eq = (g == w)
    if eq.all(): return None
    if w.dtype.kind == 'f':
        nan = np.isnan(w)
        if nan.any():
            gf = g.astype(float)
            eq = eq | (nan & ((gf == 0) | np.isnan(gf)))
            if eq.all(): return None
    return 'mismatch'


def np_binop(op, x, y):
    with np.errstate(all='ignore'):
        try:
            return 'ok', PYOP[op](x, y)
        except ValueError:
            return 'shape', None
        except TypeError:
            return 'type', None


def relation(ls, rs):
    """Named broadcasting relation of left shape ``ls`` and raw right shape ``rs``."""
    rs = list(rs)
    if len(rs) > 2:
        if nelem(rs[:-2]) != 1: return 'last=?,rows=R3d'
        r3 = ',r3=1'; rs = rs[-2:]
    else:
        r3 = ''
    if nelem(rs) == 1:
        return f'last=Rs,rows=na{r3}' if len(rs) < 2 else f'last=Rs,rows=R1{r3}'
    ln, rn = ls[-1], rs[-1]
    last = 'eq' if ln == rn else 'L1' if ln == 1 else 'R1' if rn == 1 else 'ne'
    lm = ls[0] if len(ls) == 2 else None
    rm = rs[0] if len(rs) == 2 else None
    if lm is None and rm is None: rows = 'na'
    elif rm is None: rows = 'Lonly'
    elif lm is None: rows = 'Ronly1' if rm == 1 else 'Ronly'
    else: rows = 'eq' if lm == rm else 'L1' if lm == 1 else 'R1' if rm == 1 else 'ne'
    return f'last={last},rows={rows}{r3}'


def zero_tag(num, den):
    try:
        n, d = np.broadcast_arrays(num, den)
    except ValueError:
        return '-'
    dz = (d == 0)
    if not dz.any(): return 'n'
    if (dz & (n != 0)).any(): return 'x0'
    return '00'


def kind_tag(kind, shape):
    return kind if kind in SPARSE or kind in SCALARS else f'{kind}{len(shape)}'


def zpat(spec):
    return ''.join('1' if v else '0' for v in spec['v'])


def snapshot(x):
    if is_sparse(x): return None
    return copy.deepcopy(x)


def unchanged(ctx, x, x0_dense, snap, site, region, who):
    if is_sparse(x):
        p = rep_problem(x)
        if p: ctx.fail(f'{site}|{region}|rep:{p}', f'{who} operand breaks the invariant after the call: {describe(x)}')
        if differs(raw_image(x), x0_dense, exact_shape=True):
            ctx.fail(f'{site}|{region}|operand-modified', f'{who} operand changed: now {describe(x)}, was {x0_dense.tolist()}')
    else:
        if not same_value(x, snap):
            ctx.fail(f'{site}|{region}|operand-modified', f'{who} operand changed: now {x!r}, was {snap!r}')


def same_value(x, y):
    if isinstance(x, np.ndarray) or isinstance(y, np.ndarray):
        return isinstance(x, np.ndarray) and isinstance(y, np.ndarray) and x.dtype == y.dtype and np.array_equal(x, y)
    if isinstance(x, list):
        return isinstance(y, list) and len(x) == len(y) and all(same_value(i, j) for i, j in zip(x, y))
    return type(x) is type(y) and x == y


def same_image(x, dense):
    return rep_problem(x) is None and differs(raw_image(x), dense, True) is None


def scribble(x):
    if x.__class__ is SA:
        for r in x.rows: scribble(r)
    elif x.__class__ is SV:
        x.dct.clear(); x.dct.update({i: 7.0 for i in range(x.size)})
    else:
        if isinstance(x.set, set):
            x.set.clear(); x.set.update(range(x.size))


_seen = set()


def nontriv(ctx, key):
    k = (ctx.cur_name, key)
    if k in _seen: return
    _seen.add(k)
    ctx.nontriv(list(key))


# ---------------------------------------------------------------------------
# binary / in-place / reflected / aliased operators
# ---------------------------------------------------------------------------
MODES = ['bin', 'inp', 'ref', 'bin_alias', 'inp_alias']
DIV_EXC = (ZeroDivisionError, FloatingPointError)


def binop_region(mode, op, lspec, rspec):
    lk, ls = lspec['k'], lspec['s']
    if rspec is None:
        return f'L={lk},R=self,{relation(ls, ls)}'
    return f'L={lk},R={kind_tag(rspec["k"], rspec["s"])},{relation(ls, rspec["s"])}'


def core_binop(ctx, mode, op, lspec, rspec):
    alias = mode.endswith('alias')
    inplace = mode.startswith('inp')
    refl = mode == 'ref'
    a = dense_of(lspec)
    L = build(lspec, a)
    if alias:
        b = a; R = L
    else:
        b = dense_of(rspec); R = build(rspec, b)
    site = ('inplace.i' if inplace else 'reflected.r' if refl else 'binop.') + op
    region = binop_region(mode, op, lspec, rspec)
    bb = drop_lead(b)
    if refl:
        status, want = np_binop(op, b, a)
    else:
        status, want = np_binop(op, a, bb)
    z = '-'
    if op == 'truediv':
        z = zero_tag(b, a) if refl else zero_tag(a, bb)
        region += f',z={z}'
    if alias: region += ',alias=1'
    ctx.cell(f'op:{mode}:{op}')
    ctx.cell(f'kinds:{lspec["k"]}:{"self" if alias else rspec["k"]}')
    if status == 'type':
        ctx.cell('skip:numpy-TypeError')
        return
    must_raise = status == 'shape'
    grow = False
    if inplace and not must_raise:
        if a.dtype == bool and want.dtype != bool:
            ctx.cell('skip:numpy-cast')
            return
        if want.shape == a.shape:
            pass
        elif a.shape[-1] == 1 and want.ndim == a.ndim and want.shape[:-1] == a.shape[:-1]:
            grow = True
        else:
            must_raise = True
        if not must_raise: want = want.astype(a.dtype)
    ctx.cell('rel:' + region.split(',', 2)[2])
    a0 = a.copy(); b0 = b.copy(); snap = None if alias else snapshot(R)
    if inplace: fn = lambda: IOP[op](L, R)
    elif refl: fn = lambda: PYOP[op](R, L)
    else: fn = lambda: PYOP[op](L, R)
    nz = bool(a.any() or b.any())
    key = (mode, op, lspec['k'], tuple(lspec['s']), zpat(lspec))
    if not alias: key += (rspec['k'], tuple(rspec['s']), zpat(rspec))
    if must_raise:
        try:
            r = fn()
        except (Violation, HarnessError):
            raise
        except Exception as e:
            ctx.cell('rejected:' + type(e).__name__)
            if differs(image(ctx, L, site, region, 'left operand'), a0, True):
                ctx.fail(f'{site}|{region}|modified-on-reject', f'rejected operation changed the left operand: {describe(L)} was {a0.tolist()}')
            if nz: nontriv(ctx, key)
            return
        ctx.fail(f'{site}|{region}|accepted',
                 f'NumPy rejects {a0.tolist()} {op} {b0.tolist()} ({"in-place" if inplace else "binary"}) but got {describe(r)}')
    try:
        r = ctx.call(site, fn, region=region, allowed=DIV_EXC if z in ('x0', '00') else ())
    except ZeroDivisionError:
        if z != 'x0':
            ctx.fail(f'{site}|{region}|exc:ZeroDivisionError', 'ZeroDivisionError although every zero divisor meets a zero numerator (0/0 -> 0 convention)')
        ctx.cell('div:raised'); return
    except FloatingPointError:
        ctx.cell('div:raised-fp'); return
    got = image(ctx, r, site, region)
    d = differs(got, want)
    if d:
        ctx.fail(f'{site}|{region}|{d}', f'{a0.tolist()} {op} {b0.tolist()} ({mode}): got {describe(r)} want {np.asarray(want).tolist()}')
    if inplace:
        if r is not L:
            ctx.fail(f'{site}|{region}|not-inplace', f'in-place operator returned a different object: {describe(r)}')
        if grow: ctx.cell('inplace:grow')
        if not alias: unchanged(ctx, R, b0, snap, site, region, 'right')
    else:
        unchanged(ctx, L, a0, None, site, region, 'left')
        if not alias: unchanged(ctx, R, b0, snap, site, region, 'right')
        if is_sparse(r):
            # the result must own its storage: scribble over it and look at the operands again
            scribble(r)
            if not same_image(L, a0) or (not alias and is_sparse(R) and not same_image(R, b0)):
                ctx.fail(f'{site}|{region}|result-aliases-operand', f'{a0.tolist()} {op} {b0.tolist()} ({mode}): result shares storage with an operand')
    if nz: nontriv(ctx, key)


def r_kinds_for(mode, op, lk):
    if op in LOGIC:
        ks = [k for k in BOOL_KINDS]
    else:
        ks = list(R_KINDS)
    if mode == 'ref':
        ks = [k for k in ks if k not in SPARSE]
    return ks


def r_shape_candidates(ls, kind):
    n = ls[-1]
    m = ls[0] if len(ls) == 2 else None
    n2 = 3 if n == 1 else (n + 1 if n < 6 else n - 1)
    if n2 == 1: n2 = 3
    mm = m if m is not None else 2
    m2 = 2 if mm != 2 else 3
    c = {0: [[]],
         1: [[n]] * 5 + [[1]] * 2 + [[n2]],
         2: [[mm, n]] * 5 + [[1, n]] * 2 + [[mm, 1]] * 2 + [[1, 1]] + [[mm, n2]] + [[m2, n]] * 2 + [[m2, 1]] + [[1, n2]],
         3: [[1, 1, n], [1, mm, n], [1, 1, 1]]}
    out = []
    for d in dims_of(kind):
        out += c[d] * (1 if d == 3 else 3)
    return out


_strat_cache = {}


def vals_strategy(dc, n):
    key = ('vals', dc, n)
    strat = _strat_cache.get(key)
    if strat is None:
        from hypothesis import strategies as st
        full = st.lists(st.sampled_from(ALPHA[dc]), min_size=n, max_size=n)
        if dc == 'b':
            strat = st.one_of(full, st.just([False] * n), st.just([True] * n))
        else:
            cancel = [st.lists(st.sampled_from([a, -a, a, -a, 0 * a]), min_size=n, max_size=n)
                      for a in ((1, 2) if dc == 'i' else (1.0, 2.5, 2.0 ** 20))]
            strat = st.one_of(full, full, st.lists(st.sampled_from(NZ[dc]), min_size=n, max_size=n),
                              st.just([ALPHA[dc][0]] * n), *cancel)
        _strat_cache[key] = strat
    return strat


def draw_vals(ch, label, dc, n):
    return ch.draw(label, vals_strategy(dc, n))


def prop_binop(ch, ctx):
    mode = ch.choice('mode', ['bin', 'bin', 'bin', 'inp', 'inp', 'inp', 'ref', 'ref', 'bin_alias', 'inp_alias'])
    ops = ARITH + CMP + LOGIC if not mode.startswith('inp') else ARITH + LOGIC
    op = ch.choice('op', ops)
    lk = ch.choice('L.kind', ['SLV', 'SAb'] if op in LOGIC else list(SPARSE))
    ls = ch.choice('L.shape', shapes_for(lk))
    lv = draw_vals(ch, 'L.vals', dchar(lk), nelem(ls))
    lspec = {'k': lk, 's': ls, 'v': lv}
    rspec = None
    if not mode.endswith('alias'):
        rk = ch.choice('R.kind', r_kinds_for(mode, op, lk))
        rs = ch.choice('R.shape', r_shape_candidates(ls, rk))
        rv = draw_vals(ch, 'R.vals', dchar(rk), nelem(rs))
        rspec = {'k': rk, 's': rs, 'v': rv}
    core_binop(ctx, mode, op, lspec, rspec)


def shapes_for(kind, max_m=3, max_n=6):
    if kind in ('SV', 'SLV'):
        return [[n] for n in range(1, max_n + 1)]
    return [[m, n] for m in range(1, max_m + 1) for n in range(1, max_n + 1)]


# ---------------------------------------------------------------------------
# indexing
# ---------------------------------------------------------------------------
AX_SCALAR = ('int', 'npint')
AX_ARRAY = ('list', 'ndint', 'mask', 'ndmask', 'slvmask')
FORMS_1D = ['int', 'npint', 'slice', 'slice', 'open', 'list', 'list', 'ndint', 'mask', 'ndmask', 'slvmask',
            'T:int', 'T:slice', 'T:list', 'T:mask']
FORMS_ROW = ['int', 'npint', 'slice', 'open', 'list', 'ndint', 'mask', 'ndmask', 'slvmask', 'ndmask2', 'samask2']
FORMS_T = ['int', 'slice', 'open', 'list', 'ndint', 'mask', 'ndmask']


def axis_strategy(t, n, length=None):
    from hypothesis import strategies as st
    if t in AX_SCALAR:
        return st.builds(lambda i: {'t': t, 'i': i}, st.integers(0, n - 1))
    if t == 'open':
        return st.just({'t': 'slice', 'a': None, 'b': None, 'c': None})
    if t == 'slice':
        ab = st.one_of(st.none(), st.integers(0, n))
        return st.builds(lambda a, b, c: {'t': 'slice', 'a': a, 'b': b, 'c': c}, ab, ab, st.sampled_from([None, 1, 2, 3]))
    if t in ('list', 'ndint'):
        lo, hi = (1, 4) if length is None else (length, length)
        return st.builds(lambda v: {'t': t, 'v': v}, st.lists(st.integers(0, n - 1), min_size=lo, max_size=hi))
    if t in ('mask', 'ndmask', 'slvmask'):
        return st.builds(lambda v: {'t': t, 'v': v}, st.lists(st.booleans(), min_size=n, max_size=n))
    raise HarnessError(f'unknown index form {t}')


def index_strategy(shape):
    """Strategy for JSON index specs valid for ``shape`` (in range, NumPy-acceptable)."""
    from hypothesis import strategies as st
    if len(shape) == 1:
        n = shape[0]

        def one(f):
            if f.startswith('T:'):
                return axis_strategy(f[2:], n).map(lambda e: {'t': 'tuple', 'e': [e]})
            return axis_strategy(f, n)
        return st.sampled_from(FORMS_1D).flatmap(one)
    m, n = shape

    def single(f):
        if f in ('ndmask2', 'samask2'):
            return st.lists(st.booleans(), min_size=m * n, max_size=m * n).map(lambda v: {'t': f, 'v': v, 's': [m, n]})
        return axis_strategy(f, m)

    def pair(fs):
        fr, fc = fs
        if fr in AX_ARRAY and fc in AX_ARRAY:
            # NumPy pairs two index arrays element-wise: same length; masks are not paired with arrays
            if fr in ('mask', 'ndmask') or fc in ('mask', 'ndmask'):
                return st.tuples(axis_strategy(fr, m), axis_strategy('slice', n)).map(lambda rc: {'t': 'tuple', 'e': list(rc)})
            return axis_strategy(fr, m).flatmap(
                lambda r: axis_strategy(fc, n, length=len(r['v'])).map(lambda c: {'t': 'tuple', 'e': [r, c]}))
        return st.tuples(axis_strategy(fr, m), axis_strategy(fc, n)).map(lambda rc: {'t': 'tuple', 'e': list(rc)})
    return st.one_of(st.sampled_from(FORMS_ROW).flatmap(single),
                     st.tuples(st.sampled_from(FORMS_T), st.sampled_from(FORMS_T)).flatmap(pair))


def draw_index(ch, shape):
    key = ('index',) + tuple(shape)
    strat = _strat_cache.get(key)
    if strat is None:
        strat = _strat_cache[key] = index_strategy(shape)
    return ch.draw('I', strat)


def mk_index(s):
    """(index for the sparse object, index for NumPy)."""
    t = s['t']
    if t == 'int': return s['i'], s['i']
    if t == 'npint': return np.int64(s['i']), s['i']
    if t == 'slice':
        sl = slice(s['a'], s['b'], s['c'])
        return sl, sl
    if t == 'list': return list(s['v']), np.array(s['v'], dtype=int)
    if t == 'ndint':
        arr = np.array(s['v'], dtype=int)
        return arr, arr.copy()
    if t == 'mask': return list(s['v']), np.array(s['v'], dtype=bool)
    if t == 'ndmask': return np.array(s['v'], dtype=bool), np.array(s['v'], dtype=bool)
    if t == 'slvmask': return mk_slv(s['v']), np.array(s['v'], dtype=bool)
    if t == 'ndmask2':
        arr = np.array(s['v'], dtype=bool).reshape(s['s'])
        return arr, arr.copy()
    if t == 'samask2':
        arr = np.array(s['v'], dtype=bool).reshape(s['s'])
        return mk_sparse(arr), arr
    if t == 'tuple':
        parts = [mk_index(e) for e in s['e']]
        return tuple(p[0] for p in parts), tuple(p[1] for p in parts)
    raise HarnessError(f'unknown index spec {s}')


def form_of(s):
    t = s['t']
    if t == 'slice':
        return 'open' if s['a'] is None and s['b'] is None and s['c'] is None else 'slice'
    if t == 'tuple':
        return 'T:' + ','.join(form_of(e) for e in s['e'])
    return t


def core_getitem(ctx, lspec, ispec):
    a = dense_of(lspec); L = build(lspec, a)
    si, ni = mk_index(ispec)
    form = form_of(ispec)
    try:
        want = a[ni]
    except (IndexError, ValueError) as e:
        raise HarnessError(f'generated an index NumPy rejects: {ispec} on {lspec}: {e}')
    site = 'getitem'; region = f'L={lspec["k"]},idx={form}'
    ctx.cell(f'get:{lspec["k"]}:{form}')
    r = ctx.call(site, lambda: L[si], region=region)
    got = image(ctx, r, site, region)
    d = differs(got, want, exact_shape=True)
    if d:
        ctx.fail(f'{site}|{region}|{d}', f'{a.tolist()}[{ispec}]: got {describe(r)} want {np.asarray(want).tolist()}')
    unchanged(ctx, L, a, None, site, region, 'indexed')
    if np.asarray(want).any(): nontriv(ctx, ('get', lspec['k'], tuple(lspec['s']), form, zpat(lspec), canon(ispec)))


def prop_getitem(ch, ctx):
    lk = ch.choice('L.kind', list(SPARSE))
    ls = ch.choice('L.shape', shapes_for(lk))
    lv = draw_vals(ch, 'L.vals', dchar(lk), nelem(ls))
    ispec = draw_index(ch, ls)
    core_getitem(ctx, {'k': lk, 's': ls, 'v': lv}, ispec)


V_KINDS = ['pyf', 'pyi', 'pyb', 'npf', 'lstf', 'lsti', 'lstb', 'ndf', 'ndi', 'ndb', 'SV', 'SLV', 'SA', 'SAb']


def value_shapes(ss, kind):
    """Shapes NumPy accepts when assigning to a selection of shape ``ss``."""
    ss = list(ss)
    dims = dims_of(kind)
    out = []
    if 0 in dims: out.append([])
    if not ss or 0 in ss: return out
    c = [ss, ss, ss, [1] + ss, [1]]
    if len(ss) == 2: c += [[ss[1]], [ss[1]], [1, ss[1]], [ss[0], 1]]
    for s in c:
        if len(s) in dims and s not in out[4:]: out.append(s)
    return out


def numpy_accepts(ls, ni, vshape):
    z = np.zeros(ls)
    try:
        z[ni] = np.zeros(vshape)
    except (ValueError, IndexError, TypeError):
        return False
    return True


def vform(vspec, ss):
    s = list(vspec['s']); ss = list(ss)
    if not s: rel = 'scalar'
    elif nelem(s) == 1: rel = 'size1'
    elif s == ss: rel = 'exact'
    elif s == [1] + ss: rel = 'lead1'
    elif len(ss) == 2 and s in ([ss[1]], [1, ss[1]]): rel = 'row'
    elif len(ss) == 2 and s == [ss[0], 1]: rel = 'col'
    else: rel = 'other'
    return f'{kind_tag(vspec["k"], s)}:{rel}'


def core_setitem(ctx, lspec, ispec, vspec):
    a = dense_of(lspec); L = build(lspec, a)
    si, ni = mk_index(ispec)
    v = dense_of(vspec); V = build(vspec, v)
    form = form_of(ispec)
    want = a.copy()
    with np.errstate(all='ignore'):
        try:
            sel = want[ni]
            want[ni] = v
        except (IndexError, ValueError, TypeError):
            return 'skip'
    site = 'setitem'; region = f'L={lspec["k"]},idx={form},val={vform(vspec, np.shape(sel))}'
    ctx.cell(f'set:{lspec["k"]}:{form}')
    ctx.cell(f'setval:{vform(vspec, np.shape(sel))}')
    snap = snapshot(V)
    ctx.call(site, lambda: L.__setitem__(si, V), region=region)
    got = image(ctx, L, site, region, 'target')
    d = differs(got, want, exact_shape=True)
    if d:
        ctx.fail(f'{site}|{region}|{d}', f'{a.tolist()}[{ispec}] = {v.tolist()} ({vspec["k"]}): got {describe(L)} want {want.tolist()}')
    unchanged(ctx, V, v, snap, site, region, 'value')
    if a.any() or v.any():
        nontriv(ctx, ('set', lspec['k'], tuple(lspec['s']), form, zpat(lspec), vspec['k'], tuple(vspec['s']), zpat(vspec), canon(ispec)))


def prop_setitem(ch, ctx):
    lk = ch.choice('L.kind', list(SPARSE))
    ls = ch.choice('L.shape', shapes_for(lk))
    lv = draw_vals(ch, 'L.vals', dchar(lk), nelem(ls))
    lspec = {'k': lk, 's': ls, 'v': lv}
    ispec = draw_index(ch, ls)
    ni = mk_index(ispec)[1]
    ss = np.shape(np.zeros(ls)[ni])
    vk = ch.choice('V.kind', V_KINDS)
    cands = [s for s in value_shapes(ss, vk) if numpy_accepts(ls, ni, s)]
    if not cands:
        vk = 'pyf'; cands = [[]]
    vs = ch.choice('V.shape', cands)
    vv = draw_vals(ch, 'V.vals', dchar(vk), nelem(vs))
    if core_setitem(ctx, lspec, ispec, {'k': vk, 's': vs, 'v': vv}) == 'skip':
        raise HarnessError(f'generated an assignment NumPy rejects: {lspec} {ispec} {vk} {vs}')


# ---------------------------------------------------------------------------
# reductions
# ---------------------------------------------------------------------------
METHODS = ['any', 'all', 'sum', 'mean', 'max', 'min']


def core_reduce(ctx, lspec, method, axis, keepdims, how):
    a = dense_of(lspec); L = build(lspec, a)
    site = 'reduce.' + method
    region = f'L={lspec["k"]},axis={axis},keepdims={int(keepdims)}'
    ctx.cell(f'red:{lspec["k"]}:{method}:{axis}:{int(keepdims)}')
    with np.errstate(all='ignore'):
        try:
            want = getattr(a, method)(axis=axis, keepdims=keepdims)
            bad = False
        except ValueError:
            bad = True
    if how == 'kw': fn = lambda: getattr(L, method)(axis=axis, keepdims=keepdims)
    elif how == 'pos': fn = lambda: getattr(L, method)(axis, keepdims)
    else: fn = lambda: getattr(L, method)() if axis is None and not keepdims else getattr(L, method)(axis=axis, keepdims=keepdims)
    if bad:
        try:
            r = fn()
        except (Violation, HarnessError):
            raise
        except Exception as e:
            ctx.cell('rejected:' + type(e).__name__)
            return
        ctx.fail(f'{site}|{region}|accepted', f'NumPy rejects axis={axis} for shape {a.shape} but got {describe(r)}')
    r = ctx.call(site, fn, region=region)
    got = image(ctx, r, site, region)
    d = differs(got, want, exact_shape=True)
    if d:
        ctx.fail(f'{site}|{region}|{d}', f'{a.tolist()}.{method}(axis={axis}, keepdims={keepdims}): got {describe(r)} want {np.asarray(want).tolist()}')
    unchanged(ctx, L, a, None, site, region, 'reduced')
    if a.any(): nontriv(ctx, ('red', lspec['k'], tuple(lspec['s']), method, axis, keepdims, zpat(lspec)))


def prop_reduce(ch, ctx):
    lk = ch.choice('L.kind', list(SPARSE))
    ls = ch.choice('L.shape', shapes_for(lk))
    lv = draw_vals(ch, 'L.vals', dchar(lk), nelem(ls))
    method = ch.choice('method', METHODS)
    axis = ch.choice('axis', [None, None, 0, 0, 1, 1, 2])
    keepdims = ch.bool('keepdims')
    how = ch.choice('how', ['kw', 'pos', 'default'])
    core_reduce(ctx, {'k': lk, 's': ls, 'v': lv}, method, axis, keepdims, how)


# ---------------------------------------------------------------------------
# construction
# ---------------------------------------------------------------------------
CONS_1D = ['SV(list)', 'SV(nd)', 'SV(dict,size)', 'SV(SV)', 'SV(SV,size+)', 'SV(SLV)', 'SV(size)', 'SV.from_size',
           'SLV(list)', 'SLV(nd)', 'SLV(set,size)', 'SLV(SLV)', 'SLV(SV)', 'SLV(size)', 'SLV.from_size',
           'sparse_vector(list)', 'sparse_vector(nd)', 'sparse_vector(sparse)', 'sparse_vector(sparse,copy)',
           'sparse(list)', 'sparse(nd)', 'sparse(sparse)', 'sparse_vector(list,size+)']
CONS_2D = ['SA(list)', 'SA(nd)', 'SA(dicts,size)', 'SA(rows)', 'SA(ndrows)', 'SA.from_shape', 'SA()',
           'sparse_array(list)', 'sparse_array(nd)', 'sparse_array(SA)', 'sparse_array(SA,copy)',
           'sparse(list)', 'sparse(nd)', 'sparse(dicts,size)', 'sparse(SA)']


def core_construct(ctx, form, dc, shape, vals):
    d = np.array(vals, dtype=DT[dc]).reshape(tuple(shape))
    site = 'construct'; region = f'form={form},dtype={dc},ndim={len(shape)}'
    ctx.cell(f'cons:{form}:{dc}')
    src = None; same_obj = False; shares = None
    want = d.astype(bool) if dc == 'b' else d.astype(float)
    wcls = None
    n = shape[-1]
    if len(shape) == 1:
        lst = d.tolist()
        wcls = SLV if dc == 'b' else SV
        if form == 'SV(list)': fn = lambda: SV(lst); want = d.astype(float); wcls = SV; src = lst
        elif form == 'SV(nd)': src = d.copy(); fn = lambda: SV(src); want = d.astype(float); wcls = SV
        elif form == 'SV(dict,size)':
            src = {i: v for i, v in enumerate(lst)}
            fn = lambda: SV(src, size=n); want = d.astype(float); wcls = SV
        elif form in ('SV(SV)', 'SV(SV,size+)'):
            src = mk_sv(lst); wcls = SV; want = d.astype(float)
            if form == 'SV(SV)': fn = lambda: SV(src)
            else:
                fn = lambda: SV(src, size=n + 2); want = np.concatenate([want, np.zeros(2)])
            shares = False
        elif form == 'SV(SLV)': src = mk_slv(lst); fn = lambda: SV(src); want = d.astype(bool).astype(float); wcls = SV
        elif form == 'SV(size)': fn = lambda: SV(size=n); want = np.zeros(n); wcls = SV
        elif form == 'SV.from_size': fn = lambda: SV.from_size(n); want = np.zeros(n); wcls = SV
        elif form == 'SLV(list)': fn = lambda: SLV(lst); want = d.astype(bool); wcls = SLV; src = lst
        elif form == 'SLV(nd)': src = d.copy(); fn = lambda: SLV(src); want = d.astype(bool); wcls = SLV
        elif form == 'SLV(set,size)':
            src = {i for i, v in enumerate(lst) if v}
            fn = lambda: SLV(src, size=n); want = d.astype(bool); wcls = SLV
        elif form == 'SLV(SLV)': src = mk_slv(lst); fn = lambda: SLV(src); want = d.astype(bool); wcls = SLV; shares = False
        elif form == 'SLV(SV)': src = mk_sv(lst); fn = lambda: SLV(src); want = d.astype(bool); wcls = SLV; shares = False
        elif form == 'SLV(size)': fn = lambda: SLV(size=n); want = np.zeros(n, bool); wcls = SLV
        elif form == 'SLV.from_size': fn = lambda: SLV.from_size(n); want = np.zeros(n, bool); wcls = SLV
        elif form == 'sparse_vector(list)': src = lst; fn = lambda: sp.sparse_vector(src)
        elif form == 'sparse_vector(list,size+)':
            src = lst; fn = lambda: sp.sparse_vector(src, size=n + 2)
            want = np.concatenate([want, np.zeros(2, dtype=want.dtype)])
        elif form == 'sparse_vector(nd)': src = d.copy(); fn = lambda: sp.sparse_vector(src)
        elif form == 'sparse_vector(sparse)': src = mk_sparse(want); fn = lambda: sp.sparse_vector(src); same_obj = True
        elif form == 'sparse_vector(sparse,copy)': src = mk_sparse(want); fn = lambda: sp.sparse_vector(src, copy=True); shares = False
        elif form == 'sparse(list)': src = lst; fn = lambda: sp.sparse(src)
        elif form == 'sparse(nd)': src = d.copy(); fn = lambda: sp.sparse(src)
        elif form == 'sparse(sparse)': src = mk_sparse(want); fn = lambda: sp.sparse(src); same_obj = True
        else: raise HarnessError(form)
    else:
        lst = d.tolist(); wcls = SA
        m = shape[0]
        if form == 'SA(list)': src = lst; fn = lambda: SA(src)
        elif form == 'SA(nd)': src = d.copy(); fn = lambda: SA(src)
        elif form in ('SA(dicts,size)', 'sparse(dicts,size)'):
            src = [{i: v for i, v in enumerate(row) if v} for row in lst]
            want = d.astype(float)
            fn = (lambda: SA(src, vector_size=n)) if form.startswith('SA') else (lambda: sp.sparse(src, vector_size=n))
        elif form == 'SA(rows)': src = [mk_sparse(r) for r in want]; fn = lambda: SA(src)
        elif form == 'SA(ndrows)': src = [r.copy() for r in d]; fn = lambda: SA(src)
        elif form == 'SA.from_shape': fn = lambda: SA.from_shape([m, n]); want = np.zeros((m, n))
        elif form == 'SA()': fn = lambda: SA(); want = np.zeros((0, 0))
        elif form == 'sparse_array(list)': src = lst; fn = lambda: sp.sparse_array(src)
        elif form == 'sparse_array(nd)': src = d.copy(); fn = lambda: sp.sparse_array(src)
        elif form == 'sparse_array(SA)': src = mk_sparse(want); fn = lambda: sp.sparse_array(src); same_obj = True
        elif form == 'sparse_array(SA,copy)': src = mk_sparse(want); fn = lambda: sp.sparse_array(src, copy=True); shares = False
        elif form == 'sparse(list)': src = lst; fn = lambda: sp.sparse(src)
        elif form == 'sparse(nd)': src = d.copy(); fn = lambda: sp.sparse(src)
        elif form == 'sparse(SA)': src = mk_sparse(want); fn = lambda: sp.sparse(src); same_obj = True
        else: raise HarnessError(form)
    src_dense = raw_image(src) if is_sparse(src) else None
    snap = None if is_sparse(src) or isinstance(src, list) and src and is_sparse(src[0]) else copy.deepcopy(src)
    r = ctx.call(site, fn, region=region)
    if not is_sparse(r):
        ctx.fail(f'{site}|{region}|class', f'{form} returned {type(r).__name__}')
    got = image(ctx, r, site, region)
    dd = differs(got, want, exact_shape=True)
    if dd:
        ctx.fail(f'{site}|{region}|{dd}', f'{form} of {d.tolist()}: got {describe(r)} want {want.tolist()}')
    if wcls is not None and r.__class__ is not wcls:
        ctx.fail(f'{site}|{region}|class', f'{form} of {d.tolist()} returned {type(r).__name__}, expected {wcls.__name__}')
    if r.__class__ is SA and r.rows and got.dtype != want.dtype:
        ctx.fail(f'{site}|{region}|dtype', f'{form} of {d.tolist()}: rows are {got.dtype}, expected {want.dtype}')
    if same_obj and r is not src:
        ctx.fail(f'{site}|{region}|not-same', f'{form} must return its argument')
    if src_dense is not None:
        unchanged(ctx, src, src_dense, None, site, region, 'source')
    elif snap is not None:
        if not same_value(src, snap): ctx.fail(f'{site}|{region}|operand-modified', f'{form} changed its argument: {src!r} was {snap!r}')
    if shares is False and is_sparse(src):
        # an independent copy: clearing the result must not touch the source
        if r.__class__ is SA:
            for row in r.rows: row.set.clear()
        else:
            r.set.clear()
        unchanged(ctx, src, src_dense, None, site, region + ',after=clear-copy', 'source')
    if want.any(): nontriv(ctx, ('cons', form, dc, tuple(shape), ''.join('1' if v else '0' for v in vals)))


def prop_construct(ch, ctx):
    two = ch.bool('2d')
    form = ch.choice('form', CONS_2D if two else CONS_1D)
    dc = ch.choice('dtype', ['f', 'f', 'i', 'b', 'b'])
    if form in ('SV(SV)', 'SV(SV,size+)', 'SLV(SV)'): dc = 'f' if dc == 'i' else dc
    shape = [ch.int('m', 1, 3), ch.int('n', 1, 6)] if two else [ch.int('n', 1, 6)]
    vals = draw_vals(ch, 'vals', dc, nelem(shape))
    core_construct(ctx, form, dc, shape, vals)


# ---------------------------------------------------------------------------
# conversions, unary operators, descriptive methods (pure observations)
# ---------------------------------------------------------------------------
def _pairs(idx):
    return sorted(zip(*[np.asarray(i).tolist() for i in idx])) if len(idx) > 1 else sorted(np.asarray(idx[0]).tolist())


def _notnone(ctx, r, site, region):
    if r is None: ctx.fail(f'{site}|{region}|returns-None', 'method returned None instead of an (empty) index collection')
    return r


# dtype spellings NumPy accepts for a conversion (JSON name -> object); string/void dtypes are outside the domain
DTYPES = {'float': float, 'bool': bool, 'int': int, 'np.float64': np.float64, "'float64'": 'float64', "'float'": 'float',
          'np.float32': np.float32, "'float32'": 'float32', 'np.int64': np.int64, "'int64'": 'int64', 'np.int32': np.int32,
          'np.bool_': np.bool_, "'bool'": 'bool', 'dtype(float64)': np.dtype('float64'), 'dtype(bool)': np.dtype(bool),
          'dtype(int64)': np.dtype('int64')}
DTYPE_NAMES = list(DTYPES)


OBS = ['to_array', 'to_array(float)', 'to_array(bool)', 'astype(float)', 'to_array(dtype)', 'to_array(dtype)', 'astype(dtype)', 'astype(dtype)', 'value', 'asarray', 'tolist', 'to_list', 'iter',
       'len', 'shape', 'size', 'vector_size', 'ndim', 'dtype', 'to_flat_array', 'to_flat_array(arr)', 'float', 'int', 'bool',
       'neg', 'abs', 'invert', 'copy', 'nonzero_index', 'nonzero', 'nonzero_keys', 'nonzero_values', 'nonzero_items',
       'positive_index', 'negative_index', 'negative_keys', 'negative_rows', 'has_negatives', 'nonzero_rows',
       'sparse_equal', 'sum_of', 'shares_data_with', 'sp.nonzero_items', 'str', 'repr']


def core_observe(ctx, lspec, obs, extra):
    """``extra``: JSON-able argument of the observation (other operand spec, index list, axis...)."""
    a = dense_of(lspec); L = build(lspec, a)
    k = lspec['k']; two = a.ndim == 2; isb = a.dtype == bool
    site = 'observe.' + obs; region = f'L={k}'
    ctx.cell(f'obs:{obs}:{k}')
    exact = True
    must_raise = False
    post = lambda r: r
    if obs == 'to_array': fn = lambda: L.to_array(); want = a
    elif obs == 'to_array(float)': fn = lambda: L.to_array(float); want = a.astype(float)
    elif obs == 'to_array(bool)': fn = lambda: L.to_array(dtype=bool); want = a.astype(bool)
    elif obs == 'astype(float)': fn = lambda: L.astype(float); want = a.astype(float)
    elif obs in ('to_array(dtype)', 'astype(dtype)'):
        dt = DTYPES[extra['dtype']]
        region += f',dtype={extra["dtype"]}'
        if obs == 'astype(dtype)': fn = lambda: L.astype(dt)
        elif extra.get('kw'): fn = lambda: L.to_array(dtype=dt)
        else: fn = lambda: L.to_array(dt)
        with np.errstate(all='ignore'): want = a.astype(dt)
    elif obs == 'value': fn = lambda: L.value; want = a
    elif obs == 'asarray': fn = lambda: np.asarray(L); want = a
    elif obs in ('tolist', 'to_list'):
        fn = lambda: getattr(L, obs)(); want = a
        post = lambda r: r if isinstance(r, list) else ctx.fail(f'{site}|{region}|class', f'{obs} returned {type(r).__name__}')
    elif obs == 'iter':
        fn = lambda: [(raw_image(x) if is_sparse(x) else x) for x in L]; want = a
    elif obs == 'len': fn = lambda: len(L); want = np.asarray(len(a))
    elif obs == 'shape': fn = lambda: L.shape; want = np.asarray(a.shape)
    elif obs == 'size': fn = lambda: L.size; want = np.asarray(a.size)
    elif obs == 'vector_size': fn = lambda: L.vector_size; want = np.asarray(a.shape[-1])
    elif obs == 'ndim': fn = lambda: L.ndim; want = np.asarray(a.ndim)
    elif obs == 'dtype': fn = lambda: L.dtype is (bool if isb else float); want = np.asarray(True)
    elif obs == 'to_flat_array': fn = lambda: L.to_flat_array(); want = a.flatten()
    elif obs == 'to_flat_array(arr)':
        buf = np.ones(a.size, dtype=a.dtype)
        fn = lambda: L.to_flat_array(buf); want = a.flatten()
    elif obs in ('float', 'int', 'bool'):
        conv = {'float': float, 'int': int, 'bool': bool}[obs]
        fn = lambda: conv(L)
        if a.size == 1: want = np.asarray(conv(a.reshape(-1)[0]))
        else: must_raise = True
    elif obs == 'neg':
        if isb: return ctx.cell('skip:numpy-TypeError')
        fn = lambda: -L; want = -a
    elif obs == 'abs': fn = lambda: abs(L); want = abs(a)
    elif obs == 'invert':
        if not isb: return ctx.cell('skip:numpy-TypeError')
        fn = lambda: ~L; want = ~a
    elif obs == 'copy': fn = lambda: L.copy(); want = a
    elif obs in ('nonzero_index', 'nonzero'):
        fn = lambda: _pairs(getattr(L, obs)()); want = np.asarray(_pairs(np.nonzero(a))); exact = False
    elif obs == 'nonzero_keys': fn = lambda: sorted(L.nonzero_keys()); want = np.asarray(sorted(set(np.nonzero(a)[-1].tolist()))); exact = False
    elif obs == 'nonzero_values': fn = lambda: sorted(L.nonzero_values()); want = np.asarray(sorted(a[a != 0].tolist())); exact = False
    elif obs in ('nonzero_items', 'sp.nonzero_items'):
        def fn():
            items = list(L.nonzero_items() if obs == 'nonzero_items' else sp.nonzero_items(L))
            out = np.zeros(a.shape, dtype=a.dtype)
            for key, val in items:
                if not val: ctx.fail(f'{site}|{region}|mismatch', f'nonzero_items yields a zero value at {key}')
                out[key] = val
            if len(items) != int(np.count_nonzero(a)): ctx.fail(f'{site}|{region}|mismatch', f'nonzero_items yields {len(items)} items for {a.tolist()}')
            return out
        want = a
    elif obs == 'positive_index': fn = lambda: _pairs(L.positive_index()); want = np.asarray(_pairs(np.nonzero(a > 0))); exact = False
    elif obs == 'negative_index': fn = lambda: _pairs(_notnone(ctx, L.negative_index(), site, region)); want = np.asarray(_pairs(np.nonzero(a < 0))); exact = False
    elif obs == 'negative_keys': fn = lambda: sorted(_notnone(ctx, L.negative_keys(), site, region)); want = np.asarray(sorted(set(np.nonzero(a < 0)[-1].tolist()))); exact = False
    elif obs == 'negative_rows':
        if not two: return ctx.cell('skip:not-applicable')
        fn = lambda: sorted(L.negative_rows()); want = np.asarray(sorted(set(np.nonzero(a < 0)[0].tolist()))); exact = False
    elif obs == 'nonzero_rows':
        if not two: return ctx.cell('skip:not-applicable')
        fn = lambda: sorted(L.nonzero_rows()); want = np.asarray(sorted(set(np.nonzero(a)[0].tolist()))); exact = False
    elif obs == 'has_negatives': fn = lambda: L.has_negatives(); want = np.asarray(bool((a < 0).any()))
    elif obs == 'sparse_equal':
        ospec = extra
        o = dense_of(ospec); O = build(ospec, o)
        fn = lambda: L.sparse_equal(O); want = np.asarray(bool(np.array_equal(a != 0, o != 0) and np.array_equal(a[a != 0], o[o != 0])))
        region += f',other={kind_tag(ospec["k"], ospec["s"])}'
    elif obs == 'sum_of':
        idx = extra['idx']; axis = extra.get('axis')
        if two:
            fn = lambda: L.sum_of(idx, axis); want = a[:, idx].sum(axis=0) if axis == 0 else a[:, idx].sum(axis=1) if np.ndim(idx) else a[:, idx]
            if not np.ndim(idx) and axis == 0: want = a[:, idx].sum()
            region += f',axis={axis},idx={"list" if np.ndim(idx) else "int"}'
        else:
            fn = lambda: L.sum_of(idx); want = a[idx].sum()
            region += f',idx={"list" if np.ndim(idx) else "int"}'
    elif obs == 'shares_data_with':
        if isb: return ctx.cell('skip:not-applicable')
        def fn():
            c = L.copy()
            r = [bool(L.shares_data_with(L)), bool(L.shares_data_with(c))]
            if two: r.append(bool(L.shares_data_with(L.rows[0]))); r.append(bool(L.rows[0].shares_data_with(L)))
            return r
        want = np.asarray([True, False] + ([True, True] if two else []))
    elif obs == 'str': fn = lambda: str(L) == str(a); want = np.asarray(True)
    elif obs == 'repr': fn = lambda: repr(L) == 'sparse' + repr(a)[5:].replace('\n', '\n '); want = np.asarray(True)
    else:
        raise HarnessError(obs)
    if must_raise:
        try:
            r = fn()
        except (Violation, HarnessError):
            raise
        except Exception as e:
            return ctx.cell('rejected:' + type(e).__name__)
        ctx.fail(f'{site}|{region}|accepted', f'{obs} of {a.tolist()} returned {r!r}; NumPy rejects arrays with more than one element')
    r = ctx.call(site, fn, region=region)
    r = post(r)
    got = image(ctx, r, site, region)
    d = differs(got, want, exact_shape=exact)
    if d:
        ctx.fail(f'{site}|{region}|{d}', f'{obs} of {a.tolist()} ({extra}): got {describe(r)} want {np.asarray(want).tolist()}')
    if obs in ('to_array', 'value', 'astype(float)', 'to_array(float)', 'to_array(bool)', 'to_array(dtype)', 'astype(dtype)') and (not isinstance(r, np.ndarray) or r.dtype != want.dtype):
        ctx.fail(f'{site}|{region}|dtype', f'{obs}: got {type(r).__name__} of dtype {getattr(r, "dtype", None)}, expected ndarray of {want.dtype}')
    unchanged(ctx, L, a, None, site, region, 'observed')
    if obs == 'copy':
        if r is L or (two and any(x is y for x in r.rows for y in L.rows)) or (not two and r.set is L.set):
            ctx.fail(f'{site}|{region}|shares', 'copy shares storage with the original')
    if a.any(): nontriv(ctx, ('obs', obs, k, tuple(lspec['s']), zpat(lspec), canon(extra)))


def prop_observe(ch, ctx):
    from hypothesis import strategies as st
    lk = ch.choice('L.kind', list(SPARSE))
    ls = ch.choice('L.shape', shapes_for(lk))
    lv = draw_vals(ch, 'L.vals', dchar(lk), nelem(ls))
    obs = ch.choice('obs', OBS)
    extra = None
    if obs == 'sparse_equal':
        ok = ch.choice('O.kind', [k for k in (('lstb', 'ndb', 'SLV', 'SAb') if dchar(lk) == 'b' else ('lstf', 'lsti', 'ndf', 'ndi', 'SV', 'SA'))
                                  if len(ls) in dims_of(k)])
        same = ch.bool('O.same')
        ov = list(lv) if same and dchar(ok) != 'i' else draw_vals(ch, 'O.vals', dchar(ok), nelem(ls))
        extra = {'k': ok, 's': ls, 'v': ov}
    elif obs in ('to_array(dtype)', 'astype(dtype)'):
        extra = {'dtype': ch.choice('dtype', DTYPE_NAMES), 'kw': ch.bool('kw')}
    elif obs == 'sum_of':
        n = ls[-1]
        if ch.bool('idx.list'):
            idx = ch.draw('idx', st.lists(st.integers(0, n - 1), min_size=1, max_size=4, unique=True))
        else:
            idx = ch.int('idx', 0, n - 1)
        extra = {'idx': idx, 'axis': ch.choice('axis', [0, 1])}
    core_observe(ctx, {'k': lk, 's': ls, 'v': lv}, obs, extra)


# ---------------------------------------------------------------------------
# named mutators and the read-only flag
# ---------------------------------------------------------------------------
MUTATORS = ['clear', 'copy_like', 'mix_from', 'remove_negatives', 'from_flat_array']
MUT_KINDS = {'clear': ['SV', 'SA', 'SAb'], 'copy_like': ['SV', 'SA'], 'mix_from': ['SV'],
             'remove_negatives': list(SPARSE), 'from_flat_array': list(SPARSE)}
RO_WRITES = ['setitem', 'iadd', 'isub', 'imul', 'itruediv', 'iand', 'ior', 'ixor', 'clear', 'from_flat_array',
             'copy_like', 'mix_from', 'remove_negatives', 'row.setitem', 'row.iadd', 'setitem.int', 'setitem.fancy', 'setitem.mask2']


def apply_mutator(L, a, name, args):
    """Returns (callable, expected dense image)."""
    if name == 'clear':
        return (lambda: L.clear()), np.zeros_like(a)
    if name == 'remove_negatives':
        w = a.copy()
        if a.dtype != bool: w[w < 0] = 0
        return (lambda: L.remove_negatives()), w
    if name == 'copy_like':
        o = args['other']
        return (lambda: L.copy_like(o)), args['other_dense'].astype(a.dtype)
    if name == 'from_flat_array':
        flat = args['flat']
        return (lambda: L.from_flat_array(flat)), np.asarray(flat).astype(a.dtype).reshape(a.shape)
    if name == 'mix_from':
        others = args['others']
        w = np.zeros_like(a)
        for od in args['others_dense']: w = w + od
        return (lambda: L.mix_from(others)), w
    raise HarnessError(name)


def core_mutate(ctx, lspec, name, extra):
    a = dense_of(lspec); L = build(lspec, a)
    k = lspec['k']
    site = 'mutate.' + name; region = f'L={k}'
    ctx.cell(f'mut:{name}:{k}')
    args = {}
    others = []
    if name == 'copy_like':
        o = dense_of(extra); O = build(extra, o)
        args = {'other': O, 'other_dense': o}; others = [(O, o)]
    elif name == 'from_flat_array':
        flat = np.array(extra['v'], dtype=DT[extra['d']])
        if extra['as'] == 'list': flat = flat.tolist()
        args = {'flat': flat}
        region += f',src={extra["as"]}{extra["d"]}'
    elif name == 'mix_from':
        objs = []; dens = []
        for e in extra['others']:
            if e == 'self': objs.append(L); dens.append(a.copy())
            else:
                o = dense_of(e); O = build(e, o); objs.append(O); dens.append(o); others.append((O, o))
        args = {'others': objs, 'others_dense': dens}
        region += f',n={min(len(objs), 2)},self={sum(1 for e in extra["others"] if e == "self") if len(objs) else 0}'
    fn, want = apply_mutator(L, a, name, args)
    ctx.call(site, fn, region=region)
    got = image(ctx, L, site, region, 'target')
    d = differs(got, want, exact_shape=True)
    if d:
        ctx.fail(f'{site}|{region}|{d}', f'{name} on {a.tolist()} ({extra}): got {describe(L)} want {want.tolist()}')
    for O, o in others:
        unchanged(ctx, O, o, None, site, region, 'other')
    if a.any() or want.any(): nontriv(ctx, ('mut', name, k, tuple(lspec['s']), zpat(lspec), canon(extra)))


def draw_mut_extra(ch, name, lk, ls, lv):
    from hypothesis import strategies as st
    if name == 'copy_like':
        return {'k': lk, 's': ls, 'v': draw_vals(ch, 'O.vals', dchar(lk), nelem(ls))}
    if name == 'from_flat_array':
        d = ch.choice('F.dtype', ['f', 'b', 'i'])
        return {'v': draw_vals(ch, 'F.vals', d, nelem(ls)), 'd': d, 'as': ch.choice('F.as', ['nd', 'list'])}
    if name == 'mix_from':
        n = ch.int('M.n', 0, 3)
        out = []
        for i in range(n):
            if ch.bool(f'M{i}.self'): out.append('self')
            else: out.append({'k': 'SV', 's': ls, 'v': draw_vals(ch, f'M{i}.vals', 'f', nelem(ls))})
        return {'others': out}
    return None


def prop_mutate(ch, ctx):
    name = ch.choice('mutator', MUTATORS)
    lk = ch.choice('L.kind', MUT_KINDS[name])
    ls = ch.choice('L.shape', shapes_for(lk))
    lv = draw_vals(ch, 'L.vals', dchar(lk), nelem(ls))
    extra = draw_mut_extra(ch, name, lk, ls, lv)
    core_mutate(ctx, {'k': lk, 's': ls, 'v': lv}, name, extra)


def core_readonly(ctx, lspec, how, write, vals):
    """A write through any mutator of a read-only float vector/array must raise ValueError and change nothing."""
    a = dense_of(lspec); L = build(lspec, a)
    k = lspec['k']; two = a.ndim == 2
    site = 'readonly.' + write; region = f'L={k},flag={how}'
    ctx.cell(f'ro:{write}:{k}')
    if how == 'setflags':
        ctx.call('readonly.setflags', lambda: L.setflags(0), region=f'L={k}')
    else:
        for r in (L.rows if two else [L]): r.read_only = True
    row = L.rows[0] if two else L
    v = np.array(vals, dtype=float).reshape(a.shape)
    V = mk_sparse(v)
    if write == 'setitem': fn = lambda: L.__setitem__(slice(None), 1.0)
    elif write == 'setitem.int': fn = lambda: L.__setitem__((0, 0) if two else 0, 1.0)
    elif write == 'setitem.fancy': fn = lambda: L.__setitem__(([0], [0]) if two else [0], 1.0)
    elif write == 'setitem.mask2': fn = lambda: L.__setitem__(np.ones(a.shape, dtype=bool), 1.0)
    elif write == 'row.setitem': fn = lambda: row.__setitem__(0, 1.0)
    elif write == 'row.iadd': fn = lambda: operator.iadd(row, 1.0)
    elif write in ('iadd', 'isub', 'imul', 'itruediv'): fn = lambda: IOP[write[1:]](L, 2.0)
    elif write in ('iand', 'ior', 'ixor'): return ctx.cell('skip:numpy-TypeError')
    elif write == 'clear': fn = lambda: L.clear()
    elif write == 'from_flat_array': fn = lambda: L.from_flat_array(v.flatten())
    elif write == 'copy_like': fn = lambda: L.copy_like(V)
    elif write == 'mix_from':
        if two: return ctx.cell('skip:not-applicable')
        fn = lambda: L.mix_from([V])
    elif write == 'remove_negatives': fn = lambda: L.remove_negatives()
    else: raise HarnessError(write)
    try:
        fn()
    except (Violation, HarnessError):
        raise
    except ValueError:
        ctx.cell('ro:rejected')
    except Exception as e:
        ctx.fail(f'{site}|{region}|exc:{type(e).__name__}', f'write to a read-only object raised {type(e).__name__}: {e}')
    else:
        ctx.fail(f'{site}|{region}|accepted', f'{write} on a read-only {k} did not raise; now {describe(L)}, was {a.tolist()}')
    unchanged(ctx, L, a, None, site, region, 'read-only')
    nontriv(ctx, ('ro', write, k, how, tuple(lspec['s'])))


def prop_readonly(ch, ctx):
    lk = ch.choice('L.kind', ['SV', 'SV', 'SA', 'SA', 'SAb'])
    ls = ch.choice('L.shape', shapes_for(lk))
    lv = draw_vals(ch, 'L.vals', dchar(lk), nelem(ls))
    how = ch.choice('how', ['setflags', 'attr'])
    write = ch.choice('write', RO_WRITES)
    if lk == 'SAb': how = 'setflags'; write = 'setitem'
    vals = draw_vals(ch, 'V.vals', 'f', nelem(ls))
    core_readonly(ctx, {'k': lk, 's': ls, 'v': lv}, how, write, vals)


# ---------------------------------------------------------------------------
# histories: a pool of objects mirrored by ndarrays
# ---------------------------------------------------------------------------
import fnmatch as _fnmatch


def known_region(ctx, site, region):
    """Id of the known finding whose trigger region contains (site, region), ignoring the failure kind."""
    head = f'{ctx.prop}|{site}|{region}'
    for k in ctx.known:
        for pat in k.get('signatures', []):
            parts = pat.split('|')
            if len(parts) == 4 and _fnmatch.fnmatchcase(head, '|'.join(parts[:3])):
                return k['id']
    return None


def avoided(ch, ctx, label, site, region):
    """Environment-dependent decision (is the operation inside a known finding's region?) logged into the case,
    so that a replay takes the same path whatever the findings file says by then."""
    kid = ch._next(label, lambda: known_region(ctx, site, region))
    if kid:
        ctx.cell(f'avoided:{kid}')
        return True
    return False


def kind_of(x):
    if x.__class__ is SV: return 'SV'
    if x.__class__ is SLV: return 'SLV'
    return 'SAb' if x.dtype is bool else 'SA'


def norm(a):
    a = np.asarray(a)
    return a + 0.0 if a.dtype.kind == 'f' else a


def magnitude_ok(w):
    w = np.asarray(w)
    if w.dtype.kind != 'f': return True
    if not np.isfinite(w).all(): return False
    nzv = np.abs(w[w != 0])
    return not nzv.size or (nzv.max() < 1e150 and nzv.min() > 1e-150)


def cast_ok(a, dt):
    """Values survive the cast without leaving the target's range (int32/int64/float32); else the result is platform noise."""
    d = np.dtype(dt)
    if a.dtype.kind != 'f' or not a.size: return True
    mag = np.abs(a[a != 0])
    if not mag.size: return True
    if d.kind == 'i': return bool(mag.max() < 2.0 ** 31)
    if d.kind == 'f' and d.itemsize < 8: return bool(mag.max() < 1e38 and mag.min() > 1e-37)
    return True


class Pool:
    def __init__(self):
        self.objs = []; self.mirrors = []; self.ro = []; self.bufs = {}

    def add(self, obj, mirror):
        self.objs.append(obj); self.mirrors.append(norm(mirror)); self.ro.append(False)

    def check(self, ctx, site, region, target=None):
        for i, (o, m) in enumerate(zip(self.objs, self.mirrors)):
            p = rep_problem(o)
            who = 'target' if i == target else 'bystander'
            if p: ctx.fail(f'{site}|{region}|rep:{p}', f'pool[{i}] ({who}) breaks the invariant: {describe(o)}')
            d = differs(raw_image(o), m, exact_shape=True)
            if d:
                kind = d if i == target else 'other-changed'
                ctx.fail(f'{site}|{region}|{kind}', f'pool[{i}] ({who}) is {describe(o)}, mirror {m.tolist()}')


H_ACTIONS = ['iop', 'iop', 'iop', 'iop', 'setitem', 'setitem', 'setitem', 'row_iop', 'binop_new', 'binop_new', 'reduce_new',
             'copy', 'clear', 'remove_negatives', 'from_flat_array', 'copy_like', 'mix_from', 'set_ro', 'unset_ro',
             'observe', 'observe']


def draw_lit(ch, tag, kinds, lshape):
    rk = ch.choice(f'{tag}.kind', kinds)
    rs = ch.choice(f'{tag}.shape', r_shape_candidates(lshape, rk))
    rv = draw_vals(ch, f'{tag}.vals', dchar(rk), nelem(rs))
    return {'k': rk, 's': rs, 'v': rv}


def prop_history(ch, ctx):
    n = ch.int('n', 1, 6); m = ch.int('m', 1, 3)
    pool = Pool()
    specs = []
    for i in range(ch.int('npool', 1, 3)):
        k = ch.choice(f'P{i}.kind', ['SV', 'SV', 'SA', 'SA', 'SLV', 'SAb'])
        s = ch.choice(f'P{i}.shape', [[n], [n], [n], [1]] if k in ('SV', 'SLV') else [[m, n], [m, n], [m, n], [1, n], [m, 1]])
        v = draw_vals(ch, f'P{i}.vals', dchar(k), nelem(s))
        spec = {'k': k, 's': s, 'v': v}
        specs.append(spec)
        d = dense_of(spec)
        pool.add(build(spec, d), d)
    nsteps = ch.int('nsteps', 1, 30)
    acts = []
    for step in range(nsteps):
        t = f's{step}'
        act = ch.choice(f'{t}.act', H_ACTIONS)
        ti = ch.int(f'{t}.target', 0, len(pool.objs) - 1)
        T = pool.objs[ti]; a = pool.mirrors[ti]; tk = kind_of(T); isb = a.dtype == bool
        tshape = list(a.shape)
        ctx.cell('h:' + act)
        acts.append(act)
        site = 'h.' + act; region = f'L={tk}'
        if act == 'iop':
            ops = ['add', 'mul', 'and', 'or', 'xor'] if isb else ARITH
            op = ch.choice(f'{t}.op', ops)
            src = ch.choice(f'{t}.src', ['lit', 'lit', 'pool'])
            if src == 'pool':
                ri = ch.int(f'{t}.ri', 0, len(pool.objs) - 1)
                R = pool.objs[ri]; b = pool.mirrors[ri]; alias = ri == ti
                if op in LOGIC and b.dtype != bool:
                    ctx.cell('h:skip:numpy-TypeError'); continue
                rtag = 'self' if alias else kind_of(R); rshape = list(b.shape)
            else:
                rspec = draw_lit(ch, f'{t}.R', r_kinds_for('inp', op, tk), tshape)
                b = dense_of(rspec); R = build(rspec, b); alias = False; ri = None
                rtag = kind_tag(rspec['k'], rspec['s']); rshape = rspec['s']
            bb = drop_lead(b)
            region = f'L={tk},R={rtag},{relation(tshape, rshape)}'
            z = '-'
            if op == 'truediv':
                z = zero_tag(a, bb); region += f',z={z}'
            if alias: region += ',alias=1'
            site = 'h.inplace.i' + op
            if avoided(ch, ctx, f'{t}.avoid', 'inplace.i' + op, region): continue
            status, want = np_binop(op, a, bb)
            if status == 'type' or (status == 'ok' and isb and want.dtype != bool):
                ctx.cell('h:skip:numpy-TypeError'); continue
            must_raise = status == 'shape'
            if not must_raise:
                if want.shape == a.shape: pass
                elif a.shape[-1] == 1 and want.ndim == a.ndim and want.shape[:-1] == a.shape[:-1]: pass
                else: must_raise = True
            if z == 'x0' or (not must_raise and not magnitude_ok(want)):
                ctx.cell('h:avoided:x/0-or-magnitude'); continue
            if pool.ro[ti]:
                if tk in ('SA', 'SAb') and avoided(ch, ctx, f'{t}.avoid_ro', 'readonly.i' + op, f'L={tk},flag=setflags'):
                    continue
                must_raise = True
            b0 = b.copy(); snap = snapshot(R)
            try:
                r = IOP[op](T, R)
            except (Violation, HarnessError):
                raise
            except Exception as e:
                if not must_raise:
                    ctx.fail(f'{site}|{region}|exc:{type(e).__name__}', f'step {step}: {a.tolist()} {op}= {b0.tolist()} raised {type(e).__name__}: {e}')
                ctx.cell('h:rejected')
            else:
                if must_raise:
                    ctx.fail(f'{site}|{region}|accepted', f'step {step}: NumPy rejects {a.tolist()} {op}= {b0.tolist()} (read_only={pool.ro[ti]}) but got {describe(r)}')
                if r is not T: ctx.fail(f'{site}|{region}|not-inplace', 'in-place operator returned another object')
                pool.mirrors[ti] = norm(want.astype(a.dtype))
                if ri is None: unchanged(ctx, R, b0, snap, site, region, 'right')
        elif act == 'setitem':
            ispec = draw_index(ch, tshape)
            si, ni = mk_index(ispec)
            ss = np.shape(a[ni])
            vk = ch.choice(f'{t}.V.kind', V_KINDS)
            cands = [x for x in value_shapes(ss, vk) if numpy_accepts(tshape, ni, x)]
            if not cands: vk = 'pyf'; cands = [[]]
            vs = ch.choice(f'{t}.V.shape', cands)
            vspec = {'k': vk, 's': vs, 'v': draw_vals(ch, f'{t}.V.vals', dchar(vk), nelem(vs))}
            v = dense_of(vspec); V = build(vspec, v)
            region = f'L={tk},idx={form_of(ispec)},val={vform(vspec, ss)}'
            site = 'h.setitem'
            if avoided(ch, ctx, f'{t}.avoid', 'setitem', region): continue
            if pool.ro[ti] and tk == 'SA':
                fr = form_of(ispec)
                w = 'setitem.mask2' if fr.endswith('mask2') else 'setitem.fancy' if fr.startswith('T:') and fr.count('list') + fr.count('ndint') else 'setitem'
                if avoided(ch, ctx, f'{t}.avoid_ro', 'readonly.' + w, f'L={tk},flag=setflags'): continue
            want = a.copy(); want[ni] = v
            try:
                T[si] = V
            except (Violation, HarnessError):
                raise
            except ValueError as e:
                if not pool.ro[ti]:
                    ctx.fail(f'{site}|{region}|exc:ValueError', f'step {step}: {a.tolist()}[{ispec}] = {v.tolist()} raised {e}')
                ctx.cell('h:ro-rejected')
            except Exception as e:
                ctx.fail(f'{site}|{region}|exc:{type(e).__name__}', f'step {step}: {a.tolist()}[{ispec}] = {v.tolist()} raised {type(e).__name__}: {e}')
            else:
                if pool.ro[ti]:
                    region += ',ro=1'
                    if not np.array_equal(want, a):
                        ctx.fail(f'{site}|{region}|accepted', f'step {step}: write to read-only {tk} accepted: {describe(T)}')
                pool.mirrors[ti] = norm(want)
        elif act == 'row_iop':
            if tk not in ('SA', 'SAb') or pool.ro[ti]:
                ctx.cell('h:skip:not-applicable'); continue
            ri = ch.int(f'{t}.row', 0, a.shape[0] - 1)
            op = ch.choice(f'{t}.op', ['add', 'mul', 'or', 'xor'] if isb else ARITH)
            rspec = draw_lit(ch, f'{t}.R', [k for k in r_kinds_for('inp', op, tk) if max(dims_of(k)) <= 1], [a.shape[1]])
            b = dense_of(rspec); R = build(rspec, b)
            status, want = np_binop(op, a[ri], b)
            region = f'L={tk},R={kind_tag(rspec["k"], rspec["s"])},{relation([a.shape[1]], rspec["s"])}'
            site = 'h.row.i' + op
            if status != 'ok' or want.shape != a[ri].shape or (isb and want.dtype != bool) or not magnitude_ok(want) \
                    or (op == 'truediv' and zero_tag(a[ri], b) != 'n'):
                ctx.cell('h:skip:row-op-not-plain'); continue
            if avoided(ch, ctx, f'{t}.avoid', 'inplace.i' + op, region.replace(f'L={tk}', 'L=SLV' if isb else 'L=SV')): continue
            def f():
                row = T[ri]
                row = IOP[op](row, R)
                return row
            row = ctx.call(site, f, region=region)
            if row is not T.rows[ri]: ctx.fail(f'{site}|{region}|not-a-view', 'sa[i] is not the stored row')
            m2 = a.copy(); m2[ri] = want
            pool.mirrors[ti] = norm(m2)
        elif act == 'binop_new':
            op = ch.choice(f'{t}.op', (['add', 'mul', 'and', 'or', 'xor'] + CMP) if isb else ARITH + CMP)
            src = ch.choice(f'{t}.src', ['lit', 'pool', 'pool'])
            if src == 'pool':
                ri = ch.int(f'{t}.ri', 0, len(pool.objs) - 1)
                R = pool.objs[ri]; b = pool.mirrors[ri]; alias = ri == ti
                if op in LOGIC and b.dtype != bool:
                    ctx.cell('h:skip:numpy-TypeError'); continue
                rtag = 'self' if alias else kind_of(R); rshape = list(b.shape)
            else:
                rspec = draw_lit(ch, f'{t}.R', r_kinds_for('bin', op, tk), tshape)
                b = dense_of(rspec); R = build(rspec, b); alias = False
                rtag = kind_tag(rspec['k'], rspec['s']); rshape = rspec['s']
            bb = drop_lead(b)
            region = f'L={tk},R={rtag},{relation(tshape, rshape)}'
            z = '-'
            if op == 'truediv':
                z = zero_tag(a, bb); region += f',z={z}'
            if alias: region += ',alias=1'
            site = 'h.binop.' + op
            if avoided(ch, ctx, f'{t}.avoid', 'binop.' + op, region): continue
            status, want = np_binop(op, a, bb)
            if status != 'ok' or z == 'x0' or not magnitude_ok(want):
                ctx.cell('h:skip:binop-not-plain'); continue
            try:
                r = ctx.call(site, lambda: PYOP[op](T, R), region=region, allowed=(FloatingPointError,) if z == '00' else ())
            except FloatingPointError:
                ctx.cell('h:div-fp'); continue
            got = image(ctx, r, site, region)
            d = differs(got, want)
            if d: ctx.fail(f'{site}|{region}|{d}', f'step {step}: {a.tolist()} {op} {b.tolist()}: got {describe(r)} want {want.tolist()}')
            if is_sparse(r):
                mirror = np.nan_to_num(np.asarray(want), nan=0.0).reshape(got.shape).astype(got.dtype)
                if len(pool.objs) < 4: pool.add(r, mirror)
                else:
                    k = (ti + 1) % len(pool.objs)
                    pool.objs[k] = r; pool.mirrors[k] = norm(mirror); pool.ro[k] = False
        elif act == 'reduce_new':
            method = ch.choice(f'{t}.method', METHODS)
            axis = ch.choice(f'{t}.axis', [None, 0, 1] if a.ndim == 2 else [None, 0])
            keepdims = ch.bool(f'{t}.keepdims')
            region = f'L={tk},axis={axis},keepdims={int(keepdims)}'
            site = 'h.reduce.' + method
            if avoided(ch, ctx, f'{t}.avoid', 'reduce.' + method, region): continue
            want = getattr(a, method)(axis=axis, keepdims=keepdims)
            r = ctx.call(site, lambda: getattr(T, method)(axis=axis, keepdims=keepdims), region=region)
            got = image(ctx, r, site, region)
            if got.shape != np.shape(want) or not np.allclose(got.astype(float), np.asarray(want, dtype=float), rtol=1e-12, atol=0):
                ctx.fail(f'{site}|{region}|mismatch', f'step {step}: {a.tolist()}.{method}(axis={axis}, keepdims={keepdims}): got {describe(r)} want {np.asarray(want).tolist()}')
            if is_sparse(r) and len(pool.objs) < 4:
                pool.add(r, raw_image(r))
        elif act == 'copy':
            r = ctx.call(site, lambda: T.copy(), region=region)
            if len(pool.objs) < 4: pool.add(r, a.copy())
            else:
                k = (ti + 1) % len(pool.objs)
                pool.objs[k] = r; pool.mirrors[k] = a.copy(); pool.ro[k] = False
        elif act in ('clear', 'remove_negatives', 'from_flat_array', 'copy_like', 'mix_from'):
            if tk not in MUT_KINDS[act]:
                ctx.cell('h:skip:not-applicable'); continue
            if pool.ro[ti]:
                # a named mutator on a read-only target must raise ValueError and change nothing
                if avoided(ch, ctx, f'{t}.avoid_ro', 'readonly.' + act, f'L={tk},flag=setflags'): continue
                site = 'h.readonly.' + act
                probe = build({'k': tk, 's': tshape, 'v': [1.0] * a.size})
                if act == 'clear': fn = lambda: T.clear()
                elif act == 'remove_negatives': fn = lambda: T.remove_negatives()
                elif act == 'from_flat_array': fn = lambda: T.from_flat_array(np.ones(a.size))
                elif act == 'copy_like': fn = lambda: T.copy_like(probe)
                else: fn = lambda: T.mix_from([probe])
                try:
                    fn()
                except (Violation, HarnessError):
                    raise
                except ValueError:
                    ctx.cell('h:ro-rejected')
                except Exception as e:
                    ctx.fail(f'{site}|{region}|exc:{type(e).__name__}', f'step {step}: {act} on a read-only {tk} raised {type(e).__name__}: {e}')
                else:
                    ctx.fail(f'{site}|{region}|accepted', f'step {step}: {act} on a read-only {tk} did not raise: {describe(T)}')
                pool.check(ctx, site, region, ti)
                continue
            args = {}
            if act == 'from_flat_array':
                d = ch.choice(f'{t}.F.dtype', ['b'] if isb else ['f', 'f', 'i', 'b'])
                args = {'flat': np.array(draw_vals(ch, f'{t}.F.vals', d, a.size), dtype=DT[d])}
                region += f',src=nd{d}'
            elif act == 'copy_like':
                cands = [j for j, mj in enumerate(pool.mirrors) if mj.shape == a.shape and kind_of(pool.objs[j]) == tk]
                j = ch.choice(f'{t}.other', cands)
                args = {'other': pool.objs[j], 'other_dense': pool.mirrors[j]}
            elif act == 'mix_from':
                cands = [j for j, mj in enumerate(pool.mirrors) if mj.shape == a.shape and kind_of(pool.objs[j]) == 'SV']
                js = [ch.choice(f'{t}.M{q}', cands) for q in range(ch.int(f'{t}.M.n', 0, 3))]
                args = {'others': [pool.objs[j] for j in js], 'others_dense': [pool.mirrors[j].copy() for j in js]}
                region += f',n={min(len(js), 2)},self={sum(1 for j in js if j == ti)}'
            if avoided(ch, ctx, f'{t}.avoid', 'mutate.' + act, region): continue
            fn, want = apply_mutator(T, a, act, args)
            if not magnitude_ok(want):
                ctx.cell('h:avoided:x/0-or-magnitude'); continue
            ctx.call(site, fn, region=region)
            if act == 'mix_from':
                p = rep_problem(T)
                if p: ctx.fail(f'{site}|{region}|rep:{p}', describe(T))
                got = raw_image(T)
                if got.shape != want.shape or not np.allclose(got, want, rtol=1e-12, atol=0):
                    ctx.fail(f'{site}|{region}|mismatch', f'step {step}: mix_from: got {describe(T)} want {want.tolist()}')
                want = got
            pool.mirrors[ti] = norm(want)
        elif act == 'set_ro':
            if tk not in ('SV', 'SA'):
                ctx.cell('h:skip:not-applicable'); continue
            ctx.call(site, lambda: T.setflags(0), region=region)
            pool.ro[ti] = True
        elif act == 'unset_ro':
            if tk not in ('SV', 'SA'):
                ctx.cell('h:skip:not-applicable'); continue
            for row in (T.rows if tk == 'SA' else [T]): row.read_only = False
            pool.ro[ti] = False
        elif act == 'observe':
            ispec = draw_index(ch, tshape)
            si, ni = mk_index(ispec)
            region = f'L={tk},idx={form_of(ispec)}'
            site = 'h.getitem'
            if avoided(ch, ctx, f'{t}.avoid', 'getitem', region): continue
            r = ctx.call(site, lambda: T[si], region=region)
            d = differs(image(ctx, r, site, region), a[ni], exact_shape=True)
            if d: ctx.fail(f'{site}|{region}|{d}', f'step {step}: {a.tolist()}[{ispec}]: got {describe(r)} want {a[ni].tolist()}')
            d = differs(T.to_array(), a, exact_shape=True)
            if d: ctx.fail(f'h.to_array|L={tk}|{d}', f'step {step}: to_array {T.to_array().tolist()} mirror {a.tolist()}')
            dtn = ch.choice(f'{t}.dtype', DTYPE_NAMES)
            if not cast_ok(a, DTYPES[dtn]):
                ctx.cell('h:skip:cast-out-of-range'); pool.check(ctx, site, region, ti); continue
            out = ctx.call('h.to_array(dtype)', lambda: T.astype(DTYPES[dtn]) if step % 2 else T.to_array(DTYPES[dtn]), region=f'L={tk},dtype={dtn}')
            with np.errstate(all='ignore'): wd = a.astype(DTYPES[dtn])
            if not isinstance(out, np.ndarray) or out.dtype != wd.dtype or differs(out, wd, exact_shape=True):
                ctx.fail(f'h.to_array(dtype)|L={tk},dtype={dtn}|mismatch', f'step {step}: conversion to {dtn}: got {describe(out)} want {wd.dtype} {wd.tolist()}')
            # conversion into a caller-supplied buffer that still holds the previous conversion (or junk)
            buf = pool.bufs.get(id(T))
            if buf is None or buf.size != a.size: buf = np.full(a.size, 7.0)
            out = T.to_flat_array(buf)
            d = differs(out, a.flatten(), exact_shape=True)
            if d: ctx.fail(f'h.to_flat_array(arr)|L={tk}|{d}', f'step {step}: to_flat_array(reused buffer) {np.asarray(out).tolist()} mirror {a.flatten().tolist()}')
            pool.bufs[id(T)] = buf
        pool.check(ctx, site, region, ti)
    if any(mi.any() for mi in pool.mirrors) or any(dense_of(sp_).any() for sp_ in specs):
        nontriv(ctx, ('hist', tuple(sp_['k'] for sp_ in specs), tuple(tuple(sp_['s']) for sp_ in specs),
                      tuple(zpat(sp_) for sp_ in specs), tuple(acts)))


# ---------------------------------------------------------------------------
# exhaustive enumeration (operands with <= max_elems elements over a 4-value alphabet)
# ---------------------------------------------------------------------------
def exh_shapes(kind, max_elems):
    out = []
    for d in dims_of(kind):
        if d == 0: out.append([])
        elif d == 1: out += [[n] for n in range(1, max_elems + 1)]
        elif d == 2: out += [[m, n] for m in range(1, max_elems + 1) for n in range(1, max_elems + 1) if m * n <= max_elems]
        elif d == 3 and kind in ('lstf', 'ndf', 'lstb', 'ndb'): out += [[1, 1, n] for n in range(1, max_elems + 1)]
    return out


def exh_specs(kind, max_elems):
    alpha = EXH[dchar(kind)]
    for shape in exh_shapes(kind, max_elems):
        for vals in itertools.product(alpha, repeat=nelem(shape)):
            yield {'k': kind, 's': shape, 'v': list(vals)}


def exh_record(ctx, check, log, v):
    kid = ctx.known_id(v.sig)
    if kid is not None:
        ctx.known_tally[kid] = ctx.known_tally.get(kid, 0) + 1
        return
    size = len(canon(log))
    old = ctx.failures.get(v.sig)
    if old is None or size < old['size']:
        ctx.failures[v.sig] = {'check': check, 'case': log, 'msg': v.msg, 'size': size, 'sig': v.sig}


def spec_log(tag, spec):
    return [[f'{tag}.kind', spec['k']], [f'{tag}.shape', list(spec['s'])], [f'{tag}.vals', list(spec['v'])]]


class Blocks:
    """Block-level sharding: a block (one left operand / one index) belongs to exactly one shard."""

    def __init__(self, shard, nshards):
        self.shard, self.nshards, self.i = shard, nshards, -1

    def mine(self):
        self.i += 1
        return self.i % self.nshards == self.shard


def exh_cases_binop(max_elems, blocks):
    lspecs = {k: list(exh_specs(k, max_elems)) for k in SPARSE}
    rspecs = {k: list(exh_specs(k, max_elems)) for k in R_KINDS}
    for mode in MODES:
        ops = ARITH + LOGIC if mode.startswith('inp') else ARITH + CMP + LOGIC
        for op in ops:
            for lk in (('SLV', 'SAb') if op in LOGIC else SPARSE):
                rks = r_kinds_for(mode, op, lk)
                for ls in lspecs[lk]:
                    if not blocks.mine(): continue
                    if mode.endswith('alias'):
                        yield (mode, op, ls, None)
                        continue
                    for rk in rks:
                        for rs in rspecs[rk]:
                            yield (mode, op, ls, rs)


def log_binop(args):
    mode, op, ls, rs = args
    return [['mode', mode], ['op', op]] + spec_log('L', ls) + ([] if rs is None else spec_log('R', rs))


def exh_axis(n, full=True):
    out = [{'t': t, 'i': i} for t in AX_SCALAR for i in range(n)]
    ab = [None] + list(range(n + 1))
    if full:
        out += [{'t': 'slice', 'a': a, 'b': b, 'c': c} for a in ab for b in ab for c in (None, 1, 2)]
    else:
        out += [{'t': 'slice', 'a': a, 'b': b, 'c': c} for a, b, c in ((None, None, None), (0, 1, None), (1, None, None), (None, None, 2))]
    for t in ('list', 'ndint'):
        out += [{'t': t, 'v': list(v)} for k in (1, 2) for v in itertools.product(range(n), repeat=k)]
    for t in ('mask', 'ndmask', 'slvmask'):
        if not full and t == 'slvmask': continue
        out += [{'t': t, 'v': list(v)} for v in itertools.product([False, True], repeat=n)]
    return out


def exh_indices(shape, full=True):
    if len(shape) == 1:
        ax = exh_axis(shape[0], full)
        return ax + [{'t': 'tuple', 'e': [e]} for e in ax if e['t'] in ('int', 'slice', 'list', 'mask')]
    m, n = shape
    out = exh_axis(m, full)
    for t in ('ndmask2', 'samask2'):
        out += [{'t': t, 'v': list(v), 's': [m, n]} for v in itertools.product([False, True], repeat=m * n)]
    rows = [e for e in exh_axis(m, False) if e['t'] != 'npint']
    cols = [e for e in exh_axis(n, False) if e['t'] != 'npint']
    for r in rows:
        for c in cols:
            ra, ca = r['t'] in AX_ARRAY, c['t'] in AX_ARRAY
            if ra and ca:
                if 'mask' in r['t'] or 'mask' in c['t'] or len(r['v']) != len(c['v']): continue
            out.append({'t': 'tuple', 'e': [r, c]})
    return out


def exh_cases_getitem(max_elems, blocks):
    for lk in SPARSE:
        for ls in exh_specs(lk, max_elems):
            if not blocks.mine(): continue
            for ispec in exh_indices(ls['s']):
                yield (ls, ispec)


def log_getitem(args):
    ls, ispec = args
    return spec_log('L', ls) + [['I', ispec]]


EXH_V_KINDS = ['pyf', 'pyb', 'lstf', 'lstb', 'ndf', 'ndb', 'SV', 'SLV', 'SA', 'SAb']
EXH_V_KINDS_QUICK = ['pyf', 'pyb', 'lstf', 'ndb', 'SV', 'SLV', 'SA']


def exh_cases_setitem(max_elems, blocks):
    cache = {}
    for lk in SPARSE:
        for shape in exh_shapes(lk, max_elems):
            z = np.zeros(shape)
            lvals = [list(v) for v in itertools.product(EXH[dchar(lk)], repeat=nelem(shape))]
            for ispec in exh_indices(shape, full=max_elems > 2):
                if not blocks.mine(): continue
                ni = mk_index(ispec)[1]
                ss = np.shape(z[ni])
                if nelem(ss) > max_elems: continue
                vspecs = []
                for vk in (EXH_V_KINDS if max_elems > 2 else EXH_V_KINDS_QUICK):
                    for vs in value_shapes(ss, vk):
                        if max_elems <= 2 and len(vs) > max(1, len(ss)): continue
                        if not numpy_accepts(shape, ni, vs): continue
                        key = (vk, tuple(vs))
                        if key not in cache:
                            cache[key] = [{'k': vk, 's': vs, 'v': list(v)} for v in itertools.product(EXH[dchar(vk)], repeat=nelem(vs))]
                        vspecs += cache[key]
                for vals in lvals:
                    ls = {'k': lk, 's': shape, 'v': vals}
                    for vspec in vspecs:
                        yield (ls, ispec, vspec)


def log_setitem(args):
    ls, ispec, vspec = args
    return spec_log('L', ls) + [['I', ispec]] + spec_log('V', vspec)


def exh_cases_reduce(max_elems, blocks):
    for lk in SPARSE:
        for ls in exh_specs(lk, max_elems):
            if not blocks.mine(): continue
            for method in METHODS:
                for axis in (None, 0, 1, 2):
                    for keepdims in (False, True):
                        for how in ('kw', 'pos', 'default'):
                            yield (ls, method, axis, keepdims, how)


def log_reduce(args):
    ls, method, axis, keepdims, how = args
    return spec_log('L', ls) + [['method', method], ['axis', axis], ['keepdims', keepdims], ['how', how]]


def exh_cases_convert(max_elems, blocks):
    for lk in SPARSE:
        for ls in exh_specs(lk, max_elems):
            if not blocks.mine(): continue
            for obs in ('to_array(dtype)', 'astype(dtype)'):
                for name in DTYPE_NAMES:
                    for kw in ((False, True) if obs == 'to_array(dtype)' else (False,)):
                        yield (ls, obs, {'dtype': name, 'kw': kw})


def log_convert(args):
    ls, obs, extra = args
    return spec_log('L', ls) + [['obs', obs], ['dtype', extra['dtype']], ['kw', extra['kw']]]


EXH_ENGINES = [('observe', exh_cases_convert, core_observe, log_convert),
               ('binop', exh_cases_binop, core_binop, log_binop),
               ('getitem', exh_cases_getitem, core_getitem, log_getitem),
               ('setitem', exh_cases_setitem, core_setitem, log_setitem),
               ('reduce', exh_cases_reduce, core_reduce, log_reduce)]


def exhaustive(_ch, ctx):
    """Enumerates this shard's blocks of every finite space; failures are stored as replayable logs."""
    max_elems = 2 if ctx.tier == 'quick' else 3
    done = getattr(ctx, 'exhaustive_done', None)
    if done is None: done = ctx.exhaustive_done = {}
    name0 = ctx.cur_name
    stats = ctx.per_prop.setdefault(name0, {'evaluations': 0, 'rejected': 0, 'skipped_time': 0})
    blocks = Blocks(ctx.shard, ctx.nshards)
    for check, gen, run, mklog in EXH_ENGINES:
        ctx.cur_name = 'exh.' + check
        n = 0
        for args in gen(max_elems, blocks):
            if (n & 0xfff) == 0 and not ctx.time_left():
                stats['skipped_time'] += 1
                break
            n += 1
            try:
                run(ctx, *args)
            except Violation as v:
                exh_record(ctx, check, mklog(args), v)
        ctx.evaluations += n
        stats['evaluations'] += n
        key = f'{check}:max_elems={max_elems}'
        done[key] = done.get(key, 0) + n
    ctx.cur_name = name0


def _required():
    c = []
    for mode in MODES:
        for op in (ARITH + LOGIC if mode.startswith('inp') else ARITH + CMP + LOGIC):
            c.append(f'op:{mode}:{op}')
    for lk in SPARSE:
        c.append(f'kinds:{lk}:self')
        for rk in R_KINDS: c.append(f'kinds:{lk}:{rk}')
    c += ['inplace:grow', 'div:raised', 'rejected:ValueError', 'skip:numpy-TypeError', 'ro:rejected']
    c += [f'h:{a}' for a in sorted(set(H_ACTIONS))]
    for lk in SPARSE:
        for m in METHODS: c.append(f'red:{lk}:{m}:None:0')
    for f in ('int', 'slice', 'open', 'list', 'ndint', 'mask', 'ndmask', 'slvmask'):
        c += [f'get:SV:{f}', f'set:SV:{f}', f'get:SA:{f}', f'set:SA:{f}']
    c += ['get:SA:T:int,int', 'get:SA:T:open,int', 'get:SA:T:list,list', 'get:SA:ndmask2', 'get:SA:samask2',
          'set:SA:T:int,int', 'set:SA:T:open,int', 'set:SA:T:list,list', 'set:SA:ndmask2', 'set:SA:samask2']
    return c


# thorough: no required cells, so that a wall-guard truncation on a loaded machine stays "inconclusive", never exit 2
REQUIRED_CELLS = {'quick': _required(), 'thorough': []}

PROPS = {
    'exhaustive': (exhaustive, 1, 1, {'exhaustive': True}),
    'binop': (prop_binop, 40000, 600000),
    'getitem': (prop_getitem, 12000, 120000),
    'setitem': (prop_setitem, 20000, 240000),
    'reduce': (prop_reduce, 6000, 60000),
    'construct': (prop_construct, 5000, 40000),
    'observe': (prop_observe, 8000, 60000),
    'mutate': (prop_mutate, 4000, 40000),
    'readonly': (prop_readonly, 2000, 12000),
    'history': (prop_history, 2500, 30000),
}
WALL = {'quick': 900, 'thorough': 3300}
