"""C15 - liquid-liquid and solid-liquid splits meet their equilibrium and labelling rules."""
from __future__ import annotations

import numpy as np
import thermosteam as tmo
from vlib import chem
from vlib import runner

PROPERTY = 'C15'
RULE = ('LLE: Hypothesis draws Water + one partially miscible organic (12 alcohols/esters/hydrocarbons) + 0-3 further '
        'co-solvents/organics in a random order (2-5 chemicals), feed 10**u per chemical (extras may be zero), T in '
        '[285,355] K, P, Stream or MultiStream entry (material spread over l/L), top_chemical in chemicals+None, a '
        'scale factor 10**[-3,3], solver method (pseudo equilibrium; shgo / differential evolution in the thorough '
        'tier) and, for the history check, 1-4 earlier calls on the same stream (same/scaled/other/sparse/dilute '
        'composition or one sharing exactly one / exactly n-2 mole fractions with the final feed (mostly at the '
        'same T), same/lower/higher T, own top_chemical and use_cache; in a quarter of the cases the final feed '
        'is first moved next to a one-liquid/two-liquid boundary located by bisection with the code under test and '
        'the last earlier call is that feed at another T). Oracles: x*gamma equal in both liquids with gamma '
        'from thermo.Gamma evaluated by the check; scaled feed gives proportional flows; w_top(L) >= w_top(l); '
        'use_cache=True on the stream equals use_cache=False on an identically treated clone; both equal a '
        'history-free stream holding the same material; 48 quick cases repeat the cache/history comparison with '
        'shgo / differential evolution on 3 chemicals (two thirds with water in 2.5-5x molar excess over the organic) '
        'after one earlier call sharing one mole fraction; any exception escaping these calls is a violation. SLE: solute (Tetradecanol, LacticAcid, AceticAcid, Glucose '
        'with the doctest Cn models, Phenol, Naphthalene, Dodecanol) in a package with 1-3 solvents (a mixture always '
        'has a liquid solvent, a fifth of the cases is the solute alone) and optionally a second solute, ideal or '
        'Dortmund activity model, T in [250,450] K or H of such '
        'a T, solubility given or computed, fresh or after 1-4 earlier calls (other T/H, given solubility, pure '
        'solute before the solvent is added, other composition, other solute). Oracles: only the solute rows '
        'change and its total is kept; x_solute(liquid) <= given solubility or the eutectic formula with the '
        'check\'s own gamma; pure solute all liquid above Tm / all solid below; result after a history equals the '
        'result of a fresh stream holding the same material. Non-trivial: LLE returned two liquids / SLE had solute '
        'and (solvent or pure-solute clause applied). Distinct by (chemicals, zero pattern, entry kind, top, '
        'method, 10 K bucket, decade of scale, history shape).')
ASSUMPTIONS = ['all chemicals come from the offline database with Dortmund-UNIFAC groups (thermo.Gamma default)',
               'without top_chemical the two liquids are compared as an unordered pair (Appendix A)',
               'the history-free reference stream is built from a snapshot of the per-phase flows, T and P that the '
               'history stream holds right before its final call',
               'history temperatures differ from the final T by 0 or by >= 0.5 K and history compositions are '
               'identical, proportional or independently drawn, so that the solver cache tolerances (1e-3 K, 1e-5) '
               'are never straddled',
               'a pure-solute SLE call exactly at Tm is not generated (the property leaves it open)']

REQUIRED_CELLS = {'quick': ['lle:two_liquids', 'lle:one_liquid', 'lle:top=present', 'lle:top=none', 'lle:kind=S',
                            'lle:kind=M', 'lle.hist:boundary-feed=found', 'lle.hist:mem=none,dT=lower,dz=same',
                            'lle.hist:mem=none,dT=same,dz=diff', 'lle.hist:mem=none,dT=higher,dz=diff',
                            'lle.hist:mem=K,dT=lower,dz=same', 'lle.hist:step-shares-a-fraction',
                            'lle.hist:mem=K,dT=same,dz=share', 'lle.ghist:method=shgo,dT=same,dz=share',
                            'lle.ghist:heaviest-chemical-below-half-of-most-abundant',
                            'sle:pure', 'sle:solubility-clause-applied:nonideal=0',
                            'sle.hist:spec=T,sol=computed,hist=plain', 'sle.hist:spec=H,sol=computed,hist=plain',
                            'sle.hist:spec=T,sol=given,hist=plain', 'sle.hist:spec=T,sol=computed,hist=pure'],
                  'thorough': ['lle:method=shgo', 'lle:method=de']}
WALL = {'quick': 540, 'thorough': 3300}

T_LO, T_HI = 285.0, 355.0
ORGANICS = ['Butanol', 'Hexane', 'Octane', 'EthylAcetate', 'Isobutanol', 'Pentanol', 'Hexanol', 'Octanol',
            'Toluene', 'Heptane', 'ButylAcetate', 'Cyclohexane']
COSOLVENTS = ['Ethanol', 'Methanol', 'Propanol', 'Isopropanol', 'Acetone', 'AceticAcid']

ISO_TOL = 1e-3          # DESIGN C15: |x*gamma(l)/x*gamma(L) - 1|
X_MIN = 1e-9            # mole-fraction floor for the iso-activity clause
PHASE_MIN = 1e-9        # a liquid counts as present above this fraction of the feed
SCALE_RTOL = 1e-6       # proportionality under feed scaling
CACHE_RTOL = 1e-6       # use_cache True vs False
HIST_RTOL = 1e-4        # after-history vs history-free
ATOL_F = 1e-9           # absolute floor relative to the total feed

_gamma_cache = {}


def setup(ctx):
    for n in ['Water'] + ORGANICS + COSOLVENTS:
        chem.chemical(n)


# ---------------------------------------------------------------------------
# helpers
# ---------------------------------------------------------------------------

class Failures:
    """Collect oracle disagreements of one case; raise the first that is not a known finding
    (so that one known finding does not hide another clause), else the first known one."""

    def __init__(self, ctx):
        self.ctx = ctx
        self.items = []

    def add(self, sig, msg):
        self.items.append((sig, msg))

    def check(self, cond, sig, msg):
        if not cond:
            self.items.append((sig, msg() if callable(msg) else msg))

    def flush(self):
        if not self.items:
            return
        ctx = self.ctx
        for sig, msg in self.items:
            if not is_known(f'{ctx.prop}|{sig}'):
                ctx.fail(sig, msg)
        ctx.fail(*self.items[0])


_known_patterns = None


def is_known(sig):
    """Same list the runner matches against (read here too, because the runner replays saved cases without it and
    a case must name the same failing clause in generation and in replay)."""
    global _known_patterns
    if _known_patterns is None:
        _known_patterns = [pat for k in runner.load_known(PROPERTY) if k.get('status') == 'known'
                           for pat in k.get('signatures', [])]
    import fnmatch
    return any(fnmatch.fnmatchcase(sig, pat) for pat in _known_patterns)


def gamma_of(th, idx):
    key = (id(th), tuple(idx))
    g = _gamma_cache.get(key)
    if g is None:
        chems = th.chemicals.tuple
        g = _gamma_cache[key] = th.Gamma([chems[i] for i in idx])
    return g


def draw_system(ch):
    org = ch.choice('organic', ORGANICS)
    pool = [x for x in COSOLVENTS + ORGANICS if x != org]
    n_extra = ch.int('n_extra', 0, 3)
    extras = ch.subset('extras', pool, min_size=n_extra, max_size=n_extra)
    names = ['Water', org] + list(extras)
    order = ch.permutation('order', len(names))
    names = [names[i] for i in order]
    return names, org


def draw_feed(ch, tag, names, must_have=()):
    """Per-chemical molar flow; chemicals outside ``must_have`` are zero with probability 1/4."""
    out = []
    for i, n in enumerate(names):
        if n not in must_have and ch.int(f'{tag}.zero{i}', 0, 3) == 0:
            out.append(0.0)
        else:
            out.append(ch.logfloat(f'{tag}.f{i}', -2.0, 1.5))
    return out


def draw_shared(ch, tag, feed):
    """A composition with the same chemicals present and the same total as ``feed`` in which exactly one, or exactly
    n-2, of the mole fractions are unchanged (n-1 unchanged fractions would be the same composition) and every
    other one differs by more than 2e-4.  Needs >= 3 chemicals present; returns None otherwise."""
    feed = np.array(feed, float)
    P = [i for i, v in enumerate(feed) if v > 0]
    if len(P) < 3:
        return None
    nkeep = 1 if (len(P) == 3 or ch.bool(f'{tag}.share.one')) else len(P) - 2
    keep = ch.subset(f'{tag}.share.keep', P, min_size=nkeep, max_size=nkeep)
    rest = [i for i in P if i not in keep]
    w = np.array([ch.logfloat(f'{tag}.share.w{i}', -1.5, 1.5) for i in rest]) * (1.0 + 2.0 * np.arange(len(rest)))
    new = feed.copy()
    new[rest] = w / w.sum() * feed[rest].sum()
    if (np.abs(new[rest] - feed[rest]) <= 2e-4 * feed.sum()).any():
        return None           # a drawn weight reproduces an old fraction (rare): no shared-fraction step
    return new.tolist()


def draw_spread(ch, tag, n):
    """Fraction of each chemical initially placed in phase 'l' (rest in 'L')."""
    return [ch.choice(f'{tag}.sp{i}', [1.0, 0.0, 0.5, 0.25]) for i in range(n)]


def make_stream(th, kind, feed, spread, T, P):
    feed = np.array(feed, float)
    if kind == 'S':
        return tmo.Stream(None, flow=feed, phase='l', T=T, P=P, thermo=th)
    s = tmo.MultiStream(None, phases=('l', 'L'), T=T, P=P, thermo=th)
    put_feed(s, feed, spread)
    return s


def put_feed(s, feed, spread):
    feed = np.array(feed, float)
    sp = np.array(spread, float)
    if isinstance(s, tmo.MultiStream) and 'L' in s.phases and 'l' in s.phases:
        a = feed * sp
        s.imol['l'] = a
        s.imol['L'] = feed - a
    else:
        s.imol.data[:] = feed


def split_of(s):
    return s.imol['l'].to_array().copy(), s.imol['L'].to_array().copy()


def pair_resid(a, b, F, rtol, ordered, g_tol=None):
    """Largest |a-b| / (rtol*max(|a|,|b|) + ATOL_F*F [+ resolution]) over both phases; unordered = best of both
    labelings.  For the Gibbs-energy minimisers (g_tol = stopping tolerance on G/RT per mole of feed) moving an
    amount d of a chemical whose smaller phase amount is n raises G*F by about d**2 / (2 n), so amounts are only
    resolved to sqrt(2 g_tol n F): that is added to the denominator (it matters for trace amounts only)."""
    res = 0.0
    if g_tol is not None:
        res = np.sqrt(2.0 * g_tol * F * np.maximum(np.minimum(a[0], a[1]), 0.0))

    def d(p, q):
        den = rtol * np.maximum(np.abs(p), np.abs(q)) + ATOL_F * F + res
        return float((np.abs(p - q) / den).max())
    same = max(d(a[0], b[0]), d(a[1], b[1]))
    if ordered:
        return same
    return min(same, max(d(a[0], b[1]), d(a[1], b[0])))


def two_liquids(l, L, F):
    return l.sum() > PHASE_MIN * F and L.sum() > PHASE_MIN * F


def trivial_split(l, L, feed):
    """Both 'liquids' have the composition of the feed (to 1e-3): the Gibbs-energy minimisers return such a pair for
    a feed that is really one liquid; how much goes into each is arbitrary (G does not depend on it)."""
    feed = np.asarray(feed, float)
    m = feed > 0
    if not (l.sum() > 0 and L.sum() > 0):
        return False
    phi = l.sum() / feed.sum()
    return bool((np.abs(l[m] / feed[m] - phi) <= 1e-3).all())


def box_corner_split(l, L, feed):
    """Two non-empty, different liquids in which EVERY chemical is either entirely in one liquid or split exactly in
    half: a vertex of the optimisers' search box [0, mol] x ... x [0, mol/2], not an equilibrium (some activity is 0
    in one liquid and positive in the other)."""
    feed = np.asarray(feed, float)
    m = feed > 0
    if not (l.sum() > 0 and L.sum() > 0) or int(m.sum()) < 2:
        return False
    fr = L[m] / feed[m]
    at = (np.abs(fr) <= 1e-9) | (np.abs(fr - 1.0) <= 1e-9) | (np.abs(fr - 0.5) <= 1e-9)
    return bool(at.all()) and not trivial_split(l, L, feed)


def split_exactly_half(l, L, feed):
    """Some chemical sits exactly half in each liquid (an optimiser bound / sampling vertex, not an optimum)."""
    feed = np.asarray(feed, float)
    m = feed > 0
    return bool((np.abs(l[m] - L[m]) <= 1e-9 * feed[m]).any())


def activity_ratio(th, feed, l, L, T, g_tol=None):
    """Worst |a_l/a_L - 1| relative to its tolerance over chemicals above X_MIN in both liquids (gamma evaluated
    here).  Returns (ratio, tolerance, chemical index) of the chemical with the largest ratio/tolerance.
    Tolerance: ISO_TOL for the iterative method.  For the Gibbs-energy minimisers (g_tol = their stopping tolerance
    on G/RT per mole of feed) a chemical whose smaller phase amount is n (mole fraction of the feed) can be off by
    r = |ln(a_l/a_L)| while G is only dG = r**2 * n / 2 above its minimum, so the optimiser cannot resolve less than
    sqrt(2 g_tol / n): tolerance max(ISO_TOL_GLOBAL, that)."""
    idx = [i for i, v in enumerate(feed) if v > 0]
    g = gamma_of(th, idx)
    xl = l[idx] / l[idx].sum()
    xL = L[idx] / L[idx].sum()
    with np.errstate(all='ignore'):
        al = xl * np.asarray(g(xl.copy(), T), float)
        aL = xL * np.asarray(g(xL.copy(), T), float)
    ok = (xl > X_MIN) & (xL > X_MIN) & np.isfinite(al) & np.isfinite(aL) & (aL > 0)
    if not ok.any():
        return None, None, None
    r = np.abs(al[ok] / aL[ok] - 1.0)
    if g_tol is None:
        tol = np.full(r.shape, ISO_TOL)
    else:
        nmin = np.minimum(l[idx], L[idx])[ok] / float(np.sum(feed))
        tol = np.maximum(ISO_TOL_GLOBAL, np.sqrt(2.0 * g_tol / nmin))
    k = int(np.argmax(r / tol))
    return float(r[k]), float(tol[k]), [idx[j] for j in np.nonzero(ok)[0]][k]


def top_clause(fails, th, names, top, l, L, region):
    if top is None:
        return
    i = names.index(top)
    MW = th.chemicals.MW
    ml, mL = l * MW, L * MW
    if ml.sum() > 0 and mL.sum() > 0:
        wl, wL = ml[i] / ml.sum(), mL[i] / mL.sum()
        fails.check(wL >= wl - 1e-12, f'lle.top|{region}|mismatch',
                    lambda: f'top_chemical={top}: mass fraction in L {wL!r} < in l {wl!r}')


def lle_call(ctx, s, T, P, top, use_cache, region, method=None):
    def f():
        lle = s.lle
        if method is not None:
            lle.method = method
        if P is None:
            lle(T, top_chemical=top, use_cache=use_cache)
        else:
            lle(T, P, top_chemical=top, use_cache=use_cache)
    ctx.call('lle.call', f, region=region)
    return split_of(s)


def n_liquids(th, feed, T):
    s = tmo.MultiStream(None, phases=('l', 'L'), T=T, P=101325.0, thermo=th)
    s.imol['l'] = np.array(feed, float)
    s.lle(T)
    l, L = split_of(s)
    return 2 if (l.sum() > 0 and L.sum() > 0) else 1


def boundary_feed(th, names, feed, i, T, margin):
    """Generator aid (not an oracle): scale chemical i of the feed down by up to 1e3 and bisect, with the code
    under test, for the amount at which the answer at temperature T changes from one liquid to two; return the
    feed a relative ``margin`` (in the exponent) on the one-liquid side.  Falls back to the feed itself."""
    feed = np.array(feed, float)

    def at(lam):
        f = feed.copy()
        f[i] = feed[i] * 10.0 ** (-3.0 * (1.0 - lam))
        return f
    try:
        if n_liquids(th, at(0.0), T) != 1 or n_liquids(th, at(1.0), T) != 2:
            return feed, False
        lo, hi = 0.0, 1.0
        for _ in range(14):
            mid = 0.5 * (lo + hi)
            if n_liquids(th, at(mid), T) == 1:
                lo = mid
            else:
                hi = mid
    except Exception:
        return feed, False
    return at(max(0.0, lo - margin)), True


def relation(last, present, T, z):
    """Region tags of a call relative to the most recent earlier call that saw >= 2 chemicals.
    mem=K: same chemicals present and that call returned two liquids (its coefficients are remembered);
    mem=1LK / 1LT: same chemicals present, that call returned one liquid, and its answer was itself taken from
    remembered coefficients (K) or from a higher temperature (T); mem=none otherwise."""
    if last is None:
        return 'none', 'na', 'na'
    sameset = last[0] == present
    mem = 'K' if (sameset and last[3]) else (f'1L{last[4]}' if (sameset and last[4]) else 'none')
    dT = 'same' if last[1] == T else ('lower' if T < last[1] else 'higher')
    if not sameset:
        dz = 'set'
    else:
        d = np.abs(last[2] - z)[np.array(present, bool)]
        m = float(d.max())
        dz = 'same' if m <= 1e-12 else ('diff' if m >= 1e-4 else 'near')
        if dz == 'diff' and float(d.min()) <= 1e-9:
            dz = 'share'      # another composition in which at least one mole fraction is unchanged
    return mem, dT, dz


def draw_common(ch):
    names, org = draw_system(ch)
    th = chem.thermo_of(names)
    kind = ch.choice('kind', ['S', 'M'])
    T = ch.float('T', T_LO, T_HI)
    P = ch.choice('P', [None, 101325.0, 5e4, 5e5])
    feed = draw_feed(ch, 'feed', names, must_have=('Water', org))
    spread = draw_spread(ch, 'feed', len(names)) if kind == 'M' else [1.0] * len(names)
    top = ch.choice('top', [None] + names)
    return names, org, th, kind, T, P, feed, spread, top


# ---------------------------------------------------------------------------
# LLE, history-free: iso-activity, scaling, labelling
# ---------------------------------------------------------------------------

def _lle_fresh(ch, ctx, methods):
    names, org, th, kind, T, P, feed, spread, top = draw_common(ch)
    method = ch.choice('method', methods)
    k = ch.logfloat('scale', -3.0, 3.0)
    mtag = {'pseudo equilibrium': 'pseudo', 'shgo': 'shgo', 'differential evolution': 'de'}[method]
    tmo.settings.set_thermo(th)
    feed = np.array(feed, float)
    F = feed.sum()
    region = f'method={mtag},hist=0'
    s = make_stream(th, kind, feed, spread, T, P or 101325.0)
    l, L = lle_call(ctx, s, T, P, top, True, region, method)
    ctx.cell(f'lle:method={mtag}'); ctx.cell(f'lle:kind={kind}'); ctx.cell(f'lle:n={len(names)}')
    ctx.cell('lle:top=' + ('none' if top is None else 'absent' if feed[names.index(top)] == 0 else 'present'))
    fails = Failures(ctx)
    # echo of the thermal condition and bookkeeping that the later clauses rely on
    fails.check(s.T == T, f'lle.echo|{region}|mismatch', lambda: f'T={s.T!r} after lle(T={T!r})')
    two = two_liquids(l, L, F)
    trivial = two and mtag != 'pseudo' and trivial_split(l, L, feed)
    if trivial:
        ctx.cell('lle:two_identical_liquids')      # one liquid reported as two equal ones: nothing to compare
        two = False
    ctx.cell('lle:two_liquids' if two else 'lle:one_liquid')
    if two:
        fails.check(not box_corner_split(l, L, feed), f'lle.degenerate|method={mtag}|corner',
                    lambda: f'{names} feed={feed.tolist()} T={T}: every chemical is entirely in one liquid or split '
                            f'exactly in half (a corner of the search box): l={l.tolist()} L={L.tolist()}')
        r, tol, worst = activity_ratio(th, feed, l, L, T, None if mtag == 'pseudo' else G_TOL_GLOBAL)
        if r is not None:
            ctx.metric_max(f'lle.isoactivity:{mtag}', r)
            ctx.metric_max(f'lle.isoactivity:{mtag}:resid/tol', r / tol)
            half = ',half=1' if (mtag == 'de' and split_exactly_half(l, L, feed)) else ''
            fails.check(r <= tol, f'lle.isoactivity|method={mtag}{half}|mismatch',
                        lambda: f'{names} feed={feed.tolist()} T={T}: x*gamma differs by {r:.3g} (tol {tol:.3g}) for '
                                f'{names[worst]}; l={l.tolist()} L={L.tolist()}')
    top_clause(fails, th, names, top, l, L, region)
    # feed scaling
    s2 = make_stream(th, kind, feed * k, spread, T, P or 101325.0)
    l2, L2 = lle_call(ctx, s2, T, P, top, True, region, method)
    ordered = top is not None and feed[names.index(top)] > 0
    rtol = SCALE_RTOL if mtag == 'pseudo' else SCALE_RTOL_GLOBAL
    res = pair_resid((l * k, L * k), (l2, L2), F * k, rtol, ordered, None if mtag == 'pseudo' else G_TOL_GLOBAL)
    if trivial and trivial_split(l2, L2, feed * k):
        res = 0.0                                   # the same single liquid both times
    ctx.metric_max(f'lle.scale:{mtag}:resid/tol', res)
    fails.check(res <= 1.0, f'lle.scale|method={mtag}|mismatch',
                lambda: f'{names} feed={feed.tolist()} T={T} k={k}: scaled l={l2.tolist()} L={L2.tolist()} '
                        f'vs k*l={(l * k).tolist()} k*L={(L * k).tolist()}')
    top_clause(fails, th, names, top, l2, L2, region)
    if two:
        ctx.nontriv(['lle', names, [int(v > 0) for v in feed], kind, top, mtag, int(T // 10),
                     int(np.floor(np.log10(k)))])
    fails.flush()


# shgo / differential evolution minimise G with f_tol = tol = 1e-6: observed |a_l/a_L - 1| median 5e-5, 90 % below
# 5e-4, differential evolution up to 3.4e-2; shgo has a separate tail of unpolished sampling points (C15-F9)
ISO_TOL_GLOBAL = 5e-2
G_TOL_GLOBAL = 1e-6      # LLE.shgo_options f_tol / differential_evolution_options tol
SCALE_RTOL_GLOBAL = 1e-2


def prop_lle_fresh(ch, ctx):
    _lle_fresh(ch, ctx, ['pseudo equilibrium'])


def prop_lle_call(ch, ctx):
    """Replay-only (0 generated cases): the call of lle_fresh and nothing else, so that the pinned input of the
    exception finding C15-F3 does not turn into the iso-activity finding C15-F1 once the exception is repaired."""
    names, org, th, kind, T, P, feed, spread, top = draw_common(ch)
    method = ch.choice('method', ['pseudo equilibrium'])
    ch.logfloat('scale', -3.0, 3.0)
    tmo.settings.set_thermo(th)
    s = make_stream(th, kind, np.array(feed, float), spread, T, P or 101325.0)
    lle_call(ctx, s, T, P, top, True, 'method=pseudo,hist=0', method)


def prop_lle_global(ch, ctx):
    _lle_fresh(ch, ctx, ['shgo', 'differential evolution'])


# ---------------------------------------------------------------------------
# LLE after a history of earlier calls on the same stream
# ---------------------------------------------------------------------------

def prop_lle_history(ch, ctx):
    names, org, th, kind, T, P, feed, spread, top = draw_common(ch)
    n = len(names)
    tmo.settings.set_thermo(th)
    feed = np.array(feed, float)
    F = feed.sum()
    # one case in four: move the final feed next to a phase boundary of the code under test (one-liquid side at
    # another temperature Tb, mostly a higher one) and make the last earlier call that very feed at Tb - the place
    # where an answer remembered from another temperature is visibly wrong
    boundary = ch.int('boundary', 0, 3) == 0
    forced = None
    if boundary:
        which = ch.choice('b.which', ['Water', org])
        margin = ch.logfloat('b.margin', -3.0, -1.0)
        if ch.int('b.colder', 0, 3) == 0:
            Tb = max(T_LO, T - ch.float('b.dT', 5.0, 60.0))
        else:
            Tb = min(T_HI, T + ch.float('b.dT', 5.0, 60.0))
        feed, found = boundary_feed(th, names, feed, names.index(which), Tb, margin)
        ctx.cell('lle.hist:boundary-feed=' + ('found' if found else 'not-bracketed'))
        F = feed.sum()
        forced = {'feed': feed.tolist(), 'T': Tb, 'top': None, 'cache': True, 'spread': None}
    nh = ch.int('nh', 1, 4)
    steps = []
    for i in range(nh):
        ck = ch.choice(f'h{i}.comp', ['same', 'scaled', 'other', 'other', 'sparse', 'dilute', 'share', 'share'])
        if ck == 'share':
            fi = draw_shared(ch, f'h{i}', feed)
            if fi is None:
                ck, fi = 'same', feed.tolist()
            else:
                ctx.cell('lle.hist:step-shares-a-fraction')
        elif ck == 'same':
            fi = feed.tolist()
        elif ck == 'scaled':
            fi = (feed * ch.logfloat(f'h{i}.k', -2.0, 2.0)).tolist()
        elif ck == 'dilute':
            # same chemicals present, one member of the immiscible pair made scarce: usually a single liquid
            fi = feed.copy()
            fi[names.index(ch.choice(f'h{i}.scarce', ['Water', org]))] *= ch.logfloat(f'h{i}.q', -4.0, -2.0)
            fi = fi.tolist()
        elif ck == 'other':
            fi = draw_feed(ch, f'h{i}', names, must_have=('Water', org))
        else:
            fi = draw_feed(ch, f'h{i}', names)
        tk = ch.choice(f'h{i}.T', ['same', 'lower', 'higher', 'any'])
        if ck == 'share' and ch.int(f'h{i}.share.sameT', 0, 3) > 0:
            tk = 'same'         # the cache can only be (mis)used at the same temperature
        if tk == 'same':
            Ti = T
        elif tk == 'lower':
            Ti = max(T_LO, T - ch.float(f'h{i}.dT', 0.5, 40.0))
        elif tk == 'higher':
            Ti = min(T_HI, T + ch.float(f'h{i}.dT', 0.5, 40.0))
        else:
            Ti = ch.float(f'h{i}.Tany', T_LO, T_HI)
        if Ti != T and abs(Ti - T) < 0.5:
            Ti = T
        steps.append({'feed': fi, 'T': Ti, 'top': ch.choice(f'h{i}.top', [None] + names),
                      'cache': ch.bool(f'h{i}.use_cache'),
                      'spread': draw_spread(ch, f'h{i}', n) if ch.bool(f'h{i}.respread') else None})
    if forced is not None:
        steps.append(forced)
    P0 = P or 101325.0
    first = np.array(steps[0]['feed'], float)
    s = make_stream(th, kind, first, spread, steps[0]['T'], P0)
    c = make_stream(th, kind, first, spread, steps[0]['T'], P0)
    last = None   # most recent earlier call that saw >= 2 chemicals: (present set, T, z, two liquids, stale)
    for i, st in enumerate(steps):
        fi = np.array(st['feed'], float)
        res = []
        for x in (s, c):
            if i:
                sp = st['spread'] or [1.0] * n
                put_feed(x, fi, sp)
            try:
                x.lle(st['T'], top_chemical=st['top'], use_cache=st['cache'])
            except Exception as e:
                ctx.cell('lle.hist:step-raised')
                ctx.reject(f'history step raised {type(e).__name__} (lle_fresh reports exceptions)')
            res.append(split_of(x))
        if not (np.array_equal(res[0][0], res[1][0]) and np.array_equal(res[0][1], res[1][1])):
            ctx.fail('lle.determinism|hist|mismatch', f'two identically treated streams differ at step {i}')
        present = tuple(int(v > 0) for v in fi)
        if sum(present) >= 2:
            zi = fi / fi.sum()
            memi, dTi, dzi = relation(last, present, st['T'], zi)
            # was this earlier answer itself taken from remembered coefficients?  'K': it started from (or, on a
            # cache hit, reused) coefficients remembered from another call; 'T': reused from a higher temperature
            stale = ''
            if memi == 'K':
                stale = 'K'
            elif st['cache'] and dzi == 'same' and dTi in ('same', 'lower') and memi != 'none':
                stale = memi[2:]
            elif st['cache'] and dzi == 'same' and dTi == 'lower':
                stale = 'T'
            last = (present, st['T'], zi, bool(res[0][0].sum() > 0 and res[0][1].sum() > 0), stale)
    # final call
    presentF = tuple(int(v > 0) for v in feed)
    z = feed / F
    mem, dT, dz = relation(last, presentF, T, z)
    if dz == 'near':
        ctx.cell('lle.hist:avoided:composition-within-cache-tolerance')
        ctx.reject('history composition straddles the cache tolerance')
    reg = f'mem={mem},dT={dT},dz={dz}'
    ctx.cell(f'lle.hist:{reg}')
    sp = draw_spread(ch, 'final', n)
    for x in (s, c):
        put_feed(x, feed, sp)
    f = tmo.MultiStream(None, phases=('l', 'L'), T=s.T, P=s.P, thermo=th)
    f.imol['l'] = s.imol['l'].to_array()
    f.imol['L'] = s.imol['L'].to_array()
    try:
        f.lle(T, top_chemical=top) if P is None else f.lle(T, P, top_chemical=top)
    except Exception as e:
        ctx.reject(f'history-free call raised {type(e).__name__} (lle_fresh reports exceptions)')
    rf = split_of(f)
    rs = lle_call(ctx, s, T, P, top, True, f'method=pseudo,hist=1,cache=1,{reg}')
    rc = lle_call(ctx, c, T, P, top, False, f'method=pseudo,hist=1,cache=0,{reg}')
    fails = Failures(ctx)
    ordered = top is not None and feed[names.index(top)] > 0
    for tag, r in (('cache=1', rs), ('cache=0', rc)):
        tot = r[0] + r[1]
        fails.check(np.allclose(tot, feed, rtol=1e-9, atol=1e-12 * F), f'lle.balance|hist=1,{tag}|mismatch',
                    lambda: f'l+L={tot.tolist()} feed={feed.tolist()}')
        top_clause(fails, th, names, top, r[0], r[1], f'method=pseudo,hist=1,{tag},{reg}')
    r1 = pair_resid(rs, rc, F, CACHE_RTOL, ordered)
    ctx.metric_max(f'lle.cache:resid/tol:{reg}', r1)
    desc = lambda: (f'{names} steps={[(st["feed"], st["T"], st["top"], st["cache"]) for st in steps]} final feed='
                    f'{feed.tolist()} T={T} top={top}')
    fails.check(r1 <= 1.0, f'lle.cache|{reg}|mismatch',
                lambda: f'use_cache=True l={rs[0].tolist()} L={rs[1].tolist()} but use_cache=False l={rc[0].tolist()} '
                        f'L={rc[1].tolist()}; {desc()}')
    for tag, r in (('cache=0', rc), ('cache=1', rs)):
        rr = pair_resid(r, rf, F, HIST_RTOL, ordered)
        ctx.metric_max(f'lle.history:resid/tol:{tag},{reg}', rr)
        fails.check(rr <= 1.0, f'lle.history|{tag},{reg}|mismatch',
                    lambda: f'after history l={r[0].tolist()} L={r[1].tolist()}, history-free l={rf[0].tolist()} '
                            f'L={rf[1].tolist()}; {desc()}')
    if two_liquids(rf[0], rf[1], F):
        ctx.nontriv(['lle.hist', names, list(presentF), kind, top, int(T // 10), reg,
                     [[list(int(v > 0) for v in st['feed']), st['top'], st['cache']] for st in steps]])
    fails.flush()


# ---------------------------------------------------------------------------
# global methods after one earlier call whose composition shares a mole fraction (cache / history clauses only)
# ---------------------------------------------------------------------------

GLOBAL_HIST_RTOL = 1e-4     # the three answers are the same deterministic optimisation (DE is seeded, shgo has no
                            # randomness) of the same normalised feed: observed difference exactly 0


def prop_lle_global_history(ch, ctx):
    """shgo / differential evolution really re-solve, so (unlike 'pseudo equilibrium' under C15-F1) a wrongly reused
    set of partition coefficients shows as use_cache=True != use_cache=False.  Three chemicals, one earlier call at
    the same T whose composition shares exactly one mole fraction with the final feed (or, one case in four, is an
    independent composition / at another T), then: stream s with the default use_cache=True, identically treated
    clone c with use_cache=False, history-free stream f.  The iso-activity clause is not evaluated here (C15-F9)."""
    # Three feed families.  'water-excess' (also Hypothesis' all-minimal first example that every shard starts
    # with): 3 chemicals, water in 2.5-5x molar excess over the organic plus a little co-solvent, so the chemical with
    # the largest MASS (whose bound the global methods halve) is not the one with the most MOLES.  'comparable-4':
    # water, an alkane, ethanol and a second alcohol in comparable amounts (within a factor 5) at 285-320 K, always
    # with shgo: on about a quarter of these scipy's shgo ends without success and LLE must fall back to differential
    # evolution.  'free': 3 chemicals, independent amounts.
    fk = ch.choice('feed.kind', ['water-excess', 'comparable-4', 'comparable-4', 'free'])
    if fk == 'comparable-4':
        org = ch.choice('alkane', ['Octane', 'Hexane', 'Heptane'])
        co = 'Ethanol'
        names = ['Water', org, co, ch.choice('alcohol', ['Butanol', 'Propanol', 'Hexanol', 'Pentanol'])]
    else:
        org = ch.choice('organic', ORGANICS)
        co = ch.choice('cosolvent', COSOLVENTS)
        names = ['Water', org, co]
    n = len(names)
    order = ch.permutation('order', n)
    names = [names[i] for i in order]
    th = chem.thermo_of(names)
    tmo.settings.set_thermo(th)
    method = ch.choice('method', ['shgo', 'shgo', 'differential evolution'])
    if fk == 'comparable-4':
        method = 'shgo'
    mtag = 'shgo' if method == 'shgo' else 'de'
    T = ch.float('T', T_LO, 320.0 if fk == 'comparable-4' else T_HI)
    if fk == 'water-excess':
        w = ch.logfloat('feed.water', -1.0, 1.0)
        o = w / ch.float('feed.excess', 2.5, 5.0)
        amount = {'Water': w, org: o, co: o * ch.choice('feed.cosolvent', [0.2, 0.5, 0.05])}
        feed = np.array([amount[x] for x in names])
    elif fk == 'comparable-4':
        feed = ch.logfloat('feed.base', -1.0, 1.5) * np.array([ch.logfloat(f'feed.f{i}', -0.35, 0.35) for i in range(n)])
    else:
        # fixed multipliers keep an all-minimal draw a real shared-fraction case
        feed = np.array([ch.logfloat(f'feed.f{i}', -1.0, 1.0) for i in range(n)]) * np.array([1.0, 0.6, 0.25])
    ctx.cell(f'lle.ghist:feed={fk}')
    MWs = th.chemicals.MW
    if int(np.argmax(feed * MWs)) != int(np.argmax(feed)) and feed[int(np.argmax(feed * MWs))] < 0.5 * feed.max():
        ctx.cell('lle.ghist:heaviest-chemical-below-half-of-most-abundant')
    top = ch.choice('top', [None] + names)
    hk = ch.choice('h.comp', ['share', 'share', 'share', 'other'])
    hfeed = draw_shared(ch, 'h', feed) if hk == 'share' else None
    if hfeed is None:
        hk = 'other'
        hfeed = [ch.logfloat(f'h.f{i}', -1.0, 1.0) for i in range(n)]
    hT = T if ch.int('h.sameT', 0, 7) > 0 else min(T_HI, max(T_LO, T + ch.choice('h.dT', [-20.0, -2.0, 2.0, 20.0])))
    htop = ch.choice('h.top', [None] + names)
    hfeed = np.array(hfeed, float)
    F = feed.sum()

    def fresh(fd, T0):
        x = tmo.MultiStream(None, phases=('l', 'L'), T=T0, P=101325.0, thermo=th)
        x.imol['l'] = np.array(fd, float)
        x.lle.method = method
        return x
    # an arithmetic (or any other) exception escaping lle() on these in-domain feeds is a violation, here too: the
    # earlier call is a first call on a fresh stream, the reference call likewise
    s, c = fresh(hfeed, hT), fresh(hfeed, hT)
    for x in (s, c):
        ctx.call('lle.call', lambda: x.lle(hT, top_chemical=htop), region=f'method={mtag},hist=0')
        put_feed(x, feed, [1.0] * n)
    present = (1,) * n
    last = (present, hT, hfeed / hfeed.sum(), True, '')
    _, dT, dz = relation(last, present, T, feed / F)
    if dz == 'near':
        ctx.reject('history composition straddles the cache tolerance')
    reg = f'method={mtag},dT={dT},dz={dz}'
    ctx.cell(f'lle.ghist:{reg}')
    f = fresh(feed, T)
    ctx.call('lle.call', lambda: f.lle(T, top_chemical=top), region=f'method={mtag},hist=0')
    rf = split_of(f)
    rs = lle_call(ctx, s, T, None, top, True, f'{reg},hist=1,cache=1')
    rc = lle_call(ctx, c, T, None, top, False, f'{reg},hist=1,cache=0')
    fails = Failures(ctx)
    for tag, r in (('hist=0', rf), ('hist=1,cache=1', rs), ('hist=1,cache=0', rc)):
        fails.check(not box_corner_split(r[0], r[1], feed), f'lle.degenerate|method={mtag}|corner',
                    lambda: f'every chemical is entirely in one liquid or split exactly in half (a corner of the '
                            f'search box): l={r[0].tolist()} L={r[1].tolist()}; {tag}; {names} method={method} '
                            f'feed={feed.tolist()} T={T}')
        fails.check(min(r[0].min(), r[1].min()) >= -1e-12 * F and np.allclose(r[0] + r[1], feed, rtol=1e-9, atol=1e-12 * F),
                    f'lle.balance|method={mtag},{tag}|mismatch',
                    lambda: f'negative or unbalanced flows l={r[0].tolist()} L={r[1].tolist()} feed={feed.tolist()}')
    ordered = top is not None
    desc = lambda: f'{names} method={method} earlier call feed={hfeed.tolist()} T={hT} top={htop}; final feed={feed.tolist()} T={T} top={top}'
    triv = {id(r): trivial_split(r[0], r[1], feed) for r in (rs, rc, rf)}
    if any(triv.values()):
        ctx.cell('lle.ghist:two_identical_liquids')
    r1 = 0.0 if (triv[id(rs)] and triv[id(rc)]) else pair_resid(rs, rc, F, GLOBAL_HIST_RTOL, ordered)
    ctx.metric_max(f'lle.cache:resid/tol:{mtag}', r1)
    fails.check(r1 <= 1.0, f'lle.cache|{reg}|mismatch',
                lambda: f'use_cache=True l={rs[0].tolist()} L={rs[1].tolist()} but use_cache=False l={rc[0].tolist()} '
                        f'L={rc[1].tolist()}; {desc()}')
    for tag, r in (('cache=0', rc), ('cache=1', rs)):
        rr = 0.0 if (triv[id(r)] and triv[id(rf)]) else pair_resid(r, rf, F, GLOBAL_HIST_RTOL, ordered)
        ctx.metric_max(f'lle.history:resid/tol:{mtag},{tag}', rr)
        fails.check(rr <= 1.0, f'lle.history|{tag},{reg}|mismatch',
                    lambda: f'after history l={r[0].tolist()} L={r[1].tolist()}, history-free l={rf[0].tolist()} '
                            f'L={rf[1].tolist()}; {desc()}')
        top_clause(fails, th, names, top, r[0], r[1], f'{reg},hist=1,{tag}')
    if two_liquids(rf[0], rf[1], F):
        ctx.cell('lle.ghist:two_liquids')
        ctx.nontriv(['lle.ghist', names, mtag, top, int(T // 10), reg, hk])
    fails.flush()


PROPS = {
    'lle_fresh': (prop_lle_fresh, 2000, 30000, {'shrink': False}),
    'lle_history': (prop_lle_history, 960, 12000, {'shrink': False}),
    'lle_global': (prop_lle_global, 0, 200, {'shrink': False}),
    'lle_call': (prop_lle_call, 0, 0, {'shrink': False}),
    'lle_global_history': (prop_lle_global_history, 48, 600, {'shrink': False}),
}


# ===========================================================================
# SLE
# ===========================================================================

R_GAS = 8.314462618
SLE_T_LO, SLE_T_HI = 250.0, 450.0
SOLUTES = ['Tetradecanol', 'LacticAcid', 'AceticAcid', 'Glucose', 'Phenol', 'Naphthalene', 'Dodecanol']
SOLVENTS = ['Water', 'Methanol', 'Ethanol', 'Octanol', 'Hexane', 'Acetone', 'Toluene']
GAMMA_MAX = 1e3          # DESIGN section 9: gamma > 1e3 is outside the quantified domain
NONIDEAL_GAMMA = 10.0    # region tag nonideal=1: solute gamma (infinite dilution / returned liquid) >= 10, or x*gamma(x) not monotone
SOL_RTOL = 1e-4          # SLE._solve_x iterates x with an absolute xtol=1e-6 (Aitken step size): allow
SOL_ATOL = 2e-5          # 1e-4 relative + 20 xtol absolute (observed on saturated answers: 2e-5 relative)
_sle_thermo = {}
_glucose = []


def sle_chemical(name):
    if name != 'Glucose':
        return chem.chemical(name)
    if not _glucose:
        g = tmo.Chemical('Glucose', Tm=419.15, Hfus=19930)          # the SLE doctest's solute
        g.Cn.s.add_model(224.114064, top_priority=True)
        g.Cn.l.add_model(360.312, top_priority=True)
        _glucose.append(g)
    return _glucose[0]


def sle_thermo(names, ideal):
    key = (tuple(names), ideal)
    th = _sle_thermo.get(key)
    if th is None:
        th = tmo.Thermo(tmo.Chemicals([sle_chemical(n) for n in names]))
        if ideal:
            th = th.ideal()
        _sle_thermo[key] = th
        runner.register_chemicals(th.chemicals)
    return th


def eutectic(T, Tm, Hm, Cpl, Cps, gamma):
    """Ideal-solubility (eutectic) equation with a heat-capacity correction, written out independently."""
    dCp = Cpl - Cps
    return float(np.exp(-Hm / (R_GAS * T) * (1.0 - T / Tm) + dCp * (Tm - T) / (R_GAS * T)
                        - dCp / R_GAS * np.log(Tm / T)) / gamma)


def sle_rows(s):
    return s.imol['l'].to_array().copy(), s.imol['s'].to_array().copy()


def sle_put(s, liq, sol):
    s.imol['l'] = np.array(liq, float)
    s.imol['s'] = np.array(sol, float)


def sle_new(th, liq, sol, T, P):
    s = tmo.MultiStream(None, phases=('s', 'l'), T=T, P=P, thermo=th)
    sle_put(s, liq, sol)
    return s


def H_at(th, liq, sol, T, P):
    """Enthalpy [kJ/hr] of the same material at temperature T (used only to pick an in-range H spec)."""
    return float(sle_new(th, liq, sol, T, P).H)


def draw_sle_system(ch):
    solute = ch.choice('solute', SOLUTES)
    nsolv = ch.int('n_solvents', 1, 3)
    solvents = ch.subset('solvents', SOLVENTS, min_size=nsolv, max_size=nsolv)
    second = ch.choice('second_solute', [None, None] + [x for x in SOLUTES if x != solute])
    names = [solute] + list(solvents) + ([second] if second else [])
    order = ch.permutation('order', len(names))
    names = [names[i] for i in order]
    ideal = ch.int('ideal', 0, 3) == 0
    return names, solute, list(solvents), second, ideal


def draw_sle_flows(ch, tag, names, solute, second, pure, keep=None):
    """liquid and solid rows: the solute anywhere, a second solute anywhere (or absent), solvents in the liquid
    (the solvent ``keep`` is never zero, so a mixture always has a liquid solvent)."""
    liq, sol = [], []
    for i, n in enumerate(names):
        if n == solute:
            tot = ch.logfloat(f'{tag}.solute', -2.0, 1.5)
            fr = ch.choice(f'{tag}.solute.liqfrac', [1.0, 0.0, 0.5, 0.9])
            liq.append(tot * fr); sol.append(tot - tot * fr)
        elif pure:
            liq.append(0.0); sol.append(0.0)
        elif n == second:
            if ch.bool(f'{tag}.second.absent'):
                liq.append(0.0); sol.append(0.0)
            else:
                tot = ch.logfloat(f'{tag}.second', -2.0, 1.0)
                fr = ch.choice(f'{tag}.second.liqfrac', [1.0, 0.0, 0.5])
                liq.append(tot * fr); sol.append(tot - tot * fr)
        else:
            if n != keep and ch.int(f'{tag}.zero{i}', 0, 4) == 0:
                liq.append(0.0)
            else:
                liq.append(ch.logfloat(f'{tag}.f{i}', -2.0, 1.5))
            sol.append(0.0)
    return liq, sol


def draw_sle_call(ch, tag, th, names, solute, allow_given=True):
    """Form of one call: T or H specification, computed or given solubility (JSON-able dict)."""
    spec = ch.choice(f'{tag}.spec', ['T', 'T', 'H'])
    Tv = ch.float(f'{tag}.T', SLE_T_LO, SLE_T_HI)   # the T spec, or the temperature whose enthalpy is the H spec
    Tm = th.chemicals.tuple[names.index(solute)].Tm
    if abs(Tv - Tm) < 1e-3:
        Tv = Tm + 1.0
    given = None
    if allow_given and ch.int(f'{tag}.given', 0, 3) == 0:
        given = ch.choice(f'{tag}.x.special', [None, None, 0.0, 1.0])
        if given is None:
            given = ch.logfloat(f'{tag}.x', -4.0, 0.0)
    else:
        given = None
    return {'spec': spec, 'T': Tv, 'x': given}


def sle_invoke(s, solute, call, th, P=None):
    """Perform the call described by ``call`` on stream s (H spec: enthalpy of the current material at call['T'])."""
    kw = {}
    sle = s.sle          # a Stream becomes a MultiStream over ('s', 'l') here
    if call['x'] is not None:
        kw['solubility'] = call['x']
    if P is not None:
        kw['P'] = P
    if call['spec'] == 'T':
        sle(solute, T=call['T'], **kw)
    else:
        liq, sol = sle_rows(s)
        H = H_at(th, liq, sol, call['T'], s.P)
        sle(solute, H=H, **kw)


def sle_clauses(fails, ctx, th, names, solute, before, s, call, region, act_coef, sol_tag=''):
    """Clauses on one finished call: only the solute moved, bounds, pure-solute rule, solubility bound
    (``sol_tag`` is appended to the region of the solubility clause only)."""
    i = names.index(solute)
    liq0, sol0 = before
    liq1, sol1 = sle_rows(s)
    others = [j for j in range(len(names)) if j != i]
    fails.check(np.array_equal(liq0[others], liq1[others]) and np.array_equal(sol0[others], sol1[others]),
                f'sle.only_solute|{region}|mismatch',
                lambda: f'other chemicals moved: before l={liq0.tolist()} s={sol0.tolist()} after l={liq1.tolist()} '
                        f's={sol1.tolist()}')
    tot = liq0[i] + sol0[i]
    fails.check(abs(liq1[i] + sol1[i] - tot) <= 1e-12 * tot, f'sle.only_solute|{region}|solute-total',
                lambda: f'solute total {tot!r} -> {liq1[i] + sol1[i]!r}')
    fails.check(liq1[i] >= -1e-12 * tot and sol1[i] >= -1e-12 * tot, f'sle.bounds|{region}|negative',
                lambda: f'solute liquid {liq1[i]!r} solid {sol1[i]!r} of {tot!r}')
    if call['spec'] == 'T':
        fails.check(s.T == call['T'], f'sle.echo|{region}|mismatch', lambda: f'T={s.T!r} after T={call["T"]!r}')
    T = float(s.T)
    c = th.chemicals.tuple[i]
    present = [j for j in range(len(names)) if liq0[j] + sol0[j] > 0]
    Fl = float(liq1.sum())
    if len(present) == 1:
        # pure solute: all liquid above Tm, all solid below (a caller-given solubility overrides the melting rule:
        # solubility=1 asks for a liquid, solubility<1 without any solvent for a solid)
        if call['x'] is not None:
            ctx.cell('sle:pure-with-given-solubility(no clause)')
            return
        ctx.cell('sle:pure')
        if T > c.Tm + 1e-6:
            fails.check(sol1[i] == 0 and liq1[i] > 0, f'sle.pure|{region}|not-liquid-above-Tm',
                        lambda: f'T={T} > Tm={c.Tm}: liquid {liq1[i]!r} solid {sol1[i]!r}')
        elif T < c.Tm - 1e-6:
            fails.check(liq1[i] == 0 and sol1[i] > 0, f'sle.pure|{region}|not-solid-below-Tm',
                        lambda: f'T={T} < Tm={c.Tm}: liquid {liq1[i]!r} solid {sol1[i]!r}')
        return
    if liq1[i] <= 0 or Fl <= 0:
        return
    xl = liq1[i] / Fl
    if call['x'] is not None:
        xs = call['x']
        ctx.metric_max('sle.solubility:given:excess', xl - xs)
        fails.check(xl <= xs + 1e-12 or call['x'] >= 1.0, f'sle.solubility|{region}|exceeds',
                    lambda: f'x_solute(liquid)={xl!r} > given solubility {xs!r}; l={liq1.tolist()} s={sol1.tolist()}')
        return
    # computed solubility: eutectic formula at the returned T with gamma of the returned liquid
    gam_inf = 1.0
    if act_coef is not None:
        gam = act_coef
    else:
        g = gamma_of(th, present)
        x = liq1[present] / liq1[present].sum()
        with np.errstate(all='ignore'):
            gam = float(np.asarray(g(x.copy(), T), float)[present.index(i)])
        xd = liq1[present].copy()
        xd[present.index(i)] = 1e-6 * xd.sum()
        with np.errstate(all='ignore'):
            gam_inf = float(np.asarray(g(xd / xd.sum(), T), float)[present.index(i)])
        if not (gam_inf <= GAMMA_MAX):
            ctx.cell('sle:avoided:gamma>1e3')     # DESIGN section 9: outside the quantified domain
            return
    if not np.isfinite(gam) or gam <= 0 or gam > GAMMA_MAX:
        ctx.cell('sle:avoided:gamma>1e3')
        return
    nonideal = int(max(gam_inf, gam) >= NONIDEAL_GAMMA)
    xs = eutectic(T, c.Tm, c.Hfus, c.Cn.l(T), c.Cn.s(T), gam)
    if not nonideal and act_coef is None and not (xl <= xs * (1.0 + SOL_RTOL) + SOL_ATOL):
        # second half of the region predicate, evaluated only when it matters: the solute's activity x*gamma(x) is
        # not monotone in x (solvent ratios fixed) - then x -> x_ideal/gamma(x) is not a contraction and the
        # saturation equation has several roots, whatever gamma at infinite dilution is (seen with 9.5)
        if not activity_monotone(g, liq1[present], present.index(i), T):
            nonideal = 1
            ctx.cell('sle:nonideal-by-activity-curve')
    ctx.cell(f'sle:solubility-clause-applied:nonideal={nonideal}')
    region = f'{region},nonideal={nonideal}{sol_tag}'
    if sol1[i] > 0:
        ctx.metric_max(f'sle.solubility:computed:rel-excess(saturated):{region.split(",", 2)[2]}', xl / xs - 1.0)
    fails.check(xl <= xs * (1.0 + SOL_RTOL) + SOL_ATOL, f'sle.solubility|{region}|exceeds',
                lambda: f'x_solute(liquid)={xl!r} > eutectic solubility {xs!r} (gamma={gam!r}, T={T}); '
                        f'l={liq1.tolist()} s={sol1.tolist()}')


def activity_monotone(g, liq_present, k, T):
    """Is the solute's activity x*gamma(x) increasing in x on (0, 1), the other chemicals kept in their ratios?"""
    rest = np.array(liq_present, float)
    rest[k] = 0.0
    if rest.sum() <= 0:
        return True
    rest = rest / rest.sum()
    a_prev = 0.0
    for x in (1e-3, 0.01, 0.03, 0.06, 0.1, 0.15, 0.2, 0.3, 0.4, 0.5, 0.6, 0.7, 0.8, 0.9, 0.97):
        z = rest * (1.0 - x)
        z[k] = x
        with np.errstate(all='ignore'):
            a = x * float(np.asarray(g(z.copy(), T), float)[k])
        if not np.isfinite(a):
            return True
        if a < a_prev * (1.0 - 1e-9):
            return False
        a_prev = a
    return True


def form_tag(call):
    return f'spec={call["spec"]},sol={"given" if call["x"] is not None else "computed"}'


# ---------------------------------------------------------------------------
# SLE on a fresh stream / solver
# ---------------------------------------------------------------------------

def prop_sle_fresh(ch, ctx):
    names, solute, solvents, second, ideal = draw_sle_system(ch)
    th = sle_thermo(names, ideal)
    tmo.settings.set_thermo(th)
    pure = ch.int('pure', 0, 4) == 0
    liq, sol = draw_sle_flows(ch, 'feed', names, solute, second, pure, keep=solvents[0])
    kind = ch.choice('kind', ['S', 'M'])
    T0 = ch.float('T0', SLE_T_LO, SLE_T_HI)
    P = ch.choice('P', [None, 101325.0, 5e5])
    call = draw_sle_call(ch, 'call', th, names, solute)
    act = ch.choice('activity_coefficient', [None, 0.5, 2.0, 5.0]) if ideal else None
    liq, sol = np.array(liq, float), np.array(sol, float)
    if kind == 'S':
        liq, sol = liq + sol, 0.0 * sol
        s = tmo.Stream(None, flow=liq, phase='l', T=T0, P=101325.0, thermo=th)
    else:
        s = sle_new(th, liq, sol, T0, 101325.0)
    region = f'{form_tag(call)},hist=0'
    ctx.cell(f'sle:{form_tag(call)}'); ctx.cell(f'sle:kind={kind}'); ctx.cell(f'sle:ideal={int(ideal)}')

    def f():
        if act is not None:
            s.sle.activity_coefficient = act
        sle_invoke(s, solute, call, th, P)
    ctx.call('sle.call', f, region=region)
    fails = Failures(ctx)
    sle_clauses(fails, ctx, th, names, solute, (liq, sol), s, call, region, (act or 1.0) if ideal else None)
    npresent = int(((liq + sol) > 0).sum())
    ctx.nontriv(['sle', names, [int(v > 0) for v in liq + sol], kind, ideal, form_tag(call),
                 int(call['T'] // 20), npresent == 1])
    fails.flush()


PROPS.update({
    'sle_fresh': (prop_sle_fresh, 3000, 40000, {'shrink': False}),
})


# ---------------------------------------------------------------------------
# SLE after a history of earlier calls on the same stream
# ---------------------------------------------------------------------------

class SolverMemory:
    """What the earlier calls on one stream were, reduced to the facts the region tags are made of."""

    def __init__(self):
        self.ncalls = 0
        self.saw_solute_alone = False      # an earlier computed call saw one chemical only
        self.mix_set = None                # chemicals present at the last computed call on a mixture
        self.given_since = False           # a given-solubility call came after the mixture last changed
        self.named_since = set()           # solutes named by computed calls since the mixture last changed

    def computed(self, present, solute):
        self.ncalls += 1
        if len(present) == 1:
            self.saw_solute_alone = True
            return
        if present != self.mix_set:
            self.mix_set, self.given_since, self.named_since = present, False, set()
        self.named_since.add(solute)

    def given(self):
        self.ncalls += 1
        self.given_since = True

    def flags(self, present, solute, computed):
        out = []
        if computed and len(present) > 1:
            if self.saw_solute_alone:
                out.append('pure')
            if self.mix_set == present and self.given_since:
                out.append('given')
            if self.mix_set == present and self.named_since - {solute}:
                out.append('osol')
        return '+'.join(out) or 'plain'


def prop_sle_history(ch, ctx):
    names, solute, solvents, second, ideal = draw_sle_system(ch)
    th = sle_thermo(names, ideal)
    tmo.settings.set_thermo(th)
    n = len(names)
    isol = names.index(solute)
    T0 = ch.float('T0', SLE_T_LO, SLE_T_HI)
    liq, sol = draw_sle_flows(ch, 'feed', names, solute, second, False, keep=solvents[0])
    liq, sol = np.array(liq, float), np.array(sol, float)
    s = sle_new(th, liq, sol, T0, 101325.0)
    mem = SolverMemory()
    nh = ch.int('nh', 1, 4)
    shape = []
    for k in range(nh):
        op = ch.choice(f'h{k}.op', ['call', 'call', 'given', 'pure', 'comp', 'osol'])
        cur_l, cur_s = sle_rows(s)
        if op == 'given' and mem.ncalls == 0:
            # C15-F4 (repaired): on a tree without that fix this step raises and the case is rejected below
            ctx.cell('sle.hist:given-on-fresh-solver')
        if op == 'osol' and (second is None or cur_l[names.index(second)] + cur_s[names.index(second)] == 0):
            op = 'call'
        who = solute
        if op == 'pure':
            keepl, keeps = np.zeros(n), np.zeros(n)
            keepl[isol], keeps[isol] = cur_l[isol], cur_s[isol]
            sle_put(s, keepl, keeps)
            call = draw_sle_call(ch, f'h{k}', th, names, solute, allow_given=False)
        elif op == 'comp':
            nl, ns = draw_sle_flows(ch, f'h{k}', names, solute, second, False, keep=solvents[0])
            sle_put(s, nl, ns)
            call = draw_sle_call(ch, f'h{k}', th, names, solute, allow_given=False)
        elif op == 'given':
            call = draw_sle_call(ch, f'h{k}', th, names, solute, allow_given=False)
            call['x'] = ch.choice(f'h{k}.x', [0.0, 1.0, 0.5, 0.1, 1e-2, 1e-3])
        elif op == 'osol':
            who = second
            call = draw_sle_call(ch, f'h{k}', th, names, second, allow_given=False)
        else:
            call = draw_sle_call(ch, f'h{k}', th, names, solute, allow_given=False)
        bl, bs = sle_rows(s)
        present = frozenset(j for j in range(n) if bl[j] + bs[j] > 0)
        try:
            sle_invoke(s, who, call, th)
        except Exception as e:
            ctx.cell('sle.hist:step-raised')
            ctx.reject(f'history step raised {type(e).__name__} (sle_fresh reports exceptions)')
        if call['x'] is None:
            mem.computed(present, names.index(who))
        else:
            mem.given()
        shape.append([op, call['spec']])
        if op == 'pure':
            # the solvent (and everything else) comes back after the pure-solute call
            al, as_ = sle_rows(s)
            backl, backs = cur_l.copy(), cur_s.copy()
            backl[isol], backs[isol] = al[isol], as_[isol]
            sle_put(s, backl, backs)
    # final call
    if ch.bool('final.newcomp'):
        nl, ns = draw_sle_flows(ch, 'final', names, solute, second, ch.int('final.pure', 0, 5) == 0, keep=solvents[0])
        sle_put(s, nl, ns)
    call = draw_sle_call(ch, 'final', th, names, solute)
    bl, bs = sle_rows(s)
    Tb, Pb = float(s.T), float(s.P)
    present = frozenset(j for j in range(n) if bl[j] + bs[j] > 0)
    hist = mem.flags(present, isol, call['x'] is None)
    region = f'{form_tag(call)},hist={hist}'
    ctx.cell(f'sle.hist:{region}')
    f = sle_new(th, bl, bs, Tb, Pb)
    ref = 'fresh'
    try:
        sle_invoke(f, solute, call, th)
    except Exception as e:
        if call['x'] is None:
            ctx.reject(f'history-free call raised {type(e).__name__} (sle_fresh reports exceptions)')
        # given solubility on a fresh solver fails today (C15-F4): prime the reference with one computed call
        ref = 'primed'
        f = sle_new(th, bl, bs, Tb, Pb)
        try:
            f.sle(solute, T=Tb)
            sle_put(f, bl, bs)
            sle_invoke(f, solute, call, th)
        except Exception as e2:
            ctx.reject(f'primed reference raised {type(e2).__name__}')
    ctx.cell(f'sle.hist:ref={ref}')
    ctx.call('sle.call', sle_invoke, s, solute, call, th, region=region)
    fails = Failures(ctx)
    rl, rs_ = sle_rows(s)
    fl, fs = sle_rows(f)
    F = float((bl + bs).sum())
    den = lambda p, q: HIST_RTOL * np.maximum(np.abs(p), np.abs(q)) + ATOL_F * F
    res = float(max((np.abs(rl - fl) / den(rl, fl)).max(), (np.abs(rs_ - fs) / den(rs_, fs)).max()))
    ctx.metric_max(f'sle.history:resid/tol:hist={hist}', res)
    dT = abs(float(s.T) - float(f.T))
    ctx.metric_max(f'sle.history:dT:hist={hist}', dT)
    # the solubility clause after a flagged history says whether the answer is the history-free one (ref=same: an
    # excess is then a property of the call itself, like C15-F8/F10) or not (ref=diff: the history changed it)
    sol_tag = '' if hist == 'plain' else (',ref=same' if (res <= 1.0 and dT <= 1e-2) else ',ref=diff')
    sle_clauses(fails, ctx, th, names, solute, (bl, bs), s, call, region, 1.0 if ideal else None, sol_tag)
    fails.check(res <= 1.0 and dT <= 1e-2, f'sle.history|{region}|mismatch',
                lambda: f'{names} solute={solute} history={shape}: after history l={rl.tolist()} s={rs_.tolist()} '
                        f'T={float(s.T)!r}; {ref} stream l={fl.tolist()} s={fs.tolist()} T={float(f.T)!r}; '
                        f'before l={bl.tolist()} s={bs.tolist()} call={call}')
    ctx.nontriv(['sle.hist', names, sorted(present), ideal, region, shape])
    fails.flush()


PROPS.update({
    'sle_history': (prop_sle_history, 2400, 30000, {'shrink': False}),
})


# Execution order: the small global-method strata and the cheap SLE checks first, so that the wall-clock guard on a
# busy machine can only truncate the two large LLE searches (reported as skipped_time in the evidence) and never
# leaves a required global-method cell empty.
PROPS = {k: PROPS[k] for k in ('lle_global', 'lle_global_history', 'sle_fresh', 'sle_history', 'lle_fresh',
                               'lle_history', 'lle_call')}
