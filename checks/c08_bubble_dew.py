"""C08 - bubble and dew points satisfy their equations and bracket the two-phase region."""
from __future__ import annotations

import math

import numpy as np
import thermosteam as tmo
from thermosteam import equilibrium as eq
from hypothesis import strategies as st
from vlib import chem
from vlib.runner import Violation

PROPERTY = 'C08'
RULE = ('Hypothesis draws 1-5 distinct chemicals in arbitrary order from 20 volatile database chemicals (in 40 % of the '
        'multi-chemical cases one of them is replaced, at a drawn position, by Furan or HCN, which have no Dortmund '
        'groups), a package '
        '(ideal / Dortmund / Dortmund with ideal-gas Poynting factors), a composition on the simplex (interior, with '
        'exact zeros, with 1e-12..1e-6 traces, or a vertex), and T or P inside the quantified box (T in [260,480] K '
        'within every Psat range, P in [5e3,3e6] Pa; the specified variable is confined to where every present '
        "chemical's pure saturation point is inside the box and a result outside the box is counted as rejected). "
        'Oracles: defining-equation residual recomputed from gamma/Psat/pcf/phi of the package, normalised and '
        'non-negative fractions, T->P->T and P->T->P round trips, T_bub<=T_dew and P_dew<=P_bub, single component = '
        'Psat/Tsat (own bisection on Psat), result(k*z)=result(z) for k in 1e-3..1e3, result(permuted tuple) = '
        'permuted result. Every case may start with a drawn prelude that creates and uses BubblePoint/DewPoint '
        'objects for the same Chemical objects with another package and/or in another order (the solver objects '
        'are cached process-wide; the runner empties the caches before each case). Non-trivial: >=2 chemicals with z>0. Distinct by (check, op, package, names, zero/trace '
        'pattern, k/permutation class).')
ASSUMPTIONS = [
    'the defining equation is evaluated with the activity/fugacity/Poynting objects of the same property package '
    '(their own correctness is C16); Psat(T) is the chemical\'s vapour-pressure model',
    'T and P specifications are confined to [260,480] K x [5e3,3e6] Pa and to the intersection of all Psat model '
    'ranges; a computed counterpart outside that box is outside the quantifier and counted as rejected',
    'the ordering clauses (T_bub<=T_dew, P_dew<=P_bub) and the dew round trips are judged for non-ideal packages '
    'only where the one-liquid model is stable at the feed and at the dew liquid (Michelsen tangent-plane test with '
    'the package gamma): for an unstable liquid the dew equation has several roots and the inequality is not a '
    'theorem of the model',
    'tolerances: residual 1e-6 (solver: T_tol 1e-9 K, P_tol 1e-3 Pa, ytol 5e-12/1e-9); round trip |dT|<=1e-4 K, '
    '|dP|<=1e-6 P + 2e-2 Pa (Chemical.Tsat stops at 1e-2 Pa); scale/permutation |dT|<=1e-4 K, |dP|<=2e-6 P, '
    '|dy|<=2e-6 (two results each within the residual tolerance); normalisation 1e-12',
]
REQUIRED_CELLS = {'quick': ['T.wide', 'P>Pc', 'computed-P-below-box(judged)', 'stream:IDs=default', 'stream:IDs=all', 'stream:global=other',
                            'container=list', 'container=chemicals', 'container=generator', 'container=list-mutated',
                            'groupless-member', 'prelude=none', 'prelude=pkg', 'prelude=perm', 'prelude=pkg+perm', 'op=bubP', 'op=bubT', 'op=dewP', 'op=dewT', 'pkg=ideal', 'pkg=dortmund', 'pkg=dpcf',
                            'z=zeros', 'z=trace', 'z=vertex', 'npos=1', 'npos>=2', 'order:judged',
                            'rt:T-P-T', 'rt:P-T-P'],
                  'thorough': []}

POOL = ['Water', 'Ethanol', 'Methanol', 'Propanol', 'Acetone', 'Hexane', 'Benzene', 'Toluene', 'Pentane', 'Heptane',
        'AceticAcid', 'Butanol', 'EthylAcetate', 'Chloroform', 'Cyclohexane', 'Octane', '2-Propanol', 'MEK',
        'DiethylEther', 'Acetonitrile', 'Decane', 'Dodecane', 'Octanol']
T_LO, T_HI = 260.0, 480.0
P_LO, P_HI = 5e3, 3e6
OPS = ('dewT', 'dewP', 'bubT', 'bubP')

RES_TOL = 1e-6
NORM_TOL = 1e-12

_pcf_thermo = {}
_tsat_cache = {}
_pair_gap = {}
_xtrap = {}
GAP_T = (270.0, 330.0, 400.0, 470.0)
GAP_D2 = 0.5


# ---------------------------------------------------------------------------
# systems
# ---------------------------------------------------------------------------
def thermo_for(names, pkg):
    if pkg == 'ideal':
        return chem.thermo_of(names, ideal=True)
    base = chem.thermo_of(names)
    if pkg == 'dortmund':
        return base
    key = tuple(names)
    th = _pcf_thermo.get(key)
    if th is None:
        th = _pcf_thermo[key] = tmo.Thermo(base.chemicals, PCF=eq.IdealGasPoyintingCorrectionFactors)
    return th


def own_tsat(c, P):
    """Saturation temperature by bisection on the chemical's Psat model (independent of Chemical.Tsat)."""
    key = (c.ID, P)
    T = _tsat_cache.get(key)
    if T is None:
        f = c.Psat
        lo, hi = f.Tmin, f.Tmax
        if f(lo) >= P:
            T = lo
        elif f(hi) <= P:
            T = hi
        else:
            for _ in range(200):
                mid = 0.5 * (lo + hi)
                if f(mid) < P: lo = mid
                else: hi = mid
                if hi - lo < 1e-10: break
            T = 0.5 * (lo + hi)
        if len(_tsat_cache) < 20000:
            _tsat_cache[key] = T
    return T


def pair_has_gap(a, b):
    """True when the Dortmund model of the binary a/b is (nearly) non-convex in g_mix/RT somewhere on a 0.025 grid
    at one of four temperatures: min d2(g/RT)/dx2 < 0.5 (an ideal binary has >= 4).  This marks mixtures in which
    the one-liquid dew equation can have several roots."""
    key = (a, b) if a < b else (b, a)
    r = _pair_gap.get(key)
    if r is None:
        th = chem.thermo_of(list(key))
        G = th.Gamma(tuple(th.chemicals))
        xs = np.linspace(0.025, 0.975, 39)
        r = False
        for T in GAP_T:
            g = []
            for x1 in xs:
                gm = np.ones(2) * np.asarray(G(np.array([x1, 1.0 - x1]), T), float)
                g.append(x1 * math.log(x1 * gm[0]) + (1 - x1) * math.log((1 - x1) * gm[1]))
            g = np.array(g)
            d2 = (g[2:] + g[:-2] - 2 * g[1:-1]) / 0.025 ** 2
            if d2.min() < GAP_D2:
                r = True
                break
        _pair_gap[key] = r
    return r


def nonmonotone_outside_range(c, lo_hull, hi_hull):
    """True when the chemical's Psat model, extrapolated outside its own range but inside the bracket
    [lo_hull, hi_hull] that BubblePoint/DewPoint use for the initial guess, is not increasing."""
    key = (c.ID, round(lo_hull, 3), round(hi_hull, 3))
    r = _xtrap.get(key)
    if r is None:
        f = c.Psat
        r = False
        for a, b in ((f.Tmax, hi_hull), (lo_hull, f.Tmin)):
            if b - a > 1e-6:
                ps = [float(f(a + (b - a) * k / 40.0)) for k in range(41)]
                if any(q <= p_ for p_, q in zip(ps, ps[1:])):
                    r = True
        _xtrap[key] = r
    return r


class System:
    def __init__(self, names, pkg, z, zkind, container='tuple', ctx=None):
        self.names = list(names)
        self.pkg = pkg
        self.th = thermo_for(self.names, pkg)
        self.chems = tuple(self.th.chemicals)
        self.z = np.array(z, float)
        self.zkind = zkind
        self.n = len(names)
        self.pos = [i for i in range(self.n) if self.z[i] > 0]
        self.npos = len(self.pos)
        Psats = [c.Psat for c in self.chems]
        self.Tlo = max([T_LO] + [p.Tmin for p in Psats])
        self.Thi = min([T_HI] + [p.Tmax for p in Psats])
        present = [self.chems[i] for i in self.pos]
        # T window in which every present chemical's pure Psat is inside [P_LO, P_HI]
        self.Ta = max([self.Tlo] + [own_tsat(c, P_LO) for c in present])
        self.Tb = min([self.Thi] + [own_tsat(c, P_HI) for c in present])
        # P window in which every present chemical's pure Tsat is inside [Tlo, Thi]
        self.Pa = max([P_LO] + [float(c.Psat(self.Tlo)) for c in present])
        self.Pb = min([P_HI] + [float(c.Psat(self.Thi)) for c in present])
        self._gap = None
        self.wide = False
        self.sc = False
        self.fb = False
        self._g3 = None
        self._far = None
        lo_hull = min(p.Tmin for p in Psats) + 10.0
        hi_hull = max(p.Tmax for p in Psats) - 10.0
        self.xtrap = int(any(nonmonotone_outside_range(c, lo_hull, hi_hull) for c in present))
        # the documented argument is an iterable of chemicals; Stream passes lists, VLE tuples
        self.container = container
        def arg():
            if container == 'tuple': return self.chems
            if container == 'chemicals': return self.th.chemicals          # the compiled Chemicals object
            if container == 'generator': return (c for c in self.chems)
            return list(self.chems)
        a, b = arg(), arg()
        if ctx is None:
            self.BP = eq.BubblePoint(a, self.th)
            self.DP = eq.DewPoint(b, self.th)
        else:
            reg = f'pkg={pkg},container={container}'
            self.BP = ctx.call('new.BubblePoint', eq.BubblePoint, a, self.th, region=reg)
            self.DP = ctx.call('new.DewPoint', eq.DewPoint, b, self.th, region=reg)
        if container == 'list-mutated':
            a.reverse(); b.clear()      # the caller's own lists; the solver objects must not depend on them

    def gap(self):
        """1 when some pair of present chemicals has a (near) miscibility gap in the package's liquid model."""
        if self._gap is None:
            self._gap = 0
            if self.pkg != 'ideal':
                for a in range(self.npos):
                    for b in range(a + 1, self.npos):
                        if pair_has_gap(self.names[self.pos[a]], self.names[self.pos[b]]):
                            self._gap = 1
        return self._gap

    def region(self, dew=False):
        r = f'pkg={self.pkg},npos={"1" if self.npos == 1 else "2+"},z={self.zkind}'
        if dew:
            r += f',gap={self.gap()}'
        else:
            r += f',g3={self.g3()},far={self.far()}'
        r += f',xtrap={self.xtrap}'
        if self.wide: r += ',wide=1'      # T drawn anywhere in the T box: the computed P may lie below 5e3 Pa
        if self.sc: r += ',sc=1'          # single chemical, P above its critical pressure
        if dew and self.fb: r += ',fb=1'  # dew pressure with an ideal-solution guess below 10 Pa (bracketed fallback)
        return r

    def far(self):
        """1 when, at the cold end of the T box, the bubble pressure of the package's liquid model exceeds the
        ideal-solution bubble pressure by more than a factor 10: BubblePoint starts its unguarded secant from the
        ideal-solution temperature, which is then far from the answer."""
        if self._far is None:
            self._far = 0
            if self.pkg != 'ideal' and self.npos > 1:
                zn = self.z / self.z.sum()
                g = np.ones(self.n) * np.asarray(self.th.Gamma(self.chems)(zn, self.Tlo), float)
                Ps = np.array([float(c.Psat(self.Tlo)) for c in self.chems])
                self._far = int((zn * g * Ps).sum() > 10.0 * (zn * Ps).sum())
        return self._far

    def g3(self):
        """1 when the liquid of composition z has an activity coefficient > 1e3 for a present chemical (evaluated at
        the middle of the T box): the ideal-solution initial guess of the bubble solver is then far from the answer
        (DESIGN.md section 9 lists gamma > 1e3 as a pathological region)."""
        if self._g3 is None:
            self._g3 = 0
            if self.pkg != 'ideal' and self.npos > 1:
                g = np.ones(self.n) * np.asarray(self.th.Gamma(self.chems)(self.z / self.z.sum(), 0.5 * (self.Tlo + self.Thi)), float)
                self._g3 = int(max(g[i] for i in self.pos) > 1e3)
        return self._g3

    def key(self):
        pat = ''.join('0' if v == 0 else ('t' if v < 1e-5 else 'x') for v in self.z)
        return [self.pkg, self.names, pat]


def draw_z(ch, n, tag='z'):
    if n == 1:
        return [1.0], 'single'
    kind = ch.choice(tag + '.kind', ['interior', 'zeros', 'trace', 'interior', 'interior', 'vertex'])
    if kind == 'vertex':
        i = ch.index(tag + '.i', n)
        return [1.0 if j == i else 0.0 for j in range(n)], kind
    w = ch.draw(tag + '.w', st.lists(st.floats(0.01, 1.0, allow_nan=False), min_size=n, max_size=n))
    if kind in ('zeros', 'trace'):
        keep = ch.index(tag + '.keep', n)          # one entry always stays a bulk component
        mask = ch.draw(tag + '.mask', st.lists(st.booleans(), min_size=n, max_size=n))
        if not any(m for j, m in enumerate(mask) if j != keep):
            mask[(keep + 1) % n] = True
        for j in range(n):
            if j == keep or not mask[j]: continue
            w[j] = 0.0 if kind == 'zeros' else ch.logfloat(f'{tag}.t{j}', -12, -6)
    s = sum(w)
    return [v / s for v in w], kind


PKGS = ('ideal', 'dortmund', 'dpcf')


def run_prelude(names, pkg, z, ops):
    """History inside the case: BubblePoint/DewPoint objects for the same Chemical objects are created (and used)
    for ANOTHER package and/or ANOTHER order before the system under test is built.  The solver objects are cached
    process-wide per (chemical tuple, Gamma, Phi, PCF); the runner empties those caches before every case, so
    this prelude is the only history a case has.  Nothing computed here is judged."""
    try:
        pre = System(names, pkg, z, 'prelude')
        T = 0.5 * (pre.Ta + pre.Tb) if pre.Ta < pre.Tb else 0.5 * (pre.Tlo + pre.Thi)
        if 'bub' in ops: pre.BP(np.array(pre.z), T=T)
        if 'dew' in ops: pre.DP(np.array(pre.z), T=T)
    except Exception:
        pass


def draw_system(ch, nmin=1, nmax=5, ctx=None):
    pkg = ch.choice('pkg', ['ideal', 'dortmund', 'dortmund', 'dpcf'])
    n = ch.choice('n', [k for k in (2, 3, 1, 2, 3, 4, 5) if nmin <= k <= nmax])
    names = ch.subset('names', POOL, min_size=n, max_size=n)
    # a volatile chemical WITHOUT Dortmund groups (its activity coefficient is exactly 1 in every package) at a drawn
    # position of the tuple: the gather/scatter between the full tuple and the group-bearing sub-tuple matters here
    gl = ch.choice('groupless', [None, 'Furan', None, 'HCN', None, 'Dodecane', 'Octanol'])   # + two heavy chemicals
    if gl is not None and n >= 2 and gl not in names:
        names[ch.index('groupless.pos', n)] = gl
        if ctx is not None: ctx.cell('groupless-member')
    z, zkind = draw_z(ch, len(names))
    prelude = ch.choice('prelude', ['none', 'pkg', 'perm', 'none', 'pkg+perm'])
    if prelude != 'none':
        ops = ch.choice('prelude.ops', ['bub', 'dew', 'bub+dew', 'create'])
        if 'pkg' in prelude:
            other = ch.choice('prelude.pkg', [k for k in PKGS if k != pkg])
            run_prelude(names, other, z, ops)
        if 'perm' in prelude and n > 1:
            p = ch.permutation('prelude.perm', n)
            run_prelude([names[i] for i in p], pkg, [z[i] for i in p], ops)
    container = ch.choice('container', ['tuple', 'list', 'chemicals', 'tuple', 'generator', 'list-mutated'])
    if ctx is not None:
        ctx.cell('prelude=' + prelude)
        ctx.cell('container=' + container)
    return System(names, pkg, z, zkind, container, ctx)


def draw_T(ch, s, ctx):
    """T specification.  Two modes: inside the window where every present chemical's pure Psat is in [5e3,3e6] Pa
    (the computed pressure of an ideal mixture is then inside the P box), or (`T.wide`) anywhere in the T box: the
    temperature is in the quantified range and the call is in-domain, only the computed pressure may fall below
    5e3 Pa (heavy chemical, low T)."""
    if ch.choice('T.wide', [False, False, True]):
        s.wide = True
        ctx.cell('T.wide')
        return s.Tlo + (s.Thi - s.Tlo) * ch.float('T.u', 0.0, 1.0) ** 3      # biased to the cold end (low pressures)
    if not (s.Ta < s.Tb):
        ctx.reject('empty T window')
    return s.Ta + (s.Tb - s.Ta) * ch.float('T.u', 0.0, 1.0)


def draw_P(ch, s, ctx):
    if s.npos == 1:
        Pc = float(s.chems[s.pos[0]].Pc)
        if Pc < P_HI and ch.choice('P.sc', [False, True]):
            # a specified pressure inside [5e3,3e6] Pa but above the critical pressure of the only chemical present
            s.sc = True
            ctx.cell('P>Pc')
            return Pc * (P_HI / Pc) ** max(ch.float('P.u', 0.0, 1.0), 1e-3)
    if not (s.Pa < s.Pb):
        ctx.reject('empty P window')
    if s.Pa <= 101325.0 <= s.Pb and ch.int('P.atm', 0, 11) == 11:
        return 101325.0
    return s.Pa * (s.Pb / s.Pa) ** ch.float('P.u', 0.0, 1.0)


def cells(ctx, s, op=None):
    ctx.cell('pkg=' + s.pkg)
    ctx.cell('z=' + s.zkind)
    ctx.cell('npos=1' if s.npos == 1 else 'npos>=2')
    ctx.cell(f'n={s.n}')
    if op: ctx.cell('op=' + op)


# ---------------------------------------------------------------------------
# calling the code under test
# ---------------------------------------------------------------------------
def is_dew(op):
    return op in ('dewP', 'dewT')


class InnerMonitor:
    """Observation hook for classification only: while a non-ideal dew point is solved, `dew_point.solve_x` is
    wrapped so that the fixed-point error |gamma_iter(gamma) - gamma| of every inner solution is measured.  The
    inner loop is flx.wegstein(..., checkconvergence=False, convergenceiter=5), which can return an unconverged,
    unevaluated iterate; `tag` says whether that happened during the call (relative error > 1e-9)."""
    def __init__(self):
        self.worst = 0.0
        self.mod = None

    def __enter__(self):
        import sys
        mod = sys.modules.get('thermosteam.equilibrium.dew_point')
        if mod is None or not hasattr(mod, 'solve_x') or not hasattr(mod, 'gamma_iter'):
            return self
        self.mod = mod; self.orig = orig = mod.solve_x
        mon = self

        def solve_x(x_guess, x_gamma, T, P, f_gamma, gamma_args):
            x = orig(x_guess, x_gamma, T, P, f_gamma, gamma_args)
            try:
                with np.errstate(all='ignore'):
                    g = x_gamma / x                      # the gamma the inner loop settled on
                    g2 = mod.gamma_iter(g, x_gamma, T, P, f_gamma, gamma_args)
                    ok = np.isfinite(g) & np.isfinite(g2) & (x_gamma > 0)
                    if ok.any():
                        mon.worst = max(mon.worst, float(np.abs(g2[ok] / g[ok] - 1.0).max()))
            except Exception:
                pass
            return x
        mod.solve_x = solve_x
        return self

    def __exit__(self, *exc):
        if self.mod is not None:
            self.mod.solve_x = self.orig
        return False

    @property
    def tag(self):
        if self.mod is None: return 'inner=na'
        return 'inner=bad' if self.worst > 1e-9 else 'inner=ok'


def solve(ctx, s, op, spec, z=None, site=None):
    """Return (T, P, w) with w = y (bubble) or x (dew); z defaults to the system's composition."""
    z = s.z if z is None else z
    zin = np.array(z, float)
    snap = zin.tobytes()
    site = site or op
    region = s.region(is_dew(op))
    s.inner = ''
    if op == 'bubP': r = ctx.call(site, s.BP, zin, T=spec, region=region); w = r.y
    elif op == 'bubT': r = ctx.call(site, s.BP, zin, P=spec, region=region); w = r.y
    else:
        monitored = s.pkg != 'ideal' and s.npos > 1
        if monitored and op == 'dewP':
            zz = zin / zin.sum()
            if 1.0 / sum(zz[i] / float(s.chems[i].Psat(spec)) for i in s.pos) < 10.0:
                # solve_Px starts its secant at P_guess and P_guess - 10: the second point is non-positive,
                # InfeasibleRegion is raised and the bracketed IQ_interpolation fallback does the work
                ctx.cell('dewP:ideal-guess<10Pa(bracketed fallback)')
                s.fb = True
                region = s.region(True)
        mon = InnerMonitor()
        try:
            if monitored:
                with mon:
                    r = ctx.call(site, s.DP, zin, **({'T': spec} if op == 'dewP' else {'P': spec}), region=region)
            else:
                r = ctx.call(site, s.DP, zin, **({'T': spec} if op == 'dewP' else {'P': spec}), region=region)
            w = r.x
        except Violation as v:
            # classify a diverged dew solve: was an inner solution unconverged (C08-F6), and for dew temperatures
            # how good was DewPoint's own initial guess (C08-F5)
            if '|exc:' in v.sig and s.npos > 1:
                head, kind = v.sig.rsplit('|', 1)
                if monitored: head += ',' + mon.tag
                if op == 'dewT': head += ',' + guess_tag(s, spec)
                raise Violation(f'{head}|{kind}', v.msg)
            raise
        if monitored: s.inner = ',' + mon.tag
    if zin.tobytes() != snap:
        ctx.fail(f'{site}|{region}|z-modified', 'the caller\'s composition array was modified')
    T, P = float(r.T), float(r.P)
    w = np.array(w, float)
    if not (math.isfinite(T) and math.isfinite(P) and np.isfinite(w).all()):
        ctx.fail(f'{site}|{region}|nonfinite', f'T={T!r} P={P!r} w={w.tolist()}')
    return T, P, w


def in_box(s, T, P):
    return (s.Tlo - 1e-9 <= T <= s.Thi + 1e-9) and (P_LO * (1 - 1e-9) <= P <= P_HI * (1 + 1e-9))


def require_box(ctx, s, T, P):
    """Used by the relational checks: a result outside the box is judged by the point check only.  In wide mode
    (T specified anywhere in the T box) a computed pressure below the box is still the result of an in-domain call."""
    if s.wide and s.Tlo - 1e-9 <= T <= s.Thi + 1e-9 and P > 0:
        if P < P_LO: ctx.cell('computed-P-below-box(judged)')
        elif P > P_HI: ctx.cell('computed-P-above-box(judged)')
        return
    if not in_box(s, T, P):
        ctx.cell('outside-box')
        ctx.reject('computed T/P outside the quantified box')


def bubble_root_in_box(s, P):
    """Does the (explicit, increasing in T) bubble equation change sign between the ends of the T box?"""
    zn = s.z / s.z.sum()
    vals = []
    for T in (s.Tlo, s.Thi):
        Psats, gamma, pcf, phi = ingredients(s, T, P, zn, zn)
        vals.append(float((zn * gamma * pcf * Psats / (phi * P)).sum()) - 1.0)
    return vals[0] < 0.0 < vals[1]


def judge_box(ctx, s, op, T, P, site):
    """Point check: with an ideal package the answer lies between the pure saturation points, i.e. inside the
    box by construction of the T/P windows; for a non-ideal bubble temperature the box must contain the answer
    when the equation changes sign across it.  Anything else outside the box is outside the quantifier."""
    if in_box(s, T, P):
        return
    if s.wide and P > 0 and s.Tlo - 1e-9 <= T <= s.Thi + 1e-9:
        ctx.cell('computed-P-below-box(judged)' if P < P_LO else 'computed-P-above-box(judged)')
        return
    region = s.region(is_dew(op))
    if s.pkg == 'ideal' or (op == 'bubT' and bubble_root_in_box(s, P)):
        ctx.fail(f'{site}|{region}|out-of-range',
                 f'{s.names} z={s.z.tolist()}: returned T={T!r} P={P!r} but the solution lies in '
                 f'[{s.Tlo}, {s.Thi}] K x [{P_LO}, {P_HI}] Pa')
    ctx.cell('outside-box')
    ctx.reject('computed T/P outside the quantified box')


# ---------------------------------------------------------------------------
# independent ingredients of the defining equation
# ---------------------------------------------------------------------------
def ingredients(s, T, P, liquid_x, vapor_y):
    Psats = np.array([float(c.Psat(T)) for c in s.chems])
    gamma = np.ones(s.n) * np.asarray(s.th.Gamma(s.chems)(np.array(liquid_x, float), T), float)
    pcf = np.ones(s.n) * np.asarray(s.th.PCF(s.chems)(T, P, Psats.copy()), float)
    phi = np.ones(s.n) * np.asarray(s.th.Phi(s.chems)(np.array(vapor_y, float), T, P), float)
    return Psats, gamma, pcf, phi


def residual(s, op, T, P, w):
    """(|sum of implied fractions - 1|, max |implied/sum - returned|, implied) from the defining equation.  A returned
    point at which the equation cannot even be evaluated (T = 1e7 K ...) counts as an infinite residual."""
    zn = s.z / s.z.sum()
    try:
        with np.errstate(all='ignore'):
            if is_dew(op):
                Psats, gamma, pcf, phi = ingredients(s, T, P, w, zn)
                implied = zn * phi * P / (gamma * Psats * pcf)
            else:
                Psats, gamma, pcf, phi = ingredients(s, T, P, zn, w)
                implied = zn * gamma * pcf * Psats / (phi * P)
            tot = float(implied.sum())
            res = abs(tot - 1.0); dev = float(np.abs(implied / tot - w).max())
    except (FloatingPointError, ZeroDivisionError, OverflowError, ValueError):
        return float('inf'), float('inf'), np.full(s.n, np.nan)
    if not (math.isfinite(res) and math.isfinite(dev)):
        return float('inf'), float('inf'), implied
    return res, dev, implied


def res_tol(P):
    """1e-6 inside the P box; below it the solvers' absolute pressure tolerance (P_tol = 1e-3 Pa) dominates."""
    return RES_TOL if P >= P_LO else RES_TOL + min(4e-3 / P, 5e-2)


def dew_converged(s, op, T, P, w):
    r, d, _ = residual(s, op, T, P, w)
    return r <= res_tol(P) and d <= res_tol(P)


def guess_tag(s, P):
    """Classification of a failing dew-temperature case: did DewPoint._Tx_ideal (ideal-solution initial guess,
    a bracketing solve over the hull of all Psat ranges with maxiter=50 and no iteration check) return something
    more than 1 K away from the ideal dew temperature computed here by bisection inside the box?"""
    zn = s.z / s.z.sum()
    f = lambda T: sum(zn[i] * P / float(s.chems[i].Psat(T)) for i in s.pos) - 1.0
    lo, hi = s.Tlo, s.Thi
    for _ in range(60):
        mid = 0.5 * (lo + hi)
        if f(mid) > 0: lo = mid
        else: hi = mid
    try:
        guess = float(s.DP._Tx_ideal(zn * P)[0])
    except Exception:
        return 'guess=err'
    return 'guess=bad' if abs(guess - lo) > 1.0 else 'guess=ok'


def check_point(ctx, s, op, T, P, w, site):
    """Defining equation, normalisation, non-negativity for one result."""
    region = s.region(is_dew(op))
    if w.shape != (s.n,):
        ctx.fail(f'{site}|{region}|shape', f'fractions have shape {w.shape}')
    if (w < 0).any():
        ctx.fail(f'{site}|{region}|negative', f'negative fraction {w.min()!r}')
    nerr = abs(w.sum() - 1.0)
    ctx.metric_max(f'{op}:norm_err', nerr)
    if nerr > NORM_TOL:
        ctx.fail(f'{site}|{region}|not-normalised', f'sum of returned fractions = {w.sum()!r}')
    if (w[s.z == 0] != 0).any():
        ctx.fail(f'{site}|{region}|absent-nonzero', f'fraction of an absent chemical is {w[s.z == 0].tolist()}')
    res, dev, implied = residual(s, op, T, P, w)
    tag = f'{op}:gap' if (is_dew(op) and s.gap()) else op
    tol = res_tol(P)
    if P < P_LO: tag += ':lowP'
    if res <= tol: ctx.metric_max(f'{tag}:residual(passing)', res)
    else: ctx.metric_max(f'{tag}:residual(failing)', res)
    if not res <= tol:
        if is_dew(op): region += getattr(s, 'inner', '')
        if op == 'dewT': region += ',' + guess_tag(s, P)
        # minor: 1e-6 < |sum-1| <= 1e-4 (noise of an unconverged inner iteration); gross: anything larger
        kind = 'residual-minor' if res <= 1e-4 else 'residual'
        ctx.fail(f'{site}|{region}|{kind}', f'sum of implied fractions = {1 + res!r} or {1 - res!r} at T={T!r} P={P!r} '
                                            f'{s.names} z={s.z.tolist()}')
    ctx.metric_max(f'{tag}:fraction_dev', dev)
    if not dev <= tol:
        ctx.fail(f'{site}|{region}|fractions', f'returned {w.tolist()} implied {(implied / implied.sum()).tolist()}')


def check_single(ctx, s, op, T, P, w, site):
    region = s.region(is_dew(op))
    i = s.pos[0]
    c = s.chems[i]
    e = np.zeros(s.n); e[i] = 1.0
    if not np.array_equal(w, e):
        ctx.fail(f'{site}|{region}|single-fractions', f'returned {w.tolist()}')
    atm = (P == 101325.0 and op in ('bubT', 'dewT'))
    err = abs(float(c.Psat(T)) - P)
    ctx.metric_max(f'{op}:single_P_err' + (':atm' if atm else ''), err / P)
    # Chemical.Tsat stops at a bracket < 1e-6 K or |Psat - P| < 1e-2 Pa
    tol = 1e-6 * P + 2e-2
    if not err <= tol:
        ctx.fail(f'{site}|{region},atm={int(atm)}|single-saturation',
                 f'{c.ID}: Psat(T={T!r}) = {float(c.Psat(T))!r} but P = {P!r}')


# ---------------------------------------------------------------------------
# stability of the one-liquid model (input classification for the ordering clause)
# ---------------------------------------------------------------------------
def liquid_stable(s, x, T):
    """Michelsen tangent-plane test with the package's gamma; True when no trial phase has negative distance."""
    if s.pkg == 'ideal':
        return True
    idx = [i for i in range(s.n) if x[i] > 0]
    if len(idx) < 2:
        return True
    G = s.th.Gamma(s.chems)
    x = np.array(x, float); x = x / x.sum()
    h = np.full(s.n, -np.inf)
    g0 = np.asarray(G(x.copy(), T), float) * np.ones(s.n)
    for i in idx: h[i] = math.log(x[i]) + math.log(g0[i])
    for start in idx:
        W = np.zeros(s.n)
        for i in idx: W[i] = 1e-3 / max(1, len(idx) - 1)
        W[start] = 1.0 - 1e-3
        for it in range(60):
            tot = W.sum()
            g = np.asarray(G(W / tot, T), float) * np.ones(s.n)
            Wn = np.zeros(s.n)
            for i in idx: Wn[i] = math.exp(min(50.0, h[i] - math.log(g[i])))
            done = np.abs(Wn - W).max() < 1e-10
            W = Wn
            if done: break
        if W.sum() > 1.0 + 1e-7 and np.abs(W / W.sum() - x).max() > 1e-4:
            return False
    return True


# ---------------------------------------------------------------------------
# properties
# ---------------------------------------------------------------------------
def prop_point(ch, ctx):
    s = draw_system(ch, ctx=ctx)
    op = ch.choice('op', OPS)
    spec = draw_T(ch, s, ctx) if op in ('bubP', 'dewP') else draw_P(ch, s, ctx)
    cells(ctx, s, op)
    if is_dew(op) and s.npos > 1: ctx.cell(f'dew:gap={s.gap()}')
    T, P, w = solve(ctx, s, op, spec)
    if op in ('bubP', 'dewP'):
        if T != spec: ctx.fail(f'{op}|{s.region(is_dew(op))}|spec-echo', f'T given {spec!r} returned {T!r}')
    elif P != spec:
        ctx.fail(f'{op}|{s.region(is_dew(op))}|spec-echo', f'P given {spec!r} returned {P!r}')
    if s.npos == 1:
        require_box(ctx, s, T, P)
        check_single(ctx, s, op, T, P, w, op)
    else:
        # a result outside the box may be an unconverged one: judge the equation first
        if dew_converged(s, op, T, P, w):
            judge_box(ctx, s, op, T, P, op)
        check_point(ctx, s, op, T, P, w, op)
        ctx.nontriv(['point', op, s.key()])


def _reject_bad_dew(ctx, s, op, T, P, w):
    """Relational checks: a result that does not satisfy its own equation is the point check's finding."""
    if s.npos > 1 and not dew_converged(s, op, T, P, w):
        ctx.cell(('dew' if is_dew(op) else 'bubble') + '-unconverged(reported by point)')
        ctx.reject('bubble/dew point does not satisfy its equation (reported by the point check)')


def prop_roundtrip(ch, ctx):
    s = draw_system(ch, ctx=ctx)
    kind = ch.choice('kind', ['bub', 'dew'])
    first = ch.choice('first', ['T', 'P'])
    opP, opT = kind + 'P', kind + 'T'
    cells(ctx, s)
    region = s.region(kind == 'dew')
    if first == 'T':
        T0 = draw_T(ch, s, ctx)
        region = s.region(kind == 'dew')
        _, P1, w1 = solve(ctx, s, opP, T0, site='rt.' + opP)
        _reject_bad_dew(ctx, s, opP, T0, P1, w1)
        if not in_box(s, T0, P1):      # P1 becomes a specified pressure: it must be inside the P box
            ctx.cell('outside-box'); ctx.reject('computed T/P outside the quantified box')
        T2, _, w2 = solve(ctx, s, opT, P1, site='rt.' + opT)
        _reject_bad_dew(ctx, s, opT, T2, P1, w2)
        require_box(ctx, s, T2, P1)
        ctx.cell('rt:T-P-T')
        err = abs(T2 - T0)
        ctx.metric_max(f'rt:{kind}:dT' + (':gap' if kind == 'dew' and s.gap() else ''), err)
        if not err <= 1e-4:
            ctx.fail(f'rt.{kind}.TPT|{region}|mismatch', f'T={T0!r} -> P={P1!r} -> T={T2!r} {s.names} z={s.z.tolist()}')
    else:
        P0 = draw_P(ch, s, ctx)
        region = s.region(kind == 'dew')
        T1, _, w1 = solve(ctx, s, opT, P0, site='rt.' + opT)
        _reject_bad_dew(ctx, s, opT, T1, P0, w1)
        require_box(ctx, s, T1, P0)
        _, P2, w2 = solve(ctx, s, opP, T1, site='rt.' + opP)
        _reject_bad_dew(ctx, s, opP, T1, P2, w2)
        require_box(ctx, s, T1, P2)
        ctx.cell('rt:P-T-P')
        atm = int(P0 == 101325.0 and s.npos == 1)
        err = abs(P2 - P0)
        ctx.metric_max(f'rt:{kind}:dP_rel' + (':atm1' if atm else '') + (':gap' if kind == 'dew' and s.gap() else ''),
                       err / P0)
        if not err <= 1e-6 * P0 + 2e-2:
            ctx.fail(f'rt.{kind}.PTP|{region},atm={atm}|mismatch', f'P={P0!r} -> T={T1!r} -> P={P2!r} {s.names} z={s.z.tolist()}')
    dev = float(np.abs(w1 - w2).max())
    ctx.metric_max(f'rt:{kind}:dw', dev)
    if not dev <= 1e-6:
        ctx.fail(f'rt.{kind}.fractions|{region}|mismatch', f'{w1.tolist()} vs {w2.tolist()}')
    if s.npos >= 2:
        ctx.nontriv(['rt', kind, first, s.key()])


def prop_order(ch, ctx):
    s = draw_system(ch, ctx=ctx)
    fixed = ch.choice('fixed', ['T', 'P'])
    cells(ctx, s)
    region = s.region(True)
    zn = s.z / s.z.sum()
    if fixed == 'T':
        T = draw_T(ch, s, ctx)
        region = s.region(True)
        _, Pb, y = solve(ctx, s, 'bubP', T, site='order.bubP')
        _, Pd, x = solve(ctx, s, 'dewP', T, site='order.dewP')
        region = s.region(True)       # carries fb=1 when the dew-pressure solve went through the bracketed fallback
        _reject_bad_dew(ctx, s, 'bubP', T, Pb, y)
        _reject_bad_dew(ctx, s, 'dewP', T, Pd, x)
        require_box(ctx, s, T, Pb); require_box(ctx, s, T, Pd)
        if s.npos > 1 and not liquid_stable(s, x, T):
            ctx.cell('order:unstable-dew-liquid'); ctx.reject('dew liquid unstable in the one-liquid model')
        ctx.cell('order:judged')
        if s.npos > 1: ctx.cell(f'order:judged,gap={s.gap()}')
        ctx.metric_max('order:Pd/Pb-1', Pd / Pb - 1.0)
        if not Pd <= Pb * (1 + 1e-9) + 2e-3:
            ctx.fail(f'order.P|{region}|violated', f'T={T!r}: P_dew={Pd!r} > P_bub={Pb!r} {s.names} z={zn.tolist()}')
        if s.npos == 1 and Pd != Pb:
            ctx.fail(f'order.P|{region}|single-differs', f'P_dew={Pd!r} P_bub={Pb!r}')
    else:
        P = draw_P(ch, s, ctx)
        region = s.region(True)
        Tb, _, y = solve(ctx, s, 'bubT', P, site='order.bubT')
        Td, _, x = solve(ctx, s, 'dewT', P, site='order.dewT')
        _reject_bad_dew(ctx, s, 'bubT', Tb, P, y)
        _reject_bad_dew(ctx, s, 'dewT', Td, P, x)
        if not s.sc:
            # above the critical pressure of a single chemical both solvers document T = Tc (outside the T box); the
            # ordering clause is still judged there
            require_box(ctx, s, Tb, P); require_box(ctx, s, Td, P)
        if s.npos > 1 and not liquid_stable(s, x, Td):
            ctx.cell('order:unstable-dew-liquid'); ctx.reject('dew liquid unstable in the one-liquid model')
        ctx.cell('order:judged')
        if s.npos > 1: ctx.cell(f'order:judged,gap={s.gap()}')
        ctx.metric_max('order:Tb-Td', Tb - Td)
        if not Tb <= Td + 1e-6:
            ctx.fail(f'order.T|{region}|violated', f'P={P!r}: T_bub={Tb!r} > T_dew={Td!r} {s.names} z={zn.tolist()}')
        if s.npos == 1 and Tb != Td:
            ctx.fail(f'order.T|{region}|single-differs', f'T_bub={Tb!r} T_dew={Td!r}')
    if s.npos >= 2:
        ctx.nontriv(['order', fixed, s.key()])


def compare(ctx, site, region, a, b, what):
    (T1, P1, w1), (T2, P2, w2) = a, b
    dT = abs(T1 - T2); dP = max(0.0, abs(P1 - P2) - 4e-3) / P1; dw = float(np.abs(w1 - w2).max())
    ok = dT <= 1e-4 and dP <= 2e-6 and dw <= 2e-6 + (min(8e-3 / P1, 5e-2) if P1 < P_LO else 0.0)
    if ok:
        ctx.metric_max(site + ':dT', dT); ctx.metric_max(site + ':dP_rel', dP); ctx.metric_max(site + ':dw', dw)
    else:
        ctx.fail(f'{site}|{region}|mismatch', f'{what}: T {T1!r} vs {T2!r}, P {P1!r} vs {P2!r}, '
                                              f'fractions {w1.tolist()} vs {w2.tolist()}')


def prop_scale(ch, ctx):
    s = draw_system(ch, ctx=ctx)
    op = ch.choice('op', OPS)
    k = ch.choice('k.special', [2.0, 0.5, 1000.0, 0.001, None, None])
    if k is None:
        k = ch.logfloat('k', -3, 3)
    spec = draw_T(ch, s, ctx) if op in ('bubP', 'dewP') else draw_P(ch, s, ctx)
    cells(ctx, s, op)
    base = solve(ctx, s, op, spec, site='scale.' + op)
    _reject_bad_dew(ctx, s, op, *base)
    require_box(ctx, s, base[0], base[1])
    scaled = solve(ctx, s, op, spec, z=s.z * k, site='scale.' + op + '.k')
    compare(ctx, 'scale.' + op, s.region(is_dew(op)), base, scaled,
            f'z vs {k!r}*z at spec {spec!r}, {s.names} z={s.z.tolist()}')
    if s.npos >= 2:
        ctx.nontriv(['scale', op, s.key(), k > 1])


def prop_perm(ch, ctx):
    s = draw_system(ch, nmin=2, ctx=ctx)
    op = ch.choice('op', OPS)
    p = ch.permutation('perm', s.n)
    spec = draw_T(ch, s, ctx) if op in ('bubP', 'dewP') else draw_P(ch, s, ctx)
    cells(ctx, s, op)
    if p == list(range(s.n)):
        ctx.cell('perm:identity')
    s2 = System([s.names[i] for i in p], s.pkg, [float(s.z[i]) for i in p], s.zkind)
    base = solve(ctx, s, op, spec, site='perm.' + op)
    _reject_bad_dew(ctx, s, op, *base)
    require_box(ctx, s, base[0], base[1])
    T2, P2, w2 = solve(ctx, s2, op, spec, site='perm.' + op)
    _reject_bad_dew(ctx, s2, op, T2, P2, w2)
    back = np.zeros(s.n)
    for k, i in enumerate(p): back[i] = w2[k]
    compare(ctx, 'perm.' + op, s.region(is_dew(op)), base, (T2, P2, back),
            f'names {s.names} vs {s2.names} at spec {spec!r}, z={s.z.tolist()}')
    if s.npos >= 2 and p != list(range(s.n)):
        ctx.nontriv(['perm', op, s.key(), p])


def prop_stream(ch, ctx):
    """Stream helpers (bubble_point_at_T/P, dew_point_at_T/P, get_bubble_point, get_dew_point) with explicit T/P/IDs
    different from the stream's own condition give the result of the BubblePoint/DewPoint object for the same
    chemicals and the same normalised composition."""
    s = draw_system(ch, ctx=ctx)
    op = ch.choice('op', OPS)
    spec = draw_T(ch, s, ctx) if op in ('bubP', 'dewP') else draw_P(ch, s, ctx)
    k = ch.logfloat('flow.k', -2, 3)
    own_T = s.Tlo + (s.Thi - s.Tlo) * ch.float('stream.T', 0.0, 1.0)
    own_P = P_LO * (P_HI / P_LO) ** ch.float('stream.P', 0.0, 1.0)
    ids = ch.choice('IDs', ['present', 'all', 'default', 'present'])
    order = ch.permutation('IDs.order', s.n)
    cells(ctx, s, op)
    ctx.cell('stream:IDs=' + ids)
    region = s.region(is_dew(op)) + f',ids={ids}'
    glob = ch.choice('stream.global', ['same', 'other', 'other'])
    ctx.cell('stream:global=' + glob)
    tmo.settings.set_thermo(s.th)
    flows = {s.names[i]: float(s.z[i] * k) for i in range(s.n) if s.z[i] > 0}
    stream = ctx.call('stream.new', tmo.Stream, None, thermo=s.th, T=own_T, P=own_P, phase='l', region=region, **flows)
    if glob == 'other':
        # the stream keeps its own package; the session default is another one when the helpers are called
        tmo.settings.set_thermo(thermo_for(s.names, ch.choice('stream.global.pkg', [k_ for k_ in PKGS if k_ != s.pkg])))
    if ids == 'default':
        IDs = None
        sel = [i for i in range(s.n) if s.z[i] > 0]            # vle_chemicals: present chemicals in package order
    else:
        sel = [i for i in order if ids == 'all' or s.z[i] > 0]
        IDs = tuple(s.names[i] for i in sel)
    chems = tuple(s.chems[i] for i in sel)
    fl = np.array([s.z[i] * k for i in sel], float)
    zref = fl / fl.sum()
    obj = ctx.call('stream.get', stream.get_dew_point if is_dew(op) else stream.get_bubble_point, IDs, region=region)
    want_cls = eq.DewPoint if is_dew(op) else eq.BubblePoint
    if type(obj) is not want_cls or tuple(obj.IDs) != tuple(c.ID for c in chems):
        ctx.fail(f'stream.get|{region}|mismatch', f'{type(obj).__name__} for {obj.IDs}, expected {want_cls.__name__} for {[c.ID for c in chems]}')
    ref_obj = want_cls(chems, s.th)
    kw = {'T': spec} if op in ('bubP', 'dewP') else {'P': spec}
    try:
        ref = ref_obj(zref.copy(), **kw)
    except Exception:
        ctx.reject('reference BubblePoint/DewPoint call raised (judged by the point check)')
    helper = {'bubP': stream.bubble_point_at_T, 'bubT': stream.bubble_point_at_P,
              'dewP': stream.dew_point_at_T, 'dewT': stream.dew_point_at_P}[op]
    site = 'stream.' + helper.__name__
    got = ctx.call(site, helper, spec, IDs, region=region)
    if tuple(got.IDs) != tuple(ref.IDs):
        ctx.fail(f'{site}|{region}|ids', f'result for {got.IDs}, expected {ref.IDs}')
    if (got.T if 'T' in kw else got.P) != spec:
        ctx.fail(f'{site}|{region}|spec-echo', f'explicit {kw} but the result is at T={got.T!r} P={got.P!r} '
                                               f'(stream at T={own_T!r} P={own_P!r})')
    wg = np.array(got.x if is_dew(op) else got.y, float); wr = np.array(ref.x if is_dew(op) else ref.y, float)
    if not (float(got.T) == float(ref.T) and float(got.P) == float(ref.P) and np.array_equal(wg, wr)
            and np.array_equal(np.asarray(got.z, float), zref)):
        ctx.fail(f'{site}|{region}|mismatch', f'helper: T={got.T!r} P={got.P!r} z={np.asarray(got.z).tolist()} w={wg.tolist()}; '
                                              f'object: T={ref.T!r} P={ref.P!r} z={zref.tolist()} w={wr.tolist()}')
    if stream.T != own_T or stream.P != own_P:
        ctx.fail(f'{site}|{region}|stream-modified', f'stream condition changed to T={stream.T!r} P={stream.P!r}')
    if len(sel) >= 2:
        ctx.nontriv(['stream', op, ids, s.key(), order])


PROPS = {
    'point': (prop_point, 3200, 120000),
    'roundtrip': (prop_roundtrip, 1200, 40000),
    'order': (prop_order, 1200, 40000),
    'scale': (prop_scale, 800, 25000),
    'perm': (prop_perm, 1000, 35000),
    'stream': (prop_stream, 500, 15000),
}
