"""C18 - flowsheet connections stay mutually consistent under every rewiring operation.

Two engines share one operation generator (``pick_op``):

* ``history``  - Hypothesis-driven operation sequences (up to 50 steps) on universes of 3-8 units
  (seven port layouts) and 5-10 streams built through the unit constructor, or on the small universes;
* ``bfs``      - explicit-state breadth-first enumeration of *every* operation sequence of the small
  alphabet on the 3-unit / 5-stream universe: flowsheets A and B to depth 3 (quick); A to depth 4, B and C
  to depth 3 (thorough).  The enumerator drives ``pick_op`` with an exhaustive chooser, so each enumerated
  sequence *is* a log of the ``history`` check; failures are stored as ``history`` cases and replayed from
  scratch.  (States are rebuilt from scratch, operations are tried on a restored snapshot; see ``prop_bfs``.)

The oracle is an independent walk over all units and streams after every step.
"""
from __future__ import annotations

import thermosteam as tmo
from thermosteam import network as nw
from vlib.runner import Chooser, Violation, HarnessError

PROPERTY = 'C18'
EXHAUSTIVE = True
RULE = ('history: Hypothesis draws a universe (3-6 units from nine port layouts, fixed/variable x 1-3 ports incl. '
        'variable ins+outs with one nominal inlet, built '
        'through the constructor with ins/outs given as None, (), one stream or a list that may steal docked '
        'streams; 5-10 streams; or one of the two small universes) and up to 50 operations, each drawn from the '
        'operations ENABLED in the current state by exactly the stated preconditions: item assignment (also as '
        's-i-u / u**i**s pipes, also one past the end of a variable list), slice assignment (also as (s1,s2)-u, '
        'u-s pipes), append/insert/extend, pop/remove/replace/clear/empty, stream.disconnect_source/_sink/'
        'disconnect, unit.disconnect(inlets/outlets as None, streams or indices, join_ends), unit-unit piping, '
        'unit.insert(stream, inlet, outlet), take_place_of, replace_with(other/None), saving and reconnecting '
        'Connections, constructing further units; arguments are free streams, streams docked elsewhere, None and '
        'placeholder streams; unit.insert is drawn with inlet/outlet omitted, as index and as stream in every '
        '(layout kind, argument form) cell that raises no documented ValueError (30 required cells).  bfs: explicit-state enumeration of every sequence of the small '
        'alphabet (same generator driven by an exhaustive chooser; interchangeable never-docked streams reduced to '
        'the lowest one, one placeholder argument per target, full-span slices of <=2 streams, single-port '
        'unit.disconnect selections) on Mix(2->1 fixed), Split(1->2 fixed), Var1(1/2 variable) with five streams, '
        'from the empty flowsheet A and the chained flowsheet B (s0,s1->Mix->s2->Split->s3->Var, s4 free): depth 3 '
        'for both in the quick tier, depth 4 for A and 3 for B and for the looped flowsheet C (Split->s1,s2->Var->s0->'
        'Split) in the thorough tier; a sequence is not extended '
        'when it reaches a complete state (port lists, placeholder and stream pointers) already expanded at the '
        'same or a smaller depth.  Oracle after every step: independent walk over all units and all streams ever '
        'seen: listed in u.ins <=> sink is u, listed in u.outs <=> source is u (real streams and placeholders in '
        'ports), no object at two inlet or two outlet ports, fixed lists keep their size, every port holds a '
        'truthy stream or a falsy placeholder.  Non-trivial: some stream was docked at two different units on the '
        'same side during the sequence; distinct by (universe layout, sequence of (operation, unit class, region)).')
ASSUMPTIONS = [
    'operations are generated only inside the preconditions of the quantifier: appended/inserted/extended streams are '
    'not docked on that side, an assigned stream (or any stream of an assigned slice / piped unit / replacing unit) is '
    'not already in the target list, full slices and piped units supply no more streams than a fixed list holds; the '
    'literal reading for partial slices (no more streams than the list holds, although more than the slice vacates) '
    'is generated under the separate region fit=grow and may be rejected with the library\'s RuntimeError',
    'composite operations (unit.insert, replace_with(None), unit.disconnect(join_ends)) are generated only where '
    'they do not raise their documented ValueError, the inserted stream connects two other units, and no self-loop '
    'stream of the unit is involved',
    'placeholders are operated on only while they sit in a port list (they are fetched through the list)',
    'variable-size lists are not required to shrink on remove (DESIGN Appendix A)',
    'Connection.reconnect is generated when the stream is absent from the target list or sits at the saved index',
    'exhaustive engine: states are rebuilt by replaying their sequence from scratch, then every operation is tried '
    'on a snapshot of (_ins._streams, _outs._streams, stream._source, stream._sink) that is restored afterwards; '
    'the slot layout is asserted, 1 in 499 sequences is re-run from scratch through the validating chooser and must '
    'reach the same state, and failures are re-run from scratch by the runner',
]
REQUIRED_CELLS = {
    'quick': ['op:set', 'op:slice', 'op:append', 'op:insert', 'op:extend', 'op:pop', 'op:remove', 'op:replace',
              'op:clear', 'op:empty', 'op:sdisc', 'op:udisc', 'op:upipe', 'op:uinsert', 'op:take_place_of',
              'op:replace_with', 'op:reconnect', 'op:construct', 'arg:moved', 'arg:ph', 'arg:none', 'via:pipe',
              'bfs:cfg=A', 'bfs:cfg=B'],
    'thorough': [],
}

AS = tmo.AbstractStream
MS = tmo.AbstractMissingStream

# name: (N_ins, N_outs, ins fixed, outs fixed)
LAYOUT = {
    'Mix': (2, 1, True, True),
    'Split': (1, 2, True, True),
    'Var': (2, 2, False, False),
    'One': (1, 1, True, True),
    'MixV': (2, 1, False, True),
    'SplitV': (1, 2, True, False),
    'Big': (3, 3, True, True),
    'VV1': (1, 1, False, False),      # variable ins and outs with ONE nominal inlet: unit.insert(stream) needs no arguments
    'Var1': (1, 2, False, False),     # the variable unit of the small universes (same property, two nominal outlets)
    'FixV': (2, 2, True, False),      # fixed 2 ins / variable outs
}
CLS = {}
for _n, (_a, _b, _c, _d) in LAYOUT.items():
    CLS[_n] = type(_n, (tmo.AbstractUnit,), dict(_N_ins=_a, _N_outs=_b, _ins_size_is_fixed=_c,
                                                  _outs_size_is_fixed=_d, line=_n))
CLASS_NAMES = [n for n in LAYOUT if n != 'Var1']


def _insert_cells():
    """Every (layout kind, argument form) of unit.insert(stream, inlet, outlet) that raises no documented ValueError:
    outlet may be omitted when outs are variable or hold one fixed port; inlet may be omitted when ins are variable and
    the stream is not going to be appended to outs, or when there is exactly one nominal inlet."""
    cells = set()
    one = lambda k: '1' if k == 1 else 'N'
    for nin, nout, fin, fout in LAYOUT.values():
        kind = f'ins={"fixed" if fin else "var"}{one(nin)},outs={"fixed" if fout else "var"}{one(nout)}'
        for ol in ('none', 'given'):
            if ol == 'none' and fout and nout != 1: continue
            added = ol == 'none' and not fout
            for il in ('none', 'given'):
                if il == 'none' and (fin or added) and nin != 1: continue
                cells.add(f'uinsert:{kind}:inlet={il},outlet={ol}')
    return sorted(cells)


REQUIRED_CELLS['quick'] += _insert_cells()
SIDE = ('ins', 'outs')
_TH = None


def setup(ctx):
    global _TH
    if _TH is None:
        tmo.settings.set_thermo([])
        _TH = tmo.settings.get_thermo()


# ---------------------------------------------------------------------------
# world
# ---------------------------------------------------------------------------

class World:
    def __init__(self):
        self.units = []
        self.cls = []
        self.reals = []        # every real stream ever seen (universe first, then discovered)
        self._ids = set()
        self.saved = []        # saved Connection objects
        self.last = [{}, {}]   # side -> real index -> last unit docked
        self.moved = False
        self.descr = []

    def lst(self, ui, side):
        u = self.units[ui]
        return u.ins if side == 0 else u.outs

    def items(self, ui, side):
        return list(self.lst(ui, side))

    def fixed(self, ui, side):
        return LAYOUT[self.cls[ui]][2 + side]

    def nominal(self, ui, side):
        return LAYOUT[self.cls[ui]][side]

    def lists(self):
        return [[ui, sd] for ui in range(len(self.units)) for sd in (0, 1)]

    def add_real(self, s):
        if id(s) not in self._ids:
            self._ids.add(id(s))
            self.reals.append(s)

    def discover(self):
        ids = self._ids
        for u in self.units:
            for L in (u.ins, u.outs):
                for o in L:
                    if id(o) not in ids and isinstance(o, AS):
                        self.add_real(o)

    def uindex(self, u):
        for i, v in enumerate(self.units):
            if v is u:
                return i
        return None

    def track_moves(self):
        for sd in (0, 1):
            last = self.last[sd]
            for k, s in enumerate(self.reals):
                p = ptr(s, sd)
                if p is not None:
                    q = last.get(k)
                    if q is not None and q is not p:
                        self.moved = True
                    last[k] = p


def ptr(o, side):
    """The unit the stream says it is docked at on that side (0: sink, 1: source)."""
    return o.sink if side == 0 else o.source


def is_ph(o):
    return isinstance(o, MS)


def resolve(w, ref):
    if ref is None:
        return None
    if ref[0] == 's':
        return w.reals[ref[1]]
    if ref[0] == 'p':
        o = w.items(ref[1], ref[2])[ref[3]]
        if not is_ph(o):
            raise HarnessError(f'reference {ref} is not a placeholder')
        return o
    raise HarnessError(f'bad reference {ref}')


def argcls(w, side, ref):
    if ref is None: return 'none'
    if ref[0] == 'p': return 'ph'
    return 'free' if ptr(w.reals[ref[1]], side) is None else 'moved'


def pick(ch, label, seq):
    """Choice from a list of JSON-able values computed from the current state (``seq`` may be a thunk).
    A replayed value must be admissible in the state it is replayed in."""
    if getattr(ch, 'trusted', False):
        return ch.choice(label, None)
    memo = getattr(ch, 'memo', None)
    if memo is not None:            # exhaustive chooser: the choice tree is a function of the choices taken so far
        key = tuple(ch.taken)
        if key not in memo:
            memo[key] = seq() if callable(seq) else seq
        seq = memo[key]
    elif callable(seq): seq = seq()
    v = ch.choice(label, seq)
    if v not in seq:
        raise HarnessError(f'replayed value {v!r} for {label!r} is not admissible here: {seq!r}')
    return v


class TrustedReplay:
    """Replays a log produced by ``all_ops`` in the very state it was produced in (no re-validation, no copies)."""
    replaying = True
    trusted = True

    def __init__(self, log):
        self.log = log
        self.pos = 0

    def _next(self, label):
        lab, val = self.log[self.pos]
        if lab != label:
            raise HarnessError(f'replay out of sync: wanted {label!r} found {lab!r}')
        self.pos += 1
        return val

    def choice(self, label, seq): return self._next(label)
    def int(self, label, lo, hi): return self._next(label)
    def bool(self, label, p=None): return self._next(label)


# ---------------------------------------------------------------------------
# the oracle: independent walk over all units and streams
# ---------------------------------------------------------------------------

def check_world(ctx, w, site, region):
    """Independent walk: every port of every unit, then every stream ever seen and every placeholder in a port."""
    units = w.units
    pos = ({}, {})          # side -> id(obj) -> (unit index, port index)
    phs = []
    for ui, u in enumerate(units):
        lay = LAYOUT[w.cls[ui]]
        for sd in (0, 1):
            L = list(u.ins if sd == 0 else u.outs)
            if lay[2 + sd] and len(L) != lay[sd]:
                ctx.fail(f'{site}|{region}|size-{SIDE[sd]}',
                         f'fixed-size {SIDE[sd]} of unit {ui} ({w.cls[ui]}) has {len(L)} ports, not {lay[sd]}')
            psd = pos[sd]
            for i, o in enumerate(L):
                t = type(o)
                if t is AS or (t is not MS and isinstance(o, AS)):
                    if not o:
                        ctx.fail(f'{site}|{region}|falsy-real', f'real stream at {ui}.{SIDE[sd]}[{i}] is falsy')
                elif t is MS or isinstance(o, MS):
                    if o:
                        ctx.fail(f'{site}|{region}|truthy-placeholder', f'placeholder at {ui}.{SIDE[sd]}[{i}] is truthy')
                    phs.append(o)
                else:
                    ctx.fail(f'{site}|{region}|bad-element-{SIDE[sd]}',
                             f'{ui}.{SIDE[sd]}[{i}] holds {type(o).__name__}, neither stream nor placeholder')
                k = id(o)
                if k in psd:
                    ctx.fail(f'{site}|{region}|two-{SIDE[sd]}-ports:{"ph" if isinstance(o, MS) else "real"}',
                             f'{_name(w, o)} occupies {SIDE[sd]} ports {psd[k]} and {(ui, i)}')
                psd[k] = (ui, i)
    pos0, pos1 = pos
    for group, kind in ((w.reals, 'real'), (phs, 'ph')):
        for o in group:
            k = id(o)
            for sd, psd, p in ((0, pos0, o.sink), (1, pos1, o.source)):
                where = psd.get(k)
                if where is None:
                    if p is not None:
                        word = ('sink', 'source')[sd]
                        ctx.fail(f'{site}|{region}|{word}-not-listed:{kind}',
                                 f'{_name(w, o)}.{word} is unit {w.uindex(p)} but the stream is not among its {SIDE[sd]}')
                elif p is not units[where[0]]:
                    word = ('sink', 'source')[sd]
                    ctx.fail(f'{site}|{region}|listed-not-{word}:{kind}',
                             f'{_name(w, o)} is listed at unit {where[0]}.{SIDE[sd]}[{where[1]}] but its {word} is '
                             f'{"None" if p is None else "unit %s" % w.uindex(p)}')


def _name(w, o):
    for k, s in enumerate(w.reals):
        if s is o: return f's{k}'
    for ui in range(len(w.units)):
        for sd in (0, 1):
            for i, x in enumerate(w.items(ui, sd)):
                if x is o: return f'placeholder@{ui}.{SIDE[sd]}[{i}]'
    return 'placeholder'


def state_key(w):
    """Complete canonical image of the mutable state (for BFS de-duplication)."""
    rid = {id(s): k for k, s in enumerate(w.reals)}
    phn = {}
    phs = []
    lists = []
    for ui in range(len(w.units)):
        for sd in (0, 1):
            row = []
            for o in w.items(ui, sd):
                if id(o) in rid:
                    row.append(rid[id(o)])
                else:
                    if id(o) not in phn:
                        phn[id(o)] = len(phn)
                        phs.append((w.uindex(o.source) if o.source is not None else -1,
                                    w.uindex(o.sink) if o.sink is not None else -1, type(o).__name__))
                    row.append(-1 - phn[id(o)])
            lists.append(tuple(row))
    reals = tuple((w.uindex(s.source) if s.source is not None else -1,
                   w.uindex(s.sink) if s.sink is not None else -1) for s in w.reals)
    return (tuple(w.cls), tuple(lists), tuple(phs), reals)


# ---------------------------------------------------------------------------
# universe construction
# ---------------------------------------------------------------------------

def build_unit(ctx, w, cname, ins_spec, outs_spec):
    """spec: 'none' | 'empty' | ['one', ref] | ['list', [refs]]"""
    def arg(spec):
        if spec == 'none': return None
        if spec == 'empty': return ()
        if spec[0] == 'one': return resolve(w, spec[1])
        return [resolve(w, r) for r in spec[1]]
    a, b = arg(ins_spec), arg(outs_spec)
    region = f'{cname},ins={ins_spec if isinstance(ins_spec, str) else ins_spec[0]},' \
             f'outs={outs_spec if isinstance(outs_spec, str) else outs_spec[0]}'
    u = ctx.call('construct', CLS[cname], None, a, b, _TH, region=region)
    w.units.append(u)
    w.cls.append(cname)
    w.discover()
    return region


def draw_port_spec(ch, w, cname, side):
    n, fx = LAYOUT[cname][side], LAYOUT[cname][2 + side]
    form = pick(ch, 'form', ['none', 'empty', 'one', 'list'])
    if form in ('none', 'empty'):
        return form
    cands = [['s', k] for k in range(len(w.reals))]
    if form == 'one':
        if not cands: return 'none'
        return ['one', pick(ch, 'x', cands)]
    k = ch.int('k', 0, n if fx else 3)
    xs = []
    for j in range(k):
        c = [r for r in cands if r not in xs] + [None]
        xs.append(pick(ch, 'x', c))
    return ['list', xs]


def small_universe(ctx, w, cfg):
    for k in range(5):
        w.add_real(AS(None, thermo=_TH))
    s = lambda k: ['s', k]
    if cfg == 'A':
        build_unit(ctx, w, 'Mix', 'none', 'none')
        build_unit(ctx, w, 'Split', 'none', 'none')
        build_unit(ctx, w, 'Var1', 'none', 'none')
    elif cfg == 'B':        # s0, s1 -> Mix -> s2 -> Split -> s3 -> Var ; s4 free
        build_unit(ctx, w, 'Mix', ['list', [s(0), s(1)]], ['list', [s(2)]])
        build_unit(ctx, w, 'Split', ['one', s(2)], ['list', [s(3)]])
        build_unit(ctx, w, 'Var1', ['list', [s(3)]], ['list', []])
    else:                   # C: Split -> s1, s2 -> Var -> s0 -> Split (a loop; the constructor steals s0 from Mix), s3 product
        build_unit(ctx, w, 'Mix', 'none', ['one', s(0)])
        build_unit(ctx, w, 'Split', ['list', [s(0)]], ['list', [s(1), s(2)]])
        build_unit(ctx, w, 'Var1', ['list', [s(1), s(2)]], ['list', [s(3), s(0)]])
    w.saved = [x.get_connection() for x in w.reals[:5]]


# ---------------------------------------------------------------------------
# candidates
# ---------------------------------------------------------------------------

def anonymous(w, k):
    """A real stream docked nowhere whose saved connection is docked nowhere: in the small universes all such
    streams are interchangeable, so only the lowest-numbered one is offered (symmetry reduction)."""
    s = w.reals[k]
    if s.source is not None or s.sink is not None: return False
    for c in w.saved:
        if c.stream is s and (c.source is not None or c.sink is not None): return False
    return True


def sym(w, P, refs):
    if not P['small']: return refs
    out = []; got = False
    for r in refs:
        if r is not None and r[0] == 's' and anonymous(w, r[1]):
            if got: continue
            got = True
        out.append(r)
    return out


def placeholders(w, P, ui, side, need_free_side=None):
    """References to placeholders sitting in lists other than (ui, side).  Small universes: one only - from the
    nearest following unit (cyclically), a list of the same side preferred."""
    ids = {id(o) for o in w.items(ui, side)}
    out = []; seen = set()
    n = len(w.units)
    if P['small']:
        order = [((ui + d) % n, sd) for sd in (side, 1 - side) for d in (list(range(1, n)) + [0])]
    else:
        order = [(vj, sd) for vj in range(n) for sd in (0, 1)]
    for vj, sd in order:
        if (vj, sd) == (ui, side): continue
        for i, o in enumerate(w.items(vj, sd)):
            if not is_ph(o) or id(o) in ids or id(o) in seen: continue
            if need_free_side is not None and ptr(o, need_free_side) is not None: continue
            seen.add(id(o))
            out.append(['p', vj, sd, i])
            if P['small']: return out
    return out


def assignable(w, ui, side, P, none=True, ph=True):
    """Streams that may be assigned into list (ui, side): anything not already in it."""
    ids = {id(o) for o in w.items(ui, side)}
    out = sym(w, P, [['s', k] for k, s in enumerate(w.reals) if id(s) not in ids])
    if none: out.append(None)
    if ph: out += placeholders(w, P, ui, side)
    return out


def appendable(w, ui, side, P):
    """Streams not docked on that side of any unit."""
    ids = {id(o) for o in w.items(ui, side)}
    out = sym(w, P, [['s', k] for k, s in enumerate(w.reals) if ptr(s, side) is None and id(s) not in ids])
    return out + placeholders(w, P, ui, side, need_free_side=side)


def var_lists(w):
    return [L for L in w.lists() if not w.fixed(*L)]


def nonempty_lists(w):
    return [L for L in w.lists() if len(w.lst(*L))]


def replace_lists(w, P):
    small = P['small']
    return [L for L in nonempty_lists(w) if assignable(w, L[0], L[1], P, none=not small, ph=not small)]


def insert_cands(w, P):
    """[unit, stream] pairs for unit.insert: the stream connects two units other than the inserted one."""
    out = []
    for ui, u in enumerate(w.units):
        for k, s in enumerate(w.reals):
            if s.source is not None and s.sink is not None and s.source is not u and s.sink is not u:
                out.append([ui, k])
    return out


def insert_options(w, ui, k):
    """Admissible [outlet, inlet] argument forms for units[ui].insert(reals[k], ...): no documented ValueError,
    nothing assigned into a list it is already in, no self-loop stream of the inserted unit involved."""
    u = w.units[ui]; s = w.reals[k]
    nin, nout, fin, fout = LAYOUT[w.cls[ui]]
    sink_ids = {id(o) for o in s.sink.ins}
    src_ids = {id(o) for o in s.source.outs}
    outs = w.items(ui, 1); ins = w.items(ui, 0)
    ok_out = lambda o: id(o) not in sink_ids and o.sink is not u
    ok_in = lambda o: id(o) not in src_ids and o.source is not u
    outlets = []
    if not fout:
        outlets.append('none')
    elif nout == 1 and ok_out(outs[0]):
        outlets.append('none')
    for j, o in enumerate(outs):
        if not ok_out(o): continue
        outlets.append(['i', j])
        if isinstance(o, AS): outlets.append(['s', j])
    res = []
    for ol in outlets:
        added = (ol == 'none' and not fout)
        inlets = []
        if fin or added:
            if nin == 1 and len(ins) >= 1 and ok_in(ins[0]):
                inlets.append('none')
        else:
            inlets.append('none')
        for j, o in enumerate(ins):
            if not ok_in(o): continue
            inlets.append(['i', j])
            if isinstance(o, AS): inlets.append(['s', j])
        for il in inlets:
            res.append([ol, il])
    return res


def insert_pairs(w, P):
    return [c for c in insert_cands(w, P) if insert_options(w, c[0], c[1])]


def fits(w, src_items, ui, side):
    """May the objects be assigned as the complete content of list (ui, side)?"""
    if w.fixed(ui, side) and len(src_items) > w.nominal(ui, side):
        return False
    ids = {id(o) for o in w.items(ui, side)}
    return not any(id(o) in ids for o in src_items)


def has_selfloop(w, ui):
    u = w.units[ui]
    return any(o.source is u for o in u.ins) or any(o.sink is u for o in u.outs)


def pipe_pairs(w):
    n = len(w.units)
    return [[a, b] for a in range(n) for b in range(n) if fits(w, w.items(a, 1), b, 0)]


def tp_pairs(w):
    """[a, b]: a.take_place_of(b) keeps within sizes and assigns nothing already listed."""
    n = len(w.units)
    return [[a, b] for a in range(n) for b in range(n)
            if a != b and fits(w, w.items(b, 0), a, 0) and fits(w, w.items(b, 1), a, 1)]


def rw_opts(w):
    """[a, b]: a.replace_with(b); b None = remove a from its line (not generated for self-loops)."""
    opts = [[b, a] for a, b in tp_pairs(w)]
    opts += [[a, None] for a in range(len(w.units)) if not has_selfloop(w, a)]
    return opts


def reconnect_ok(w, c):
    """The stream is absent from the target list or sits exactly at the saved index; the index exists."""
    for unit, idx, sd in ((c.source, c.source_index, 1), (c.sink, c.sink_index, 0)):
        if unit is None: continue
        L = list(unit.outs if sd else unit.ins)
        at = [i for i, o in enumerate(L) if o is c.stream]
        if at and at != [idx]: return False
        if idx is None or idx < 0: return False
        if w.fixed(w.uindex(unit), sd) and idx >= len(L): return False
    return True


def reconnectable(w):
    return [j for j, c in enumerate(w.saved) if reconnect_ok(w, c)]


def udisc_small_options(w, ui):
    """Small alphabet for unit.disconnect: everything, one side only, or one port/stream of one side."""
    ins, outs = w.items(ui, 0), w.items(ui, 1)
    nin = sum(1 for o in ins if o); nout = sum(1 for o in outs if o)
    A = lambda L: ['all', sum(1 for o in L if o)]
    E = ['ints', []]
    opts = [[A(ins), A(outs), False]]
    if nin == nout: opts.append([A(ins), A(outs), True])
    opts += [[A(ins), E, False], [E, A(outs), False]]
    for i, o in enumerate(ins):
        opts.append([['ints', [i]], E, False])
        if isinstance(o, AS): opts.append([['streams', [i]], E, False])
    for j, o in enumerate(outs):
        opts.append([E, ['ints', [j]], False])
        if isinstance(o, AS): opts.append([E, ['streams', [j]], False])
    for i, o in enumerate(ins):
        if not isinstance(o, AS): continue
        for j, q in enumerate(outs):
            if isinstance(q, AS): opts.append([['streams', [i]], ['streams', [j]], True])
        if nout == 1: opts.append([['streams', [i]], A(outs), True])
    return opts


# ---------------------------------------------------------------------------
# operation generator (shared by Hypothesis and by the exhaustive chooser)
# ---------------------------------------------------------------------------

def enabled_kinds(w, P):
    small = P['small']
    kinds = ['set', 'slice']
    if any(appendable(w, ui, sd, P) for ui, sd in var_lists(w)):
        kinds += ['append', 'insert', 'extend']
    if nonempty_lists(w):
        kinds += ['pop', 'remove']
        if replace_lists(w, P): kinds.append('replace')
    kinds += ['clear', 'empty', 'sdisc', 'udisc']
    if pipe_pairs(w): kinds.append('upipe')
    if tp_pairs(w): kinds.append('take_place_of')
    if rw_opts(w): kinds.append('replace_with')
    if insert_pairs(w, P): kinds += ['uinsert'] * (1 if small else 4)      # rarely enabled, so weighted when it is
    if reconnectable(w): kinds.append('reconnect')
    if not small:
        kinds.append('save')
        if len(w.units) < 8: kinds.append('construct')
    return kinds


def pick_op(ch, w, P):
    small = P['small']
    kind = pick(ch, 'op', lambda: enabled_kinds(w, P))
    if kind == 'set':
        ui, sd = pick(ch, 'L', w.lists)
        n = len(w.lst(ui, sd))
        i = ch.int('i', 0, n - 1 if w.fixed(ui, sd) else n)
        x = pick(ch, 'x', lambda: assignable(w, ui, sd, P))
        via = 'item'
        if not small and x is not None and x[0] == 's':
            via = pick(ch, 'via', ['item', 'pipe', 'pow'])
        if not small and i < n and ch.bool('negative'):
            i -= n                                   # the same port addressed from the end
        return ['set', ui, sd, i, x, via]
    if kind == 'slice':
        ui, sd = pick(ch, 'L', w.lists)
        n = len(w.lst(ui, sd))
        if small:
            a, b = 0, n
        else:
            a = ch.int('a', 0, n); b = ch.int('b', a, n)
            if ch.bool('full'): a, b = 0, n
        keep = n - (b - a)
        if w.fixed(ui, sd):
            kmax = w.nominal(ui, sd) - keep
            if not small and P['risky'] and ch.bool('grow'):
                kmax = w.nominal(ui, sd)
        else:
            kmax = 2 if small else 3
        k = ch.int('k', 0, max(0, kmax))
        xs = []
        for j in range(k):
            def cands():
                c = [r for r in assignable(w, ui, sd, P, ph=not small) if r is None or r not in xs]
                if small and xs:   # small alphabet: the second stream is the candidate following the first
                    full = assignable(w, ui, sd, P, ph=False)
                    j = full.index(xs[-1])
                    c = [full[(j + 1) % len(full)]] if len(full) > 1 else []
                return c
            if not cands(): break
            xs.append(pick(ch, 'x', cands))
        via = 'item'
        if not small and (a, b) == (0, n) and xs and all(r is not None and r[0] == 's' for r in xs):
            via = pick(ch, 'via', ['item', 'pipe'])
        return ['slice', ui, sd, a, b, xs, via]
    if kind in ('append', 'insert', 'extend'):
        ui, sd = pick(ch, 'L', lambda: [L for L in var_lists(w) if appendable(w, L[0], L[1], P)])
        if kind == 'append':
            return ['append', ui, sd, pick(ch, 'x', lambda: appendable(w, ui, sd, P))]
        if kind == 'insert':
            i = ch.int('i', 0, len(w.lst(ui, sd)))
            return ['insert', ui, sd, i, pick(ch, 'x', lambda: appendable(w, ui, sd, P))]
        k = ch.int('k', 1, 2 if small else 3)
        xs = []
        for j in range(k):
            def cands():
                c = [r for r in appendable(w, ui, sd, P) if r not in xs]
                if small and xs:
                    c = [r for r in c if r[0] == 's' and xs[-1][0] == 's' and r[1] > xs[-1][1]]
                return c
            if not cands(): break
            xs.append(pick(ch, 'x', cands))
        return ['extend', ui, sd, xs]
    if kind in ('pop', 'remove', 'replace'):
        ui, sd = pick(ch, 'L', lambda: replace_lists(w, P) if kind == 'replace' else nonempty_lists(w))
        i = ch.int('i', 0, len(w.lst(ui, sd)) - 1)
        if kind == 'replace':
            x = pick(ch, 'x', lambda: assignable(w, ui, sd, P, none=not small, ph=not small))
            return ['replace', ui, sd, i, x]
        return [kind, ui, sd, i]
    if kind in ('clear', 'empty'):
        ui, sd = pick(ch, 'L', w.lists)
        return [kind, ui, sd]
    if kind == 'sdisc':
        def refs():
            r = sym(w, P, [['s', k] for k in range(len(w.reals))])
            seen = set(); got = set()
            for vj, sd in w.lists():
                if small and sd in got: continue
                for i, o in enumerate(w.items(vj, sd)):
                    if is_ph(o) and id(o) not in seen:
                        seen.add(id(o)); r.append(['p', vj, sd, i])
                        if small:
                            got.add(sd); break
            return r
        x = pick(ch, 'x', refs)
        which = pick(ch, 'which', ['source', 'sink', 'both'])
        return ['sdisc', x, which]
    if kind == 'udisc':
        ui = ch.int('u', 0, len(w.units) - 1)
        if small:
            si, so, join = pick(ch, 'sel', lambda: udisc_small_options(w, ui))
            return ['udisc', ui, si, so, join]
        sel = []
        for sd in (0, 1):
            L = w.items(ui, sd)
            mode = pick(ch, 'mode', ['all', 'streams', 'ints'])
            if mode == 'all':
                sel.append(['all', sum(1 for o in L if o)]); continue
            idx = [i for i, o in enumerate(L) if (mode == 'ints' or isinstance(o, AS))]
            chosen = []
            for i in idx:
                if ch.bool('take'): chosen.append(i)
            sel.append([mode, chosen])
        count = [x[1] if x[0] == 'all' else len(x[1]) for x in sel]
        join = False
        if count[0] == count[1] and sel[0][0] != 'ints' and sel[1][0] != 'ints':
            join = ch.bool('join')
        return ['udisc', ui, sel[0], sel[1], join]
    if kind == 'upipe':
        a, b = pick(ch, 'pair', lambda: pipe_pairs(w))
        return ['upipe', a, b]
    if kind == 'take_place_of':
        return ['take_place_of'] + pick(ch, 'pair', lambda: tp_pairs(w))
    if kind == 'replace_with':
        return ['replace_with'] + pick(ch, 'pair', lambda: rw_opts(w))
    if kind == 'uinsert':
        ui, k = pick(ch, 'us', lambda: insert_pairs(w, P))
        ol, il = pick(ch, 'ports', lambda: insert_options(w, ui, k))
        return ['uinsert', ui, k, il, ol]
    if kind == 'reconnect':
        return ['reconnect', pick(ch, 'c', lambda: reconnectable(w))]
    if kind == 'save':
        k = ch.int('s', 0, len(w.reals) - 1)
        slot = ch.int('slot', 0, 3)
        return ['save', k, slot]
    if kind == 'construct':
        cname = pick(ch, 'cls', CLASS_NAMES)
        a = draw_port_spec(ch, w, cname, 0)
        b = draw_port_spec(ch, w, cname, 1)
        return ['construct', cname, a, b]
    raise HarnessError(kind)


# ---------------------------------------------------------------------------
# known trigger regions (avoided in non-risky histories so that sequences run to full length)
# ---------------------------------------------------------------------------

def known_region(w, op):
    """Name of the known-finding trigger region the operation falls in (None if none).  Operations in such a region
    are generated only in "risky" histories, which end there.  Former regions (pop on variable lists, clear on fixed
    lists, disconnect(outlets=[streams]), insert(inlet=<int>), insert into variable outs, growing slices) were
    repaired in the repository, so nothing is avoided any more."""
    return None


# ---------------------------------------------------------------------------
# applying an operation to the real objects
# ---------------------------------------------------------------------------

def lkind(w, ui, sd):
    return f'{SIDE[sd]},{"fixed" if w.fixed(ui, sd) else "var"}'


def occ(o):
    return 'real' if isinstance(o, AS) else 'ph'


def apply_op(ctx, w, op):
    """Returns (site, region).  Exceptions inside the quantified domain are violations."""
    k = op[0]
    if k == 'noop':
        return 'noop', 'any'
    if k == 'set':
        _, ui, sd, i, x, via = op
        L = w.lst(ui, sd); u = w.units[ui]; o = resolve(w, x)
        n = len(L)
        old = 'new' if i >= n else occ(L[i])
        if i < 0: ctx.cell('set:negative-index')
        region = f'{lkind(w, ui, sd)},arg={argcls(w, sd, x)},old={old}'
        ctx.cell('arg:' + argcls(w, sd, x)); ctx.cell('via:' + via)
        if via == 'item':
            def f(): L[i] = o
        elif via == 'pipe':
            if sd == 0 and o.source is not None:
                # fetch the stream through the getter forms u-j / [j]-u of its source, as in P1-0-1-M1
                src = o.source
                j = [k for k, q in enumerate(src.outs) if q is o][0]
                got = ctx.call('pipe-getter', lambda: src - j, region='u-j')
                got2 = ctx.call('pipe-getter', lambda: src - [j], region='u-[j]')
                if got is not o or got2 != [o]:
                    ctx.fail('pipe-getter|u-j|wrong-stream', f'unit - {j} did not return the stream at outs[{j}]')
                ctx.cell('via:getter')
            if sd == 0:
                def f(): o - i - u
            else:
                def f(): u - (i - o)
        else:
            if sd == 0:
                def f(): (o ** i) ** u
            else:
                def f(): u ** i ** o
        ctx.call('set', f, region=region)
        return 'set', region
    if k == 'slice':
        _, ui, sd, a, b, xs, via = op
        L = w.lst(ui, sd); u = w.units[ui]; objs = [resolve(w, r) for r in xs]
        n = len(L)
        new_len = n - (b - a) + len(xs)
        if w.fixed(ui, sd):
            fit = 'grow' if new_len > w.nominal(ui, sd) else ('pad' if new_len < w.nominal(ui, sd) else 'exact')
        else:
            fit = 'free'
        classes = sorted({argcls(w, sd, r) for r in xs})
        for c in classes: ctx.cell('arg:' + c)
        ctx.cell('via:' + via)
        region = f'{lkind(w, ui, sd)},span={"full" if (a, b) == (0, n) else "part"},fit={fit},' \
                 f'moved={int("moved" in classes)}'
        if via == 'item':
            def f(): L[a:b] = objs
        else:
            if sd == 0:
                if len(objs) == 1:
                    def f(): objs[0] - u
                else:
                    def f(): tuple(objs) - u
            else:
                if len(objs) == 1:
                    def f(): u - objs[0]
                else:
                    def f(): u - tuple(objs)
        if fit == 'grow':
            # more streams than the slice vacates but no more than the list holds: either the list keeps its size
            # (checked by the walk) or the call is rejected with the library's 'size exceeds' RuntimeError
            try:
                ctx.call('slice', f, region=region, allowed=(RuntimeError,))
            except RuntimeError:
                ctx.cell('slice:grow-rejected')
        else:
            ctx.call('slice', f, region=region)
        return 'slice', region
    if k in ('append', 'insert', 'extend'):
        ui, sd = op[1], op[2]
        L = w.lst(ui, sd)
        if k == 'append':
            o = resolve(w, op[3]); region = f'{lkind(w, ui, sd)},arg={occ(o)}'
            ctx.call(k, L.append, o, region=region)
        elif k == 'insert':
            o = resolve(w, op[4]); region = f'{lkind(w, ui, sd)},arg={occ(o)}'
            ctx.call(k, L.insert, op[3], o, region=region)
        else:
            objs = [resolve(w, r) for r in op[3]]
            region = f'{lkind(w, ui, sd)},n={len(objs)}'
            ctx.call(k, L.extend, objs, region=region)
        return k, region
    if k in ('pop', 'remove', 'replace'):
        ui, sd, i = op[1], op[2], op[3]
        L = w.lst(ui, sd); o = L[i]
        region = f'{lkind(w, ui, sd)},old={occ(o)}'
        if k == 'pop':
            ctx.call(k, L.pop, i, region=region)
        elif k == 'remove':
            ctx.call(k, L.remove, o, region=region)
        else:
            region += f',arg={argcls(w, sd, op[4])}'
            ctx.cell('arg:' + argcls(w, sd, op[4]))
            ctx.call(k, L.replace, o, resolve(w, op[4]), region=region)
        return k, region
    if k in ('clear', 'empty'):
        ui, sd = op[1], op[2]
        L = w.lst(ui, sd)
        region = f'{lkind(w, ui, sd)},real={int(any(isinstance(o, AS) for o in L))}'
        ctx.call(k, getattr(L, k), region=region)
        return k, region
    if k == 'sdisc':
        _, x, which = op
        o = resolve(w, x)
        region = f'{occ(o)},{which}'
        fn = {'source': 'disconnect_source', 'sink': 'disconnect_sink', 'both': 'disconnect'}[which]
        ctx.call('stream.disconnect', getattr(o, fn), region=region)
        return 'stream.disconnect', region
    if k == 'udisc':
        _, ui, si, so, join = op
        u = w.units[ui]
        def arg(sel, sd):
            if sel[0] == 'all': return None
            L = w.items(ui, sd)
            return [L[i] for i in sel[1]] if sel[0] == 'streams' else list(sel[1])
        region = f'inlets={si[0]},outlets={so[0]}{len(so[1]) if so[0] == "streams" else ""},join={int(join)}'
        ctx.call('unit.disconnect', u.disconnect, inlets=arg(si, 0), outlets=arg(so, 1), join_ends=join, region=region)
        return 'unit.disconnect', region
    if k == 'upipe':
        _, a, b = op
        ua, ub = w.units[a], w.units[b]
        region = f'{lkind(w, b, 0)},self={int(a == b)}'
        ctx.call('unit-unit', lambda: ua - ub, region=region)
        return 'unit-unit', region
    if k == 'take_place_of':
        _, a, b = op
        region = f'{w.cls[a]}<-{w.cls[b]}'
        ctx.call(k, w.units[a].take_place_of, w.units[b], region=region)
        return k, region
    if k == 'replace_with':
        _, a, b = op
        if b is None:
            region = f'{w.cls[a]}->none'
            ctx.call(k, w.units[a].replace_with, region=region)
        else:
            region = f'{w.cls[a]}->{w.cls[b]}'
            ctx.call(k, w.units[a].replace_with, w.units[b], region=region)
        return k, region
    if k == 'uinsert':
        _, ui, s, il, ol = op
        u = w.units[ui]; stream = w.reals[s]
        nin, nout, fin, fout = LAYOUT[w.cls[ui]]
        def arg(spec, sd):
            if spec == 'none': return None
            if spec[0] == 'i': return spec[1]
            return w.items(ui, sd)[spec[1]]
        tag = lambda spec: spec if spec == 'none' else {'i': 'int', 's': 'stream'}[spec[0]]
        region = (f'ins={"fixed" if fin else "var"}{nin},outs={"fixed" if fout else "var"}{nout},'
                  f'inlet={tag(il)},outlet={tag(ol)}')
        one = lambda k: '1' if k == 1 else 'N'
        ctx.cell(f'uinsert:ins={"fixed" if fin else "var"}{one(nin)},outs={"fixed" if fout else "var"}{one(nout)}:'
                 f'inlet={"none" if il == "none" else "given"},outlet={"none" if ol == "none" else "given"}')
        ctx.call('unit.insert', u.insert, stream, inlet=arg(il, 0), outlet=arg(ol, 1), region=region)
        return 'unit.insert', region
    if k == 'reconnect':
        c = w.saved[op[1]]
        region = f'source={int(c.source is not None)},sink={int(c.sink is not None)}'
        ctx.call('reconnect', c.reconnect, region=region)
        return 'reconnect', region
    if k == 'save':
        _, s, slot = op
        c = ctx.call('get_connection', w.reals[s].get_connection, region='any')
        if slot < len(w.saved): w.saved[slot] = c
        else: w.saved.append(c)
        return 'get_connection', 'any'
    if k == 'construct':
        _, cname, a, b = op
        region = build_unit(ctx, w, cname, a, b)
        return 'construct', region
    raise HarnessError(f'unknown op {op}')


# ---------------------------------------------------------------------------
# the history check
# ---------------------------------------------------------------------------

def run_history(ch, ctx):
    if _TH is None: setup(ctx)
    cfg = pick(ch, 'universe', ['R', 'R', 'R', 'A', 'B', 'C'])
    w = World()
    small = cfg != 'R'
    if small:
        small_universe(ctx, w, cfg)
        layout = cfg
    else:
        ns = ch.int('nstreams', 5, 10)
        for k in range(ns):
            w.add_real(AS(None, thermo=_TH))
        nu = ch.int('nunits', 3, 6)
        for j in range(nu):
            cname = pick(ch, 'cls', CLASS_NAMES)
            a = draw_port_spec(ch, w, cname, 0)
            b = draw_port_spec(ch, w, cname, 1)
            region = build_unit(ctx, w, cname, a, b)
            ctx.cell('op:construct')
            check_world(ctx, w, 'construct', region)
            w.track_moves()
        layout = list(w.cls)
    check_world(ctx, w, 'construct', 'initial')
    w.track_moves()
    risky = ch.bool('risky')
    w.P = {'small': small, 'risky': risky}
    w.layout = layout
    nsteps = ch.int('nsteps', 0, 50)
    for step in range(nsteps):
        do_step(ch, ctx, w, check=step >= getattr(ch, 'verified_steps', 0))
    finish(ctx, w)
    return w


def do_step(ch, ctx, w, check=True):
    """One operation: draw it from the operations enabled in the current state, apply, walk, book-keep."""
    P = w.P
    op = pick_op(ch, w, P)
    tag = known_region(w, op)
    if tag is not None and not P['risky']:
        for attempt in range(3):
            ctx.cell('avoided:' + tag)
            op = pick_op(ch, w, P)
            tag = known_region(w, op)
            if tag is None: break
        else:
            return
    ctx.cell('op:' + op[0])
    ucls = w.cls[op[1]] if len(op) > 1 and isinstance(op[1], int) and op[0] not in ('reconnect', 'save') else None
    site, region = apply_op(ctx, w, op)
    w.descr.append([op[0], ucls, region])
    w.discover()
    if check:      # (exhaustive engine: a prefix is checked when it is executed as a sequence of its own)
        check_world(ctx, w, site, region)
    w.track_moves()


def finish(ctx, w):
    if w.moved:
        ctx.nontriv([w.layout, w.descr])


def prop_history(ch, ctx):
    run_history(ch, ctx)


# ---------------------------------------------------------------------------
# exhaustive engine
# ---------------------------------------------------------------------------

class EnumChooser:
    """Follows a prefix of choice indices, then always takes the first alternative; records widths."""
    replaying = False

    def __init__(self, prefix, memo=None):
        self.prefix = prefix
        self.memo = memo
        self.widths = []
        self.log = []
        self.taken = []

    def _take(self, label, values):
        j = len(self.taken)
        i = self.prefix[j] if j < len(self.prefix) else 0
        self.widths.append(len(values))
        self.taken.append(i)
        v = values[i]
        self.log.append([label, v])
        return v

    def choice(self, label, seq):
        seq = list(seq)
        if not seq: raise HarnessError(f'empty choice for {label}')
        return self._take(label, seq)

    def int(self, label, lo, hi):
        return self._take(label, list(range(lo, hi + 1)))

    def bool(self, label, p=None):
        return self._take(label, [False, True])


def all_ops(w, P):
    """Every leaf of pick_op's choice tree in the current state, as log fragments."""
    leaves = []
    prefix = []
    memo = {}
    while True:
        ec = EnumChooser(prefix, memo)
        pick_op(ec, w, P)
        leaves.append(ec.log)
        taken, widths = ec.taken, ec.widths
        j = len(taken) - 1
        while j >= 0 and taken[j] + 1 >= widths[j]:
            j -= 1
        if j < 0:
            return leaves
        prefix = taken[:j] + [taken[j] + 1]


# The mutable state of the code under test, as listed in the property's anchors: the two port lists of every unit
# and the two pointers of every stream.  The exhaustive engine builds a state by replaying its sequence from scratch,
# snapshots these fields, and restores them after trying each operation (4x cheaper than re-running the prefix).
# Guards: the slot layout is asserted, the state key after restoring must equal the one before, every SPOT-th
# sequence is also re-run from scratch through the validating chooser and must reach the same state, and every
# failure is re-run from scratch by the runner before it is reported.
SPOT = 499
_SLOTS_OK = None


def _assert_slots():
    global _SLOTS_OK
    if _SLOTS_OK is None:
        ok = (set(AS.__slots__) == {'_ID', '_source', '_sink', '_thermo', 'port'}
              and set(MS.__slots__) == {'_source', '_sink'}
              and set(nw.StreamSequence.__slots__) == {'_size', '_streams', '_fixed_size'}
              and set(nw.AbstractInlets.__slots__) == {'_sink'} and set(nw.AbstractOutlets.__slots__) == {'_source'})
        if not ok:
            raise HarnessError('port lists / streams have state beyond (_streams, _source, _sink): snapshotting is unsafe')
        _SLOTS_OK = True


def snapshot(w):
    lists = [(seq, list(seq._streams)) for u in w.units for seq in (u._ins, u._outs)]
    objs = {id(s): s for s in w.reals}
    for _, L in lists:
        for o in L: objs[id(o)] = o
    ptrs = [(o, o._source, o._sink) for o in objs.values()]
    book = (len(w.reals), dict(w.last[0]), dict(w.last[1]), w.moved, len(w.descr), list(w.saved))
    return lists, ptrs, book


def restore(w, snap):
    lists, ptrs, (nreal, l0, l1, moved, ndescr, saved) = snap
    for seq, L in lists: seq._streams = list(L)
    for o, a, b in ptrs:
        o._source = a; o._sink = b
    if len(w.reals) != nreal:
        del w.reals[nreal:]
        w._ids = {id(x) for x in w.reals}
    w.last = [dict(l0), dict(l1)]; w.moved = moved
    del w.descr[ndescr:]
    w.saved = list(saved)


def prop_bfs(_, ctx):
    import os
    depth = 3 if ctx.tier == 'quick' else 4
    if os.environ.get('C18_BFS_DEPTH'): depth = int(os.environ['C18_BFS_DEPTH'])
    if _TH is None: setup(ctx)
    _assert_slots()
    from vlib.runner import canon
    done = getattr(ctx, 'exhaustive_done', None)
    if done is None:
        done = ctx.exhaustive_done = {}
    name_hist = 'history'
    saved_name = ctx.cur_name
    ctx.cur_name = name_hist          # non-trivial keys are those of the history check
    stats = ctx.per_prop.setdefault('bfs', {'evaluations': 0, 'rejected': 0, 'skipped_time': 0})

    def full_log(cfg, steps):
        log = [['universe', cfg], ['risky', True], ['nsteps', len(steps)]]
        for x in steps: log.extend(x)
        return log

    def record(v, log):
        kid = ctx.known_id(v.sig)
        if kid is not None:
            ctx.known_tally[kid] = ctx.known_tally.get(kid, 0) + 1
            return
        size = len(canon(log))
        old = ctx.failures.get(v.sig)
        if old is None or size < old['size']:
            ctx.failures[v.sig] = {'check': name_hist, 'case': log, 'msg': v.msg, 'size': size, 'sig': v.sig}

    def from_scratch(cfg, steps, validating=False):
        log = full_log(cfg, steps)
        ch = Chooser(None, [list(x) for x in log]) if validating else TrustedReplay(log)
        ch.verified_steps = len(steps)          # every prefix was checked when it was executed as a sequence
        return run_history(ch, ctx)

    plan = (('A', depth), ('B', min(depth, 3))) + ((('C', 3),) if depth >= 4 else ())
    for cfg, cfg_depth in plan:
        # Every shard walks the levels above the last one completely (cheap), so that the list of distinct states to
        # expand at the last level is the same everywhere; the last level - almost all of the work - is split by state
        # index (by operation index when there are fewer states than shards).  No state is expanded by two shards.
        ctx.cell(f'bfs:cfg={cfg}')
        nseq = nstates = nspot = nexec = 0
        seen = set()
        frontier = [[]]
        level = 0
        while frontier and level < cfg_depth:
            if not ctx.time_left():
                stats['skipped_time'] += 1
                break
            level += 1
            last = level == cfg_depth
            by_state = last and len(frontier) >= ctx.nshards
            nxt = []
            for si, steps in enumerate(frontier):
                mine = si % ctx.nshards == ctx.shard
                if by_state and not mine: continue
                try:
                    w = from_scratch(cfg, steps)
                except Violation as v:          # only possible while building the initial flowsheet
                    if ctx.shard == 0:
                        nseq += 1; ctx.evaluations += 1; stats['evaluations'] += 1
                    record(v, full_log(cfg, steps))
                    continue
                key0 = state_key(w)
                if level == 1:
                    seen.add(key0)
                leaves = all_ops(w, w.P)
                if level == 1 and ctx.shard == 0:
                    done[f'cfg{cfg}:root_ops'] = len(leaves)
                if mine: nstates += 1
                snap = snapshot(w)
                for li, leaf in enumerate(leaves):
                    if last and not by_state:
                        owned = li % ctx.nshards == ctx.shard
                        if not owned: continue
                    else:
                        owned = mine
                    nexec += 1
                    if owned:
                        nseq += 1; ctx.evaluations += 1; stats['evaluations'] += 1
                    try:
                        do_step(TrustedReplay(leaf), ctx, w)
                        finish(ctx, w)
                    except Violation as v:
                        record(v, full_log(cfg, steps + [leaf]))
                        restore(w, snap)
                        continue
                    spot = nexec % SPOT == 0
                    if spot or not last:
                        key = state_key(w)
                        if spot:
                            nspot += 1
                            w2 = from_scratch(cfg, steps + [leaf], validating=True)
                            if state_key(w2) != key:
                                raise HarnessError('snapshot/restore execution diverged from the from-scratch replay of '
                                                   f'{full_log(cfg, steps + [leaf])}')
                        if not last and key not in seen:
                            seen.add(key)
                            nxt.append(steps + [leaf])
                    if last and (len(ctx.samples) < 2 or (len(ctx.samples) < 4 and nexec % 9973 == 0)):
                        ctx.samples.append({'check': name_hist, 'case': full_log(cfg, steps + [leaf])})
                    restore(w, snap)
                if state_key(w) != key0:
                    raise HarnessError('state not restored after expanding ' + str(full_log(cfg, steps)))
            frontier = nxt
        for k, v in ((f'cfg{cfg}:sequences_executed', nseq), (f'cfg{cfg}:states_expanded', nstates),
                     (f'cfg{cfg}:spot_checked_from_scratch', nspot)):
            done[k] = done.get(k, 0) + v
        ctx.cell(f'bfs:cfg={cfg},depth={cfg_depth}')
    ctx.cur_name = saved_name


PROPS = {
    'history': (prop_history, 4000, 60000),
    'bfs': (prop_bfs, 3, 4, {'exhaustive': True}),
}
WALL = {'quick': 540, 'thorough': 3300}
