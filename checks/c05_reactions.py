"""C05 - reactions conserve mass and atoms and convert exactly X of the reactant."""
from __future__ import annotations

from fractions import Fraction

import numpy as np
import thermosteam as tmo
from thermosteam.exceptions import InfeasibleRegion

from vlib import c05_rxn as rx
from vlib.runner import HarnessError

PROPERTY = 'C05'
RULE = ('Hypothesis draws a property package (five orders/subsets of 15 CHO(N) chemicals), a subset of 2-6 chemicals, '
        'an integer combination of the exact rational null-space basis of the hard-coded formula matrix on that subset '
        'divided by a small integer (so the stoichiometry is balanced in exact arithmetic and has fractional '
        'coefficients), any participant as reactant, X in [0,1] incl. 0 and 1, the definition form (dict / string '
        'printed from the grammar with repr floats / nested list with phases=), the basis route (mol, wt by '
        'copy(basis), wt from weight coefficients, wt by the basis setter, mol from a wt definition), phase-less or '
        'phase-tagged (1-3 of s/l/g/S/L), 1-4 reactions as Reaction / ParallelReaction / SeriesReaction / nested '
        'ReactionSystem, a feed (entries 0 or 10**u, u in [-3,3], optionally with ample co-reactants) and a target '
        '(ndarray, SparseVector/SparseArray, Stream/MultiStream on the same or another package, the stream\'s own mol '
        'data, its mass view). Oracle: NumPy reference of the reaction semantics built from the exact fractions; '
        'result flows, element totals (hard-coded atom table), total mass and Stream.F_mass; InfeasibleRegion two-way. '
        'Non-trivial: the call returned, X>0, reactant present and >=2 species changed. Distinct by (kind, forms, '
        'bases, phases, participants, reactant, X class, target, packages, feed zero pattern).')
ASSUMPTIONS = [
    'only stoichiometries balanced in exact rational arithmetic are generated',
    'phase-less reactions are applied to single-phase streams / 1-d arrays, phase-tagged ones to MultiStreams with '
    'exactly the reaction phases / 2-d arrays (documented usage)',
    'cross-package streams: every chemical with non-zero flow before or after the reaction exists in both packages',
    'arrays are reacted in the basis of the reaction (documented: "regardless of what basis they are associated with")',
    'flows are finite and non-negative; conversions in [0,1]',
    'Reaction(definition) accepts dict or str (documented); lists are only passed together with phases= (the one array route '
    'the constructor can reach)',
]
REQUIRED_CELLS = {
    'quick': ['single:tgt=nd', 'single:tgt=sv', 'single:tgt=S', 'single:tgt=mol', 'single:tgt=mass', 'single:xpkg',
              'single:ph=1', 'single:ph=0', 'single:form=dict', 'single:form=str', 'single:form=list',
              'single:basis=mol', 'single:basis=wt_copy', 'single:basis=wt_coeff', 'single:basis=wt_setter',
              'single:basis=mol_from_wt', 'single:derive=copy_other', 'single:derive=copy_then_setter',
              'single:derive=setter_roundtrip', 'sets:derive=copy_other', 'sets:derive=members_copy_other', 'sets:slice-not-prefix', 'single:twice,xpkg,wt', 'sets:twice', 'sets:editX', 'sets:ints', 'balance:op=correct_atomic_constants', 'sets:rebase=member_setter(rejected)', 'sets:rebase=source_setter', 'entry:failed-call', 'entry:force-ok', 'sets:kind=par', 'sets:kind=ser', 'sets:kind=sys', 'sets:xpkg',
              'sets:ph=1', 'sets:basis=wt', 'outcome:InfeasibleRegion', 'outcome:returned',
              'parser:ph=0', 'parser:ph=1'],
    'thorough': [],
}

TOL = 1e-12


def _zero_pattern(a):
    return (np.atleast_2d(a) != 0).astype(int).tolist()


def _expect_fields(ctx, rxn, spec, pnames, basis, MW, phases, region):
    """The constructed object must describe the drawn reaction (independent of any later call)."""
    nu, idx = rx.ref_stoich(spec, pnames, basis, MW, phases)
    got = np.array(rxn.stoichiometry.to_array(), float)
    if got.shape != nu.shape:
        ctx.fail(f'build.stoichiometry|{region}|shape', f'{got.shape} vs {nu.shape}')
    sc = max(1.0, float(np.abs(nu).max()))
    err = float(np.abs(got - nu).max())
    if not err <= 1e-12 * sc:
        ctx.fail(f'build.stoichiometry|{region}|mismatch',
                 f'stoichiometry {got.tolist()} differs from the normalised definition {nu.tolist()}')
    ctx.metric_max('stoichiometry:rel_err', err / sc)
    want_r = (spec.phase_of[spec.reactant], spec.reactant) if phases else spec.reactant
    if rxn.reactant != want_r:
        ctx.fail(f'build.reactant|{region}|mismatch', f'{rxn.reactant!r} != {want_r!r}')
    if rxn.X != spec.X or rxn.basis != basis or tuple(rxn.phases) != tuple(phases):
        ctx.fail(f'build.fields|{region}|mismatch', f'X={rxn.X!r} basis={rxn.basis!r} phases={rxn.phases!r}')


def _draw_target(ch, two_d):
    return ch.choice('target', list(rx.TARGETS_2D if two_d else rx.TARGETS_1D))


def _draw_q(ch, pid, participants, tgt):
    """Stream package: the reaction package or another one listing every participant."""
    if tgt != 'S' or not ch.bool('xpkg'):
        return pid
    cands = [q for q in rx.PACKAGES if q != pid and all(p in rx.PACKAGES[q] for p in participants)]
    if not cands:
        return pid
    return ch.choice('stream.pkg', cands)


def _restrict(feed, pnames, qnames):
    """Zero the feed entries of chemicals the stream package does not list (stated precondition)."""
    feed = feed.copy()
    for j, nm in enumerate(pnames):
        if nm not in qnames:
            feed[..., j] = 0.0
    return feed


# ---------------------------------------------------------------------------
def prop_single(ch, ctx):
    pid = ch.choice('pkg', list(rx.PACKAGES))
    pnames = list(rx.PACKAGES[pid])
    MW = rx.mw(pid)
    nu = rx.draw_stoich(ch, 'r', pnames)
    if not rx.is_balanced(nu):
        raise HarnessError('generator produced an unbalanced stoichiometry')
    reactant = ch.choice('reactant', list(nu))
    X = rx.draw_X(ch, 'r')
    tagged = ch.bool('phase_tagged')
    phases = ()
    pm = None
    pass_phases = False
    if tagged:
        full, pm = rx.draw_phase_map(ch, 'pm', list(nu))
        pass_phases = ch.bool('pass_phases')
        phases = tuple(full) if pass_phases else tuple(sorted(set(pm.values())))
    spec = rx.RSpec(nu, reactant, X, pm)
    spec.x_as_int = X == int(X) and ch.bool('r.X.as_int')      # whole-number conversions also as Python ints
    form = ch.choice('form', ['dict', 'str', 'list'] if tagged else ['dict', 'str'])
    if form == 'list':
        pass_phases = True
        phases = tuple(full)
    basis_mode = ch.choice('basis_mode', list(rx.BASIS_MODES))
    tgt = _draw_target(ch, tagged)
    qid = _draw_q(ch, pid, list(nu), tgt)
    xpkg = qid != pid
    region_b = f'form={form},basis={basis_mode},ph={int(tagged)}'
    ctx.cell(f'single:form={form}'); ctx.cell(f'single:basis={basis_mode}'); ctx.cell(f'single:ph={int(tagged)}')
    ctx.cell(f'single:tgt={tgt}')
    if xpkg: ctx.cell('single:xpkg')
    tmo.settings.set_thermo(rx.thermo(qid))
    rxn, basis = rx.build_reaction(ch, 'r', spec, pid, form, basis_mode, phases, pass_phases, ctx,
                                   site='build', region=region_b)
    _expect_fields(ctx, rxn, spec, pnames, basis, MW, phases, region_b)
    ref = rx.ref_of(spec, pnames, basis, MW, phases)
    feed = rx.draw_feed(ch, 'feed', len(pnames), len(phases) if tagged else 1)
    feed = _restrict(feed, pnames, rx.PACKAGES[qid])
    if not tagged:
        feed = feed[0]
    ample = ch.bool('ample')
    if ample:
        feed = rx.make_ample(feed, ref if basis == 'mol' else rx.ref_of(spec, pnames, 'mol', MW, phases))
    sphase = ch.choice('stream.phase', list(rx.PHASES)) if not tagged else None
    # Multi-step: derive the counterpart on the other (or the same) basis FROM the reaction, then apply both the
    # counterpart and the original to copies of the same feed (either order): "both bases give the same result on
    # a stream" also requires the original to be still right after its counterpart was derived from it.
    other = 'wt' if basis == 'mol' else 'mol'
    derive = ch.choice('derive', ['none', 'copy_other', 'copy_other', 'copy_same', 'copy_plain', 'copy_then_setter',
                                  'copy_roundtrip', 'coefficients', 'setter_roundtrip'])
    suffix = '' if derive == 'none' else f',after={derive}'
    region = f'kind=R,basis={basis},ph={int(tagged)},tgt={tgt},xpkg={int(xpkg)}' + suffix
    steps = [('react', rxn, ref, basis)]
    if derive != 'none':
        ctx.cell(f'single:derive={derive}')
        rd = f'derive={derive},basis={basis},ph={int(tagged)}'
        cp, cb = None, other
        if derive == 'copy_other':
            cp = ctx.call('derive', rxn.copy, other, region=rd)
        elif derive == 'copy_same':
            cp, cb = ctx.call('derive', rxn.copy, basis, region=rd), basis
        elif derive == 'copy_plain':
            cp, cb = ctx.call('derive', rxn.copy, region=rd), basis
        elif derive == 'copy_then_setter':
            cp = ctx.call('derive', rxn.copy, region=rd)
            def _set():
                cp.basis = other
            ctx.call('derive', _set, region=rd)
        elif derive == 'copy_roundtrip':
            mid = ctx.call('derive', rxn.copy, other, region=rd)
            cp, cb = ctx.call('derive', mid.copy, basis, region=rd), basis
        elif derive == 'coefficients':
            cp, cb = rx.build_reaction(ch, 'rc', spec, pid, 'dict', 'wt_coeff' if other == 'wt' else 'mol', phases, True,
                                       ctx, site='derive', region=rd)
        if cp is not None:
            if cp is rxn:
                ctx.fail(f'derive|{rd}|same-object', 'copy returned the reaction itself')
            _expect_fields(ctx, cp, spec, pnames, cb, MW, phases, rd)
            cstep = ('react.counterpart', cp, rx.ref_of(spec, pnames, cb, MW, phases), cb)
            steps = [cstep, steps[0]] if ch.bool('derive.original_last') else [steps[0], cstep]
    out = None
    repeat = 2 if ch.bool('twice') else 1          # the same target reacted twice
    touch = ch.bool('touch_mass')                  # the stream's mass view is read before the call
    if repeat == 2: ctx.cell('single:twice')
    if repeat == 2 and xpkg and basis == 'wt' and tgt == 'S': ctx.cell('single:twice,xpkg,wt')
    for site, obj, rf, bs in steps:
        reg = f'kind=R,basis={bs},ph={int(tagged)},tgt={tgt},xpkg={int(xpkg)}' + suffix
        o = rx.apply_and_judge(ctx, site, reg, obj, rf, bs, pid, feed, tgt, phases, qid,
                               stream_phase=sphase or 'l', rtol=TOL, repeat=repeat, touch_mass=touch)
        if obj is rxn:
            out = o
    if derive == 'setter_roundtrip':
        # the original itself visits the other basis and comes back: right in both
        def _to(b):
            rxn.basis = b
        ctx.call('derive', _to, other, region=f'derive={derive},basis={basis},ph={int(tagged)}')
        rx.apply_and_judge(ctx, 'react.rebased', f'kind=R,basis={other},ph={int(tagged)},tgt={tgt},xpkg={int(xpkg)}' + suffix,
                           rxn, rx.ref_of(spec, pnames, other, MW, phases), other, pid, feed, tgt, phases, qid,
                           stream_phase=sphase or 'l', rtol=TOL)
        ctx.call('derive', _to, basis, region=f'derive={derive},basis={basis},ph={int(tagged)}')
        rx.apply_and_judge(ctx, 'react', region, rxn, ref, basis, pid, feed, tgt, phases, qid,
                           stream_phase=sphase or 'l', rtol=TOL)
    # the reaction object itself is not changed by being applied or by having counterparts derived from it
    _expect_unchanged = np.array(rxn.stoichiometry.to_array(), float)
    nu_ref, _ = rx.ref_stoich(spec, pnames, basis, MW, phases)
    if not np.abs(_expect_unchanged - nu_ref).max() <= 1e-12 * max(1.0, np.abs(nu_ref).max()) or rxn.X != X \
            or rxn.basis != basis:
        ctx.fail(f'react|{region}|reaction-modified', 'applying the reaction / deriving its counterpart changed its stoichiometry, X or basis')
    if not out['raised']:
        changed = int((np.abs(out['cmp_out'] - out['cmp_in']) > 0).sum())
        if X > 0 and np.atleast_2d(feed)[ref.idx if tagged else (0, ref.idx)] > 0 and changed >= 2:
            ctx.nontriv(['single', pid, qid, form, basis_mode, derive, list(phases), spec.summary(), tgt, sphase,
                         _zero_pattern(feed)])


# ---------------------------------------------------------------------------
def _draw_structure(ch, n):
    """Composition of a ReactionSystem: groups of 1-2 reactions, each a Reaction / Parallel / Series."""
    groups = []
    left = n
    g = 0
    while left > 0:
        size = 1 if left == 1 else ch.int(f'sys.g{g}.size', 1, 2)
        kind = ch.choice(f'sys.g{g}.kind', ['rxn', 'par', 'ser'] if size == 1 else ['par', 'ser'])
        groups.append((kind, size))
        left -= size
        g += 1
    return groups


def prop_sets(ch, ctx):
    pid = ch.choice('pkg', list(rx.PACKAGES))
    pnames = list(rx.PACKAGES[pid])
    MW = rx.mw(pid)
    kind = ch.choice('kind', ['par', 'ser', 'sys'])
    n = ch.int('n', 1, 4)
    tagged = ch.bool('phase_tagged')
    set_basis = ch.choice('set.basis', ['mol', 'wt'])
    set_copy_wt = set_basis == 'wt' and kind != 'sys' and ch.bool('set.copy_wt')
    phases = ()
    pm_all = None
    if tagged:
        full, pm_all = rx.draw_phase_map(ch, 'pm', pnames)
        phases = tuple(full)
    specs, rxns, refs = [], [], []
    ints = ch.bool('ints')
    if ints: ctx.cell('sets:ints')
    region_b = f'set,basis={set_basis},ph={int(tagged)}'
    tmo.settings.set_thermo(rx.thermo(pid))
    for i in range(n):
        nu = rx.draw_stoich(ch, f'r{i}', pnames, kmax=5)
        reactant = ch.choice(f'r{i}.reactant', list(nu))
        if ints:
            X = ch.choice(f'r{i}.X.int', [1, 0, 1])       # every member created with a whole-number Python int
        else:
            X = rx.draw_X(ch, f'r{i}')
        spec = rx.RSpec(nu, reactant, X, {k: pm_all[k] for k in nu} if tagged else None)
        spec.x_as_int = ints or (X == int(X) and ch.bool(f'r{i}.X.as_int'))
        form = ch.choice(f'r{i}.form', ['dict', 'str', 'list'] if tagged else ['dict', 'str'])
        if set_basis == 'mol' or set_copy_wt:
            mode = ch.choice(f'r{i}.mode', ['mol', 'mol', 'mol_from_wt'])
        else:
            mode = ch.choice(f'r{i}.mode', ['wt_copy', 'wt_coeff', 'wt_setter'])
        r, b = rx.build_reaction(ch, f'r{i}', spec, pid, form, mode, phases, True, ctx, site='build', region=region_b)
        specs.append(spec); rxns.append(r)
        refs.append(rx.ref_of(spec, pnames, set_basis, MW, phases))
    groups = None
    members = None
    if kind == 'par':
        obj = ctx.call('build.par', tmo.ParallelReaction, rxns, region=region_b)
        ref = rx.RefRxn('par', refs)
        struct = ['par', n]
    elif kind == 'ser':
        obj = ctx.call('build.ser', tmo.SeriesReaction, rxns, region=region_b)
        ref = rx.RefRxn('ser', refs)
        struct = ['ser', n]
    else:
        groups = _draw_structure(ch, n)
        members, rmembers = [], []
        k = 0
        for gk, size in groups:
            rs, fs = rxns[k:k + size], refs[k:k + size]
            k += size
            if gk == 'rxn':
                members.append(rs[0]); rmembers.append(fs[0])
            elif gk == 'par':
                members.append(ctx.call('build.par', tmo.ParallelReaction, rs, region=region_b))
                rmembers.append(rx.RefRxn('par', fs))
            else:
                members.append(ctx.call('build.ser', tmo.SeriesReaction, rs, region=region_b))
                rmembers.append(rx.RefRxn('ser', fs))
        obj = ctx.call('build.sys', tmo.ReactionSystem, *members, region=region_b)
        ref = rx.RefRxn('sys', rmembers)
        struct = ['sys', [list(g) for g in groups]]
    if set_copy_wt:
        obj = ctx.call('build.set.copy_wt', lambda: obj.copy(basis='wt'), region=region_b)
    # sliced sets (every slice form: prefixes, suffixes, steps, reversed) are reaction objects of their own
    sliced = 'none'
    if kind in ('par', 'ser'):
        sliced = ch.choice('slice', ['none', 'none', 'drawn', 'drawn', 'suffix', 'step2', 'reversed'])
        if sliced != 'none':
            if sliced == 'drawn':
                a0 = ch.choice('slice.start', [None] + list(range(-n, n)))
                a1 = ch.choice('slice.stop', [None] + list(range(-n, n + 1)))
                a2 = ch.choice('slice.step', [None, 1, 2, 3, -1, -2])
                sl = slice(a0, a1, a2)
            elif sliced == 'suffix':
                sl = slice(ch.int('slice.from', 0, n - 1), None)
            elif sliced == 'step2':
                sl = slice(ch.int('slice.from', 0, min(1, n - 1)), None, 2)
            else:
                sl = slice(None, None, -1)
            sel = list(range(n))[sl]
            if not sel:
                sl = slice(None); sel = list(range(n)); sliced = 'full'
            parent = obj
            obj = ctx.call('slice', lambda: parent[sl], region=region_b)
            if type(obj) is not type(parent) or len(obj.X) != len(sel):
                ctx.fail(f'slice|{region_b}|type', f'{type(obj).__name__} with {len(obj.X)} reactions for {len(sel)} selected')
            specs = [specs[k] for k in sel]
            refs = [refs[k] for k in sel]
            rxns = [rxns[k] for k in sel]
            ref = rx.RefRxn(kind, refs)
            struct = [kind, n, [sl.start, sl.stop, sl.step]]
            n = len(sel)
            ctx.cell(f'sets:slice={sliced}')
            if sel != list(range(len(sel))):
                ctx.cell('sets:slice-not-prefix')
    ctx.cell(f'sets:kind={kind}'); ctx.cell(f'sets:ph={int(tagged)}'); ctx.cell(f'sets:basis={set_basis}')
    ctx.cell(f'sets:n={n}')
    if obj._basis != set_basis:
        ctx.fail(f'build.fields|{region_b}|mismatch', f'basis {obj._basis!r}')
    participants = sorted({p for s in specs for p in s.nu})
    tgt = _draw_target(ch, tagged)
    qid = _draw_q(ch, pid, participants, tgt)
    xpkg = qid != pid
    if xpkg: ctx.cell('sets:xpkg')
    ctx.cell(f'sets:tgt={tgt}')
    feed = rx.draw_feed(ch, 'feed', len(pnames), len(phases) if tagged else 1)
    feed = _restrict(feed, pnames, rx.PACKAGES[qid])
    if not tagged:
        feed = feed[0]
    if ch.bool('ample'):
        refs_mol = [rx.ref_of(s, pnames, 'mol', MW, phases) for s in specs]
        feed = rx.make_ample(feed, rx.RefRxn('par', refs_mol))
    sphase = ch.choice('stream.phase', list(rx.PHASES)) if not tagged else None
    kk = {'par': 'P', 'ser': 'S', 'sys': 'Y'}[kind]
    tmo.settings.set_thermo(rx.thermo(qid))
    # Multi-step (see prop_single): derive a counterpart of the whole set / of every member, then apply the
    # counterpart and the original to copies of the same feed in either order.
    other = 'wt' if set_basis == 'mol' else 'mol'
    # Multi-step: re-base a MEMBER after the set / system was constructed (both directions), then apply.  Whenever a
    # later call returns normally it must still conserve mass and atoms: either the re-basing / the call is rejected
    # for the documented reason, or the result equals the reference of the reactions the object was built from.
    rebase = ch.choice('rebase', ['none', 'none', 'none', 'member_setter', 'member_setter', 'source_setter',
                                  'source_roundtrip', 'item_setter'])
    rtag = ''
    if rebase != 'none':
        k = ch.int('rebase.k', 0, n - 1)
        rrg = f'rebase={rebase},kind={kk},basis={set_basis},ph={int(tagged)}'
        def set_basis_of(r, b):
            r.basis = b
        plain_member = None
        if kind == 'sys':
            # position of reaction k in the system: a plain Reaction member or a source of a set member
            pos, m_idx = 0, None
            for gi, (gk, size) in enumerate(groups):
                if pos <= k < pos + size:
                    m_idx = gi; break
                pos += size
            if groups[m_idx][0] == 'rxn':
                plain_member = members[m_idx]
        if plain_member is not None and rebase in ('source_setter', 'item_setter'):
            rebase = 'member_setter'          # the source reaction IS the member of the system
        if rebase == 'item_setter':
            if kind == 'sys':
                rebase = 'member_setter'
            else:
                try:
                    ctx.call('rebase.item', set_basis_of, obj[k], other, allowed=(TypeError,), region=rrg)
                except TypeError:
                    ctx.cell('sets:rebase=item_setter(rejected)')
                else:
                    ctx.fail(f'rebase.item|{rrg}|accepted', 'the basis of an item was changed (documented TypeError)')
        rrg = f'rebase={rebase if not (rebase == "member_setter" and plain_member is None) else "source_setter"},kind={kk},basis={set_basis},ph={int(tagged)}'
        if rebase == 'member_setter':
            if plain_member is None:
                rebase = 'source_setter'          # sets do not expose re-basable members: re-base the source reaction
            else:
                # a ReactionSystem refers to its members: with one member on another basis the call must be rejected
                ctx.call('rebase.member', set_basis_of, plain_member, other, region=rrg)
                feed0 = np.ones((len(phases), len(pnames))) if tagged else np.ones(len(pnames))
                try:
                    ctx.call('react.rebased-member', obj, feed0, allowed=(RuntimeError, InfeasibleRegion), region=rrg)
                except RuntimeError:
                    ctx.cell('sets:rebase=member_setter(rejected)')
                except InfeasibleRegion:
                    ctx.fail(f'react.rebased-member|{rrg}|accepted-mixed-basis',
                             'a system with a member on another basis was evaluated (InfeasibleRegion) instead of being rejected')
                else:
                    ctx.fail(f'react.rebased-member|{rrg}|accepted-mixed-basis',
                             f'a system with a member on another basis returned normally: {feed0.tolist()}')
                ctx.call('rebase.member', set_basis_of, plain_member, set_basis, region=rrg)   # and back: must work again
        if rebase in ('source_setter', 'source_roundtrip'):
            # the reaction object the set was built FROM is re-based afterwards; the set (a snapshot of stoichiometry
            # and conversions by its own documentation: "contains all reactions and conversions as an array") must still
            # act like the reactions it was built from
            ctx.call('rebase.source', set_basis_of, rxns[k], other, region=rrg)
            if rebase == 'source_roundtrip':
                ctx.call('rebase.source', set_basis_of, rxns[k], set_basis, region=rrg)
            ctx.cell(f'sets:rebase={rebase}')
        rtag = f',rebase={rebase}'
    derive = ch.choice('derive', ['none', 'copy_other', 'copy_other', 'copy_same', 'members_copy_other',
                                  'members_copy_other', 'members_roundtrip'])
    suffix = ('' if derive == 'none' else f',after={derive}') + rtag
    region = f'kind={kk},basis={set_basis},ph={int(tagged)},tgt={tgt},xpkg={int(xpkg)}' + suffix

    def ref_tree(b):
        fs = [rx.ref_of(sp, pnames, b, MW, phases) for sp in specs]
        if kind in ('par', 'ser'):
            return rx.RefRxn(kind, fs)
        mem, k = [], 0
        for gk, size in groups:
            part = fs[k:k + size]; k += size
            mem.append(part[0] if gk == 'rxn' else rx.RefRxn(gk, part))
        return rx.RefRxn('sys', mem)

    # Multi-step: the conversions are edited after construction (through an item, the set's X setter, the system's X
    # setter or a member) and the object is applied afterwards: it must convert exactly the NEW X of each reactant.
    editX = ch.choice('editX', ['none', 'none', 'item', 'set', 'system', 'member'])
    if editX != 'none':
        newx = [rx.draw_X(ch, f'newX{i}', specials=(0.25, None, None, 0.5, 0.0, 1.0)) for i in range(n)]
        as_array = ch.bool('editX.array')
        rge = f'editX={editX},kind={kk},basis={set_basis},ph={int(tagged)},ints={int(ints)}'
        def assign(o, v):
            o.X = v
        if kind in ('par', 'ser'):
            if editX in ('item', 'member'):
                for i in range(n):
                    ctx.call('editX.item', assign, obj[i], newx[i], region=rge)
            else:
                ctx.call('editX.set', assign, obj, np.array(newx) if as_array else list(newx), region=rge)
        else:
            nested, pos = [], 0
            for gk, size in groups:
                part = newx[pos:pos + size]; pos += size
                nested.append(part[0] if gk == 'rxn' else (np.array(part) if as_array else list(part)))
            if editX in ('system', 'set'):
                ctx.call('editX.system', assign, obj, nested, region=rge)
            else:
                for m, v, (gk, size) in zip(members, nested, groups):
                    if gk == 'rxn' or editX == 'member':
                        ctx.call('editX.member', assign, m, v, region=rge)
                    else:
                        for j in range(size):
                            ctx.call('editX.item', assign, m[j], v[j], region=rge)
        for sp, v in zip(specs, newx):
            sp.X = float(v)
        got_x = [float(v) for it in (obj if kind != 'sys' else [r_ for m in members for r_ in ([m] if isinstance(m, tmo.Reaction) else list(m))]) for v in [it.X]]
        if got_x != [float(v) for v in newx]:
            ctx.fail(f'editX|{rge}|X', f'conversions read back {got_x} after assigning {newx}')
        ref = ref_tree(set_basis)
        ctx.cell('sets:editX')
        suffix += f',editX={editX}'
        region += f',editX={editX}'
    steps = [('react', obj, ref, set_basis)]
    if derive != 'none':
        ctx.cell(f'sets:derive={derive}')
        rd = f'derive={derive},kind={kk},basis={set_basis},ph={int(tagged)}'
        cb = set_basis if derive in ('copy_same', 'members_roundtrip') else other
        def member_copy(m, b):
            if derive == 'members_roundtrip':
                return m.copy(other).copy(b)
            return m.copy(b)
        if kind == 'sys':
            # a ReactionSystem has no copy(): its counterpart is the system of its members' counterparts
            cp = ctx.call('derive', lambda: tmo.ReactionSystem(*[member_copy(m, cb) for m in members]), region=rd)
        elif derive.startswith('members'):
            # counterparts of the items (ReactionItem.copy returns independent Reactions) collected into a new set
            cp = ctx.call('derive', lambda: type(obj)([member_copy(it, cb) for it in obj]), region=rd)
        else:
            cp = ctx.call('derive', obj.copy, cb, region=rd)
        if cp is obj or cp._basis != cb:
            ctx.fail(f'derive|{rd}|fields', f'counterpart basis {cp._basis!r} (expected {cb!r}) or the set itself')
        cstep = ('react.counterpart', cp, ref_tree(cb), cb)
        steps = [cstep, steps[0]] if ch.bool('derive.original_last') else [steps[0], cstep]
    out = None
    repeat = 2 if ch.bool('twice') else 1
    touch = ch.bool('touch_mass')
    if repeat == 2: ctx.cell('sets:twice')
    for site, o_, rf, bs in steps:
        reg = f'kind={kk},basis={bs},ph={int(tagged)},tgt={tgt},xpkg={int(xpkg)}' + suffix
        o = rx.apply_and_judge(ctx, site, reg, o_, rf, bs, pid, feed, tgt, phases, qid,
                               stream_phase=sphase or 'l', rtol=TOL, repeat=repeat, touch_mass=touch)
        if o_ is obj:
            out = o
    if obj._basis != set_basis:
        ctx.fail(f'react|{region}|reaction-modified', f'basis label of the original is now {obj._basis!r}')
    if not out['raised']:
        changed = int((np.abs(out['cmp_out'] - out['cmp_in']) > 0).sum())
        active = sum(1 for s, f in zip(specs, refs) if s.X > 0)
        if active and changed >= 2:
            ctx.nontriv(['sets', pid, qid, struct, set_basis, set_copy_wt, derive, list(phases), [s.summary() for s in specs],
                         tgt, sphase, _zero_pattern(feed)])


# ---------------------------------------------------------------------------
# parser round trip
# ---------------------------------------------------------------------------
# magnitudes that '%.3g' prints exactly
_COEFS = [1.0, 2.0, 3.0, 6.0, 12.0, 0.5, 0.25, 1.5, 2.25, 0.125, 7.5, 0.1, 0.75, 33.0, 999.0, 0.05, 1.25e-3, 2e-05,
          125.0, 4.5]


def prop_parser(ch, ctx):
    from thermosteam.reaction import _parse as prs, _xparse as xprs
    pid = ch.choice('pkg', list(rx.PACKAGES))
    pnames = list(rx.PACKAGES[pid])
    chems = rx.thermo(pid).chemicals
    tagged = ch.bool('phase_tagged')
    ids = ch.subset('ids', pnames, min_size=2, max_size=6)
    nleft = ch.int('nleft', 1, len(ids) - 1)
    d = {}
    for i, nm in enumerate(ids):
        c = ch.choice(f'c.{nm}', _COEFS)
        d[nm] = -c if i < nleft else c
    ctx.cell(f'parser:ph={int(tagged)}')
    region = f'ph={int(tagged)}'
    if tagged:
        phs = ch.subset('phases', list(rx.PHASES), min_size=1, max_size=3)
        dd = {nm: (phs[ch.int(f'ph.{nm}', 0, len(phs) - 1)], c) for nm, c in d.items()}
        phases = tuple(sorted({p for p, _ in dd.values()}))
        s = ctx.call('xparse.dct2str', xprs.dct2str, dd, region=region)
        back = ctx.call('xparse.str2dct', xprs.str2dct, s, region=region)
        if back != dd:
            ctx.fail(f'xparse.roundtrip|{region}|mismatch', f'{dd} -> {s!r} -> {back}')
        if tuple(ctx.call('xparse.get_phases', xprs.get_phases, s, region=region)) != phases:
            ctx.fail(f'xparse.get_phases|{region}|mismatch', s)
        arr = ctx.call('xparse.array', xprs.get_stoichiometric_array, s, phases, chems, region=region)
        want = np.zeros((len(phases), len(pnames)))
        for nm, (p, c) in dd.items():
            want[phases.index(p), pnames.index(nm)] = c
        if not np.array_equal(arr.to_array(), want):
            ctx.fail(f'xparse.array|{region}|mismatch', f'{s!r} -> {arr.to_array().tolist()}')
        arr2 = ctx.call('xparse.array.list', xprs.get_stoichiometric_array, want.tolist(), phases, chems, region=region)
        if not np.array_equal(arr2.to_array(), want):
            ctx.fail(f'xparse.array.list|{region}|mismatch', 'list definition changed')
        s2 = ctx.call('xparse.string', xprs.get_stoichiometric_string, arr, phases, chems, region=region)
        arr3 = ctx.call('xparse.array', xprs.get_stoichiometric_array, s2, phases, chems, region=region)
        if not np.array_equal(arr3.to_array(), want):
            ctx.fail(f'xparse.print-parse|{region}|mismatch', f'{s!r} -> {s2!r} -> {arr3.to_array().tolist()}')
    else:
        s = ctx.call('parse.dct2str', prs.dct2str, d, region=region)
        back = ctx.call('parse.str2dct', prs.str2dct, s, region=region)
        if back != d:
            ctx.fail(f'parse.roundtrip|{region}|mismatch', f'{d} -> {s!r} -> {back}')
        arr = ctx.call('parse.array', prs.get_stoichiometric_array, s, chems, region=region)
        want = np.zeros(len(pnames))
        for nm, c in d.items():
            want[pnames.index(nm)] = c
        if not np.array_equal(arr.to_array(), want):
            ctx.fail(f'parse.array|{region}|mismatch', f'{s!r} -> {arr.to_array().tolist()}')
        for kind, a in (('ndarray', want.copy()), ('list', want.tolist()), ('dict', dict(d))):
            arr2 = ctx.call(f'parse.array.{kind}', prs.get_stoichiometric_array, a, chems, region=region)
            if not np.array_equal(arr2.to_array(), want):
                ctx.fail(f'parse.array.{kind}|{region}|mismatch', f'{kind} definition changed')
        s2 = ctx.call('parse.string', prs.get_stoichiometric_string, arr, chems, region=region)
        arr3 = ctx.call('parse.array', prs.get_stoichiometric_array, s2, chems, region=region)
        if not np.array_equal(arr3.to_array(), want):
            ctx.fail(f'parse.print-parse|{region}|mismatch', f'{s!r} -> {s2!r} -> {arr3.to_array().tolist()}')
    # the same through Reaction: the printed stoichiometry re-parses to the same reaction
    reactant = ids[0]
    if abs(d[reactant]) == 1.0:       # normalisation keeps the 3-digit coefficients
        from thermosteam.reaction._reaction import get_stoichiometric_string
        tmo.settings.set_thermo(rx.thermo(pid))
        r1 = ctx.call('parser.Reaction', tmo.Reaction, s, reactant=reactant, X=0.5, chemicals=chems, region=region)
        s3 = ctx.call('parser.print', get_stoichiometric_string, r1.stoichiometry, r1.phases, chems, region=region)
        r2 = ctx.call('parser.Reaction', tmo.Reaction, s3, reactant=reactant, X=0.5, chemicals=chems, region=region)
        if not np.array_equal(r2.stoichiometry.to_array(), r1.stoichiometry.to_array()) or r1.phases != r2.phases:
            ctx.fail(f'parser.Reaction-roundtrip|{region}|mismatch', f'{s!r} -> {s3!r} gives another stoichiometry')
        ctx.cell('parser:via-Reaction')
    ctx.nontriv(['parser', tagged, sorted(ids), nleft, [d[k] for k in sorted(d)]])


# ---------------------------------------------------------------------------
# balance helpers as operations under test (never as the oracle)
# ---------------------------------------------------------------------------
def prop_balance(ch, ctx):
    pid = ch.choice('pkg', list(rx.PACKAGES))
    pnames = list(rx.PACKAGES[pid])
    MW = rx.mw(pid)
    th = rx.thermo(pid)
    nu = rx.draw_stoich(ch, 'r', pnames, kmax=5)
    reactant = ch.choice('reactant', list(nu))
    tagged = ch.bool('phase_tagged')
    phases, pm = (), None
    if tagged:
        full, pm = rx.draw_phase_map(ch, 'pm', list(nu))
        phases = tuple(sorted(set(pm.values())))
    basis = ch.choice('basis', ['mol', 'wt'])
    op = ch.choice('op', ['errors', 'errors', 'correct_atomic', 'correct_atomic_ctor', 'correct_mass', 'correct_mass_ctor',
                          'correct_atomic_constants', 'correct_atomic_constants'])
    spec = rx.RSpec(nu, reactant, 1.0, pm)
    others = [n for n in nu if n != reactant]
    # perturbation factors (1 = untouched) for the definition that is handed to the code
    if op == 'errors':
        fac = {n: Fraction(ch.choice(f'f.{n}', [1, 1, 1, 2, 3])) / ch.choice(f'fd.{n}', [1, 1, 2]) for n in nu}
    elif op == 'correct_atomic_constants':
        # coefficients of the drawn `constants` (never the reactant) are held; every other one, the reactant's
        # included, is perturbed and must be solved for - and the result is still expressed per unit of reactant
        constants = ch.subset('constants', others, min_size=1)
        fac = {n: (Fraction(1) if n in constants else Fraction(ch.choice(f'f.{n}', [2, 3, 5, 1])) / ch.choice(f'fd.{n}', [1, 2, 3]))
               for n in nu}
    elif op.startswith('correct_atomic'):
        fac = {n: Fraction(ch.choice(f'f.{n}', [1, 2, 3, 5])) / ch.choice(f'fd.{n}', [1, 2, 3]) for n in others}
        fac[reactant] = Fraction(1)
    else:
        fac = {n: Fraction(1) for n in nu}
        fac[reactant] = Fraction(ch.choice('f.reactant', [1, 2, 3, 5])) / ch.choice('fd.reactant', [1, 2, 3])
    pert = rx.RSpec({n: v * fac[n] for n, v in nu.items()}, reactant, 1.0, pm)
    region = f'op={op},basis={basis},ph={int(tagged)}'
    ctx.cell(f'balance:op={op}'); ctx.cell(f'balance:ph={int(tagged)}')
    tmo.settings.set_thermo(th)
    d = rx.definition(ch, 'def', pert, pnames, 'dict', basis, MW, phases)
    kw = dict(reactant=reactant, X=1.0, chemicals=th.chemicals, basis=basis)
    true_nu, _ = rx.ref_stoich(spec, pnames, basis, MW, phases)
    pert_nu_mol, _ = rx.ref_stoich(pert, pnames, 'mol', MW, phases)
    sc = max(1.0, float(np.abs(true_nu).max()))
    A = rx.atom_matrix(pnames)
    flat = pert_nu_mol.sum(axis=0) if tagged else pert_nu_mol
    if op == 'errors':
        rxn = ctx.call('build', tmo.Reaction, d, region=region, **kw)
        balanced = all(f == fac[reactant] for f in fac.values())
        want_atoms = A @ flat
        want_mass = float(MW @ flat)
        got_mass = ctx.call('mass_balance_error', rxn.mass_balance_error, region=region)
        ri = pnames.index(reactant)
        want_m = want_mass if basis == 'mol' else want_mass / MW[ri]
        msc = max(1.0, float(np.abs(flat) @ MW)) / (1.0 if basis == 'mol' else MW[ri])
        ctx.metric_max('mass_balance_error:rel', abs(got_mass - want_m) / msc)
        if not abs(got_mass - want_m) <= 1e-9 * msc:
            ctx.fail(f'mass_balance_error|{region}|mismatch', f'{got_mass!r} vs sum(MW*nu) = {want_m!r}')
        got_atoms = ctx.call('atomic_balance_error', rxn.atomic_balance_error, region=region)
        if basis == 'wt':
            want_atoms = want_atoms / MW[ri]     # the helpers report per unit mass of reactant on a wt basis
        for e, w in zip(rx.ELEMENTS, want_atoms):
            g = got_atoms.get(e, 0.0)
            if not abs(g - w) <= 1e-9 * max(1.0, float(A.max() * np.abs(flat).sum())):
                ctx.fail(f'atomic_balance_error|{region}|mismatch', f'{e}: {g!r} vs formula @ nu = {w!r}')
        if balanced:
            ctx.call('check_atomic_balance', rxn.check_atomic_balance, region=region)
            ctx.call('check_mass_balance', rxn.check_mass_balance, region=region)
            ctx.cell('balance:balanced')
        else:
            if abs(want_m) > 1e-2:
                try:
                    ctx.call('check_mass_balance', rxn.check_mass_balance, allowed=(RuntimeError,), region=region)
                except RuntimeError:
                    pass
                else:
                    ctx.fail(f'check_mass_balance|{region}|accepted', f'mass error {want_m!r} accepted')
            ctx.cell('balance:unbalanced')
        ctx.nontriv(['balance', op, basis, list(phases), spec.summary(), sorted((k, str(v)) for k, v in fac.items())])
        return
    unique = len(rx._basis_for(list(nu))) == 1
    if op.startswith('correct_atomic'):
        region += f',uniq={int(unique)}'
    if op.startswith('correct_atomic'):
        ctx.cell('balance:unique' if unique else 'balance:underspecified')
        try:
            if op == 'correct_atomic_constants':
                rxn = ctx.call('build', tmo.Reaction, d, region=region, **kw)
                carg = constants[0] if (len(constants) == 1 and ch.bool('constants.str')) else list(constants)
                ctx.call('correct_atomic_balance', rxn.correct_atomic_balance, carg, allowed=(RuntimeError,), region=region)
            elif op.endswith('ctor'):
                rxn = ctx.call('correct_atomic_balance', tmo.Reaction, d, correct_atomic_balance=True,
                               allowed=(RuntimeError,), region=region, **kw)
            else:
                rxn = ctx.call('build', tmo.Reaction, d, region=region, **kw)
                ctx.call('correct_atomic_balance', rxn.correct_atomic_balance, allowed=(RuntimeError,), region=region)
        except RuntimeError as e:
            if unique:
                ctx.fail(f'correct_atomic_balance|{region}|exc:RuntimeError', f'unique balance exists but: {e}')
            ctx.reject('underspecified atomic balance (documented RuntimeError)')
    else:
        if op.endswith('ctor'):
            rxn = ctx.call('correct_mass_balance', tmo.Reaction, d, correct_mass_balance=True, region=region, **kw)
        else:
            rxn = ctx.call('build', tmo.Reaction, d, region=region, **kw)
            ctx.call('correct_mass_balance', rxn.correct_mass_balance, region=region)
    got = np.array(rxn.stoichiometry.to_array(), float)
    if op.startswith('correct_atomic') and not unique:
        # any returned stoichiometry must at least be balanced and keep the reactant coefficient
        gm = got if basis == 'mol' else got / MW
        gm = gm.sum(axis=0) if tagged else gm
        r = float(np.abs(A @ gm).max()) / max(1.0, float(np.abs(gm).sum()) * A.max())
        if not r <= 1e-9:
            ctx.fail(f'correct_atomic_balance|{region}|unbalanced', f'result is not balanced: {(A @ gm).tolist()}')
        return
    err = float(np.abs(got - true_nu).max()) if got.shape == true_nu.shape else float('inf')
    if 'atomic' in op:
        tol = 1e-9 * sc                          # linear solve
    else:
        # flexsolve.aitken_secant stops at |sum of weight coefficients| < ytol = 5e-8 (absolute), i.e. the
        # corrected reactant coefficient may be off by up to 5e-8 weight units before the stoichiometry is rescaled
        # (the constructor first rescales on the perturbed reactant coefficient, so the true weight
        # coefficient of the reactant is (MW_r or 1) / perturbation factor)
        x_wt = (MW[pnames.index(reactant)] if basis == 'mol' else 1.0) / float(fac[reactant])
        tol = (1.5 * 5e-8 / x_wt + 1e-12) * sc
    site = 'correct_atomic_balance' if 'atomic' in op else 'correct_mass_balance'
    if not err <= tol:
        ctx.fail(f'{site}|{region}|mismatch',
                 f'corrected stoichiometry {got.tolist()} is not the balanced one {true_nu.tolist()}')
    ctx.metric_max(f'{site}:err/tol', err / tol)
    # ... and then a call: exactly X of the reactant is consumed, mass and atoms are conserved
    Xc = ch.choice('X.after', [0.5, 1.0, 0.25])
    rxn.X = Xc
    spec.X = Xc
    refc = rx.ref_of(spec, pnames, basis, MW, phases)
    feedc = rx.draw_feed(ch, 'feed', len(pnames), len(phases) if tagged else 1)
    if not tagged: feedc = feedc[0]
    feedc = rx.make_ample(feedc, rx.ref_of(spec, pnames, 'mol', MW, phases))
    rx.apply_and_judge(ctx, 'react.corrected', region + ',tgt=nd', rxn, refc, basis, pid, feedc, 'nd', phases, pid,
                       rtol=max(1e-12, 10 * tol / sc), coef_tol=tol if tol > 1e-12 * sc else 0.0)
    ctx.nontriv(['balance', op, basis, list(phases), spec.summary(), sorted((k, str(v)) for k, v in fac.items())])


# ---------------------------------------------------------------------------
# other entry points, failing calls, and the process-wide feasibility switch
# ---------------------------------------------------------------------------
def prop_entry(ch, ctx):
    """One case = a short history on one reaction object: a call through some entry point that fails for a
    documented reason (or a successful force_reaction), FOLLOWED by an ordinary call on a feed whose co-reactants are
    missing.  The later call must not depend on the earlier one."""
    from thermosteam.exceptions import UndefinedChemicalAlias
    pid = ch.choice('pkg', ['W', 'X', 'Y'])            # packages that lack some chemicals of 'U'
    pnames = list(rx.PACKAGES[pid])
    MW = rx.mw(pid)
    kind = ch.choice('kind', ['rxn', 'par', 'ser', 'sys'])
    tagged = ch.bool('phase_tagged')
    basis = ch.choice('basis', ['mol', 'wt'])
    n = 1 if kind == 'rxn' else ch.int('n', 1, 3)
    phases, pm_all = (), None
    if tagged:
        full, pm_all = rx.draw_phase_map(ch, 'pm', pnames)
        phases = tuple(full)
    tmo.settings.set_thermo(rx.thermo(pid))
    specs, rxns = [], []
    region_b = f'entry,basis={basis},ph={int(tagged)}'
    for i in range(n):
        nu = rx.draw_stoich(ch, f'r{i}', pnames, kmax=4)
        # prefer a reactant that has a co-reactant on its side, so that a feed without co-reactants is infeasible
        cands = [c for c in nu if sum(1 for v in nu.values() if (v > 0) == (nu[c] > 0)) >= 2] or list(nu)
        reactant = ch.choice(f'r{i}.reactant', cands)
        X = ch.choice(f'r{i}.X', [0.9, 0.5, 1.0, 0.25])
        spec = rx.RSpec(nu, reactant, X, {k: pm_all[k] for k in nu} if tagged else None)
        r, _ = rx.build_reaction(ch, f'r{i}', spec, pid, 'dict', 'mol' if basis == 'mol' else 'wt_coeff', phases, True, ctx,
                                 site='build', region=region_b)
        specs.append(spec); rxns.append(r)
    refs = [rx.ref_of(sp, pnames, basis, MW, phases) for sp in specs]
    if kind == 'rxn':
        obj, ref = rxns[0], refs[0]
    elif kind == 'par':
        obj, ref = ctx.call('build.par', tmo.ParallelReaction, rxns, region=region_b), rx.RefRxn('par', refs)
    elif kind == 'ser':
        obj, ref = ctx.call('build.ser', tmo.SeriesReaction, rxns, region=region_b), rx.RefRxn('ser', refs)
    else:
        obj, ref = ctx.call('build.sys', tmo.ReactionSystem, *rxns, region=region_b), rx.RefRxn('sys', refs)
    kk = {'rxn': 'R', 'par': 'P', 'ser': 'S', 'sys': 'Y'}[kind]
    nrows = len(phases) if tagged else 1
    # ---- step 1: an earlier call ----------------------------------------------------------------
    first = ch.choice('first', ['force_fails', 'force_fails', 'call_fails', 'conversion_fails', 'adiabatic_fails',
                                'force_ok', 'force_ok', 'none'])
    why = ch.choice('why', ['undefined_chemical', 'phase_mismatch']) if first.endswith('fails') and first != 'adiabatic_fails' else None
    region1 = f'kind={kk},basis={basis},ph={int(tagged)},first={first},why={why}'
    if first == 'adiabatic_fails':
        try:
            ctx.call('adiabatic_reaction', obj.adiabatic_reaction, np.ones((nrows, len(pnames)))[0 if not tagged else slice(None)],
                     allowed=(ValueError,), region=region1)
        except ValueError:
            ctx.cell('entry:failed-call')
        else:
            ctx.fail(f'adiabatic_reaction|{region1}|accepted', 'adiabatic_reaction accepted an array (documented: Stream only)')
    elif first.endswith('fails'):
        method = {'force_fails': obj.force_reaction, 'call_fails': obj, 'conversion_fails': getattr(obj, 'conversion', obj)}[first]
        if why == 'undefined_chemical':
            # a stream of package U carrying a chemical the reaction's package lacks (documented: UndefinedChemical)
            unames = list(rx.PACKAGES['U'])
            foreign = [nm for nm in unames if nm not in pnames]
            rows = np.zeros((nrows, len(unames)))
            rows[ch.int('bad.row', 0, nrows - 1), unames.index(ch.choice('bad.chemical', foreign))] = 3.0
            rows[0, unames.index(specs[0].reactant)] = 5.0
            bad = rx.build_stream('U', rows, tuple(phases) if tagged else ['l'])
            expect = (UndefinedChemicalAlias,)
        else:
            # phases of the stream differ from the reaction's (documented ValueError); phase-less reactions take the
            # undefined-chemical route instead
            if tagged:
                others = [p for p in rx.PHASES if p not in phases]
                ph2 = tuple(sorted(set(list(phases[1:]) + [others[0]])))
                rows = np.zeros((len(ph2), len(pnames))); rows[0, pnames.index(specs[0].reactant)] = 5.0
                bad = rx.build_stream(pid, rows, ph2)
                expect = (ValueError,)
            else:
                unames = list(rx.PACKAGES['U'])
                foreign = [nm for nm in unames if nm not in pnames]
                rows = np.zeros((1, len(unames))); rows[0, unames.index(foreign[0])] = 3.0
                bad = rx.build_stream('U', rows, ['l'])
                expect = (UndefinedChemicalAlias,)
        try:
            ctx.call(first, method, bad, allowed=expect, region=region1)
        except expect:
            ctx.cell('entry:failed-call')
        else:
            ctx.fail(f'{first}|{region1}|accepted', 'a call that must be rejected returned normally')
    elif first == 'force_ok':
        # force_reaction = the plain reaction semantics without the feasibility test (negative flows are kept)
        feed1 = rx.draw_feed(ch, 'feed1', len(pnames), nrows)
        exact = ch.bool('feed1.exact')
        if exact:
            # co-reactants of the first member fed one ulp short of what X * reactant needs: the result holds a
            # *negligible* negative entry, which force_reaction documents to clean up (and nothing else)
            lf = refs[0]
            a = ch.choice('feed1.reactant', [10.0, 3.0, 0.7])
            feed1[lf.idx if tagged else (0, lf.idx)] = a
            scale_r = a * (MW[lf.idx[1] if tagged else lf.idx] if False else 1.0)
            for pos in zip(*np.nonzero(np.atleast_2d(lf.nu) < 0)):
                if tuple(pos) == tuple(lf.idx if tagged else (0, lf.idx)):
                    continue
                need = scale_r * specs[0].X * abs(np.atleast_2d(lf.nu)[pos])
                if basis == 'wt':
                    # weight stoichiometry refers to mass of reactant; convert the need back to moles of co-reactant
                    need = need * MW[lf.idx[1] if tagged else lf.idx] / MW[pos[1]]
                feed1[pos] = np.nextafter(need, 0.0)
            ctx.cell('entry:force-exact')
        if not tagged: feed1 = feed1[0]
        t1 = ch.choice('target1', ['nd', 'S', 'sv'])
        if t1 == 'nd':
            target = feed1.copy(); fin = feed1
        elif t1 == 'sv':
            from thermosteam.base import SparseVector, SparseArray
            target = SparseArray(feed1.copy()) if tagged else SparseVector(feed1.copy()); fin = feed1
        else:
            target = rx.build_stream(pid, np.atleast_2d(feed1), tuple(phases) if tagged else ['l'])
            fin = feed1 * MW if basis == 'wt' else feed1
        want, mag = ref.apply_mag(fin)
        tot = float(np.abs(want).sum())
        # entries that are, or within round-off of the code's own arithmetic may be, negligible negatives
        # (cleanup threshold of the code: -1e-16 * sum): region predicate `negl`
        negligible = ((want < 0) & (want > -1e-15 * max(tot, 1e-300))) | ((mag > np.abs(fin)) & (np.abs(want) <= 1e-14 * mag))
        if t1 == 'S' and basis == 'wt':
            want = want / MW
        regf = f'kind={kk},basis={basis},ph={int(tagged)},tgt={t1},negl={int(negligible.any())}'
        ctx.call('force_reaction', obj.force_reaction, target, region=regf)
        got = rx.dense_of(target).reshape(want.shape)
        sc = max(1.0, float(np.abs(fin).sum()), float(np.abs(want).sum()))
        # documented clean-up: negligible negative entries may be set to zero; every other entry is the plain result
        d = np.abs(got - want)
        d = np.where(negligible, np.minimum(d, np.abs(got)), d)
        err = float(d.max())
        if not err <= 1e-12 * sc:
            k = int(d.argmax())
            ctx.fail(f'force_reaction|{regf}|mismatch',
                     f'entry {k}: got {got.ravel()[k]!r} want {want.ravel()[k]!r} (scale {sc!r}; negligible negatives in the plain result: {int(negligible.sum())})')
        if negligible.any():
            ctx.cell('entry:force-negligible-negative')
        ctx.cell('entry:force-ok')
        if (want < -1e-6 * sc).any():
            ctx.cell('entry:force-ok-negative')
    # ---- step 2: an ordinary call that the reference decides ----------------------------------------
    feed = np.zeros((nrows, len(pnames)))
    poor = ch.bool('poor_feed')
    if poor or first == 'none':
        # only the reactants of the members are fed: co-reactants are missing
        for sp, rf in zip(specs, refs):
            feed[(rf.idx if tagged else (0, rf.idx))] = ch.choice(f'feed.{sp.reactant}', [10.0, 1.0, 250.0])
    else:
        feed = rx.draw_feed(ch, 'feed', len(pnames), nrows)
    if not tagged:
        feed = feed[0]
    tgt = ch.choice('target', ['nd', 'S', 'sv'])
    region = f'kind={kk},basis={basis},ph={int(tagged)},tgt={tgt},xpkg=0,first={first}'
    out = rx.apply_and_judge(ctx, 'react.after', region, obj, ref, basis, pid, feed, tgt, phases, pid, rtol=TOL)
    ctx.nontriv(['entry', kk, basis, list(phases), [sp.summary() for sp in specs], first, why, tgt, poor, out['raised']])


def _guarded(fn):
    """State invariant for every case: no call may leave the process-wide feasibility switch off.  (The switch is
    ``thermosteam.reaction.CHECK_FEASIBILITY``; it is put back here so that cases stay independent.)"""
    def run(ch, ctx):
        import thermosteam.reaction as R
        R.CHECK_FEASIBILITY = True
        try:
            fn(ch, ctx)
        finally:
            off = R.CHECK_FEASIBILITY is not True
            R.CHECK_FEASIBILITY = True
        if off:
            ctx.fail('state|CHECK_FEASIBILITY|left-off',
                     'thermosteam.reaction.CHECK_FEASIBILITY is not True at the end of the case: an earlier call switched the '
                     'feasibility test off for the rest of the process')
    run.__name__ = fn.__name__
    return run


PROPS = {
    'single': (prop_single, 4500, 180000),
    'sets': (prop_sets, 3000, 140000),
    'parser': (prop_parser, 800, 30000),
    'balance': (prop_balance, 1200, 50000),
    'entry': (prop_entry, 1200, 50000),
}
PROPS = {k: (_guarded(v[0]),) + tuple(v[1:]) for k, v in PROPS.items()}
