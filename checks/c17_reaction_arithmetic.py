"""C17 - reaction arithmetic agrees with applying the reactions and spares its operands."""
from __future__ import annotations

import struct

import numpy as np
import thermosteam as tmo

from vlib import c05_rxn as rx
from vlib.runner import HarnessError

PROPERTY = 'C17'
RULE = ('Hypothesis draws a property package (five orders/subsets of 15 CHO(N) chemicals), a reactant, 2-4 exactly '
        'balanced stoichiometries sharing that reactant (rational null-space combinations, independent draws so they '
        'differ), conversions, a basis per operand (mol / wt by copy / wt from weight coefficients, mixed bases '
        'included), phase-less or phase-tagged definitions (dict or string), ONE operation per case (a+b, 0+a, sum, '
        '(a+b)-b, a-b, +=, -=, empty operands 0/None/X=0, k*a, a*k, a/k, *=, /=, -a, copy, copy(basis), backwards, '
        'basis setter round trip; on sets: item.X=v, set.X[i]=v, held items, slices, reduce, item copy/arithmetic, '
        'set copy / re-basing, set+set) and a feed and target (ndarray, SparseVector, Stream/MultiStream). Oracle: the '
        'expected stoichiometry/X/reactant/basis from the exact fractions, the NumPy reference of the reaction '
        'semantics on the feed, bit-level snapshots of every operand before/after, object identity. Non-trivial: '
        'operands with different stoichiometries and non-zero conversions (scalars k != 1). Distinct by (op, bases, '
        'phases, participants, reactant, X classes, target, feed zero pattern).')
ASSUMPTIONS = [
    'operands share chemicals object, phases and reactant (documented requirement of +/-)',
    '(a+b)-b and a-b are generated with X_a >= 0.01 and X_a > X_b resp.; cancellation tolerance 1e-9',
    'phase-tagged results are applied to 2-d ndarrays and MultiStreams only (SparseArray targets are C05-F1)',
    'scalars k > 0; feeds finite and non-negative',
]
REQUIRED_CELLS = {
    'quick': ['op=add', 'op=sub_roundtrip', 'op=iadd', 'op=isub', 'op=sub_empty', 'op=add_empty', 'op=mul', 'op=div',
              'op=imul', 'op=idiv', 'op=neg', 'op=copy', 'op=copy_basis', 'op=backwards_r', 'op=backwards_none',
              'op=item_to_set', 'op=set_to_item', 'items:int-conversions', 'item:other-basis', 'op=item_copy_basis', 'op=rxn_add_item', 'op=rxn_isub_item', 'op=item_imul', 'op=item_idiv', 'op=reduce', 'mixed-basis', 'neg-operand', 'ph=1', 'ph=0'],
    'thorough': [],
}

TOL = 1e-12
TOL_CANCEL = 1e-9


# ---------------------------------------------------------------------------
# snapshots and field checks
# ---------------------------------------------------------------------------
def _bits(x):
    return struct.pack('<d', float(x))


def _stoich_arrays(r):
    st = r._stoichiometry
    if isinstance(st, list):
        return [np.array(x.to_array(), float) for x in st]
    return [np.array(st.to_array(), float)]


def _norm_index(i):
    if isinstance(i, tuple):
        return tuple(_norm_index(k) for k in i)
    if isinstance(i, (list, np.ndarray)):
        return tuple(_norm_index(k) for k in i)
    return int(i)


def snap(r):
    """Bit-level image of everything that defines a Reaction / ReactionSet."""
    X = r._X
    Xb = b''.join(_bits(v) for v in np.atleast_1d(np.array(X, float)))
    return ([a.tobytes() for a in _stoich_arrays(r)], [a.shape for a in _stoich_arrays(r)],
            _norm_index(r._reactant_index), Xb, r._basis, id(r._chemicals), tuple(r._phases))


def describe(r):
    return f'stoichiometry={[a.tolist() for a in _stoich_arrays(r)]} reactant_index={_norm_index(r._reactant_index)} X={r._X!r} basis={r._basis}'


def assert_pure(ctx, site, region, name, obj, before):
    if snap(obj) != before:
        ctx.fail(f'{site}|{region}|operand-modified', f'operand {name} changed: now {describe(obj)}')


def shares_storage(r1, r2):
    """True when two reaction objects share a mutable stoichiometry container / row / X array."""
    s1, s2 = r1._stoichiometry, r2._stoichiometry
    if s1 is s2:
        return True
    rows1 = s1 if isinstance(s1, list) else (list(getattr(s1, 'rows', [])) + [s1])
    rows2 = s2 if isinstance(s2, list) else (list(getattr(s2, 'rows', [])) + [s2])
    ids2 = {id(x) for x in rows2} | {id(getattr(x, 'dct', None)) for x in rows2 if getattr(x, 'dct', None) is not None}
    for x in rows1:
        if id(x) in ids2:
            return True
        d = getattr(x, 'dct', None)
        if d is not None and id(d) in ids2:
            return True
    X1, X2 = r1._X, r2._X
    if isinstance(X1, np.ndarray) and isinstance(X2, np.ndarray) and np.shares_memory(X1, X2):
        return True
    return False


def check_fields(ctx, site, region, r, nu, idx, X, basis, phases, chems, rtol=1e-12, cls=None):
    if cls is not None and type(r) is not cls:
        ctx.fail(f'{site}|{region}|type', f'result is a {type(r).__name__}')
    got = np.array(r._stoichiometry.to_array(), float)
    if got.shape != nu.shape:
        ctx.fail(f'{site}|{region}|shape', f'{got.shape} vs {nu.shape}')
    sc = max(1.0, float(np.abs(nu).max()))
    err = float(np.abs(got - nu).max())
    if not err <= rtol * sc:
        ctx.fail(f'{site}|{region}|mismatch',
                 f'stoichiometry {got.tolist()} but expected {nu.tolist()} (X={r.X!r}, expected {X!r})')
    ctx.metric_max(f'fields.stoichiometry:rel_err(rtol={rtol:g})', err / sc)
    if not abs(float(r.X) - X) <= 1e-12 * max(1.0, abs(X)):
        ctx.fail(f'{site}|{region}|mismatch', f'X={r.X!r} but expected {X!r}')
    if _norm_index(r._reactant_index) != _norm_index(idx):
        ctx.fail(f'{site}|{region}|reactant', f'reactant index {r._reactant_index!r} but expected {idx!r}')
    if r._basis != basis or tuple(r._phases) != tuple(phases) or r.chemicals is not chems:
        ctx.fail(f'{site}|{region}|fields', f'basis={r._basis!r} phases={r._phases!r} (expected {basis!r}, {phases!r})')


# ---------------------------------------------------------------------------
# drawing operands
# ---------------------------------------------------------------------------
class World:
    pass


def draw_world(ch, ctx, n, modes=('mol', 'mol', 'wt_copy', 'wt_coeff'), same_basis=False, reactants=None,
               x_lo=0.0, x_hi=1.0, signs=False, int_x=False):
    """n reactions sharing a reactant (or drawn from ``reactants`` pool sizes) on one package.

    ``signs``: an operand may be the *result of negation* (`-r`, X < 0) or of a subtraction whose right
    operand has the larger conversion (`0.5*r - r`, X < 0): both are listed operations of the class, so their
    results are legitimate operands of every law."""
    w = World()
    w.pid = ch.choice('pkg', list(rx.PACKAGES))
    w.pnames = list(rx.PACKAGES[w.pid])
    w.MW = rx.mw(w.pid)
    w.th = rx.thermo(w.pid)
    w.chems = w.th.chemicals
    tmo.settings.set_thermo(w.th)
    w.tagged = ch.bool('phase_tagged')
    pool_n = reactants or 1
    pool = [ch.choice(f'reactant{k}', w.pnames) for k in range(pool_n)]
    w.specs, w.rxns, w.bases, w.modes = [], [], [], []
    nus, rs = [], []
    for i in range(n):
        r = pool[ch.int(f'r{i}.pool', 0, pool_n - 1)] if pool_n > 1 else pool[0]
        nus.append(rx.draw_stoich(ch, f'r{i}', w.pnames, reactant=r, kmax=5)); rs.append(r)
    w.phases = ()
    pm = None
    if w.tagged:
        union = [nm for nm in w.pnames if any(nm in nu for nu in nus)]
        full, pm = rx.draw_phase_map(ch, 'pm', union)
        w.phases = tuple(full)
    first_mode = None
    for i in range(n):
        if int_x:
            # every conversion handed over as a whole-number Python int (what the doctests do)
            X = ch.choice(f'r{i}.X.int', [1, 0, 1])
        else:
            X = rx.draw_X(ch, f'r{i}', x_lo, x_hi)
        spec = rx.RSpec(nus[i], rs[i], X, {k: pm[k] for k in nus[i]} if w.tagged else None)
        spec.x_as_int = int_x or (X == int(X) and ch.bool(f'r{i}.X.as_int'))
        mode = ch.choice(f'r{i}.mode', list(modes))
        if same_basis and i > 0:
            mode = mode if (mode == 'mol') == (first_mode == 'mol') else first_mode
        first_mode = first_mode or mode
        form = ch.choice(f'r{i}.form', ['dict', 'str'])
        r, b = rx.build_reaction(ch, f'r{i}', spec, w.pid, form, mode, w.phases, True, ctx, site='build',
                                 region=f'mode={mode},ph={int(w.tagged)}')
        if signs:
            sign = ch.choice(f'r{i}.sign', ['pos', 'pos', 'pos', 'neg', 'neg', 'sub'])
            if sign == 'neg':
                r0 = r
                r = ctx.call('setup.neg', lambda: -r0, region=f'mode={mode},ph={int(w.tagged)}')
                spec.X = -spec.X
                ctx.cell('neg-operand')
            elif sign == 'sub':
                r0 = r
                r = ctx.call('setup.sub', lambda: (r0 * 0.5) - r0, region=f'mode={mode},ph={int(w.tagged)}')
                spec.X = 0.5 * spec.X - spec.X
                ctx.cell('neg-operand')
        w.specs.append(spec); w.rxns.append(r); w.bases.append(b); w.modes.append(mode)
    w.any_negative = any(sp.X < 0 for sp in w.specs)
    ctx.cell(f'ph={int(w.tagged)}')
    if len(set(w.bases)) > 1:
        ctx.cell('mixed-basis')
    return w


def nu_of(w, i, basis):
    return rx.ref_stoich(w.specs[i], w.pnames, basis, w.MW, w.phases)


def draw_feed_and_target(ch, w, ref_mol_leaves, both=False):
    nrows = len(w.phases) if w.tagged else 1
    feed = rx.draw_feed(ch, 'feed', len(w.pnames), nrows)
    if not w.tagged:
        feed = feed[0]
    if ch.bool('ample'):
        feed = rx.make_ample(feed, rx.RefRxn('par', ref_mol_leaves), both=both)
    tgt = ch.choice('target', ['nd', 'S'] if w.tagged else ['nd', 'sv', 'S'])
    sphase = 'l' if w.tagged else ch.choice('stream.phase', list(rx.PHASES))
    return feed, tgt, sphase


def apply(ctx, w, site, region, obj, ref, basis, feed, tgt, sphase, rtol=TOL):
    coef_tol = 0.0
    if rtol > TOL:      # cancelling arithmetic: coefficients are only required to agree within rtol
        coef_tol = rtol * max([1.0] + [float(np.abs(lf.nu).max()) for lf in ref.leaves()])
    return rx.apply_and_judge(ctx, site, f'{region},tgt={tgt}', obj, ref, basis, w.pid, feed, tgt, w.phases, w.pid,
                              stream_phase=sphase, rtol=rtol, coef_tol=coef_tol)


def _zero_pattern(a):
    return (np.atleast_2d(a) != 0).astype(int).tolist()


def _xclass(x):
    return 0 if x == 0 else (1 if x == 1 else 2)


# ---------------------------------------------------------------------------
# binary / in-place combination
# ---------------------------------------------------------------------------
BIN_OPS = ['add', 'add', 'radd0', 'sum', 'sub_roundtrip', 'sub_roundtrip', 'sub', 'iadd', 'iadd', 'isub', 'isub',
           'isub_roundtrip', 'add_empty', 'sub_empty', 'iadd_empty', 'isub_empty', 'add3']


def prop_binary(ch, ctx):
    op = ch.choice('op', BIN_OPS)
    n = 3 if op == 'add3' else 2
    x_lo = 0.01 if op in ('sub_roundtrip', 'isub_roundtrip', 'sub', 'isub') else 0.0
    w = draw_world(ch, ctx, n, x_lo=x_lo, signs=True)
    a, b = w.rxns[0], w.rxns[1]
    Xa, Xb = w.specs[0].X, w.specs[1].X
    if op in ('add', 'sum', 'iadd', 'add3', 'sub_roundtrip', 'isub_roundtrip'):
        # a reactant-normalised reaction cannot represent a sum whose conversions cancel: keep the partial and
        # total conversions away from zero (only reachable with negated operands) by shrinking later operands
        for k in range(1, n):
            xk = w.specs[k].X
            # partial sums this operand may be added to: a (+ b) from the left, b alone in a + (b + c)
            partial = [sum(sp.X for sp in w.specs[:k])] + ([w.specs[1].X] if k == 2 else [])
            for _ in range(8):
                if xk != 0 and any(abs(t + xk) < 0.25 * max(abs(t), abs(xk)) for t in partial):
                    xk = xk * 0.5
            if xk != w.specs[k].X:
                w.rxns[k].X = xk
                w.specs[k].X = xk
        Xb = w.specs[1].X
    B = w.bases[0]
    nua, idx = nu_of(w, 0, B)
    nub, _ = nu_of(w, 1, B)
    region = f'op={op},basisL={w.bases[0]},basisR={w.bases[1]},ph={int(w.tagged)}'
    ctx.cell(f'op={op}')
    if op in ('sub', 'isub') and abs(Xa - Xb) < 0.25 * max(abs(Xa), abs(Xb)):
        # keep the net conversion away from cancellation: b gets a fraction of a's conversion
        Xb = Xa * ch.choice('Xb.frac', [0.125, 0.25, 0.5, 0.75])
        b.X = Xb
        w.specs[1].X = Xb
    before = [snap(r) for r in w.rxns]
    leaves_mol = [rx.ref_of(s, w.pnames, 'mol', w.MW, w.phases) for s in w.specs]
    feed, tgt, sphase = draw_feed_and_target(ch, w, leaves_mol, both=w.any_negative or (op in ('sub', 'isub') and Xa < Xb))
    rtol = TOL
    operands = list(w.rxns)

    def new_object(res, site):
        for k, o in enumerate(operands):
            if res is o:
                ctx.fail(f'{site}|{region}|same-object', f'the result is operand {k} itself, not a new reaction')
            if shares_storage(res, o):
                ctx.fail(f'{site}|{region}|shared-storage', f'the result shares its stoichiometry storage with operand {k}')

    if op in ('add', 'sum', 'iadd', 'add3'):
        if op == 'add':
            res = ctx.call(op, lambda: a + b, region=region); new_object(res, op)
        elif op == 'sum':
            res = ctx.call(op, lambda: sum([a, b]), region=region); new_object(res, op)
        elif op == 'add3':
            c = w.rxns[2]
            left_assoc = ch.bool('add3.assoc')
            res = ctx.call(op, lambda: (a + b) + c if left_assoc else a + (b + c), region=region)
            new_object(res, op)
        else:
            x = ctx.call('copy', a.copy, region=region)
            operands = [b]
            def f():
                y = x
                y += b
                return y
            res = ctx.call(op, f, region=region)
            if res is not x:
                ctx.fail(f'{op}|{region}|not-in-place', '+= returned another object')
            new_object(res, op)
        terms = [(Xa, nua), (Xb, nub)]
        if op == 'add3':
            nuc, _ = nu_of(w, 2, B)
            terms.append((w.specs[2].X, nuc))
        Xs = sum(t[0] for t in terms)
        comb = sum(t[0] * t[1] for t in terms)
        if Xs == 0:
            ctx.cell('degenerate:X=0')
            want_nu, want_X = None, 0.0
        else:
            want_nu, want_X = comb / Xs, Xs
        ref = rx.RefRxn('par', [rx.RefRxn('rxn', nu=t[1], idx=idx, X=t[0]) for t in terms])
    elif op == 'radd0':
        z = ch.choice('zero', [0, None])
        res = ctx.call(op, lambda: z + a if z is not None else a.__radd__(None), region=region); new_object(res, op)
        want_nu, want_X = nua, Xa
        ref = rx.RefRxn('rxn', nu=nua, idx=idx, X=Xa)
    elif op in ('sub_roundtrip', 'isub_roundtrip'):
        c = ctx.call('add', lambda: a + b, region=region)
        if op == 'sub_roundtrip':
            res = ctx.call(op, lambda: c - b, region=region)
            operands = [a, b, c]
            csnap = snap(c)
            new_object(res, op)
            assert_pure(ctx, op, region, 'a+b', c, csnap)
        else:
            def f():
                y = c
                y -= b
                return y
            res = ctx.call(op, f, region=region)
            if res is not c:
                ctx.fail(f'{op}|{region}|not-in-place', '-= returned another object')
        want_nu, want_X = nua, Xa
        ref = rx.RefRxn('rxn', nu=nua, idx=idx, X=Xa)
        rtol = TOL_CANCEL
    elif op in ('sub', 'isub'):
        if op == 'sub':
            res = ctx.call(op, lambda: a - b, region=region); new_object(res, op)
        else:
            x = ctx.call('copy', a.copy, region=region)
            operands = [b]
            def f():
                y = x
                y -= b
                return y
            res = ctx.call(op, f, region=region)
            if res is not x:
                ctx.fail(f'{op}|{region}|not-in-place', '-= returned another object')
        want_X = Xa - Xb
        want_nu = (Xa * nua - Xb * nub) / want_X
        ref = rx.RefRxn('rxn', nu=want_nu, idx=idx, X=want_X)
        rtol = TOL_CANCEL
    else:  # empty operands
        ek = ch.choice('empty', ['0', 'None', 'X=0', 'X=0'])
        if ek == 'X=0':
            b.X = 0.0; w.specs[1].X = 0.0
            before[1] = snap(b)
            e = b
        else:
            e = 0 if ek == '0' else None
        region += f',empty={ek}'
        if op == 'add_empty':
            res = ctx.call(op, lambda: a + e, region=region); new_object(res, op)
        elif op == 'sub_empty':
            res = ctx.call(op, lambda: a - e, region=region); new_object(res, op)
        else:
            x = ctx.call('copy', a.copy, region=region)
            operands = [b]
            def f():
                y = x
                if op == 'iadd_empty': y += e
                else: y -= e
                return y
            res = ctx.call(op, f, region=region)
            if res is not x:
                ctx.fail(f'{op}|{region}|not-in-place', 'in-place operator returned another object')
        want_nu, want_X = nua, Xa
        ref = rx.RefRxn('rxn', nu=nua, idx=idx, X=Xa)
    # operands untouched
    for k, (r, s0) in enumerate(zip(w.rxns, before)):
        assert_pure(ctx, op, region, 'abc'[k], r, s0)
    if want_nu is not None:
        check_fields(ctx, op, region, res, want_nu, idx, want_X, B, w.phases, w.chems, rtol=rtol if rtol > 1e-12 else 1e-12,
                     cls=tmo.Reaction)
    # behaviour on a feed: NumPy reference, and the real ParallelReaction where one can be built
    apply(ctx, w, op + '.apply', region, res, ref, B, feed, tgt, sphase, rtol=rtol)
    if op in ('add', 'sum', 'add3', 'iadd') and len(set(w.bases)) == 1:
        par = ctx.call('ParallelReaction', tmo.ParallelReaction, w.rxns, region=region)
        apply(ctx, w, 'parallel.apply', region, par, ref, B, feed, tgt, sphase, rtol=rtol)
        ctx.cell('vs-real-parallel')
    # mutating the result must not reach the operands
    if op in ('add', 'sum', 'add3', 'radd0', 'sub', 'sub_roundtrip', 'add_empty', 'sub_empty'):
        def mut():
            res.X = 0.3125
            res.basis = 'wt' if res.basis == 'mol' else 'mol'
        ctx.call(op + '.mutate-result', mut, region=region)
        for k, (r, s0) in enumerate(zip(w.rxns, before)):
            assert_pure(ctx, op + '.mutate-result', region, 'abc'[k], r, s0)
    differ = not np.array_equal(nua, nub)
    if (differ and Xa != 0 and Xb != 0) or op in ('radd0', 'add_empty', 'sub_empty', 'iadd_empty', 'isub_empty'):
        ctx.nontriv(['binary', op, [sp.X < 0 for sp in w.specs], w.pid, w.modes, list(w.phases), [s.summary() for s in w.specs], tgt, sphase,
                     _zero_pattern(feed)])


# ---------------------------------------------------------------------------
# scalar multiples and negation
# ---------------------------------------------------------------------------
def prop_scale(ch, ctx):
    op = ch.choice('op', ['mul', 'rmul', 'div', 'imul', 'idiv', 'neg'])
    w = draw_world(ch, ctx, 1, signs=True)
    a = w.rxns[0]
    Xa = w.specs[0].X
    B = w.bases[0]
    nua, idx = nu_of(w, 0, B)
    k = ch.choice('k.special', [0.5, 2.0, 1.0, 3, None, None])
    if k is None:
        k = ch.logfloat('k', -2, 0.7)
    region = f'op={op},basis={B},ph={int(w.tagged)}'
    ctx.cell(f'op={op}')
    before = snap(a)
    leaves_mol = [rx.ref_of(w.specs[0], w.pnames, 'mol', w.MW, w.phases)]
    feed, tgt, sphase = draw_feed_and_target(ch, w, leaves_mol, both=(op == 'neg' or w.any_negative))
    inplace = op in ('imul', 'idiv')
    target_obj = ctx.call('copy', a.copy, region=region) if inplace else a
    def f():
        if op == 'mul': return a * k
        if op == 'rmul': return k * a
        if op == 'div': return a / k
        if op == 'neg': return -a
        y = target_obj
        if op == 'imul': y *= k
        else: y /= k
        return y
    res = ctx.call(op, f, region=region)
    want_X = {'mul': Xa * k, 'rmul': Xa * k, 'imul': Xa * k, 'div': Xa / k, 'idiv': Xa / k, 'neg': -Xa}[op]
    if inplace:
        if res is not target_obj:
            ctx.fail(f'{op}|{region}|not-in-place', 'in-place operator returned another object')
    else:
        if res is a:
            ctx.fail(f'{op}|{region}|same-object', 'the result is the operand itself')
        if shares_storage(res, a):
            ctx.fail(f'{op}|{region}|shared-storage', 'the result shares its stoichiometry storage with the operand')
    assert_pure(ctx, op, region, 'a', a, before)
    check_fields(ctx, op, region, res, nua, idx, want_X, B, w.phases, w.chems, cls=tmo.Reaction)
    ref = rx.RefRxn('rxn', nu=nua, idx=idx, X=want_X)
    apply(ctx, w, op + '.apply', region, res, ref, B, feed, tgt, sphase)
    if not inplace:
        def mut():
            res.X = 0.3125
            res.basis = 'wt' if res.basis == 'mol' else 'mol'
        ctx.call(op + '.mutate-result', mut, region=region)
        assert_pure(ctx, op + '.mutate-result', region, 'a', a, before)
    if Xa != 0 and (k != 1 or op == 'neg'):
        ctx.nontriv(['scale', op, Xa < 0, w.pid, w.modes, list(w.phases), w.specs[0].summary(), _xclass(k), tgt, sphase,
                     _zero_pattern(feed)])


# ---------------------------------------------------------------------------
# copies, reversal, re-basing
# ---------------------------------------------------------------------------
def prop_purity(ch, ctx):
    op = ch.choice('op', ['copy', 'copy_basis', 'copy_basis', 'backwards_r', 'backwards_r', 'backwards_none',
                          'backwards_none', 'basis_roundtrip'])
    w = draw_world(ch, ctx, 1, signs=True)
    a = w.rxns[0]
    spec = w.specs[0]
    B = w.bases[0]
    nua, idx = nu_of(w, 0, B)
    region = f'op={op},basis={B},ph={int(w.tagged)}'
    ctx.cell(f'op={op}')
    nn = spec.normalized()
    products = [n for n, v in nn.items() if v > 0]
    want_basis = B
    want_X = spec.X
    want_nu, want_idx = nua, idx
    if op == 'backwards_none' and len(products) != 1:
        # choose the reactant of the operand so that exactly one species sits on the other side, if possible
        for cand in spec.nu:
            sgn = 1 if spec.nu[cand] > 0 else -1
            if sum(1 for v in spec.nu.values() if (v > 0) != (sgn > 0)) == 1:
                spec = rx.RSpec(spec.nu, cand, spec.X, spec.phase_of)
                w.specs[0] = spec
                a, _b = rx.build_reaction(ch, 'rb', spec, w.pid, 'dict', w.modes[0], w.phases, True, ctx, site='build',
                                          region=f'mode={w.modes[0]},ph={int(w.tagged)}')
                w.rxns[0] = a
                nua, idx = nu_of(w, 0, B)
                nn = spec.normalized()
                products = [n for n, v in nn.items() if v > 0]
                want_nu, want_idx = nua, idx
                break
    before = snap(a)
    leaves_mol = [rx.ref_of(spec, w.pnames, 'mol', w.MW, w.phases)]
    both = op.startswith('backwards') or w.any_negative
    feed, tgt, sphase = draw_feed_and_target(ch, w, leaves_mol, both=both)
    if op == 'copy':
        res = ctx.call(op, a.copy, region=region)
    elif op == 'copy_basis':
        want_basis = ch.choice('to', ['mol', 'wt'])
        region += f',to={want_basis}'
        res = ctx.call(op, a.copy, want_basis, region=region)
        want_nu, want_idx = rx.ref_stoich(spec, w.pnames, want_basis, w.MW, w.phases)
    elif op == 'basis_roundtrip':
        other = 'wt' if B == 'mol' else 'mol'
        res = ctx.call('copy', a.copy, region=region)
        def f():
            res.basis = other
            res.basis = B
        ctx.call(op, f, region=region)
    elif op == 'backwards_r':
        new_r = ch.choice('new_reactant', [n for n in spec.nu if n != spec.reactant] or [spec.reactant])
        newX = ch.choice('newX', [None, None, 0.25, 1.0])
        rspec = rx.RSpec(spec.nu, new_r, spec.X if newX is None else newX, spec.phase_of)
        want_nu, want_idx = rx.ref_stoich(rspec, w.pnames, B, w.MW, w.phases)
        want_X = rspec.X
        kw = {} if newX is None else {'X': newX}
        res = ctx.call(op, a.backwards, reactant=new_r, region=region, **kw)
    else:  # backwards_none
        if len(products) != 1:
            ctx.cell('backwards_none:ambiguous')
            try:
                ctx.call(op, a.backwards, allowed=(ValueError,), region=region + ',ambiguous=1')
            except ValueError:
                assert_pure(ctx, op, region + ',ambiguous=1', 'a', a, before)
                ctx.reject('backwards() without reactant on a reaction with several products (documented ValueError)')
            ctx.fail(f'{op}|{region},ambiguous=1|accepted', 'several products but backwards() without a reactant returned')
        ctx.cell('backwards_none:unique')
        rspec = rx.RSpec(spec.nu, products[0], spec.X, spec.phase_of)
        want_nu, want_idx = rx.ref_stoich(rspec, w.pnames, B, w.MW, w.phases)
        res = ctx.call(op, a.backwards, region=region)
    if res is a:
        ctx.fail(f'{op}|{region}|same-object', 'the result is the operand itself')
    if shares_storage(res, a):
        ctx.fail(f'{op}|{region}|shared-storage', 'the result shares its stoichiometry storage with the operand')
    assert_pure(ctx, op, region, 'a', a, before)
    check_fields(ctx, op, region, res, want_nu, want_idx, want_X, want_basis, w.phases, w.chems,
                 rtol=1e-12, cls=tmo.Reaction)
    ref = rx.RefRxn('rxn', nu=want_nu, idx=want_idx, X=want_X)
    apply(ctx, w, op + '.apply', region, res, ref, want_basis, feed, tgt, sphase)
    def mut():
        res.X = 0.3125
        res.basis = 'wt' if res.basis == 'mol' else 'mol'
    ctx.call(op + '.mutate-result', mut, region=region)
    assert_pure(ctx, op + '.mutate-result', region, 'a', a, before)
    if spec.X != 0:
        ctx.nontriv(['purity', op, spec.X < 0, w.pid, w.modes, list(w.phases), spec.summary(), want_basis, tgt, sphase,
                     _zero_pattern(feed)])


# ---------------------------------------------------------------------------
# reaction sets and their items
# ---------------------------------------------------------------------------
ITEM_OPS = ['item_to_set', 'item_to_set', 'set_to_item', 'set_to_item', 'held_item', 'slice', 'setX_all', 'item_imul',
            'item_imul', 'item_idiv', 'iter_imul', 'reduce',
            'reduce', 'item_copy', 'item_mul', 'item_add', 'item_neg', 'item_backwards', 'set_copy', 'set_copy_basis',
            'set_add', 'item_copy_basis', 'item_copy_basis', 'rxn_add_item', 'rxn_sub_item', 'rxn_iadd_item',
            'rxn_isub_item', 'item_add_rxn']


def prop_items(ch, ctx):
    op = ch.choice('op', ITEM_OPS)
    kind = 'par' if op in ('reduce', 'set_add') else ch.choice('kind', ['par', 'ser'])
    n = ch.int('n', 2, 4)
    int_x = ch.bool('ints')
    if int_x:
        ctx.cell('items:int-conversions')
    w = draw_world(ch, ctx, n, modes=('mol', 'wt_copy', 'wt_coeff'), same_basis=True, reactants=2, int_x=int_x)
    B = w.bases[0]
    cls = tmo.ParallelReaction if kind == 'par' else tmo.SeriesReaction
    region = f'op={op},kind={kind},basis={B},ph={int(w.tagged)}'
    ctx.cell(f'op={op}')
    rset = ctx.call('build.set', cls, w.rxns, region=region)
    Xs = [s.X for s in w.specs]
    nus = [nu_of(w, i, B) for i in range(n)]
    leaves_mol = [rx.ref_of(s, w.pnames, 'mol', w.MW, w.phases) for s in w.specs]
    feed, tgt, sphase = draw_feed_and_target(ch, w, leaves_mol)

    def ref_for(xs):
        return rx.RefRxn(kind, [rx.RefRxn('rxn', nu=nus[i][0], idx=nus[i][1], X=xs[i]) for i in range(n)])

    def set_matches(xs, site):
        got = np.array(rset.X, float)
        if got.shape != (n,) or any(_bits(g) != _bits(x) for g, x in zip(got, xs)):
            ctx.fail(f'{site}|{region}|set.X', f'set.X = {got.tolist()} but expected {xs}')
        for i in range(n):
            if _bits(rset[i].X) != _bits(xs[i]):
                ctx.fail(f'{site}|{region}|item.X', f'set[{i}].X = {rset[i].X!r} but expected {xs[i]!r}')
        for i, it in enumerate(rset):
            if _bits(it.X) != _bits(xs[i]):
                ctx.fail(f'{site}|{region}|iter.X', f'item {i} from iteration has X = {it.X!r} but expected {xs[i]!r}')

    set_matches(Xs, 'build.set')
    i = ch.int('i', 0, n - 1)
    v = rx.draw_X(ch, 'v')
    if op in ('item_to_set', 'set_to_item', 'held_item', 'slice', 'setX_all', 'item_imul', 'item_idiv', 'iter_imul'):
        held = [rset[k] for k in range(n)]
        xs = list(Xs)
        if op == 'item_to_set':
            def f(): rset[i].X = v
            xs[i] = v
        elif op == 'set_to_item':
            def f(): rset.X[i] = v
            xs[i] = v
        elif op == 'held_item':
            def f(): held[i].X = v
            xs[i] = v
        elif op in ('item_imul', 'item_idiv', 'iter_imul'):
            # in-place scaling of ONE item changes that item's conversion only: the whole set's X array, every
            # sibling item and the set's behaviour on a feed are compared below
            k = ch.choice('k', [0.5, 2.0, 0.25, 3])
            via_held = ch.bool('imul.held')
            if op == 'iter_imul':
                def f():
                    for it in rset:
                        it *= k
                xs = [x * k for x in xs]
            else:
                def f():
                    it = held[i] if via_held else rset[i]
                    it0 = it
                    if op == 'item_imul': it *= k
                    else: it /= k
                    if it is not it0:
                        ctx.fail(f'{op}|{region}|not-in-place', 'in-place operator on an item returned another object')
                xs[i] = xs[i] * k if op == 'item_imul' else xs[i] * (1. / k)
        elif op == 'slice':
            lo = ch.int('lo', 0, n - 1); hi = ch.int('hi', lo + 1, n)
            j = ch.int('j', lo, hi - 1)
            via_item = ch.bool('slice.via_item')
            sub = ctx.call('slice', lambda: rset[lo:hi], region=region)
            if type(sub) is not cls or len(sub.X) != hi - lo:
                ctx.fail(f'slice|{region}|type', f'{type(sub).__name__} with {len(sub.X)} reactions')
            def f():
                if via_item: sub[j - lo].X = v
                else: sub.X[j - lo] = v
            xs[j] = v
        else:
            newx = [rx.draw_X(ch, f'v{k}') for k in range(n)]
            as_array = ch.bool('setX.array')
            def f(): rset.X = np.array(newx) if as_array else newx
            xs = newx
        ctx.call(op, f, region=region)
        set_matches(xs, op)
        for k in range(n):
            if _bits(held[k].X) != _bits(xs[k]):
                ctx.fail(f'{op}|{region}|held-item.X', f'item {k} obtained earlier has X = {held[k].X!r}, set has {xs[k]!r}')
        apply(ctx, w, op + '.apply', region, rset, ref_for(xs), B, feed, tgt, sphase)
        ctx.nontriv(['items', op, kind, w.pid, w.modes, list(w.phases), [s.summary() for s in w.specs], i, _xclass(v), tgt])
        return
    before = snap(rset)
    if op == 'reduce':
        red = ctx.call(op, rset.reduce, region=region)
        if red is rset or type(red) is not cls:
            ctx.fail(f'{op}|{region}|same-object', f'reduce returned {type(red).__name__} / the set itself')
        assert_pure(ctx, op, region, 'set', rset, before)
        distinct = len({(s.reactant, s.phase_of[s.reactant] if s.phase_of else None) for s in w.specs})
        if len(red.X) != distinct:
            ctx.fail(f'{op}|{region}|count', f'{len(red.X)} reactions for {distinct} distinct reactants')
        apply(ctx, w, op + '.apply', region, red, ref_for(Xs), B, feed, tgt, sphase)
        if shares_storage(red, rset):
            ctx.fail(f'{op}|{region}|shared-storage', 'the reduced set shares stoichiometry/X storage with the original')
        ctx.call(op + '.mutate-result', lambda: red.X.__setitem__(0, 0.3125), region=region)
        assert_pure(ctx, op + '.mutate-result', region, 'set', rset, before)
        if distinct < n:
            ctx.cell('reduce:merged')
            ctx.nontriv(['items', op, w.pid, w.modes, list(w.phases), [s.summary() for s in w.specs], tgt])
        return
    if op in ('set_copy', 'set_copy_basis'):
        to = None
        if op == 'set_copy_basis':
            to = ch.choice('to', ['mol', 'wt'])
            region += f',to={to}'
        cp = ctx.call(op, rset.copy, *(() if to is None else (to,)), region=region)
        if cp is rset or type(cp) is not cls:
            ctx.fail(f'{op}|{region}|same-object', f'copy returned {type(cp).__name__} / the set itself')
        assert_pure(ctx, op, region, 'set', rset, before)
        wb = to or B
        nus2 = [nu_of(w, k, wb) for k in range(n)]
        ref2 = rx.RefRxn(kind, [rx.RefRxn('rxn', nu=nus2[k][0], idx=nus2[k][1], X=Xs[k]) for k in range(n)])
        if cp._basis != wb:
            ctx.fail(f'{op}|{region}|fields', f'basis {cp._basis!r}')
        apply(ctx, w, op + '.apply', region, cp, ref2, wb, feed, tgt, sphase)
        apply(ctx, w, op + '.apply-original', region, rset, ref_for(Xs), B, feed, tgt, sphase)
        if shares_storage(cp, rset):
            ctx.fail(f'{op}|{region}|shared-storage', 'the copy shares stoichiometry rows or the X array with the original')
        ctx.call(op + '.mutate-result', lambda: cp.X.__setitem__(i, 0.3125), region=region)
        assert_pure(ctx, op + '.mutate-result', region, 'set', rset, before)
        ctx.nontriv(['items', op, kind, to, w.pid, w.modes, list(w.phases), [s.summary() for s in w.specs], tgt])
        return
    if op == 'set_add':
        other = ctx.call('build.set', cls, [r.copy() for r in w.rxns], region=region)
        res = ctx.call(op, lambda: rset + other, region=region)
        assert_pure(ctx, op, region, 'set', rset, before)
        if res is rset or res is other or type(res) is not cls:
            ctx.fail(f'{op}|{region}|same-object', 'set + set did not return a new set')
        apply(ctx, w, op + '.apply', region, res, ref_for([2 * x for x in Xs]), B, feed, tgt, sphase)
        ctx.nontriv(['items', op, w.pid, w.modes, list(w.phases), [s.summary() for s in w.specs], tgt])
        return
    # operations on one item: the result is an independent Reaction, the set is untouched
    item = rset[i]
    nui, idxi = nus[i]
    want_nu, want_idx, want_X = nui, idxi, Xs[i]
    want_basis = B
    if op == 'item_copy':
        res = ctx.call(op, item.copy, region=region)
    elif op == 'item_mul':
        k = ch.choice('k', [0.5, 2.0, 0.25])
        res = ctx.call(op, lambda: item * k, region=region)
        want_X = Xs[i] * k
    elif op == 'item_neg':
        res = ctx.call(op, lambda: -item, region=region)
        want_X = -Xs[i]
    elif op == 'item_add':
        same = [k for k in range(n) if k != i and _norm_index(nus[k][1]) == _norm_index(idxi)]
        if not same:
            ctx.reject('no second item with the same reactant (operands of + must share it)')
        j = same[ch.int('j', 0, len(same) - 1)]
        res = ctx.call(op, lambda: item + rset[j], region=region)
        want_X = Xs[i] + Xs[j]
        if want_X == 0:
            ctx.reject('both conversions are zero')
        want_nu = (Xs[i] * nui + Xs[j] * nus[j][0]) / want_X
    elif op == 'item_copy_basis':
        # an item re-based through copy(basis): acts like the item on a feed, stoichiometry per unit of reactant in
        # the requested basis (the set itself may be on either basis)
        want_basis = ch.choice('to', ['mol', 'wt'])
        region += f',to={want_basis}'
        res = ctx.call(op, item.copy, want_basis, region=region)
        want_nu, want_idx = rx.ref_stoich(w.specs[i], w.pnames, want_basis, w.MW, w.phases)
        if want_basis != B:
            ctx.cell('item:other-basis')
    elif op in ('rxn_add_item', 'rxn_sub_item', 'rxn_iadd_item', 'rxn_isub_item', 'item_add_rxn'):
        # a plain Reaction (on its own basis, possibly another one than the set's) combined with an item of the set
        same = [k for k in range(n) if _norm_index(nus[k][1]) == _norm_index(idxi)]
        j = same[ch.int('j', 0, len(same) - 1)]                  # stoichiometry of a: that of a member sharing the reactant
        Xa = rx.draw_X(ch, 'a', 0.01, 1.0)
        if 'sub' in op and abs(Xa - Xs[i]) < 0.25 * max(Xa, Xs[i]):
            Xa = Xs[i] * ch.choice('Xa.factor', [2.0, 4.0, 0.5]) if Xs[i] else Xa
        aspec = rx.RSpec(w.specs[j].nu, w.specs[j].reactant, Xa, w.specs[j].phase_of)
        amode = ch.choice('a.mode', ['mol', 'wt_copy', 'wt_coeff'])
        a, want_basis = rx.build_reaction(ch, 'a', aspec, w.pid, 'dict', amode, w.phases, True, ctx, site='build',
                                          region=f'mode={amode},ph={int(w.tagged)}')
        region += f',basisA={want_basis}'
        if want_basis != B:
            ctx.cell('item:other-basis')
        nua, _ = rx.ref_stoich(aspec, w.pnames, want_basis, w.MW, w.phases)
        nuiA, want_idx = rx.ref_stoich(w.specs[i], w.pnames, want_basis, w.MW, w.phases)
        if op == 'item_add_rxn':
            want_basis = B                                        # the left operand decides the basis
            nua, _ = rx.ref_stoich(aspec, w.pnames, B, w.MW, w.phases)
            nuiA = nui
        a_before = snap(a)
        sgn = -1.0 if 'sub' in op else 1.0
        want_X = Xa + sgn * Xs[i]
        want_nu = (Xa * nua + sgn * Xs[i] * nuiA) / want_X
        if op == 'rxn_add_item':
            res = ctx.call(op, lambda: a + item, region=region)
        elif op == 'item_add_rxn':
            res = ctx.call(op, lambda: item + a, region=region)
        elif op == 'rxn_sub_item':
            res = ctx.call(op, lambda: a - item, region=region)
        else:
            x = ctx.call('copy', a.copy, region=region)
            def f():
                y = x
                if op == 'rxn_iadd_item': y += item
                else: y -= item
                return y
            res = ctx.call(op, f, region=region)
            if res is not x:
                ctx.fail(f'{op}|{region}|not-in-place', 'in-place operator returned another object')
        assert_pure(ctx, op, region, 'a', a, a_before)
        if res is a or shares_storage(res, a) and op in ('rxn_add_item', 'rxn_sub_item', 'item_add_rxn'):
            ctx.fail(f'{op}|{region}|shared-storage', 'the result is / shares storage with the Reaction operand')
    else:  # item_backwards
        spec = w.specs[i]
        new_r = ch.choice('new_reactant', [nm for nm in spec.nu if nm != spec.reactant] or [spec.reactant])
        rspec = rx.RSpec(spec.nu, new_r, spec.X, spec.phase_of)
        want_nu, want_idx = rx.ref_stoich(rspec, w.pnames, B, w.MW, w.phases)
        res = ctx.call(op, item.backwards, reactant=new_r, region=region)
    assert_pure(ctx, op, region, 'set', rset, before)
    if res is item or shares_storage(res, rset):
        ctx.fail(f'{op}|{region}|shared-storage', 'the result shares storage with the set')
    rtol_i = TOL_CANCEL if 'sub' in op else 1e-12
    check_fields(ctx, op, region, res, want_nu, want_idx, want_X, want_basis, w.phases, w.chems, rtol=rtol_i, cls=tmo.Reaction)
    # behaviour on a feed: like the operand reactions applied in parallel
    apply(ctx, w, op + '.apply', region, res, rx.RefRxn('rxn', nu=want_nu, idx=want_idx, X=want_X), want_basis, feed, tgt, sphase,
          rtol=TOL_CANCEL if 'sub' in op else TOL)
    def mut():
        res.X = 0.3125
        res.basis = 'wt' if res.basis == 'mol' else 'mol'
    ctx.call(op + '.mutate-result', mut, region=region)
    assert_pure(ctx, op + '.mutate-result', region, 'set', rset, before)
    set_matches(Xs, op)
    ctx.nontriv(['items', op, kind, w.pid, w.modes, list(w.phases), [s.summary() for s in w.specs], i])


PROPS = {
    'binary': (prop_binary, 2400, 110000),
    'scale': (prop_scale, 800, 40000),
    'purity': (prop_purity, 900, 50000),
    'items': (prop_items, 1400, 60000),
}
