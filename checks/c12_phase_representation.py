"""C12 - changing how a stream represents phases never changes what it contains (history check)."""
from __future__ import annotations

import numpy as np
import thermosteam as tmo
from thermosteam import equilibrium as eq
from thermosteam.exceptions import UndefinedPhase

from vlib import chem, streams as vs
from vlib import c11_model as M
from vlib.c11_model import Pk, fam, twin

PROPERTY = 'C12'
RULE = ('History check. A case draws one stream (Stream in any of s/l/g/S/L or MultiStream over any >=2 of those labels '
        'with an arbitrary distribution of material over its rows, seven packages, flows 0 or 10**u) and then up to 30 '
        'operations chosen as a function of the model state: phases = S for any S containing every non-empty phase '
        'exactly or as its case twin (S->S, S->M, M->M, M->S), phase = p, reduce_phases, as_stream, vle/lle/sle '
        'attribute access (solver object only), writes through s[phase] and through the parent, reads of s[phase], '
        'T/P changes, get_data (up to 4 snapshots kept), set_data of any earlier snapshot (also across kinds), empty, '
        'flow writes. Oracle: an independent model {label -> dense vector}, T, P; after every step the class, the '
        'phase tuple, every row, T and P must equal the model (rtol 1e-12 where rows are summed); conversions must '
        'keep each row under its label or move it to the case twin only when the exact label is absent; '
        'reduce_phases / as_stream / solver access are only required to keep per-family (g / liquid / solid) totals, '
        'and only totals where the accessor relabels by design; set_data must reproduce the snapshot exactly and '
        'snapshots must not change afterwards; sub-streams handed out by s[p] must show the model row, share T/P and '
        'propagate writes both ways. Non-trivial: a conversion with >=2 non-empty rows or a case-twin relabel, or a '
        'restore across a different representation; distinct by the sequence of (operation, source kind, target).')
ASSUMPTIONS = [
    'flows finite and non-negative; target phase sets contain every non-empty phase up to case (the stated precondition)',
    'reduce_phases, as_stream and the vle/lle/sle accessors may relabel within a phase family (l<->L, s<->S); '
    'Stream.vle on a solid and Stream.lle/sle on phases they cannot hold relabel to liquid by construction (totals only)',
    'sub-stream handles obtained before a change of the phase set are not required to stay attached; the object '
    'returned by s[p] after the change is',
    'snapshots are restored onto the same property package',
    'operations inside the trigger region of a listed known finding are not generated in modes 0-4 and are '
    'generated (and tallied) in the other modes',
]
REQUIRED_CELLS = {'quick': ['op:phases', 'op:phase', 'op:reduce_phases', 'op:as_stream', 'op:solver', 'op:view_write',
                            'op:parent_write', 'op:view_read', 'op:snap', 'op:restore', 'op:empty', 'op:write',
                            'phases:S->S', 'phases:S->M', 'phases:M->M', 'phases:M->S', 'phases:twin', 'phases:merge',
                            'restore:S->S', 'restore:S->M', 'restore:M->S', 'restore:M->M', 'op:temporary', 'temporary:deferred=1',
                            'phases:arg=generator', 'phases:arg=dup-str', 'write:trace-row'],
                  'thorough': []}
RT = 1e-12
TAGS = ('F1', 'F2', 'F3', 'F4')


def _listed_tags():
    """Finding tags (F1..) whose entry is still 'known' in the committed lists (known_findings.json overrides the
    per-property working file).  Read from the files, not from ctx.known, so that generation and replay (which the
    runner executes without the known list) perform exactly the same operations."""
    import json, os
    root = os.path.dirname(os.path.dirname(os.path.abspath(__file__)))
    status = {}
    for rel in (os.path.join('findings', PROPERTY + '.json'), 'known_findings.json'):
        path = os.path.join(root, rel)
        if not os.path.exists(path):
            continue
        with open(path) as f:
            for k in json.load(f):
                if k.get('property') == PROPERTY and '-' in k.get('id', ''):
                    status[k['id'].split('-', 1)[1]] = k.get('status')
    return {t for t, st in status.items() if st == 'known'}


LISTED = _listed_tags()


def close(a, b, rt=RT):
    a = np.asarray(a, float); b = np.asarray(b, float)
    if a.shape != b.shape:
        return False
    den = np.maximum(np.abs(a), np.abs(b))
    return bool(np.all(np.abs(a - b) <= rt * den))


class Model:
    """{label: vector}, T, P, kind; plus which sub-streams the object holds and whether they are attached."""

    def __init__(self, spec):
        self.pkg = spec['pkg']
        self.pk = Pk(self.pkg)
        self.kind = spec['kind']
        if self.kind == 'S':
            self.labels = [spec['phases'][0]]
            self.rows = [np.array(spec['flows'][0], float)]
        else:
            self.labels = M.sort_phases(spec['phases'])
            self.rows = [np.array(spec['flows'][spec['phases'].index(p)], float) for p in self.labels]
        self.T = float(spec['T']); self.P = float(spec['P'])
        self.subs = {}
        self.last = 'new'

    def snapshot(self):
        return {'kind': self.kind, 'labels': list(self.labels), 'rows': [r.copy() for r in self.rows],
                'T': self.T, 'P': self.P}

    def total(self):
        return np.sum(self.rows, axis=0)

    def nonempty(self):
        return [p for p, r in zip(self.labels, self.rows) if r.any()]

    def fam_totals(self):
        out = {f: np.zeros(self.pk.n) for f in 'gls'}
        for p, r in zip(self.labels, self.rows):
            out[fam(p)] = out[fam(p)] + r
        return out

    def set_single(self, label, vec):
        self.kind = 'S'; self.labels = [label]; self.rows = [np.array(vec, float)]; self.subs = {}

    def set_multi(self, labels, rows, detach=True):
        changed = self.kind != 'M' or list(labels) != self.labels
        if self.kind != 'M':
            self.subs = {}
        elif changed and detach:
            # MultiStream.phases setter re-links the sub-streams of surviving phases and drops the others
            self.subs = {q: v for q, v in self.subs.items() if q in labels}
        self.kind = 'M'; self.labels = list(labels); self.rows = [np.array(r, float) for r in rows]


class Run:
    def __init__(self, ch, ctx, s, m, avoid):
        self.ch, self.ctx, self.s, self.m, self.avoid = ch, ctx, s, m, avoid
        self.snaps = []      # (StreamData, model snapshot)
        self.temps = []      # TemporaryStream objects created earlier and not entered yet / again
        self.hist = []
        self.nontrivial = False

    # ---------------------------------------------------------------- checks
    def real_rows(self):
        return vs.dense(self.s)

    def check_state(self, site, region, level='exact'):
        """class, phases, rows, T, P against the model. level: 'exact' | 'family' | 'totals'"""
        s, m, ctx = self.s, self.m, self.ctx
        if s.T != m.T or s.P != m.P:
            ctx.fail(f'{site}|{region}|TP-changed', f'T,P = {s.T!r},{s.P!r}; model {m.T!r},{m.P!r} after {m.last}')
        got = self.real_rows()
        tot = got.sum(axis=0)
        if not close(tot, m.total()):
            ctx.fail(f'{site}|{region}|totals', f'per-chemical totals {tot.tolist()} want {m.total().tolist()} after {m.last}')
        labels = list(vs.phases_of(s))
        if level == 'totals':
            return
        gf = {f: np.zeros(m.pk.n) for f in 'gls'}
        for p, r in zip(labels, got):
            gf[fam(p)] = gf[fam(p)] + r
        mf = m.fam_totals()
        for f in 'gls':
            if not close(gf[f], mf[f]):
                ctx.fail(f'{site}|{region}|family', f'{f}-family holds {gf[f].tolist()} want {mf[f].tolist()} after {m.last}')
        if level == 'family':
            return
        want_cls = tmo.Stream if m.kind == 'S' else tmo.MultiStream
        if type(s) is not want_cls:
            ctx.fail(f'{site}|{region}|class', f'{type(s).__name__}, model kind {m.kind} after {m.last}')
        if labels != m.labels:
            ctx.fail(f'{site}|{region}|phases', f'phases {labels} want {m.labels} after {m.last}')
        for p, r, w in zip(labels, got, m.rows):
            if not close(r, w):
                ctx.fail(f'{site}|{region}|row', f'row {p}: {r.tolist()} want {w.tolist()} after {m.last}')

    def resync(self):
        """adopt the object's labels/rows after an operation that is only specified up to the phase family"""
        s, m = self.s, self.m
        got = self.real_rows()
        if isinstance(s, tmo.MultiStream):
            m.set_multi(list(s.phases), [r for r in got])
        else:
            m.set_single(s.phase, got[0])

    def check_views(self, create_all):
        """live views: what s[p] returns now shows the model row and the parent's T, P"""
        s, m, ctx = self.s, self.m, self.ctx
        if m.kind != 'M':
            return
        for p in m.labels:
            st = m.subs.get(p)
            if st == 'stale' and 'F1' in self.avoid:
                ctx.cell('avoided:read-of-detached-sub-stream')
                continue
            if st is None and not create_all:
                continue
            sub = ctx.call('view.get', s.__getitem__, p, region='kind=M')
            self.check_sub(sub, p, 'view.read', 'step')
            m.subs.setdefault(p, "ok")     # a detached one stays marked: a passing check does not prove re-attachment

    def check_sub(self, sub, p, site, when):
        m, ctx = self.m, self.ctx
        region = f'when={when},detached={int(m.subs.get(p) == "stale")}'
        if type(sub) is not tmo.Stream or sub.phase != p:
            ctx.fail(f'{site}|{region}|label', f's[{p!r}] is {type(sub).__name__} with phase {getattr(sub, "phase", None)!r}')
        row = m.rows[m.labels.index(p)]
        got = sub.mol.to_array()
        if not close(got, row):
            ctx.fail(f'{site}|{region}|mismatch', f's[{p!r}].mol = {got.tolist()} but the parent row is {row.tolist()} after {m.last}')
        if sub.T != m.T or sub.P != m.P:
            ctx.fail(f'{site}|{region}|TP', f's[{p!r}] T,P {sub.T!r},{sub.P!r}; parent {m.T!r},{m.P!r} after {m.last}')

    # ------------------------------------------------------------ operations
    def value(self, label):
        k = self.ch.int(label + '.kind', 0, 5)
        if k == 0: return 0.0
        if k == 1: return self.ch.choice(label + '.simple', [1.0, 2.0, 0.5, 10.0])
        if k == 5: return self.ch.choice(label + '.tiny', [1e-13, 3e-14, 1e-15, 1e-20])   # non-zero is non-empty
        return self.ch.logfloat(label, -3, 3)

    def draw_target(self, allow_unrepresentable_empty):
        ch, m = self.ch, self.m
        base = []
        for q in m.nonempty():
            t = twin(q)
            base.append(q if (t is None or not ch.bool(f'twin.{q}')) else t)
        extra = ch.subset('extra', list(M.ALL_PHASES))
        target = M.sort_phases(base + extra)
        if not target:
            target = [ch.choice('only', list(M.ALL_PHASES))]
        if m.kind == 'S' and not m.nonempty() and len(target) >= 2 and not allow_unrepresentable_empty:
            q = m.labels[0]
            if q not in target and twin(q) not in target:
                self.ctx.cell('avoided:empty-stream-label-not-in-target')
                target = M.sort_phases(target + [q])
        return target

    def apply_target(self, target):
        """model of `phases = target` (precondition holds by construction)"""
        m = self.m
        ne = m.nonempty()
        twin_used = any(q not in target for q in ne)
        merge = len({(q if q in target else twin(q)) for q in ne}) < len(ne)
        src = m.kind
        if len(target) == 1:
            m.set_single(target[0], m.total())
        else:
            labels, rows = M.convert_rows(m.labels, m.rows, target, m.pk.n)
            m.set_multi(labels, rows)
        if twin_used: self.ctx.cell('phases:twin')
        if merge: self.ctx.cell('phases:merge')
        if len(ne) >= 2 or twin_used:
            self.nontrivial = True
        return src, m.kind, twin_used, merge

    def op_phases(self):
        ch, ctx, s, m = self.ch, self.ctx, self.s, self.m
        target = self.draw_target(True)
        label_missing = (m.kind == 'S' and not m.nonempty() and len(target) >= 2
                         and m.labels[0] not in target and twin(m.labels[0]) not in target)
        src = m.kind; dst = 'S' if len(target) == 1 else 'M'
        ne = m.nonempty()
        tw = int(any(q not in target for q in ne))
        region = f'{src}->{dst},twin={tw},empty-label-missing={int(label_missing)}'
        form = ch.choice('arg', ['tuple', 'list', 'set', 'str', 'dict-keys', 'generator', 'iter', 'dup-list', 'dup-str'])
        if form == 'tuple': arg = tuple(target)
        elif form == 'list': arg = list(reversed(target))
        elif form == 'set': arg = set(target)
        elif form == 'str': arg = ''.join(target)
        elif form == 'dict-keys': arg = dict.fromkeys(target).keys()
        elif form == 'generator': arg = (q for q in target)
        elif form == 'iter': arg = iter(list(target))
        elif form == 'dup-list': arg = list(target) + [target[0]]
        else: arg = ''.join(target) + target[-1]
        region += f',arg={form}'
        ctx.call('op.phases', setattr, s, 'phases', arg, region=region)
        ctx.cell('phases:arg=' + form)
        self.apply_target(target)
        ctx.cell('op:phases'); ctx.cell(f'phases:{src}->{dst}')
        m.last = f'phases={target}'
        self.hist.append(['phases', src, target])
        self.check_state('op.phases', region)

    def op_phase(self):
        ch, ctx, s, m = self.ch, self.ctx, self.s, self.m
        ne = m.nonempty()
        fams = {fam(q) for q in ne}
        if len(fams) > 1:
            return self.op_phases()
        if ne:
            opts = {'g': ['g'], 'l': ['l', 'L'], 's': ['s', 'S']}[fam(ne[0])]
        else:
            opts = list(M.ALL_PHASES)
        p = ch.choice('phase', opts)
        src = m.kind
        region = f'{src}->S,rows={min(len(ne), 2)}'
        ctx.call('op.phase', setattr, s, 'phase', p, region=region)
        if len(ne) >= 2 or (ne and ne[0] != p): self.nontrivial = True
        m.set_single(p, m.total())
        ctx.cell('op:phase'); ctx.cell(f'phases:{src}->S')
        m.last = f'phase={p}'
        self.hist.append(['phase', src, p])
        self.check_state('op.phase', region)

    def op_reduce(self):
        ctx, s, m = self.ctx, self.s, self.m
        src = m.kind
        nf = len({fam(q) for q in m.nonempty()})
        region = f'kind={src},families={min(nf, 2)}'
        ctx.call('op.reduce_phases', s.reduce_phases, region=region)
        ctx.cell('op:reduce_phases')
        m.last = 'reduce_phases'
        self.check_state('op.reduce_phases', region, level='family')
        if src == 'M':
            # every phase that remains must hold material (that is what "reduce" promises), unless nothing is left
            got = self.real_rows()
            if isinstance(s, tmo.MultiStream) and any(not r.any() for r in got):
                ctx.fail(f'op.reduce_phases|{region}|empty-phase-kept', f'phases {s.phases} after reduce_phases, rows {got.tolist()}')
            if len(m.nonempty()) >= 2: self.nontrivial = True
        before = (m.kind, list(m.labels))
        self.resync_after_family_op(before)
        self.hist.append(['reduce', src, list(m.labels)])

    def resync_after_family_op(self, before):
        s, m = self.s, self.m
        got = self.real_rows()
        if isinstance(s, tmo.MultiStream):
            labels = list(s.phases)
            if m.kind == 'M' and labels == m.labels:
                m.rows = [np.array(r, float) for r in got]
            else:
                m.set_multi(labels, [r for r in got])
        else:
            m.set_single(s.phase, got[0])

    def op_as_stream(self):
        ctx, s, m = self.ctx, self.s, self.m
        src = m.kind
        nf = len({fam(q) for q in m.nonempty()})
        region = f'kind={src},families={min(nf, 2)}'
        if src == 'M' and nf >= 2:
            try:
                ctx.call('op.as_stream', s.as_stream, allowed=(RuntimeError,), region=region)
            except RuntimeError as e:
                if 'multiple phases' not in str(e):
                    ctx.fail(f'op.as_stream|{region}|exc:RuntimeError', str(e)[:200])
                ctx.cell('as_stream:rejected-multiple-phases')
                self.check_state('op.as_stream', region)
                return
            ctx.fail(f'op.as_stream|{region}|accepted', 'as_stream converted a stream with two phase families')
        ctx.call('op.as_stream', s.as_stream, region=region)
        ctx.cell('op:as_stream')
        m.last = 'as_stream'
        self.check_state('op.as_stream', region, level='family')
        if type(s) is not tmo.Stream:
            ctx.fail(f'op.as_stream|{region}|class', f'still a {type(s).__name__}')
        if src == 'M' and len(m.nonempty()) >= 2: self.nontrivial = True
        self.resync_after_family_op(None)
        self.hist.append(['as_stream', src])

    def op_solver(self):
        ch, ctx, s, m = self.ch, self.ctx, self.s, self.m
        which = ch.choice('which', ['vle', 'lle', 'sle'])
        src = m.kind
        need = {'vle': ['g', 'l'], 'lle': ['L', 'l'], 'sle': ['l', 's']}[which]
        level = 'exact'
        relabel = False
        if src == 'S':
            p = m.labels[0]
            # documented-by-construction relabels of the single-phase accessors
            if which == 'vle' and p in ('s', 'S'): relabel = True
            if which == 'lle' and p not in ('l', 'L'): relabel = True
            if which == 'sle' and p not in ('l', 's'): relabel = True
            # where the accessor does not relabel by design the phase-set rule applies in full: the material stays
            # under its exact label when that label is in the accessor's phase set (lle on 'l'/'L', sle on 's'/'l',
            # vle on 'g'/'l') and moves to the case twin only when the exact label is absent ('L'.vle -> 'l')
            level = 'totals' if relabel else 'exact'
            if which == 'vle' and p == 'S' and 'F3' in self.avoid:
                ctx.cell('avoided:vle-on-SOLID-stream'); which = 'sle'; need = ['l', 's']; relabel = True; level = 'totals'
        region = f'{which},kind={src},label={m.labels[0] if src == "S" else "-"}'
        solver = ctx.call('op.solver', getattr, s, which, region=region)
        ctx.cell('op:solver'); ctx.cell('solver:' + which)
        cls = {'vle': eq.VLE, 'lle': eq.LLE, 'sle': eq.SLE}[which]
        if not isinstance(solver, cls):
            ctx.fail(f'op.solver|{region}|type', f'{which} returned {type(solver).__name__}')
        m.last = which
        # the object handed out is the solver *of this stream*: bound to its current flow data and thermal condition
        if solver.imol is not s.imol or solver.thermal_condition is not s.thermal_condition:
            ctx.fail(f'op.solver|{region}|detached-solver', f'.{which} returned a solver that is not bound to the stream\'s current data (after {self.hist[-1:] })')
        if src == 'M':
            target = M.sort_phases(m.labels + need)
            labels, rows = M.convert_rows(m.labels, m.rows, target, m.pk.n)
            m.set_multi(labels, rows)
            self.check_state('op.solver', region)
        else:
            if level == 'exact':
                labels, rows = M.convert_rows(m.labels, m.rows, need, m.pk.n)
                m.set_multi(labels, rows)
                ctx.cell('solver:single-exact')
            self.check_state('op.solver', region, level=level)
            if type(s) is not tmo.MultiStream or any(q not in s.phases for q in need):
                ctx.fail(f'op.solver|{region}|phases', f'after .{which}: {type(s).__name__} phases {vs.phases_of(s)}')
            if level != 'exact':
                ctx.cell('solver:single-relabel-by-design')
                self.resync_after_family_op(None)
        self.hist.append(['solver', which, src])

    def pick_phase_for_view(self):
        m = self.m
        ok = [p for p in m.labels if m.subs.get(p) != 'stale']
        if 'F1' in self.avoid:
            if not ok:
                self.ctx.cell('avoided:access-to-detached-sub-stream')
                return None
            return self.ch.choice('phase', ok)
        return self.ch.choice('phase', m.labels)

    def op_view_write(self):
        ch, ctx, s, m = self.ch, self.ctx, self.s, self.m
        if m.kind == 'S':
            # s[label] of a single-phase stream is the stream itself (case-insensitive), anything else is rejected
            p = ch.choice('phase', list(M.ALL_PHASES))
            if p.lower() == m.labels[0].lower():
                r = ctx.call('view.get', s.__getitem__, p, region='kind=S')
                if r is not s: ctx.fail('view.get|kind=S|identity', 's[phase] of a Stream is not the stream')
            elif 'F4' in self.avoid:
                ctx.cell('avoided:getitem-of-other-phase-on-Stream')
            else:
                try:
                    ctx.call('view.get', s.__getitem__, p, allowed=(UndefinedPhase,), region='kind=S,other-phase=1')
                except UndefinedPhase:
                    pass
                else:
                    ctx.fail('view.get|kind=S|accepted', f's[{p!r}] on a {m.labels[0]!r} stream returned')
            ctx.cell('op:view_single')
            return
        p = self.pick_phase_for_view()
        if p is None: return self.op_write()
        i = ch.int('chem', 0, m.pk.n - 1)
        v = self.value('v')
        how = ch.choice('how', ['imol', 'mol', 'imass', 'set_flow'])
        detached = m.subs.get(p) == 'stale'
        sub = ctx.call('view.get', s.__getitem__, p, region='kind=M')
        region = f'when=view-write,detached={int(detached)}'
        ID = m.pk.names[i]
        def w():
            if how == 'imol': sub.imol[ID] = v
            elif how == 'mol': sub.mol[i] = v
            elif how == 'imass': sub.imass[ID] = v * m.pk.MW[i]
            else: sub.set_flow(v * 1000.0 / 3600.0, 'mol/s', ID)
        ctx.call('view.write', w, region=region)
        got = ctx.call('view.write', lambda: s.imol[p, ID], region=region)
        if not close(got, v, 1e-12):
            ctx.fail(f'view.write|{region}|mismatch', f'wrote {v!r} to s[{p!r}] ({ID}) via {how}; parent imol[{p!r},{ID!r}] = {got!r} after {m.last}')
        m.rows[m.labels.index(p)][i] = v
        m.subs.setdefault(p, "ok")     # a detached one stays marked: a passing check does not prove re-attachment
        ctx.cell('op:view_write'); self.hist.append(['view_write', p, how])

    def op_parent_write(self):
        ch, ctx, s, m = self.ch, self.ctx, self.s, self.m
        if m.kind == 'S':
            return self.op_write()
        p = self.pick_phase_for_view()
        if p is None: return self.op_write()
        i = ch.int('chem', 0, m.pk.n - 1)
        v = self.value('v')
        detached = m.subs.get(p) == 'stale'
        first = ch.bool('get_view_first')
        ID = m.pk.names[i]
        region = f'when=parent-write,detached={int(detached)}'
        if first:
            sub = ctx.call('view.get', s.__getitem__, p, region='kind=M')
        ctx.call('parent.write', s.imol.__setitem__, (p, ID), v, region=region)
        m.rows[m.labels.index(p)][i] = v
        sub = ctx.call('view.get', s.__getitem__, p, region='kind=M')
        got = sub.imol[ID]
        if not close(got, v, 1e-12):
            ctx.fail(f'parent.write|{region}|mismatch', f'wrote {v!r} to parent imol[{p!r},{ID!r}]; s[{p!r}].imol[{ID!r}] = {got!r} after {m.last}')
        m.subs.setdefault(p, "ok")     # a detached one stays marked: a passing check does not prove re-attachment
        ctx.cell('op:parent_write'); self.hist.append(['parent_write', p])

    def op_view_read(self):
        ctx, s, m = self.ctx, self.s, self.m
        if m.kind == 'S':
            return self.op_view_write()
        p = self.pick_phase_for_view()
        if p is None: return self.op_write()
        detached = m.subs.get(p) == 'stale'
        sub = ctx.call('view.get', s.__getitem__, p, region='kind=M')
        self.check_sub(sub, p, 'view.read', 'op')
        m.subs.setdefault(p, "ok")     # a detached one stays marked: a passing check does not prove re-attachment
        ctx.cell('op:view_read'); self.hist.append(['view_read', p])

    def op_write(self):
        ch, ctx, s, m = self.ch, self.ctx, self.s, self.m
        p = ch.choice('wphase', m.labels)
        form = ch.choice('form', ['item', 'row'])
        if form == 'item':
            i = ch.int('chem', 0, m.pk.n - 1); v = self.value('v'); ID = m.pk.names[i]
            key = ID if m.kind == 'S' else (p, ID)
            ctx.call('op.write', s.imol.__setitem__, key, v, region=f'kind={m.kind},form=item')
            m.rows[m.labels.index(p)][i] = v
        else:
            vec = np.array(ch.flows('row', m.pk.n), float)
            if ch.int('row.scale', 0, 3) == 0:
                vec = vec * 1e-16          # a phase that holds a trace (row total far below 1e-12 kmol/hr) is still a phase
                ctx.cell('write:trace-row')
            if m.kind == 'S':
                ctx.call('op.write', s.mol.__setitem__, slice(None), vec, region='kind=S,form=row')
            else:
                ctx.call('op.write', s.imol.__setitem__, p, vec, region='kind=M,form=row')
            m.rows[m.labels.index(p)] = vec.copy()
        ctx.cell('op:write'); self.hist.append(['write', m.kind, form])

    def op_TP(self):
        ch, ctx, s, m = self.ch, self.ctx, self.s, self.m
        isT = ch.bool('isT')
        v = float(ch.float('T', *M.T_RANGE)) if isT else float(ch.logfloat('P', 4, 6.69))
        obj = s; via = 'parent'
        if m.kind == 'M' and ch.bool('via_sub'):
            # T and P are shared with the phase sub-streams: setting them through s[p] must reach the parent
            p = self.pick_phase_for_view()
            if p is not None and m.subs.get(p) != 'stale':
                obj = ctx.call('view.get', s.__getitem__, p, region='kind=M'); via = 'sub'
                m.subs.setdefault(p, 'ok')
        ctx.call('op.TP', setattr, obj, 'T' if isT else 'P', v, region=f'kind={m.kind},via={via}')
        if isT: m.T = v
        else: m.P = v
        m.last = f'{"T" if isT else "P"} via {via}'
        ctx.cell('op:TP'); ctx.cell('TP:via=' + via); self.hist.append(['TP', via])

    def op_empty(self):
        ctx, s, m = self.ctx, self.s, self.m
        ctx.call('op.empty', s.empty, region=f'kind={m.kind}')
        for r in m.rows: r[:] = 0.0
        ctx.cell('op:empty'); self.hist.append(['empty', m.kind])

    def inner_op(self):
        op = self.ch.choice('inner', ['phases', 'write', 'TP', 'empty', 'reduce', 'view_write', 'parent_write'])
        getattr(self, 'op_' + op)()

    def op_temporary(self):
        """`s.temporary(flow, T, P)` saves on entry of the with-block and restores on exit (built on get_data/set_data).
        The context object may have been created earlier (deferred=1) or be entered again: what is restored is the state
        at entry, as the context-manager protocol implies and as the code does."""
        ch, ctx, s, m = self.ch, self.ctx, self.s, self.m
        modes = ['now', 'create'] + (['enter-held'] if self.temps else [])
        mode = ch.choice('mode', modes)
        if mode in ('now', 'create'):
            T = float(ch.float('tmp.T', *M.T_RANGE)) if ch.bool('tmp.T.given') else None
            P = float(ch.logfloat('tmp.P', 4, 6.69)) if ch.bool('tmp.P.given') else None
            flow = np.array(ch.flows('tmp.flow', m.pk.n), float) if ch.bool('tmp.flow.given') else None
            t = ctx.call('op.temporary', s.temporary, flow=flow, T=T, P=P, region=f'kind={m.kind}')
            entry = (t, flow, T, P)
            if mode == 'create':
                if len(self.temps) < 2: self.temps.append(entry)
                ctx.cell('temporary:created'); self.hist.append(['temporary', 'create']); return
            deferred = 0
        else:
            k = ch.int('held', 0, len(self.temps) - 1)
            entry = self.temps[k]; deferred = 1
        t, flow, T, P = entry
        region = f'deferred={deferred},kind={m.kind},flow={int(flow is not None)}'
        snap = m.snapshot(); snap['rows'] = [r.copy() for r in self.real_rows()]
        got = ctx.call('op.temporary.enter', t.__enter__, region=region)
        if got is not s:
            ctx.fail(f'op.temporary.enter|{region}|identity', 'the with-block did not receive the stream itself')
        if flow is not None: m.rows = [flow.copy() for _ in m.rows]
        if T is not None: m.T = T
        if P is not None: m.P = P
        m.last = 'temporary.enter'
        self.check_state('op.temporary.enter', region)
        for _ in range(ch.int('n_inner', 0, 2)):
            self.inner_op()
        ctx.call('op.temporary.exit', t.__exit__, None, None, None, region=region)
        src = m.kind
        if snap['kind'] == 'S': m.set_single(snap['labels'][0], snap['rows'][0])
        else: m.set_multi(snap['labels'], snap['rows'])
        m.T, m.P = snap['T'], snap['P']; m.last = 'temporary.exit'
        got = self.real_rows()
        if list(vs.phases_of(s)) != m.labels or got.shape != np.array(m.rows).shape or not np.array_equal(got, np.array(m.rows)) \
                or s.T != m.T or s.P != m.P:
            ctx.fail(f'op.temporary.exit|{region}|not-restored',
                     f'after the with-block: phases {vs.phases_of(s)} rows {got.tolist()} T,P {s.T!r},{s.P!r}; at entry {m.labels} '
                     f'{[r.tolist() for r in m.rows]} {m.T!r},{m.P!r}')
        ctx.cell('op:temporary'); ctx.cell(f'temporary:deferred={deferred}'); self.hist.append(['temporary', deferred, src])

    def op_snap(self):
        ctx, s, m = self.ctx, self.s, self.m
        if len(self.snaps) >= 4:
            return self.op_restore()
        d = ctx.call('op.get_data', s.get_data, region=f'kind={m.kind}')
        snap = m.snapshot()
        snap['rows'] = [r.copy() for r in self.real_rows()]     # dense value copy of the object's bits (checked == model)
        self.snaps.append((d, snap))
        ctx.cell('op:snap'); self.hist.append(['snap', m.kind])

    def restore_flags(self, snap):
        """(current material not representable in the snapshot's phase set,
            empty single-phase stream whose label is not in the snapshot's phase set)"""
        m = self.m
        target = snap['labels']
        if snap['kind'] != 'M':
            return False, False
        unrep = any(q not in target and twin(q) not in target for q in m.nonempty())
        elm = (m.kind == 'S' and not m.nonempty() and m.labels[0] not in target and twin(m.labels[0]) not in target)
        return unrep, elm

    def op_restore(self):
        ch, ctx, s, m = self.ch, self.ctx, self.s, self.m
        if not self.snaps:
            return self.op_snap()
        k = ch.int('snap', 0, len(self.snaps) - 1)
        d, snap = self.snaps[k]
        src, dst = m.kind, snap['kind']
        target = snap['labels']
        ne = m.nonempty()
        unrep, elm = self.restore_flags(snap)
        if (unrep and 'F2' in self.avoid) or False:
            ctx.cell('avoided:restore-onto-unrepresentable-contents')
            return self.op_TP()
        region = f'{src}->{dst},current-representable={int(not unrep)},empty-label-missing={int(elm)}'
        ctx.call('op.set_data', s.set_data, d, region=region)
        ctx.cell('op:restore'); ctx.cell(f'restore:{src}->{dst}')
        if dst == 'S':
            m.set_single(snap['labels'][0], snap['rows'][0])
        else:
            m.set_multi(snap['labels'], snap['rows'])
        m.T, m.P = snap['T'], snap['P']
        m.last = f'set_data[{k}]'
        if src != dst or (dst == 'M' and len([r for r in snap['rows'] if r.any()]) >= 2): self.nontrivial = True
        self.hist.append(['restore', src, dst])
        # restoring must reproduce the snapshot exactly (bit for bit: values are copied)
        got = self.real_rows()
        if list(vs.phases_of(s)) != m.labels or got.shape != np.array(m.rows).shape or not np.array_equal(got, np.array(m.rows)) \
                or s.T != m.T or s.P != m.P:
            ctx.fail(f'op.set_data|{region}|not-restored',
                     f'after set_data: phases {vs.phases_of(s)} rows {got.tolist()} T,P {s.T!r},{s.P!r}; snapshot {m.labels} '
                     f'{[r.tolist() for r in m.rows]} {m.T!r},{m.P!r}')


OPS = [('phases', 6), ('phase', 2), ('reduce', 2), ('as_stream', 1), ('solver', 2), ('view_write', 3), ('parent_write', 3),
       ('view_read', 2), ('write', 3), ('TP', 1), ('empty', 1), ('snap', 2), ('restore', 3), ('temporary', 3)]
OP_LIST = [n for n, w in OPS for _ in range(w)]


def prop_history(ch, ctx):
    M.reset_case()
    mode = ch.int('mode', 0, 8)
    enter = {5: 'F1', 6: 'F2', 7: 'F3', 8: 'F4'}.get(mode)
    avoid = {t for t in TAGS if t in LISTED and t != enter}
    spec = vs.draw_spec(ch, 's', list(chem.PACKAGES), T=M.T_RANGE, P=M.P_RANGE, min_phases=2)
    s = vs.build(spec)
    m = Model(spec)
    tmo.settings.set_thermo(chem.package(spec['pkg']))
    run = Run(ch, ctx, s, m, avoid)
    nsteps = ch.int('nsteps', 1, 30)
    run.check_state('init', 'new')
    for step in range(nsteps):
        op = ch.choice('op', OP_LIST)
        getattr(run, 'op_' + op)()
        run.check_state('step', f'after={op}')
        run.check_views(create_all='F1' not in avoid)
    # snapshots taken earlier must still describe the state they were taken in
    for k, (d, snap) in enumerate(run.snaps):
        src = m.kind
        unrep, elm = run.restore_flags(snap)
        if (unrep and 'F2' in avoid) or False:
            ctx.cell('avoided:restore-onto-unrepresentable-contents'); continue
        region = f'{src}->{snap["kind"]},current-representable={int(not unrep)},empty-label-missing={int(elm)}'
        ctx.call('final.set_data', s.set_data, d, region=region)
        if snap['kind'] == 'S': m.set_single(snap['labels'][0], snap['rows'][0])
        else: m.set_multi(snap['labels'], snap['rows'])
        m.T, m.P = snap['T'], snap['P']; m.last = f'final set_data[{k}]'
        got = run.real_rows()
        if list(vs.phases_of(s)) != m.labels or got.shape != np.array(m.rows).shape or not np.array_equal(got, np.array(m.rows)) \
                or s.T != m.T or s.P != m.P:
            ctx.fail(f'final.set_data|{region}|not-restored',
                     f'snapshot {k}: phases {vs.phases_of(s)} rows {got.tolist()} T,P {s.T!r},{s.P!r}; want {m.labels} '
                     f'{[r.tolist() for r in m.rows]} {m.T!r},{m.P!r}')
        ctx.cell('final:restore')
    if run.nontrivial:
        ctx.nontriv([spec['kind'], run.hist])


PROPS = {
    'history': (prop_history, 12000, 150000),
}
