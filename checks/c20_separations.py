"""C20 - separation helper functions close the material balance and meet their targets."""
from __future__ import annotations

import numpy as np
import thermosteam as tmo
from thermosteam import separations as sep
from thermosteam.exceptions import InfeasibleRegion, NoEquilibrium
from vlib import chem, runner

PROPERTY = 'C20'
RULE = ('Hypothesis draws a property package of 1-6 chemicals (Water, organics, a synthetic solid, phase-locked NaCl/O2/'
        'Glucose), feeds with flows 0 or 10**u (u in [-3,3]) and one helper configuration: mix_and_split (1-4 inlets, '
        'Stream or MultiStream, scalar/array split incl. 0 and 1, fresh/dirty/reused outlets); adjust_moisture_content and '
        'mix_and_split_with_moisture_content (moisture in (0,0.95), water constructed to be sufficient or insufficient, '
        'strict in None/False/True, moisture ID None/Water/another liquid, Stream or MultiStream pairs, packages in '
        'which water is registered as H2O); partition and '
        'phase_fraction (1..n equilibrium IDs in any order, K=10**u u in [-3,3] incl. exactly 1 and all<1/all>1, remaining '
        'chemicals forced to top/bottom/unlisted, fresh outlets, outlets reused by a second call with the same roles, or the '
        'two phases of the feed MultiStream as outlets like biosteam stages); lle wrapper (efficiency 0/1/[0,1], '
        'top_chemical, multi_stream reuse, feed aliased as top like biosteam SLLECentrifuge); vle wrapper (V-P, T-P, T-V, '
        'P-Q, binary x/y with T or P, multi_stream reuse, Stream or MultiStream feed); phase_split (MultiStream over any '
        'non-empty subset of s,l,g,S,L, fresh or dirty outlets, wrong outlet count; and multi-step: split, change the '
        'phase set of the same feed object via the phases setter / lle / vle / copy_like from a stream with other phases, '
        'split again into the matching number of outlets, 1-3 times); chemical_splits (a,b or a,mixed); '
        'material_balance (flow balance, exact or least-squares, 1-4 variable inlets with a constructed diagonally '
        'dominant composition matrix and positive true factors). Cross-package variants: the outlets of mix_and_split '
        'and of the moisture helpers (top only, bottom only, both), the outlets of phase_split, and the multi_stream + '
        'outlets of the vle/lle wrappers may live on another Chemicals object over the same species (reversed order, or '
        'rotated with one extra chemical); results are compared by CAS. Oracles are NumPy computations on dense snapshots '
        'taken before the call. Non-trivial: non-empty feed (partition: 0<phi<1 or forced chemicals; moisture: dry '
        'solids present). Distinct by (helper, package, mode flags, zero patterns, roles, spec kinds).')
ASSUMPTIONS = [
    'inlets of one call share one property package; outlets are on the same package or (drawn) on a permuted / '
    'superset package of the same species; the settings default is the top / retentate / outlet package',
    'split vectors are indexed like the top (retentate) outlet, on which split_to is invoked',
    'lle with multi_stream/outlets on another package than the feed only with efficiency = 1 (the bypass term is '
    'positional in the feed order); partition, chemical_splits and material_balance use positional arrays of one '
    'package and get no cross-package variant',
    'flows are finite and non-negative; K in [1e-3, 1e3]; moisture in (0, 0.95); efficiency in [0, 1]',
    'outlets are fresh, preloaded with unrelated data (must be overwritten), or reused by a second call with the same roles',
    'material_balance: composition matrix on the chosen chemicals is strictly diagonally dominant after a row '
    'permutation (cond <= ~1e3) and the true scale factors are positive',
    'vle/lle: exceptions documented for the equilibrium solvers (InfeasibleRegion, NoEquilibrium, NotImplementedError, '
    'solver RuntimeError) and numerical failures (ArithmeticError, AssertionError) raised from frames outside '
    'separations.py are rejections; the solvers themselves are judged by C03/C04/C15',
    'adjust_moisture_content on MultiStreams: both streams are MultiStreams and the moisture is held in phase l',
]
REQUIRED_CELLS = {
    'quick': ['mix_split:scalar', 'mix_split:array', 'mix_split:reuse', 'mix_split:xpkg=bottom', 'mix_split:xpkg=top',
              'mix_split:xpkg=both', 'moisture:xpkg=bottom', 'moisture:xpkg=top', 'moisture:xpkg=both', 'moisture:water-as-H2O,ID=None',
              'phase_split:xpkg', 'phase_split_seq:op=phases', 'phase_split_seq:op=lle', 'phase_split_seq:op=vle',
              'phase_split_seq:op=copy_like', 'phase_split_seq:phases-grown', 'lle:xpkg', 'vle:xpkg', 'vle:Q=0,int', 'vle:Q=0,float', 'vle:Q=nonzero,float', 'vle:Q=nonzero,int',
              'vle:energy-checked',
              'moisture:via=adjust', 'moisture:via=mix_split', 'moisture:sufficient', 'moisture:insufficient,strict',
              'moisture:insufficient,lenient', 'moisture:reached', 'moisture:kind=M', 'moisture:ID=other',
              'partition:mode=fresh', 'partition:mode=reuse', 'partition:mode=inplace', 'partition:phi=mid',
              'partition:phi=0', 'partition:phi=1', 'partition:forced', 'partition:K-checked', 'partition:c=1-checked',
              'lle:two-phase', 'lle:eff<1', 'lle:multi_stream', 'lle:alias', 'lle:second-call',
              'vle:two-phase', 'vle:multi_stream', 'vle:second-call', 'vle:spec=VP', 'vle:spec=TP', 'vle:spec=TV',
              'vle:spec=PQ', 'vle:spec=xy',
              'phase_split:n>=2', 'phase_split:wrong-count', 'chemical_splits:ab', 'chemical_splits:mixed',
              'material_balance:exact', 'material_balance:lstsq', 'material_balance:n>=2',
              'material_balance:exact,scaled', 'material_balance:lstsq,scaled'],
    'thorough': [],
}

TOL = 1e-12

# ---------------------------------------------------------------------------
# packages
POOL = {
    'g1': (('Water',), {}),
    'g2': (('Ethanol', 'Water'), {}),
    'g3': (('Water', 'Ethanol', 'Glycerol'), {}),
    'g4': (('Hexane', 'Water', 'Octanol', 'Ethanol'), {}),
    'g5': (('Water', 'Ethanol', 'NaCl', 'O2', 'Acetone'), {'NaCl': 's', 'O2': 'g'}),
    'g6': (('Water', 'Ethanol', 'Methanol', 'Propanol', 'Acetone', 'Hexane'), {}),
    'm2': (('Water', 'Solids'), {}),
    'm3': (('Glucose', 'Water', 'Ethanol'), {'Glucose': 's'}),
    'm4': (('Ethanol', 'Solids', 'Glycerol', 'Water'), {}),
    'h2': (('H2O', 'Solids'), {}),                       # water registered under another ID (CAS / 'water' still resolve)
    'h3': (('Ethanol', 'H2O', 'Glycerol'), {}),
    'e3': (('Water', 'Ethanol', 'Octanol'), {}),
    'e4': (('Hexane', 'Water', 'Acetone', 'Ethanol'), {}),
    'e3g': (('Water', 'Ethanol', 'O2'), {'O2': 'g'}),
}
GENPK = ['g1', 'g2', 'g3', 'g4', 'g5', 'g6']
MIXPK = ['g1', 'g2', 'g3', 'g5', 'g6', 'm2', 'm4']
MOISTPK = ['m2', 'm3', 'm4', 'g3', 'g2', 'h2', 'h3']
LLEPK = ['e3', 'e4', 'g6', 'g2']
VLEPK = ['g2', 'e3', 'e4', 'e3g', 'g6', 'g1']
SOLVER_REJECTIONS = (InfeasibleRegion, NoEquilibrium, NotImplementedError, RuntimeError)
# numerical failures raised from inside the equilibrium solvers (judged by C03/C04/C15, not by the wrappers)
SOLVER_NUMERICAL = (ArithmeticError, AssertionError)


def solver_call(ctx, site, what, fn, *args, region='any', numerical=None, **kw):
    """Call an lle/vle wrapper; documented solver rejections and numerical failures whose innermost
    thermosteam frame is outside separations.py end the case as 'rejected'."""
    numerical = SOLVER_NUMERICAL if numerical is None else numerical
    try:
        return ctx.call(site, fn, *args, allowed=SOLVER_REJECTIONS + numerical, region=region, **kw)
    except SOLVER_REJECTIONS as e:
        ctx.reject(f'{what}: {type(e).__name__}')
    except numerical as e:
        frame = runner.innermost_frame(e)
        if frame.startswith('separations.'):
            ctx.fail(f'{site}|{region}|exc:{type(e).__name__}@{frame}', f'{type(e).__name__}: {str(e)[:300]}')
        ctx.reject(f'{what}: {type(e).__name__}@{frame}')

_thermos = {}


def thermo(pid):
    """Cached Thermo of a pool package; 'pid~r' / 'pid~x' are the same species on ANOTHER Chemicals object:
    ~r reversed order, ~x rotated by one with one extra chemical inserted (a superset)."""
    th = _thermos.get(pid)
    if th is None:
        names, locked = pool_entry(pid)
        if 'Solids' in names:
            chems = [chem.chemical('Solids', default=True, search_db=False, phase='s') if n == 'Solids'
                     else chem.chemical(n, **({'phase': locked[n]} if n in locked else {})) for n in names]
            th = tmo.Thermo(tmo.Chemicals(chems))
            runner.register_chemicals(th.chemicals)
        else:
            th = chem.thermo_of(names, locked=locked, key=('C20', pid))   # own key: always a distinct Chemicals object
        _thermos[pid] = th
    return th


def pool_entry(pid):
    base, _, variant = pid.partition('~')
    names, locked = POOL[base]
    names = list(names)
    if variant == 'r':
        names = names[::-1]
    elif variant == 'x':
        extra = 'Propanol' if 'Propanol' not in names else 'Glycerol'
        names = names[1:] + names[:1]
        names.insert(1, extra)
    return tuple(names), locked


def names_of(pid):
    return list(pool_entry(pid)[0])


def cas_of(pid):
    return list(thermo(pid).chemicals.CASs)


def by_cas(s, cas):
    """Total molar flows of stream ``s`` as an array in the order of the CAS list ``cas`` (plain NumPy on the dense
    snapshot); chemicals of the stream that are not in ``cas`` are returned separately (they must stay empty)."""
    a = tot(s)
    own = list(s.chemicals.CASs)
    pos = {c: i for i, c in enumerate(own)}
    out = np.array([a[pos[c]] if c in pos else 0.0 for c in cas], float)
    extra = np.array([a[i] for i, c in enumerate(own) if c not in set(cas)], float)
    return out, extra


def place(flows, cas, th):
    """Flow vector given in the order of ``cas`` rearranged to the chemical order of package ``th``."""
    pos = {c: i for i, c in enumerate(th.chemicals.CASs)}
    out = np.zeros(len(pos))
    for c, v in zip(cas, flows):
        out[pos[c]] = v
    return out


# ---------------------------------------------------------------------------
# small helpers
def arr2(s):
    """Dense (phases x chemicals) snapshot."""
    a = s.imol.data.to_array()
    return (a.reshape(1, -1) if a.ndim == 1 else a).copy()


def tot(s):
    return arr2(s).sum(axis=0)


def mk(th, flows, phase='l', T=298.15, P=101325.):
    return tmo.Stream(None, flow=np.array(flows, float), phase=phase, T=T, P=P, thermo=th)


def mk_multi(th, phases, rows, T=298.15, P=101325.):
    s = tmo.MultiStream(None, phases=tuple(phases), T=T, P=P, thermo=th)
    for p, row in zip(phases, rows):
        d = s.imol.data.rows[s.imol.get_phase_index(p)].dct
        for i, v in enumerate(row):
            if v: d[i] = float(v)
    return s


def zp(v):
    return [1 if x else 0 for x in v]


def draw_inlet(ch, tag, th, n, multi_ok=True, T=(280., 400.)):
    """A Stream (l or g) or a MultiStream over (l, g); returns (stream, structural key)."""
    kind = ch.choice(f'{tag}.kind', ['S', 'S', 'S', 'M'] if multi_ok else ['S'])
    Tv = ch.float(f'{tag}.T', *T)
    P = ch.logfloat(f'{tag}.P', 4, 6.5)
    if kind == 'S':
        ph = ch.choice(f'{tag}.phase', ['l', 'l', 'g'])
        fl = ch.flows(f'{tag}.flow', n)
        return mk(th, fl, ph, Tv, P), ['S', ph, zp(fl)]
    rows = [ch.flows(f'{tag}.{p}.flow', n) for p in ('l', 'g')]
    return mk_multi(th, ('l', 'g'), rows, Tv, P), ['M', [zp(r) for r in rows]]


def draw_outlet(ch, tag, th, n, dirty):
    if not dirty:
        return tmo.Stream(None, thermo=th)
    return mk(th, ch.flows(f'{tag}.dirt', n), ch.choice(f'{tag}.dirt.phase', ['l', 'g']),
              ch.float(f'{tag}.dirt.T', 280., 400.), 2e5)


def draw_split(ch, tag, n):
    kind = ch.choice(f'{tag}.split.kind', ['scalar', 'array', 'array', 'zero', 'one'])
    if kind == 'scalar': return kind, ch.float(f'{tag}.split', 0.0, 1.0)
    if kind == 'zero': return kind, 0.0
    if kind == 'one': return kind, 1.0
    from hypothesis import strategies as st
    elem = st.one_of(st.sampled_from([0.0, 1.0, 0.5]), st.floats(0.0, 1.0, allow_nan=False, allow_subnormal=False))
    return kind, ch.draw(f'{tag}.split', st.lists(elem, min_size=n, max_size=n))


def check_close(ctx, got, want, scale, sig, what, tol=TOL, metric=None):
    got = np.asarray(got, float); want = np.asarray(want, float)
    err = float(np.abs(got - want).max()) if got.size and got.shape == want.shape else float('inf')
    if not got.size: err = 0.0
    if got.shape != want.shape or not err <= tol * scale:
        ctx.fail(sig, f'{what}: got {got.tolist()} want {want.tolist()} (max abs err {err:.3g}, scale {scale:.3g})')
    if metric: ctx.metric_max(metric, err / scale)      # head-room of passing cases only


def check_nonneg(ctx, a, scale, sig, what):
    a = np.asarray(a, float)
    if a.size and (a < -TOL * scale).any():
        ctx.fail(sig, f'{what}: negative flow {float(a.min())!r} in {a.tolist()}')


# ---------------------------------------------------------------------------
# mix_and_split
XPKG = ['none', 'none', 'none', 'bottom', 'top', 'both']     # which outlets live on another Chemicals object


def outlet_packages(ch, pid, label='xpkg'):
    """(top package id, bottom package id) for a drawn cross-package configuration.  'top'/'both': the top outlet
    (receiver of the mix, owner of the split vector) is on a permuted / superset package of the inlets' species;
    'bottom'/'both': the bottom outlet is on another package than the top outlet."""
    x = ch.choice(label, XPKG)
    if x == 'none': return x, pid, pid
    v = ch.choice(label + '.variant', ['r', 'x'])
    o = 'x' if v == 'r' else 'r'
    if x == 'bottom': return x, pid, f'{pid}~{v}'
    if x == 'top': return x, f'{pid}~{v}', f'{pid}~{v}'
    return x, f'{pid}~{v}', f'{pid}~{o}'


def prop_mix_split(ch, ctx):
    pid = ch.choice('pkg', MIXPK)
    th = thermo(pid)
    n = len(names_of(pid))
    cas = cas_of(pid)
    outs = ch.choice('outs', ['fresh', 'fresh', 'dirty', 'reuse'])
    xp, tpid, bpid = outlet_packages(ch, pid)
    tht, thb = thermo(tpid), thermo(bpid)
    tmo.settings.set_thermo(tht)
    top = draw_outlet(ch, 'top', tht, len(names_of(tpid)), outs == 'dirty')
    bottom = draw_outlet(ch, 'bottom', thb, len(names_of(bpid)), outs == 'dirty')
    ncall = 2 if outs == 'reuse' else 1
    for c in range(ncall):
        nin = ch.int(f'c{c}.n', 1, 4)
        drawn = [draw_inlet(ch, f'c{c}.in{i}', th, n) for i in range(nin)]
        ins = [d[0] for d in drawn]
        skind, split = draw_split(ch, f'c{c}', n)
        before = [arr2(s) for s in ins]
        F = sum(b.sum(axis=0) for b in before)
        sv = np.ones(n) * np.array(split, float)               # per chemical of the inlets' package (CAS order `cas`)
        multi = any(d[1][0] == 'M' for d in drawn)
        region = (f'outs={outs},call={c},multi={int(multi)},split={"array" if skind == "array" else "scalar"},'
                  f'xpkg={xp}')
        ctx.cell('mix_split:' + ('array' if skind == 'array' else 'scalar'))
        ctx.cell('mix_split:xpkg=' + xp)
        if c: ctx.cell('mix_split:reuse')
        if multi: ctx.cell('mix_split:multi-inlet')
        if skind == 'array':
            # the split vector is indexed like the top outlet (split_to is called on it); species absent from the
            # inlets get 0.5
            arg = np.full(len(tht.chemicals), 0.5)
            pos = {k: i for i, k in enumerate(tht.chemicals.CASs)}
            for k, v in zip(cas, sv): arg[pos[k]] = v
        else:
            arg = split
        ctx.call('mix_and_split', sep.mix_and_split, ins, top, bottom, arg, region=region)
        scale = max(1.0, float(F.max()))
        (t, te), (b, be) = by_cas(top, cas), by_cas(bottom, cas)
        check_close(ctx, t + b, F, scale, f'mix_and_split|{region}|balance', 'top+bottom vs sum of inlets',
                    metric='mix_split:balance')
        check_close(ctx, t, F * sv, scale, f'mix_and_split|{region}|target', 'top vs split*feed', metric='mix_split:top')
        check_nonneg(ctx, np.concatenate([t, b]), scale, f'mix_and_split|{region}|negative', 'outlets')
        if te.any() or be.any():
            ctx.fail(f'mix_and_split|{region}|foreign-chemical', f'species absent from the inlets appear in the outlets: '
                     f'top {te.tolist()} bottom {be.tolist()}')
        for k, (s, b0) in enumerate(zip(ins, before)):
            if not np.array_equal(arr2(s), b0):
                ctx.fail(f'mix_and_split|{region}|inlet-modified', f'inlet {k} changed')
        if F.any():
            ctx.nontriv(['mix_split', pid, tpid, bpid, outs, c, skind, [d[1] for d in drawn],
                         zp(sv) if skind == 'array' else None])


# ---------------------------------------------------------------------------
# moisture content
def _moisture_index(ch, pid, names):
    idk = ch.choice('ID', ['none', 'none', 'none', 'water-name', 'other'])
    others = [x for x in names if x in ('Ethanol', 'Glycerol')]
    if idk == 'other' and not others: idk = 'water-name'
    wname = 'Water' if 'Water' in names else 'H2O'      # the ID under which water is registered in this package
    if idk == 'none': return idk, None, names.index(wname)
    if idk == 'water-name': return idk, wname, names.index(wname)
    nm = ch.choice('ID.other', others)
    return idk, nm, names.index(nm)


def prop_moisture(ch, ctx):
    pid = ch.choice('pkg', MOISTPK)
    th = thermo(pid); tmo.settings.set_thermo(th)
    names = names_of(pid); n = len(names)
    MW = np.array([float(c.MW) for c in th.chemicals], float)
    via = ch.choice('via', ['adjust', 'adjust', 'mix_split'])
    idk, ID, w = _moisture_index(ch, pid, names)
    mc = ch.choice('mc.special', [None, None, None, 0.5, 0.1, 0.9])
    if mc is None: mc = ch.float('mc', 0.001, 0.949)
    strict = {'None': None, 'False': False, 'True': True}[ch.choice('strict', ['None', 'False', 'True'])]
    sufficient = ch.int('sufficient', 0, 3) != 0
    kind = 'S'
    if via == 'adjust' and ch.int('multi', 0, 4) == 0: kind = 'M'
    notw = np.arange(n) != w
    cas = cas_of(pid)
    # retentate / permeate on another Chemicals object (Stream pairs only; the helper addresses both by name / CAS)
    xp, rpid, ppid = outlet_packages(ch, pid) if kind == 'S' else ('none', pid, pid)
    thr, thp = thermo(rpid), thermo(ppid)
    tmo.settings.set_thermo(thr)

    if via == 'adjust':
        r = np.array(ch.flows('ret', n), float)
        p = np.array(ch.flows('perm', n), float)
        if not sufficient and not (r[notw] > 0).any():
            r[int(np.where(notw)[0][0])] = 1.0
        dry = float((r * MW)[notw].sum())
        need = dry * mc / (1. - mc) / MW[w]
        if sufficient:
            slack = ch.logfloat('slack', -6, 1)
            extra = ch.choice('extra', [0.0, 0.0, 1.0, 100.0])
            deficit = max(0.0, need - r[w])
            p[w] = deficit * (1. + slack) + 1e-9 * (r[w] + need) + extra
        else:
            frac = ch.float('frac', 0.0, 0.999); share = ch.float('share', 0.0, 1.0)
            r[w] = need * frac * share; p[w] = need * frac * (1. - share)
        if kind == 'S':
            ret = mk(thr, place(r, cas, thr), 'l', 300., 101325.); perm = mk(thp, place(p, cas, thp), 'l', 300., 101325.)
        else:
            # non-moisture material of each stream sits in phase s or l (drawn), moisture in l
            rs = np.array(ch.draw('ret.in_s', _mask(n)), float) * notw
            ps = np.array(ch.draw('perm.in_s', _mask(n)), float) * notw
            ret = mk_multi(th, ('s', 'l'), [r * rs, r * (1 - rs)], 300., 101325.)
            perm = mk_multi(th, ('s', 'l'), [p * ps, p * (1 - ps)], 300., 101325.)
        ret0, perm0 = r.copy(), p.copy()
        call = lambda: sep.adjust_moisture_content(ret, perm, mc, ID, strict)
        site = 'adjust_moisture_content'
        skey = [zp(r), zp(p)]
    else:
        nin = ch.int('n', 1, 3)
        flows = []
        for i in range(nin):
            f = np.array(ch.flows(f'in{i}.flow', n), float); f[w] = 0.0
            flows.append(f)
        sk = ch.choice('split.kind', ['array-w0', 'array-w0', 'array', 'scalar'])
        if sk == 'scalar':
            sv = np.ones(n) * ch.float('split', 0.0, 1.0)
        else:
            from hypothesis import strategies as st
            elem = st.one_of(st.sampled_from([0.0, 1.0, 0.5]), st.floats(0.0, 1.0, allow_nan=False, allow_subnormal=False))
            sv = np.array(ch.draw('split', st.lists(elem, min_size=n, max_size=n)), float)
            if sk == 'array-w0': sv[w] = 0.0   # biosteam SolidsSeparator pins the moisture split to 0
        F = sum(flows)
        if not sufficient and not ((F * sv)[notw] > 0).any():
            j = int(np.where(notw)[0][0]); flows[0][j] = 1.0; F = sum(flows)
            if sk == 'scalar': sv[:] = max(float(sv[0]), 0.5)
            else: sv[j] = max(sv[j], 0.5)
        dry = float((F * sv * MW)[notw].sum())
        need = dry * mc / (1. - mc) / MW[w]
        if sufficient:
            slack = ch.logfloat('slack', -6, 1)
            extra = ch.choice('extra', [0.0, 0.0, 1.0, 100.0])
            W = need * (1. + slack) + 1e-9 * need + extra
        else:
            W = need * ch.float('frac', 0.0, 0.999)
        wash = np.zeros(n); wash[w] = W
        flows.append(wash)
        ins = [mk(th, f, 'l', 300. + 5 * i, 101325.) for i, f in enumerate(flows)]
        F = sum(flows)
        ret0 = F * sv; perm0 = F - ret0
        ret = tmo.Stream(None, thermo=thr); perm = tmo.Stream(None, thermo=thp)
        if sk == 'scalar':
            arg = float(sv[0])
        else:                                        # indexed like the retentate (receiver of the mix)
            arg = np.full(len(thr.chemicals), 0.5)
            arg[:] = place(sv, cas, thr) + 0.5 * (place(np.ones(n), cas, thr) == 0)
        call = lambda: sep.mix_and_split_with_moisture_content(ins, ret, perm, arg, mc, ID, strict)
        site = 'mix_and_split_with_moisture_content'
        skey = [[zp(f) for f in flows], sk, zp(sv)]

    total0 = ret0 + perm0
    region = (f'kind={kind},ID={idk},sufficient={int(sufficient)},strict={strict}' + (f',xpkg={xp}' if xp != 'none' else '')
              + (',water=H2O' if 'H2O' in names else ''))
    ctx.cell('moisture:via=' + via); ctx.cell('moisture:kind=' + kind); ctx.cell('moisture:ID=' + idk)
    ctx.cell('moisture:xpkg=' + xp)
    if 'H2O' in names: ctx.cell('moisture:water-as-H2O' + (',ID=None' if ID is None else ''))
    scale = max(1.0, float(total0.max()), float(need))
    raised = False
    try:
        ctx.call(site, call, allowed=(InfeasibleRegion,), region=region)
    except InfeasibleRegion as e:
        raised = True
    (r1, r1x), (p1, p1x) = by_cas(ret, cas), by_cas(perm, cas)
    if r1x.any() or p1x.any():
        ctx.fail(f'{site}|{region}|foreign-chemical', f'species absent from the inputs appear: {r1x.tolist()} {p1x.tolist()}')
    if sufficient:
        ctx.cell('moisture:sufficient')
        if raised:
            ctx.fail(f'{site}|{region}|spurious-infeasible', f'InfeasibleRegion although water suffices: need {need!r}, '
                     f'available {float(total0[w])!r}')
    else:
        ctx.cell('moisture:insufficient,' + ('lenient' if strict is False else 'strict'))
        if raised:
            if strict is False:
                ctx.fail(f'{site}|{region}|raised-when-lenient', 'InfeasibleRegion raised with strict=False')
            ctx.cell('moisture:infeasible-raised')
            return
        if strict is not False:
            ctx.fail(f'{site}|{region}|infeasible-not-reported', f'need {need!r} kmol moisture, only '
                     f'{float(total0[w])!r} available, no InfeasibleRegion; permeate moisture {float(p1[w])!r}')
    # material balance, non-negativity, untouched chemicals
    check_close(ctx, r1 + p1, total0, scale, f'{site}|{region}|balance', 'retentate+permeate vs before',
                metric='moisture:balance')
    check_nonneg(ctx, np.concatenate([r1, p1]), scale, f'{site}|{region}|negative', 'outlets')
    check_close(ctx, r1[notw], ret0[notw], scale, f'{site}|{region}|other-chemical-moved', 'retentate non-moisture')
    check_close(ctx, p1[notw], perm0[notw], scale, f'{site}|{region}|other-chemical-moved', 'permeate non-moisture')
    if sufficient and dry > 0:
        achieved = r1[w] * MW[w] / float((r1 * MW).sum())
        F_mass0 = float((ret0 * MW).sum())
        tol = 1e-13 + 1e-14 * F_mass0 / dry          # dry mass is F_mass - MW*water in the code: cancellation
        ctx.metric_max('moisture:fraction_err/tol', abs(achieved - mc) / tol)
        ctx.cell('moisture:reached')
        if not abs(achieved - mc) <= tol:
            ctx.fail(f'{site}|{region}|target', f'moisture fraction {achieved!r}, requested {mc!r}')
        ctx.nontriv(['moisture', via, pid, rpid, ppid, kind, idk, str(strict), skey])
    elif not sufficient:
        ctx.nontriv(['moisture-clip', via, pid, rpid, ppid, kind, idk, skey])


def _mask(n):
    from hypothesis import strategies as st
    return st.lists(st.sampled_from([0, 1]), min_size=n, max_size=n)


# ---------------------------------------------------------------------------
# partition / phase_fraction
def prop_partition(ch, ctx):
    pid = ch.choice('pkg', GENPK)
    th = thermo(pid); tmo.settings.set_thermo(th)
    names = names_of(pid); n = len(names)
    mode = ch.choice('mode', ['fresh', 'fresh', 'reuse', 'inplace'])
    order = ch.permutation('order', n)
    nid = ch.int('nIDs', 1, n)
    if nid == 1 and n > 1 and ch.int('nIDs.keep1', 0, 2): nid = 2      # a single equilibrium chemical never splits
    idx = order[:nid]
    IDs = tuple(names[i] for i in idx)
    topi, boti, otheri = [], [], []
    for i in order[nid:]:
        role = ch.choice(f'role.{names[i]}', ['top', 'bottom', 'other'])
        (topi if role == 'top' else boti if role == 'bottom' else otheri).append(i)
    top_chemicals = tuple(names[i] for i in topi) or None
    bottom_chemicals = tuple(names[i] for i in boti) or None
    if len(boti) == 1 and ch.bool('bottom.as_str'):
        bottom_chemicals = names[boti[0]]          # form used by the docstring example
    phi0 = ch.choice('phi0', [None, 0.5, 'x'])
    if phi0 == 'x': phi0 = ch.float('phi0.x', 0.01, 0.99)
    strict = ch.bool('strict')
    ncall = 2 if mode == 'reuse' else 1
    top = bottom = None
    if mode != 'inplace':
        top = tmo.Stream(None, thermo=th); bottom = tmo.Stream(None, thermo=th)
    for c in range(ncall):
        kclass = ch.choice(f'c{c}.Kclass', ['mixed', 'mixed', 'mixed', 'all<1', 'all>1'])
        K = []
        for nm in IDs:
            if ch.int(f'c{c}.K.{nm}.one', 0, 9) == 0:
                K.append(1.0); continue
            k = ch.logfloat(f'c{c}.K.{nm}', -3, 3)
            if kclass == 'all<1' and k > 1: k = 1. / k
            if kclass == 'all>1' and k < 1: k = 1. / k
            K.append(k)
        K = np.array(K, float)
        if mode == 'inplace':
            pp = ch.choice('phases', [['g', 'l'], ['L', 'l']])
            rows = [ch.flows(f'feed.{p}', n) for p in pp]
            feed = mk_multi(th, pp, rows, 320., 101325.)
            top, bottom = feed
            F = np.array(rows, float).sum(axis=0)
            fkey = [zp(r) for r in rows]
        else:
            fl = ch.flows(f'c{c}.feed', n)
            if ch.bool(f'c{c}.feed.dense'):             # every equilibrium chemical present
                fl = [v if (v or i not in idx) else 1.0 for i, v in enumerate(fl)]
            feed = mk(th, fl, 'l', 320., 101325.)
            F = np.array(fl, float)
            fkey = zp(fl)
        f_before = arr2(feed)
        forced = bool(F[topi].any() or F[boti].any())
        nclass = '1' if nid == 1 else '2' if nid == 2 else '3+'
        part = list(idx) + topi + boti
        empty = not F[part].any()                      # no equilibrium or forced chemical in the feed
        stale = bool(tot(bottom)[list(idx)].any())     # bottom outlet already holds equilibrium chemicals
        base = (f'mode={mode},call={c},N={nclass},forced={int(bool(topi))}{int(bool(boti))},other={int(bool(otheri))},'
                f'empty={int(empty)},stale={int(stale)}')
        if empty: ctx.cell('partition:empty-feed')
        if stale: ctx.cell('partition:stale-bottom')
        ctx.cell('partition:mode=' + mode)
        kw = dict(top_chemicals=top_chemicals, bottom_chemicals=bottom_chemicals, strict=strict)
        # phase_fraction is a pure function of the feed
        phi_pf = None
        # (an empty feed makes both helpers fail the same way: exercise one of them per case so both are tallied)
        if not empty or ch.bool(f'c{c}.empty.phase_fraction'):
            try:
                phi_pf = ctx.call('phase_fraction', sep.phase_fraction, feed, IDs, K.copy(), phi0,
                                  allowed=(InfeasibleRegion,), region=base, **kw)
            except InfeasibleRegion:
                ctx.cell('partition:infeasible-raised')
        if not np.array_equal(arr2(feed), f_before):
            ctx.fail(f'phase_fraction|{base}|feed-modified', 'phase_fraction changed the feed')
        try:
            phi = ctx.call('partition', sep.partition, feed, top, bottom, IDs, K.copy(), phi0,
                           allowed=(InfeasibleRegion,), region=base, **kw)
        except InfeasibleRegion:
            ctx.cell('partition:infeasible-raised')
            if mode == 'reuse' and c == 0: ctx.reject('first call of a reuse pair reported infeasibility')
            return
        pc = '0' if phi == 0 else '1' if phi == 1 else 'mid'
        region = f'{base},phi={pc}'
        ctx.cell('partition:phi=' + pc)
        if c: ctx.cell('partition:second-call')
        if forced: ctx.cell('partition:forced')
        if not (0. <= phi <= 1.):
            ctx.fail(f'partition|{region}|phi-range', f'phi={phi!r}')
        if phi_pf is not None and not abs(phi_pf - phi) <= 1e-12:
            ctx.fail(f'phase_fraction|{region}|differs-from-partition', f'phase_fraction {phi_pf!r}, partition {phi!r}')
        t, b = tot(top), tot(bottom)
        scale = max(1.0, float(F.max()))
        if mode != 'inplace' and not np.array_equal(arr2(feed), f_before):
            ctx.fail(f'partition|{region}|feed-modified', 'partition changed the feed')
        check_close(ctx, t + b, F, scale, f'partition|{region}|balance', 'top+bottom vs feed', metric='partition:balance')
        check_nonneg(ctx, np.concatenate([t, b]), scale, f'partition|{region}|negative', 'outlets')
        # forced chemicals, unlisted chemicals
        if topi:
            check_close(ctx, b[topi], 0 * F[topi], scale, f'partition|{region}|forced-top', 'top_chemicals found in bottom')
        if boti:
            check_close(ctx, t[boti], 0 * F[boti], scale, f'partition|{region}|forced-bottom', 'bottom_chemicals found in top')
        if otheri and mode != 'inplace':
            check_close(ctx, b[otheri], 0 * F[otheri], scale, f'partition|{region}|unlisted-not-top',
                        'chemicals not in equilibrium found in bottom')
        # the returned phase fraction describes the outlets (equilibrium + forced chemicals)
        Fp = float(F[part].sum())
        if Fp > 0 and F[list(idx)].sum() > 0:
            frac = float(t[part].sum()) / Fp
            err = abs(frac - phi)
            if pc == 'mid': ctx.metric_max('partition:phi_vs_outlets(mid)', err)
            if not err <= (1e-9 if pc == 'mid' else 1e-12):
                ctx.fail(f'partition|{region}|phi-vs-outlets', f'returned phi {phi!r} but top holds fraction {frac!r} '
                         f'of the partitioning material; top {t.tolist()} bottom {b.tolist()}')
        # K reproduced up to one common factor
        live = [j for j, i in enumerate(idx) if F[i] > 0]
        if pc == 'mid' and len(live) >= 1:
            ti = np.array([t[idx[j]] for j in live]); bi = np.array([b[idx[j]] for j in live])
            Fi = np.array([F[idx[j]] for j in live]); Ki = K[live]
            if (ti > 0).all() and (bi > 0).all():
                r = ti / (bi * Ki)
                tolr = 1e-12 + 1e-14 * (Fi / ti + Fi / bi)
                jref = int(np.argmin(tolr))            # the best-conditioned chemical defines the common factor
                dev = np.abs(r / r[jref] - 1.)
                tolr = tolr + tolr[jref]
                ctx.metric_max('partition:K-ratio-dev/tol', float((dev / tolr).max()))
                ctx.cell('partition:K-checked')
                if not (dev <= tolr).all():
                    ctx.fail(f'partition|{region}|K-ratio', f'(top_i/bottom_i)/K_i not constant: {r.tolist()} for K={Ki.tolist()}')
                if not forced:
                    # no forced chemicals: mole fractions over the equilibrium chemicals reproduce K itself (c = 1)
                    y = ti / ti.sum(); x = bi / bi.sum()
                    c1 = float(np.abs(y / (x * Ki) - 1.).max())
                    ctx.metric_max('partition:|c-1|', c1)
                    ctx.cell('partition:c=1-checked')
                    if not c1 <= 1e-9 + 10 * float(tolr.max()):
                        ctx.fail(f'partition|{region}|K-factor', f'y/x = {(y / x).tolist()} but K = {Ki.tolist()} (phi={phi!r})')
                    # round trip through the library's inverse helper
                    Kb = ctx.call('partition_coefficients', sep.partition_coefficients, tuple(IDs[j] for j in live),
                                  top, bottom, region=region)
                    if not np.allclose(Kb, Ki, rtol=1e-8 + 10 * float(tolr.max()), atol=0):
                        ctx.fail(f'partition_coefficients|{region}|round-trip', f'K back {np.asarray(Kb).tolist()} vs {Ki.tolist()}')
        # observation outside the property text: side chosen when no two-phase solution exists
        if not forced and len(live) == len(idx) and pc != 'mid':
            if (K < 1).all(): ctx.cell(f'obs:allK<1,N={nclass}->phi={pc}')
            if (K > 1).all(): ctx.cell(f'obs:allK>1,N={nclass}->phi={pc}')
        if F.any() and (pc == 'mid' or forced):
            ctx.nontriv(['partition', pid, mode, c, list(idx), topi, boti, otheri, fkey, pc,
                         [0 if k == 1 else (1 if k > 1 else -1) for k in K.tolist()], isinstance(bottom_chemicals, str)])


# ---------------------------------------------------------------------------
# lle wrapper
def prop_lle(ch, ctx):
    pid = ch.choice('pkg', LLEPK)
    th = thermo(pid); tmo.settings.set_thermo(th)
    names = names_of(pid); n = len(names)
    use_ms = ch.bool('multi_stream')
    alias = (not use_ms) and ch.int('alias', 0, 2) == 0     # biosteam SLLECentrifuge: lle(top, top, bottom, ...)
    ncall = 1 if alias else ch.choice('ncall', [1, 1, 2])
    # multi_stream and outlets on another Chemicals object than the feed: ms.copy_like(feed) maps by CAS and the
    # outlets are filled positionally from the multi_stream; the bypass term (1-eff)/2*feed.mol is positional in the
    # FEED's order, so this configuration is only generated with efficiency = 1
    xms = ch.choice('xms', ['none', 'none', 'none', 'r', 'x']) if use_ms else 'none'
    opid = pid if xms == 'none' else f'{pid}~{xms}'
    tho = thermo(opid)
    cas = cas_of(pid)
    if xms != 'none': tmo.settings.set_thermo(tho)
    top = tmo.Stream(None, thermo=tho); bottom = tmo.Stream(None, thermo=tho)
    ms = tmo.MultiStream(None, phases=('l', 'L'), thermo=tho) if use_ms else None
    for c in range(ncall):
        fl = ch.flows(f'c{c}.feed', n, -2, 2)
        T = ch.float(f'c{c}.T', 290., 350.)
        tc = ch.choice(f'c{c}.top_chemical', [None] + names)
        if xms != 'none':
            eff = 1.0
        else:
            eff = ch.choice(f'c{c}.eff.special', [1.0, 1.0, 0.0, None, None])
            if eff is None: eff = ch.float(f'c{c}.eff', 0.0, 1.0)
        feed = mk(th, fl, 'l', T, 101325.)
        if alias: top = feed
        F = np.array(fl, float)
        region = (f'alias={int(alias)},ms={int(use_ms)},call={c},eff={"1" if eff == 1 else "<1"},tc={int(tc is not None)}'
                  + (',xpkg=1' if xms != 'none' else ''))
        if xms != 'none': ctx.cell('lle:xpkg')
        if use_ms: ctx.cell('lle:multi_stream')
        if alias: ctx.cell('lle:alias')
        if eff < 1: ctx.cell('lle:eff<1')
        if c: ctx.cell('lle:second-call')
        solver_call(ctx, 'lle', 'lle solver', sep.lle, feed, top, bottom, tc, eff, ms, region=region)
        (t, tx), (b, bx) = by_cas(top, cas), by_cas(bottom, cas)
        if tx.any() or bx.any():
            ctx.fail(f'lle|{region}|foreign-chemical', f'species absent from the feed: {tx.tolist()} {bx.tolist()}')
        scale = max(1.0, float(F.max()))
        check_close(ctx, t + b, F, scale, f'lle|{region}|balance', 'top+bottom vs feed', metric='lle:balance')
        check_nonneg(ctx, np.concatenate([t, b]), scale, f'lle|{region}|negative', 'outlets')
        if not alias and not np.array_equal(tot(feed), F):
            ctx.fail(f'lle|{region}|feed-modified', 'feed changed')
        if top.T != T or bottom.T != T:
            ctx.fail(f'lle|{region}|T', f'outlet temperatures {top.T!r}, {bottom.T!r}, feed {T!r}')
        if use_ms:
            pos = {k: i for i, k in enumerate(ms.chemicals.CASs)}
            m = arr2(ms)[:, [pos[k] for k in cas]]
            check_close(ctx, m.sum(axis=0), F, scale, f'lle|{region}|multi_stream-balance', 'multi_stream total vs feed')
            # the multi_stream holds the equilibrium phases; outlets are eff*phase + (1-eff)/2*feed
            mix = (1. - eff) / 2. * F
            cands = [eff * m[0] + mix, eff * m[1] + mix]
            e1 = max(np.abs(t - cands[0]).max(), np.abs(b - cands[1]).max())
            e2 = max(np.abs(t - cands[1]).max(), np.abs(b - cands[0]).max())
            ctx.metric_max('lle:efficiency-mix', min(e1, e2) / scale)
            if not min(e1, e2) <= 1e-12 * scale:
                ctx.fail(f'lle|{region}|efficiency', f'outlets are not eff*phase+(1-eff)/2*feed: top {t.tolist()} bottom '
                         f'{b.tolist()} phases {m.tolist()} eff {eff!r}')
        two = bool(t.any() and b.any())
        if two and eff == 1: ctx.cell('lle:two-phase')
        if F.any():
            ctx.nontriv(['lle', pid, xms, alias, use_ms, c, zp(fl), tc, 0 if eff == 0 else 1 if eff == 1 else 0.5, two])


# ---------------------------------------------------------------------------
# vle wrapper
def prop_vle(ch, ctx):
    binary = ch.int('binary', 0, 4) == 0                    # x / y specifications need a binary package
    pid = 'g2' if binary else ch.choice('pkg', VLEPK)
    th = thermo(pid); tmo.settings.set_thermo(th)
    names = names_of(pid); n = len(names)
    use_ms = ch.bool('multi_stream')
    ncall = ch.choice('ncall', [1, 1, 2])
    dirty = ch.int('dirty', 0, 3) == 0
    # multi_stream and outlets on another Chemicals object than the feed (ms.copy_like(feed) maps by CAS, the outlets
    # are filled positionally from the multi_stream)
    xms = ch.choice('xms', ['none', 'none', 'none', 'r', 'x']) if use_ms else 'none'
    opid = pid if xms == 'none' else f'{pid}~{xms}'
    tho = thermo(opid)
    cas = cas_of(pid)
    if xms != 'none': tmo.settings.set_thermo(tho)
    no = len(names_of(opid))
    vap = draw_outlet(ch, 'vap', tho, no, dirty); liq = draw_outlet(ch, 'liq', tho, no, dirty)
    ms = tmo.MultiStream(None, phases=('l', 'g'), thermo=tho) if use_ms else None
    for c in range(ncall):
        fk = ch.choice(f'c{c}.feed.kind', ['l', 'l', 'l', 'g', 'M'])
        Tf = ch.float(f'c{c}.feed.T', 290., 440.)
        if fk == 'M':
            rows = [ch.flows(f'c{c}.feed.{p}', n, -2, 2) for p in ('l', 'g')]
            feed = mk_multi(th, ('l', 'g'), rows, Tf, 101325.)
            F = np.array(rows, float).sum(axis=0); fkey = [zp(r) for r in rows]
        else:
            fl = ch.flows(f'c{c}.feed', n, -2, 2)
            if binary: fl = [v or 1.0 for v in fl]       # x / y specifications are defined for two-component feeds
            if POOL[pid][1] and ch.int(f'c{c}.feed.only_locked', 0, 3) == 3:
                # only the phase-locked (non-condensable) chemicals: nothing takes part in the equilibrium
                fl = [(v or 1.0) if names[i] in POOL[pid][1] else 0.0 for i, v in enumerate(fl)]
            feed = mk(th, fl, fk, Tf, 101325.)
            F = np.array(fl, float); fkey = zp(fl)
        spec = ch.choice(f'c{c}.spec', ['xP', 'yP', 'xT', 'yT', 'VP'] if binary else
                         ['VP', 'VP', 'TP', 'TP', 'TV', 'PQ', 'PQ', 'PQ', 'TQ'])
        P = ch.logfloat(f'c{c}.P', 4, 6)
        T = ch.float(f'c{c}.T', 300., 420.)
        V = ch.choice(f'c{c}.V.special', [None, None, 0.0, 1.0, 0.5])
        if V is None: V = ch.float(f'c{c}.V', 0.0, 1.0)
        q = ch.float(f'c{c}.q', -2e4, 6e4)
        # duty: adiabatic (exactly 0 as int or float), or q kJ per kmol of feed (int or float)
        qk = ch.choice(f'c{c}.Q.kind', ['float', 'zero-int', 'zero-float', 'float', 'int']) if spec[1] == 'Q' else 'float'
        Q = q * float(F.sum())
        if qk == 'zero-int': Q = 0
        elif qk == 'zero-float': Q = 0.0
        elif qk == 'int': Q = int(round(Q))
        x0 = ch.float(f'c{c}.x0', 0.02, 0.98)
        kw = {}
        if spec == 'VP': kw = dict(V=V, P=P)
        elif spec == 'TP': kw = dict(T=T, P=P)
        elif spec == 'TV': kw = dict(T=T, V=V)
        elif spec == 'PQ': kw = dict(P=P, Q=Q)
        elif spec == 'TQ': kw = dict(T=T, Q=Q)
        else:
            comp = np.array([x0, 1. - x0])
            kw = {spec[0]: comp}
            if spec[1] == 'P': kw['P'] = P
            else: kw['T'] = T
        f_before = arr2(feed)
        # feed consisting only of phase-locked chemicals (non-condensable gas): no chemical takes part in the VLE
        lockedn = POOL[pid][1]
        novle = bool(F.any()) and all(names[i] in lockedn for i in range(n) if F[i] > 0)
        region = (f'spec={"xy" if spec[0] in "xy" else spec},feed={fk},ms={int(use_ms)},call={c},dirty={int(dirty)}'
                  + (',xpkg=1' if xms != 'none' else '') + (',novle=1' if novle else ''))
        if novle: ctx.cell('vle:no-vle-chemical')
        ctx.cell('vle:spec=' + ('xy' if spec[0] in 'xy' else spec))
        if spec[1] == 'Q':
            ctx.cell('vle:Q=' + ('0' if Q == 0 else 'nonzero') + (',int' if isinstance(Q, int) else ',float'))
        if xms != 'none': ctx.cell('vle:xpkg')
        H_feed = float(feed.H) if spec[1] == 'Q' else None
        if use_ms: ctx.cell('vle:multi_stream')
        if c: ctx.cell('vle:second-call')
        # "number of species must be 2" is the only assertion a valid call may meet (x / y specifications); for every
        # other specification pair an AssertionError means the wrapper did not forward the two specifications
        solver_call(ctx, 'vle', f'vle solver ({spec})', sep.vle, feed, vap, liq, multi_stream=ms, region=region,
                    numerical=SOLVER_NUMERICAL if spec[0] in 'xy' else (ArithmeticError,), **kw)
        (g, gx), (l, lx) = by_cas(vap, cas), by_cas(liq, cas)
        if gx.any() or lx.any():
            ctx.fail(f'vle|{region}|foreign-chemical', f'species absent from the feed: {gx.tolist()} {lx.tolist()}')
        scale = max(1.0, float(F.max()))
        check_close(ctx, g + l, F, scale, f'vle|{region}|balance', 'vap+liq vs feed', metric='vle:balance')
        check_nonneg(ctx, np.concatenate([g, l]), scale, f'vle|{region}|negative', 'outlets')
        if not np.array_equal(arr2(feed), f_before):
            ctx.fail(f'vle|{region}|feed-modified', 'feed changed')
        if vap.phase != 'g' or liq.phase != 'l':
            ctx.fail(f'vle|{region}|phase', f'vap.phase={vap.phase!r} liq.phase={liq.phase!r}')
        if vap.T != liq.T or vap.P != liq.P:
            ctx.fail(f'vle|{region}|TP', f'outlet conditions differ: {vap.T!r},{liq.T!r} / {vap.P!r},{liq.P!r}')
        if spec[1] == 'Q':
            # energy balance of the wrapper: H(vap) + H(liq) = H(feed) + Q
            H_out = float(vap.H) + float(liq.H)
            F_mass = float(feed.F_mass)
            C = float(vap.C) + float(liq.C)
            tolH = 1e-8 * F_mass + C * 5e-8 + 1e-10 * (abs(H_feed) + abs(Q))   # H_hat_tol, C*T_tol, round-off
            errH = abs(H_out - (H_feed + Q))
            if spec == 'TQ':
                # the T-H flash (pressure solved to P_tol = 1 Pa, sometimes far off) is C04's subject: recorded only
                ctx.cell('vle:TQ-energy-' + ('ok' if errH <= tolH else 'off'))
            else:
                ctx.cell('vle:energy-checked')
                if not errH <= tolH:
                    ctx.fail(f'vle|{region}|energy', f'H(vap)+H(liq) = {H_out!r}, H(feed)+Q = {H_feed + Q!r} (Q={Q!r}, tol {tolH:.3g})')
                ctx.metric_max('vle:energy_err/tol', errH / tolH if tolH else 0.0)
        if use_ms:
            pos = {k: i for i, k in enumerate(ms.chemicals.CASs)}
            m = arr2(ms)[:, [pos[k] for k in cas]]
            pi = {p: k for k, p in enumerate(ms.phases)}
            check_close(ctx, m[pi['g']], g, scale, f'vle|{region}|multi_stream', 'multi_stream gas row vs vap')
            check_close(ctx, m[pi['l']], l, scale, f'vle|{region}|multi_stream', 'multi_stream liquid row vs liq')
            if len(ms.phases) != 2:
                check_close(ctx, m.sum(axis=0), F, scale, f'vle|{region}|multi_stream', 'multi_stream total vs feed')
        two = bool(g.any() and l.any())
        if two: ctx.cell('vle:two-phase')
        if F.any():
            ctx.nontriv(['vle', pid, xms, spec, fk, use_ms, c, dirty, fkey, two])


# ---------------------------------------------------------------------------
# phase_split
def prop_phase_split(ch, ctx):
    pid = ch.choice('pkg', GENPK)
    th = thermo(pid); tmo.settings.set_thermo(th)
    n = len(names_of(pid))
    phases = ch.subset('phases', ['s', 'l', 'g', 'S', 'L'], min_size=1)
    rows = [([0.0] * n if ch.int(f'{p}.empty', 0, 3) == 0 else ch.flows(f'{p}.flow', n)) for p in phases]
    T = ch.float('T', 250., 500.); P = ch.logfloat('P', 4, 7)
    feed = mk_multi(th, phases, rows, T, P)
    dirty = ch.bool('dirty')
    wrong = ch.int('wrong_count', 0, 7) == 0
    nout = len(phases) + (ch.choice('delta', [-1, 1, 2]) if wrong else 0)
    # each outlet may live on another Chemicals object (copy_like documents cross-package copies)
    opk = [ch.choice(f'out{k}.pkg', ['same', 'same', 'r', 'x']) for k in range(max(nout, 0))]
    opid = [pid if v == 'same' else f'{pid}~{v}' for v in opk]
    outlets = [draw_outlet(ch, f'out{k}', thermo(q), len(names_of(q)), dirty) for k, q in enumerate(opid)]
    xp = any(v != 'same' for v in opk)
    cas = cas_of(pid)
    f_before = arr2(feed)
    want_order = sorted(phases)            # "alphabetical order" of the docstring (ASCII: capitals first)
    region = f'nph={min(len(phases), 3)},dirty={int(dirty)},wrong={int(wrong)},xpkg={int(xp)}'
    if xp: ctx.cell('phase_split:xpkg')
    if wrong:
        ctx.cell('phase_split:wrong-count')
        o_before = [arr2(o) for o in outlets]
        try:
            ctx.call('phase_split', sep.phase_split, feed, outlets, allowed=(RuntimeError,), region=region)
        except RuntimeError:
            for o, ob in zip(outlets, o_before):
                if not np.array_equal(arr2(o), ob):
                    ctx.fail(f'phase_split|{region}|partial-write', 'outlets written although the call was rejected')
            return
        ctx.fail(f'phase_split|{region}|accepted', f'{len(phases)} phases, {len(outlets)} outlets, no RuntimeError')
    ctx.cell('phase_split:n>=2' if len(phases) >= 2 else 'phase_split:n=1')
    ctx.call('phase_split', sep.phase_split, feed, outlets, region=region)
    if not np.array_equal(arr2(feed), f_before):
        ctx.fail(f'phase_split|{region}|feed-modified', 'feed changed')
    if list(feed.phases) != want_order:
        ctx.fail(f'phase_split|{region}|order', f'feed.phases {feed.phases!r} not alphabetical')
    total = np.zeros(n)
    for k, p in enumerate(want_order):
        o = outlets[k]
        want = np.array(rows[phases.index(p)], float)
        if isinstance(o, tmo.MultiStream) or o.phase != p:
            ctx.fail(f'phase_split|{region}|phase', f'outlet {k} has phase {getattr(o, "phase", None)!r}, expected {p!r}')
        got, gx = by_cas(o, cas); total += got
        if gx.any():
            ctx.fail(f'phase_split|{region}|foreign-chemical', f'outlet {k}: species absent from the feed: {gx.tolist()}')
        if not np.array_equal(got, want):
            ctx.fail(f'phase_split|{region}|flows', f'outlet {k} ({p}) holds {got.tolist()}, feed phase holds {want.tolist()}')
        if o.T != T or o.P != P:
            ctx.fail(f'phase_split|{region}|TP', f'outlet {k}: T,P = {o.T!r},{o.P!r}; feed {T!r},{P!r}')
    if not np.array_equal(total, f_before.sum(axis=0)) and not np.allclose(total, f_before.sum(axis=0), rtol=1e-12, atol=0):
        ctx.fail(f'phase_split|{region}|balance', 'sum of outlets differs from feed')
    if f_before.any():
        ctx.nontriv(['phase_split', pid, opk, sorted(phases), [zp(r) for r in rows], dirty])



# ---------------------------------------------------------------------------
# phase_split on a feed whose phase set changes between calls
def _check_phase_split(ctx, feed, th, n, region, T_P=True):
    """phase_split into fresh outlets; every phase of the feed (dense snapshot of its indexer) in its own outlet."""
    snap = arr2(feed)
    phases = list(feed.phases)
    T, P = feed.T, feed.P
    outlets = [tmo.Stream(None, thermo=th) for _ in phases]
    ctx.call('phase_split', sep.phase_split, feed, outlets, region=region)
    if not np.array_equal(arr2(feed), snap) or list(feed.phases) != phases:
        ctx.fail(f'phase_split|{region}|feed-modified', 'feed changed')
    if phases != sorted(phases):
        ctx.fail(f'phase_split|{region}|order', f'feed.phases {phases!r} not alphabetical')
    total = np.zeros(n)
    for k, ph in enumerate(phases):
        o = outlets[k]
        got = tot(o); total += got
        if isinstance(o, tmo.MultiStream) or o.phase != ph:
            ctx.fail(f'phase_split|{region}|phase', f'outlet {k} has phase {getattr(o, "phase", None)!r}, expected {ph!r}')
        if not np.array_equal(got, snap[k]):
            ctx.fail(f'phase_split|{region}|flows', f'outlet {k} ({ph}) holds {got.tolist()}, feed phase holds '
                     f'{snap[k].tolist()} (phases {phases})')
        if o.T != T or o.P != P:
            ctx.fail(f'phase_split|{region}|TP', f'outlet {k}: T,P = {o.T!r},{o.P!r}; feed {T!r},{P!r}')
    if not np.allclose(total, snap.sum(axis=0), rtol=1e-12, atol=0):
        ctx.fail(f'phase_split|{region}|balance', f'sum of outlets {total.tolist()} vs feed {snap.sum(axis=0).tolist()}')


def prop_phase_split_seq(ch, ctx):
    """split, change the phase set of the same feed object (phases setter, lle / vle adding a phase, copy_like from a
    stream with other phases), split again into the matching number of outlets."""
    pid = ch.choice('pkg', ['e3', 'e4', 'g2', 'g6'])
    th = thermo(pid); tmo.settings.set_thermo(th)
    n = len(names_of(pid))
    phases = ch.choice('phases', [['g', 'l'], ['l'], ['l', 's'], ['g'], ['L', 'l'], ['g', 'l', 's']])
    rows = [ch.flows(f'{p}.flow', n, -2, 2) for p in phases]
    feed = mk_multi(th, phases, rows, ch.float('T', 300., 370.), 101325.)
    first = ch.bool('skip_first_split')
    if not first:
        _check_phase_split(ctx, feed, th, n, 'seq,step=0,op=init')       # also creates the per-phase proxy streams
    ops = []
    for k in range(ch.int('nsteps', 1, 3)):
        op = ch.choice(f's{k}.op', ['phases', 'lle', 'vle', 'copy_like', 'phases', 'lle'])
        before = sorted(feed.phases)
        if op == 'phases':
            # a new phase set that keeps every phase currently holding material (merging is C12's subject)
            present = [p for p, r in zip(feed.phases, arr2(feed)) if r.any()]
            add = ch.subset(f's{k}.add', ['s', 'l', 'g', 'L', 'S'], min_size=0)
            new = sorted(set(present) | set(add))
            for extra in ('l', 'g'):                      # a one-phase set would turn the feed into a plain Stream
                if len(new) < 2 and extra not in new: new = sorted(new + [extra])
            ctx.call('phases.setter', lambda: setattr(feed, 'phases', tuple(new)), region='seq')
        elif op == 'lle':
            tc = ch.choice(f's{k}.tc', [None] + names_of(pid))
            try:
                ctx.call('feed.lle', lambda: feed.lle(T=feed.T, top_chemical=tc),
                         allowed=SOLVER_REJECTIONS + SOLVER_NUMERICAL, region='seq')
            except SOLVER_REJECTIONS + SOLVER_NUMERICAL as e:
                ctx.reject(f'lle solver: {type(e).__name__}')
        elif op == 'vle':
            V = ch.choice(f's{k}.V', [0.5, 0.0, 1.0, 0.2, 0.8])
            try:
                ctx.call('feed.vle', lambda: feed.vle(V=V, P=101325.), allowed=SOLVER_REJECTIONS + SOLVER_NUMERICAL,
                         region='seq')
            except SOLVER_REJECTIONS + SOLVER_NUMERICAL as e:
                ctx.reject(f'vle solver: {type(e).__name__}')
        else:
            oph = ch.subset(f's{k}.other.phases', ['s', 'l', 'g', 'L'], min_size=2)
            other = mk_multi(th, oph, [ch.flows(f's{k}.other.{p}', n, -2, 2) for p in oph], ch.float(f's{k}.other.T', 300., 370.), 2e5)
            ctx.call('feed.copy_like', feed.copy_like, other, region='seq')
        after = sorted(feed.phases)
        change = 'same' if after == before else 'grown' if set(after) > set(before) else 'other'
        ops.append([op, change])
        ctx.cell(f'phase_split_seq:op={op}')
        ctx.cell(f'phase_split_seq:phases-{change}')
        if not isinstance(feed, tmo.MultiStream):
            ctx.reject('feed collapsed to a single-phase Stream')
        _check_phase_split(ctx, feed, th, n, f'seq,step={min(k + 1, 2)},op={op},phases={change},presplit={int(not first)}')
    ctx.nontriv(['phase_split_seq', pid, phases, [zp(r) for r in rows], ops, first])


# ---------------------------------------------------------------------------
# chemical_splits
def prop_chemical_splits(ch, ctx):
    pid = ch.choice('pkg', GENPK)
    th = thermo(pid); tmo.settings.set_thermo(th)
    n = len(names_of(pid))
    form = ch.choice('form', ['ab', 'ab', 'mixed-stream', 'mixed-multi'])
    if form == 'mixed-multi':
        phases = ch.subset('phases', ['s', 'l', 'g', 'L'], min_size=2)
        rows = [ch.flows(f'{p}.flow', n) for p in phases]
        mixed = mk_multi(th, phases, rows, 330., 101325.)
        pa = ch.choice('a.phase', list(phases))
        a = mixed[pa]
        A = np.array(rows[phases.index(pa)], float); M = np.array(rows, float).sum(axis=0)
        call = lambda: sep.chemical_splits(a, mixed=mixed)
        key = [sorted(phases), pa, [zp(r) for r in rows]]
    else:
        fa = ch.flows('a.flow', n); fb = ch.flows('b.flow', n)
        a = mk(th, fa, ch.choice('a.phase', ['l', 'g'])); b = mk(th, fb, ch.choice('b.phase', ['l', 'g', 's']))
        A = np.array(fa, float); M = A + np.array(fb, float)
        if form == 'ab':
            call = lambda: sep.chemical_splits(a, b)
        else:
            mixed = mk(th, M, 'l')
            call = lambda: sep.chemical_splits(a, mixed=mixed)
        key = [zp(fa), zp(fb)]
    region = f'form={form}'
    ctx.cell('chemical_splits:' + ('ab' if form == 'ab' else 'mixed'))
    res = ctx.call('chemical_splits', call, region=region)
    if not isinstance(res, tmo.indexer.ChemicalIndexer):
        ctx.fail(f'chemical_splits|{region}|type', f'returned {type(res).__name__}')
    s = np.asarray(res.data.to_array() if hasattr(res.data, 'to_array') else res.data, float)
    if s.shape != (n,) or not np.isfinite(s).all():
        ctx.fail(f'chemical_splits|{region}|shape', f'splits {s.tolist()}')
    if ((s < 0) | (s > 1 + 1e-15)).any():
        ctx.fail(f'chemical_splits|{region}|range', f'splits {s.tolist()}')
    back = s * M
    err = np.abs(back - A)
    ctx.metric_max('chemical_splits:rel_err', float((err / np.maximum(M, 1e-300)).max()))
    if not (err <= 4e-16 * np.maximum(M, 0) + 0.0).all():
        ctx.fail(f'chemical_splits|{region}|mismatch', f'splits*(a+b) = {back.tolist()} but a = {A.tolist()}')
    if tuple(res.chemicals.IDs) != tuple(names_of(pid)):
        ctx.fail(f'chemical_splits|{region}|chemicals', 'indexer is on other chemicals')
    if A.any():
        ctx.nontriv(['chemical_splits', pid, form, key])


# ---------------------------------------------------------------------------
# material_balance
def prop_material_balance(ch, ctx):
    pid = ch.choice('pkg', ['g2', 'g3', 'g4', 'g5', 'g6'])
    th = thermo(pid); tmo.settings.set_thermo(th)
    names = names_of(pid); n = len(names)
    order = ch.permutation('order', n)
    k = ch.int('k', 1, min(4, n))
    chosen = order[:k]
    IDs = tuple(names[i] for i in chosen)
    exact = ch.int('lstsq', 0, 3) != 0
    # variable inlets: stream j is dominated by chosen chemical perm[j]
    rowperm = ch.permutation('rowperm', k)
    var = []
    for j in range(k):
        f = np.array(ch.flows(f'var{j}.flow', n, -2, 2), float)
        d = chosen[rowperm[j]]
        for i in chosen:
            if i != d: f[i] = min(f[i], 10.0)
        var.append(f)
    # strict diagonal dominance by columns of A (A[i, j] = flow of chosen chemical i in variable inlet j)
    for j in range(k):
        d = chosen[rowperm[j]]
        off = sum(var[j][i] for i in chosen if i != d)
        offrow = sum(var[jj][d] for jj in range(k) if jj != j)
        var[j][d] = (ch.choice(f'var{j}.dom', [1.05, 2.0, 10.0]) * max(off, offrow, 0.5)
                     + ch.choice(f'var{j}.diag', [0.0, 1.0, 10.0]))
    x_true = np.array([ch.logfloat(f'x{j}', -2, 2) for j in range(k)], float)
    n_ci = ch.int('n_const_in', 0, 2)
    cin = [np.array(ch.flows(f'cin{j}.flow', n, -2, 2), float) for j in range(n_ci)]
    A0 = np.array(var, float).T[chosen, :]
    cond0 = float(np.linalg.cond(A0))                       # conditioning before the scaling below
    # badly scaled but invertible systems: trace make-up streams (whole stream 1e-3 .. 1e-9 of the bulk ones) whose
    # key chemical is also a trace species everywhere else (so that its balance is a meaningful row of the system)
    sexp = [0] * k
    if k >= 2 and ch.int('scaled', 0, 2) == 2:
        for j in range(1, k):
            sexp[j] = ch.choice(f'var{j}.scale', [0, -6, -7, -8, -9, -3])
        for j in range(1, k):
            if not sexp[j]: continue
            sc = 10.0 ** sexp[j]; d = chosen[rowperm[j]]
            var[j] = var[j] * sc
            for jj in range(k):
                if jj != j: var[jj][d] *= sc
            for f in cin: f[d] *= sc
    scaled = any(sexp)
    n_co = ch.int('n_const_out', 1, 3)
    A_full = np.array(var, float).T                         # n x k
    need_out = A_full @ x_true + (sum(cin) if cin else np.zeros(n))
    # outlets: on the chosen chemicals they add up to need_out; other chemicals arbitrary
    shares = np.array([[ch.float(f'share{j}.{i}', 0.0, 1.0) for i in range(k)] for j in range(n_co)], float)
    shares[-1] = 1.0
    couts = []
    remaining = need_out[chosen].copy()
    for j in range(n_co):
        f = np.array(ch.flows(f'cout{j}.flow', n, -2, 2), float)
        take = remaining * shares[j]
        remaining = remaining - take
        for a_, i in enumerate(chosen): f[i] = take[a_]
        couts.append(f)
    A = A_full[chosen, :]
    cond = float(np.linalg.cond(A))
    vin = [mk(th, f) for f in var]; ci = [mk(th, f) for f in cin]; co = [mk(th, f) for f in couts]
    region = f'exact={int(exact)},k={min(k, 2)},cin={int(bool(cin))}' + (',scaled=1' if scaled else '')
    ctx.cell('material_balance:' + ('exact' if exact else 'lstsq'))
    if scaled: ctx.cell('material_balance:' + ('exact' if exact else 'lstsq') + ',scaled')
    if k >= 2: ctx.cell('material_balance:n>=2')
    ctx.call('material_balance', sep.material_balance, IDs, vin, ci, co, exact, 'flow', region=region)
    new = [tot(s) for s in vin]
    out_tot = sum(couts)
    in_tot = sum(new) + (sum(cin) if cin else 0.0)
    scale = max(1.0, float(np.abs(out_tot[chosen]).max()), float(max(v.max() for v in var)))
    res = (in_tot - out_tot)[chosen]
    # per-chemical relative residual: each chosen chemical against the sum of its own terms
    den = np.abs(A) @ x_true + (sum(cin)[chosen] if cin else 0.0) + out_tot[chosen]
    rel = np.abs(res) / np.where(den > 0, den, 1.0)
    tag = ('exact' if exact else 'lstsq') + (',scaled' if scaled else '')
    # exact path (LU): row-wise accuracy governed by the conditioning of the unscaled matrix (observed <= 7e-15).
    # least-squares path (SVD): normwise backward stable only, |A x - b| <= c*eps*(|A| |x| + |b|) in 2-norms
    b_vec = out_tot[chosen] - (sum(cin)[chosen] if cin else 0.0)
    nrm = float(np.linalg.norm(A, 2) * np.linalg.norm(x_true) + np.linalg.norm(b_vec))
    if exact:
        bad = not (rel <= 1e-12 * max(cond0, 1.0)).all()
        ctx.metric_max(f'material_balance:rel_residual({tag})', float(rel.max()))
    else:
        bad = not (np.abs(res) <= 1e3 * 2.2e-16 * nrm).all()
        ctx.metric_max(f'material_balance:residual/(eps*(|A||x|+|b|))({tag})', float(np.abs(res).max()) / (2.2e-16 * nrm))
        ctx.metric_max(f'material_balance:rel_residual({tag})', float(rel.max()))
    ctx.metric_max('material_balance:cond', cond)
    ctx.metric_max('material_balance:cond0', cond0)
    if bad:
        ctx.fail(f'material_balance|{region}|residual', f'(in-out)/terms on chosen chemicals = {rel.tolist()} '
                 f'(in-out = {res.tolist()}, cond {cond:.3g})')
    for j, (f0, f1) in enumerate(zip(var, new)):
        # each variable inlet is only rescaled (composition kept), by the constructed factor
        ferr = float(np.abs(f1 - f0 * x_true[j]).max() / max(f0.max() * x_true[j], 1e-300))
        ctx.metric_max(f'material_balance:factor_err({tag})', ferr)
        if exact:
            rtol = 1e-9 * max(cond0, 1.0)
        else:
            # forward error of an SVD solve: eps*cond*|x|/x_j
            fbound = 2.2e-16 * max(cond, 1.0) * float(np.linalg.norm(x_true)) / x_true[j]
            ctx.metric_max(f'material_balance:factor_err/(eps*cond*|x|/x_j)({tag})', ferr / fbound)
            rtol = max(1e-9 * max(cond0, 1.0), 1e2 * fbound)
        if not np.allclose(f1, f0 * x_true[j], rtol=rtol, atol=1e-12 * f0.max() * x_true[j]):
            ctx.fail(f'material_balance|{region}|factor', f'variable inlet {j}: {f0.tolist()} -> {f1.tolist()}, '
                     f'expected factor {x_true[j]!r}')
        if (f1 < 0).any():
            ctx.fail(f'material_balance|{region}|negative', f'variable inlet {j} negative: {f1.tolist()}')
    for s, f0 in zip(ci + co, cin + couts):
        if not np.array_equal(tot(s), f0):
            ctx.fail(f'material_balance|{region}|constant-modified', 'a constant stream changed')
    ctx.nontriv(['material_balance', pid, list(chosen), list(rowperm), exact, n_ci, n_co, [zp(f) for f in var]])


PROPS = {
    'mix_split': (prop_mix_split, 800, 20000),
    'moisture': (prop_moisture, 1500, 30000),
    'partition': (prop_partition, 2400, 50000),
    'lle': (prop_lle, 640, 10000),
    'vle': (prop_vle, 640, 10000),
    'phase_split': (prop_phase_split, 400, 10000),
    'phase_split_seq': (prop_phase_split_seq, 400, 8000),
    'chemical_splits': (prop_chemical_splits, 400, 10000),
    'material_balance': (prop_material_balance, 640, 15000),
}
