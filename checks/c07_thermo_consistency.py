"""C07 - pure-component and mixture enthalpy / entropy are thermodynamically consistent.

Code under test: thermosteam/free_energy.py, Chemical._init_energies / reset_free_energies /
phase_ref / blank / at_state, mixture/ideal_mixture_model.py, mixture/mixture.py, base/phase_handle.py.

Oracles (all independent of the functors under test):
  * reference state            H(ref, 298.15 K, 101325 Pa) = 0,  S = S0
  * temperature differences    scipy.integrate.quad of the chemical's own Cn callable (and Cn/T)
  * temperature derivatives    central differences of H, S against Cn(T), Cn(T)/T
  * pressure                   S_g(T,P2) - S_g(T,P1) = -R ln(P2/P1);  H independent of P
  * phase-transition jumps     Hvap(Tb), Hvap(Tb)/Tb at Tb;  Hfus, Hfus/Tm at Tm
  * synthetic chemicals        closed-form path integrals of a + bT + cT^2 + d/T from the reference state
  * mixtures                   mole-weighted sums of the pure values, degree-1 homogeneity,
                               S_mix - sum n_i S_i = -R sum n_i ln x_i,  second law on stream mixing
"""
from __future__ import annotations

import math
from math import log

import numpy as np
import thermosteam as tmo
from scipy.integrate import quad

from vlib import chem
from vlib.runner import register_chemicals

PROPERTY = 'C07'
RULE = ('Five generated families. db: one of 34 database chemicals with complete Cn/Tm/Tb/Hvap/Hfus data x '
        'phase_ref in {s,l,g} (Chemical(name, phase_ref=..)) or phase-locked (Chemical(name, phase=..) or at_state(.., copy=True)), an evaluated '
        'phase, optionally (1 in 5) built fresh and given the Cn / Hvap / other models of a second database chemical with '
        'copy_models_from, one clause (reference state / T-difference vs quad of Cn / central difference / pressure term / jump at Tb / '
        'jump at Tm), T inside the Cn model range of that phase, P = 10**u Pa, u in [3,7]. syn: Chemical.blank + add_model with '
        'random positive Cn_s/Cn_l/Cn_g of the forms const, a+bT, a+bT+cT^2, a+d/T (with or without analytic integrals), '
        'random Tm, Tb on either side of T_ref (Tb<Tm allowed), Hvap(T)=A-BT, Hfus, Sfus=Hfus/Tm, S0, every phase_ref incl. '
        'automatic, built directly or through the phase_ref/S0/Tb setters, phase-locked at construction or later with at_state, or adopting the Cn/Hvap models of a second synthetic chemical with copy_models_from; H and S at a random (phase,T,P), at the '
        'reference state and on both sides of Tb/Tm are compared with closed-form path integrals. mixH / mixS: IdealMixture over '
        '1-5 database or synthetic chemicals with independent reference phases/locks (mixS: 80% of cases with all database '
        'chemicals on one side of the melting point, outside finding C07-F1), phase in s,l,g,L,S, amounts 0 or 10**u with u in [-9,4] (optionally one present component forced to 1e-9..1e-6), '
        'scale factors 1e-9..1e6, include_excess_energies False or True (then the pure values are H_i+H_excess_i, S_i+S_excess_i of the '
        'chemical objects; P up to 1e7 Pa); H, Cn, S against '
        'mole-weighted pure values (relative tolerance, also for one component alone), homogeneity, multi-phase xH/xS/xCn and the ideal mixing term. stream: 2-4 streams of one '
        'phase at equal T,P (flows 10**u, u in [-7,4]); Stream.H/C = mole-weighted pure values, also after a phase-only change of a reused Stream; mixed with Stream.mix_from (Stream or MultiStream), S_out >= sum S_in and the exact mixing-entropy '
        'increase. Non-trivial: evaluated phase differs from the reference phase, or >= 2 components present. Distinct by '
        '(family, clause, chemical/forms, reference phase, evaluated phase, lock, build mode, zero pattern).')
ASSUMPTIONS = ['R is thermosteam.constants.R (asserted within 1e-6 of a CODATA value: 8.3144598 or 8.314462618)',
               'T is drawn inside the T_limits of the selected Cn method of the evaluated phase (database chemicals)',
               'synthetic chemicals are given thermodynamically consistent data: Sfus = Hfus/Tm, Cn > 0, Hvap(Tb) > 0',
               'the absolute entropy S0 is the value the Chemical object itself reports',
               'stream mixing is checked for inlets of one common phase at equal T and P on one property package',
               'with include_excess_energies=True the pure values of the mixture identities are H_i + H_excess_i and S_i + S_excess_i '
               'as returned by the Chemical objects; streams use the default property package (False)']
REQUIRED_CELLS = {'quick': ['db:ref', 'db:dT', 'db:deriv', 'db:dP', 'db:jump_vap', 'db:jump_fus', 'db:locked',
                            'db:ref=s', 'db:ref=l', 'db:ref=g', 'syn:ref=s', 'syn:ref=l', 'syn:ref=g', 'syn:locked',
                            'syn:Tb<Tm', 'mix:n>=2', 'mix:n=1', 'mix:multi', 'stream:distinct', 'stream:same',
                            'stream:kind=M', 'stream:reuse', 'syn:mode=at_state', 'syn:mode=ref_setter', 'syn:mode=S0_setter',
                            'syn:mode=Tb_setter', 'syn:mode=copy_models', 'syn:copy_edit=live', 'syn:copy_edit=reset', 'db:copy_models=Cn', 'db:copy_models=Hvap',
                            'db:copy_models=Cn+Hvap', 'db:copy_models=other', 'db:Hfus=kw', 'db:copy_edit=live', 'db:copy_edit=reset', 'syn:copy_models=Cn', 'syn:copy_models=Hvap',
                            'db:lock.how=at', 'db:lock.how=lock', 'mix:tiny_all', 'mix:tiny_some',
                            'mix:large', 'mix:excess=0', 'mix:excess=1', 'mix:excess>0.1%'],
                  'thorough': []}

T_REF = 298.15
P_REF = 101325.0
R = tmo.constants.R        # DESIGN Appendix A: the library's own constant; validated in setup()

DB_NAMES = ('Water', 'Ethanol', 'Methanol', 'Propanol', 'Acetone', 'Hexane', 'Glycerol', 'AceticAcid', 'Benzene',
            'Toluene', 'Octane', 'Butanol', 'Isopropanol', 'N2', 'O2', 'CO2', 'Methane', 'Propane', 'Butane', 'Ammonia',
            'Glucose', 'LacticAcid', 'Cyclohexane', 'Phenol', 'Naphthalene', 'EthyleneGlycol', 'FormicAcid',
            'EthylAcetate', 'Octanol', 'Dodecane', 'SuccinicAcid', 'Urea', 'Acetaldehyde', 'Octadecane')
PHASES = ('s', 'l', 'g')


def setup(ctx):
    # DESIGN Appendix A: R is the library's own constant, which must be a CODATA value
    # (2014: 8.3144598, 2018: 8.314462618); the identities do not depend on its last digits.
    if min(abs(tmo.constants.R - 8.314462618), abs(tmo.constants.R - 8.3144598)) > 1e-6:
        from vlib.runner import HarnessError
        raise HarnessError(f'thermosteam.constants.R = {tmo.constants.R!r}')


# ---------------------------------------------------------------------------
# database chemicals (cached per process; never mutated)
# ---------------------------------------------------------------------------
_db_cache = {}


def db_chemical(name, variant):
    """variant: 's'|'l'|'g' -> phase_ref;  'lock:s' etc. -> phase-locked;  'default'."""
    key = (name, variant)
    c = _db_cache.get(key)
    if c is None:
        if variant == 'default':
            c = tmo.Chemical(name)
        elif variant.startswith('lock:'):
            c = tmo.Chemical(name, phase=variant[5:])
        elif variant.startswith('at:'):
            c = tmo.Chemical(name).at_state(variant[3:], copy=True)
        else:
            c = tmo.Chemical(name, phase_ref=variant)
        _db_cache[key] = c
    return c


def is_locked(c):
    return bool(c.locked_state)


def H_of(c, ph, T, P):
    return c.H(T, P) if c.locked_state else c.H(ph, T, P)


def S_of(c, ph, T, P):
    return c.S(T, P) if c.locked_state else c.S(ph, T, P)


def Hx_of(c, ph, T, P):
    """The chemical's own excess (departure) enthalpy, added by mixtures built with include_excess_energies=True."""
    return c.H_excess(T, P) if c.locked_state else c.H_excess(ph, T, P)


def Sx_of(c, ph, T, P):
    return c.S_excess(T, P) if c.locked_state else c.S_excess(ph, T, P)


def Cn_model(c, ph):
    return c.Cn if c.locked_state else getattr(c.Cn, ph)


def Cn_of(c, ph, T):
    return c.Cn(T) if c.locked_state else c.Cn(ph, T)


def model_range(c, ph):
    m = Cn_model(c, ph)
    lo, hi = m.T_limits[m.method]
    lo = max(lo + 0.05, 20.0)
    hi = min(hi - 0.05, 1500.0)
    return lo, hi


def s_resolution(c, ph, Ts):
    """Spacing of the floating-point grid on which thermo evaluates int Cn/T dT for 'stable_polynomial'
    correlations (HEOS_FIT): value = horner(T) + int_T_log_coeff*ln(T) with |int_T_log_coeff| up to 1e15."""
    m = Cn_model(c, ph)
    corr = getattr(m, 'correlations', {}).get(m.method)
    if corr and corr[2] == 'stable_polynomial' and 'int_T_log_coeff' in corr[3]:
        A = abs(corr[3]['int_T_log_coeff']) * max(abs(log(T)) for T in Ts)
        return math.ulp(A)
    return 0.0


def li2_slack(m):
    """ZABRANSKY_QUASIPOLYNOMIAL: the dependency's closed form of the integral of Cn/T contains R*a1*Li2(T/Tc) with
    fluids.numerics.polylog2, a Pade approximation in three pieces (splits at T/Tc = 0.7 and 0.99, documented relative
    error 1e-7).  The antiderivative therefore carries an absolute error of about R*|a1|*1.7e-7 and is DISCONTINUOUS at
    the two splits (Butanol, a1 = 408: step of 5.3e-4 J/mol/K at 0.7*563.05 = 394.135 K).
    Returns (absolute slack for an S difference, split temperatures)."""
    corr = getattr(m, 'correlations', {}).get(m.method)
    if corr and corr[2] == 'Zabransky_quasi_polynomial':
        kw = corr[1]
        return 4.0 * R * abs(kw['a1']) * 1.7e-7, (0.7 * kw['Tc'], 0.99 * kw['Tc'])
    return 0.0, ()


def has_vap(c):
    """Complete vaporisation data: Hvap(Tb) exists (not so for Glucose, whose Tb exceeds Tc, or when a model adopted
    with copy_models_from cannot be evaluated at this chemical's Tb)."""
    try:
        # Hvap(Tb) == 0 (an adopted Hvap model evaluated above its own critical temperature) is not vaporisation
        # data either; the library then treats it as missing for S only (`Svap_Tb = ... if Hvap_Tb else None`)
        return bool(c.Tb) and bool(c.Hvap) and (c.Hvap(c.Tb) or 0.0) > 0.0
    except Exception:
        return False


CMF_NAMES = (['Cn'], ['Hvap'], ['Cn', 'Hvap'], ['Hvap', 'Cn', 'V'], ['Cn', 'mu'], ['Hvap', 'Psat'], ['V', 'mu'], ['kappa'])


def fresh_with_models_from(ctx, name, variant, donor, names, region):
    """A NEW chemical (cached ones are never mutated) that adopts the named models of `donor` through the public
    Chemical.copy_models_from; its H/S must afterwards be consistent with its own *current* Cn and Hvap."""
    if variant.startswith('lock:'):
        c = tmo.Chemical(name, phase=variant[5:])
    else:
        c = tmo.Chemical(name, phase_ref=variant)
    ctx.call('copy_models_from', c.copy_models_from, donor, list(names), region=region)
    return c


def crosses_melting(pr, ph, locked):
    return int((not locked) and ((pr == 's') != (ph == 's')))


def close(a, b, rtol, scale, atol=0.0):
    return abs(a - b) <= rtol * scale + atol


def draw_T(ch, label, lo, hi, specials=()):
    opts = [t for t in specials if t is not None and lo <= t <= hi]
    if opts and ch.bool(label + '.special'):
        return float(ch.choice(label + '.at', opts))
    return ch.float(label, lo, hi)


# ---------------------------------------------------------------------------
# (A) database chemicals, one clause per case
# ---------------------------------------------------------------------------
# Tolerances of the quadrature clauses (DESIGN section 4: rtol 1e-7 against scipy quad, 1e-5 against central
# differences).  Two Cn methods of the dependency get a wider, stated bound because the dependency's own
# closed forms are approximate there (measured on the unchanged tree, see notes/C07.md):
#   VDI_TABULAR               thermo integrates the interpolated table with scipy.quad at its default
#                             epsrel=1.49e-8 from the transition temperature, and two such integrals are differenced
#   ZABRANSKY_QUASIPOLYNOMIAL chemicals' integral-over-T uses fluids.numerics.polylog2, a numerical approximation
#                             of Li2(T/Tc); deviates from quadrature by up to 6e-5 relative (200000-case thorough run)
#                             and steps by R*a1*1.5e-7 at T/Tc = 0.7 and 0.99 (see li2_slack)
DT_RTOL = 1e-7
DERIV_RTOL = 1e-5
DERIV_RTOL_M = {'VDI_TABULAR': 1e-3}    # quad noise 1.49e-8*|integral| divided by the stencil width
H_RTOL = {'VDI_TABULAR': 5e-5}
S_RTOL = {'VDI_TABULAR': 5e-5, 'ZABRANSKY_QUASIPOLYNOMIAL': 1e-3}
DB_CLAUSES = ('ref', 'dT', 'dT', 'deriv', 'deriv', 'dP', 'jump_vap', 'jump_fus')


def prop_db(ch, ctx):
    name = ch.choice('name', DB_NAMES)
    locked = ch.int('locked', 0, 3) == 0
    # build mode: adopt models of another chemical with copy_models_from (on a fresh object)
    cmf = ch.int('copy_models', 0, 4) == 4
    cmf_tag = ''
    if cmf:
        dname = ch.choice('donor', DB_NAMES)
        dvar = ch.choice('donor.variant', ('default', 'default', 's', 'g', 'lock:l', 'lock:g', 'lock:s'))
        cmf_names = ch.choice('copy.names', CMF_NAMES)
        donor = ctx.call('build', db_chemical, dname, dvar, region='src=db,donor')
        energy = [n for n in cmf_names if n in ('Cn', 'Hvap')]
        cmf_tag = ',cmf=' + ('+'.join(sorted(energy)) or 'other')
        cmf_rg = f'src=db,lock={int(locked)},donorlock={int(is_locked(donor))},names={"+".join(sorted(energy)) or "other"}'
        ctx.cell('db:copy_models=' + ('+'.join(sorted(energy)) or 'other'))
    # further build modes (all on fresh objects): user-supplied heat of fusion; Chemical.copy followed by an edit of
    # the copy's heat-capacity model (the `Glucose.copy('Biomass')` pattern), with or without reset_free_energies
    extra = 0 if cmf else ch.int('build.extra', 0, 7)
    hfus_kw = extra == 6 and not locked
    copy_edit = extra == 7
    reset_after_edit = True
    if locked:
        ph = ch.choice('phase', PHASES)
        how = ch.choice('lock.how', ('lock:', 'lock:', 'at:'))     # constructor phase=..  or  at_state(.., copy=True)
        if cmf:
            how = 'lock:'
            c = fresh_with_models_from(ctx, name, how + ph, donor, cmf_names, cmf_rg)
        elif copy_edit:
            how = 'lock:'
            base = ctx.call('build', tmo.Chemical, name, phase=ph, region='src=db,lock=1,fresh')
        else:
            c = ctx.call('build', db_chemical, name, how + ph, region=f'src=db,lock=1,ph={ph},how={how[:-1]}')
    else:
        prq = ch.choice('phase_ref', PHASES)
        if cmf:
            c = fresh_with_models_from(ctx, name, prq, donor, cmf_names, cmf_rg)
        elif hfus_kw:
            Hfus_user = ch.choice('Hfus.kw0', (0.0, None))
            if Hfus_user is None: Hfus_user = ch.float('Hfus.kw', 10.0, 8e4)
            c = ctx.call('build', tmo.Chemical, name, phase_ref=prq, Hfus=Hfus_user, region='src=db,lock=0,Hfus=kw')
            if c.Hfus != Hfus_user:
                ctx.fail('build|src=db,lock=0,Hfus=kw|Hfus-ignored', f'{name}: Hfus={Hfus_user!r} given, chemical reports {c.Hfus!r}')
            cmf_tag = ',Hfus=kw'
            ctx.cell('db:Hfus=kw')
        elif copy_edit:
            base = ctx.call('build', tmo.Chemical, name, phase_ref=prq, region='src=db,lock=0,fresh')
        else:
            c = ctx.call('build', db_chemical, name, prq, region=f'src=db,lock=0,ref={prq}')
    if copy_edit:
        c = ctx.call('copy', base.copy, name.replace('-', '') + 'Copy', region=f'src=db,lock={int(locked)}')
        edited = [ph] if locked else ch.subset('edit.phases', PHASES, min_size=1)
        for p_ in edited:
            a_ = ch.float(f'edit.{p_}.a', 20.0, 300.0)
            b_ = ch.float(f'edit.{p_}.b', 0.0, 0.2)
            model = c.Cn if locked else getattr(c.Cn, p_)
            ctx.call('edit', model.add_method, (lambda a_, b_: lambda T: a_ + b_ * T)(a_, b_), name='C07_EDIT',
                     region=f'src=db,lock={int(locked)}')
        reset_after_edit = ch.bool('edit.reset')
        if reset_after_edit:
            ctx.call('reset_free_energies', c.reset_free_energies, region=f'src=db,lock={int(locked)}')
        cmf_tag = f',copyedit={"reset" if reset_after_edit else "live"}'
        ctx.cell('db:copy_edit=' + ('reset' if reset_after_edit else 'live'))
    if locked:
        if c.locked_state != ph or c.phase_ref != ph:
            ctx.fail(f'build|src=db,lock=1,ph={ph},how={how[:-1]}|not-locked', f'{name}: locked_state={c.locked_state} phase_ref={c.phase_ref}')
        ctx.cell('db:lock.how=' + how[:-1])
        pr = c.phase_ref
        clause = ch.choice('clause', ('ref', 'dT', 'deriv', 'dP'))
    else:
        pr = c.phase_ref
        if pr != prq:
            ctx.fail(f'build|src=db,lock=0,ref={prq}|phase_ref-ignored', f'{name}: asked {prq} got {pr}')
        if hfus_kw:
            clause = ch.choice('clause', ('jump_fus', 'jump_fus', 'jump_vap', 'ref', 'dT'))
        elif not reset_after_edit:
            # without a rebuild only the live parts of the functors follow the edited model: the in-phase clauses
            clause = ch.choice('clause', ('ref', 'dT', 'dT', 'deriv', 'deriv', 'dP'))
        else:
            clause = ch.choice('clause', DB_CLAUSES)
        ph = None
    P = ch.logfloat('P', 3, 7)
    novap = (not locked) and not has_vap(c)
    if novap and (pr == 'g' or clause == 'jump_vap'):
        ctx.reject('no Hvap(Tb): incomplete data')
    ctx.cell('db:' + clause)
    ctx.cell('db:ref=' + pr)
    if locked: ctx.cell('db:locked')

    def region(ph_tag, xm):
        return f'src=db,ref={pr},ph={ph_tag},xm={xm},lock={int(locked)}' + cmf_tag

    def f3_region(rg, kind):
        # finding C07-F3 (dependency precision) is the same root cause whatever the build mode: its signature
        # carries no build-mode tag
        return rg[:len(rg) - len(cmf_tag)] if (kind == 'precision' and cmf_tag) else rg

    if clause == 'ref':
        rg = region(pr, 0)
        h = ctx.call('H.ref', H_of, c, pr, T_REF, P_REF, region=rg)
        s = ctx.call('S.ref', S_of, c, pr, T_REF, P_REF, region=rg)
        S0 = c.S0
        ctx.metric_max('ref:H_abs', abs(h))
        ctx.check(abs(h) <= 1e-9, f'H.ref|{rg}|mismatch', f'{name}: H at the reference state = {h!r}')
        ctx.check(S0 is not None and close(s, S0, 1e-12, max(1.0, abs(S0))), f'S.ref|{rg}|mismatch',
                  f'{name}: S at the reference state = {s!r}, S0 = {S0!r}')
        if locked: ctx.nontriv(['db', 'ref', name, pr, 'locked'])
        return

    if clause in ('jump_vap', 'jump_fus'):
        if clause == 'jump_vap':
            lo_ph, hi_ph, Tt = 'l', 'g', c.Tb
            dH = ctx.call('H.jump_vap', c.Hvap, Tt, region=region('lg', int(pr == 's')))
            xm = int(pr == 's')
            tag = 'lg'
        else:
            lo_ph, hi_ph, Tt = 's', 'l', c.Tm
            dH = c.Hfus
            xm = 1
            tag = 'sl'
        rg = region(tag, xm)
        site = clause
        if dH is None or Tt is None:
            ctx.reject('no transition data')
        Pj = P if ch.bool('jump.P_any') else P_REF
        ctx.nontriv(['db', clause, name, pr])
        h_hi = ctx.call('H.' + site, H_of, c, hi_ph, Tt, Pj, region=rg)
        h_lo = ctx.call('H.' + site, H_of, c, lo_ph, Tt, Pj, region=rg)
        sc = abs(h_hi) + abs(h_lo) + abs(dH) + 1.0
        ctx.metric_max(site + ':H_rel', abs(h_hi - h_lo - dH) / sc)
        ctx.check(close(h_hi - h_lo, dH, 1e-11, sc), f'H.{site}|{rg}|mismatch',
                  f'{name} ref={pr}: H_{hi_ph}-H_{lo_ph} at {Tt} K = {h_hi - h_lo!r}, expected {dH!r}')
        s_hi = ctx.call('S.' + site, S_of, c, hi_ph, Tt, P_REF, region=rg)
        s_lo = ctx.call('S.' + site, S_of, c, lo_ph, Tt, P_REF, region=rg)
        dS = dH / Tt
        sc = abs(s_hi) + abs(s_lo) + abs(dS) + 1.0
        ctx.metric_max(site + ':S_rel', abs(s_hi - s_lo - dS) / sc)
        ctx.check(close(s_hi - s_lo, dS, 1e-11, sc), f'S.{site}|{rg}|mismatch',
                  f'{name} ref={pr}: S_{hi_ph}-S_{lo_ph} at {Tt} K = {s_hi - s_lo!r}, expected {dS!r}')
        return

    # clauses evaluated in one phase
    if not locked:
        ph = ch.choice('phase', ('g',) if clause == 'dP' and ch.bool('dP.gas') else PHASES)
    if novap and ph == 'g':
        ctx.reject('no Hvap(Tb): incomplete data')
    xm = crosses_melting(pr, ph, locked)
    rg = region(ph, xm)
    lo, hi = model_range(c, ph)
    if hi - lo < 1.0:
        ctx.reject('empty model range')
    specials = (T_REF, c.Tb, c.Tm)
    if ph != pr or locked: ctx.nontriv(['db', clause, name, pr, ph, locked])

    if clause == 'dP':
        T = draw_T(ch, 'T', lo, hi, specials)
        P2 = ch.logfloat('P2', 3, 7)
        h1 = ctx.call('H.dP', H_of, c, ph, T, P, region=rg)
        h2 = ctx.call('H.dP', H_of, c, ph, T, P2, region=rg)
        ctx.check(h1 == h2, f'H.dP|{rg}|mismatch', f'{name}: H depends on P: {h1!r} vs {h2!r}')
        s1 = ctx.call('S.dP', S_of, c, ph, T, P, region=rg)
        s2 = ctx.call('S.dP', S_of, c, ph, T, P2, region=rg)
        if ph == 'g':
            want = -R * log(P2 / P)
            sc = max(1.0, abs(s1), abs(s2), abs(want))
            ctx.metric_max('dP:S_rel', abs(s2 - s1 - want) / sc)
            ctx.check(close(s2 - s1, want, 1e-12, sc), f'S.dP|{rg}|mismatch',
                      f'{name} ref={pr}: S_g(P2)-S_g(P1) = {s2 - s1!r}, -R ln(P2/P1) = {want!r}')
        return

    if clause == 'dT':
        T1 = draw_T(ch, 'T1', lo, hi, specials)
        T2 = draw_T(ch, 'T2', lo, hi, specials)
        m = Cn_model(c, ph)
        f = m.T_dependent_property
        a, b = (T1, T2) if T1 <= T2 else (T2, T1)
        sgn = 1.0 if T1 <= T2 else -1.0
        # piecewise methods (solid-solid transitions, spline pieces) may be discontinuous at their breakpoints:
        # tell the quadrature where they are
        pw = getattr(m, 'piecewise_methods', None) or {}
        brk = sorted(t for t in (pw[m.method][2] if m.method in pw else ()) if a < t < b) or None
        try:
            IH, eH = quad(f, a, b, epsabs=0.0, epsrel=1e-11, limit=400, points=brk)
            IS, eS = quad(lambda T: f(T) / T, a, b, epsabs=0.0, epsrel=1e-11, limit=400, points=brk)
        except RuntimeError:
            # thermo refuses non-physical values (e.g. DADGOSTAR_SHAW < 0 at very low T, nominal range from 0 K)
            ctx.reject('Cn model invalid inside its nominal range')
        h1 = ctx.call('H.dT', H_of, c, ph, T1, P, region=rg)
        h2 = ctx.call('H.dT', H_of, c, ph, T2, P, region=rg)
        scH = abs(IH) + 1e-6 * (abs(h1) + abs(h2)) + 1e-3     # 1e-7 * scale: quad + round-off of the two operands
        if abs(T2 - T1) > 1.0:
            ctx.metric_max('dT:H_rel:' + m.method, abs((h2 - h1) * sgn - IH) / scH)
        ctx.check(close((h2 - h1) * sgn, IH, H_RTOL.get(m.method, DT_RTOL), scH, 10 * eH), f'H.dT|{rg}|mismatch',
                  f'{name} ref={pr} {ph}: H({T2})-H({T1}) = {h2 - h1!r}, quad(Cn) = {IH * sgn!r} ({m.method})')
        s1 = ctx.call('S.dT', S_of, c, ph, T1, P, region=rg)
        s2 = ctx.call('S.dT', S_of, c, ph, T2, P, region=rg)
        scS = abs(IS) + 1e-6 * (abs(s1) + abs(s2)) + 1e-5
        if abs(T2 - T1) > 1.0 and not s_resolution(c, ph, (T1, T2)):
            ctx.metric_max('dT:S_rel:' + m.method, abs((s2 - s1) * sgn - IS) / scS)
        res = s_resolution(c, ph, (T1, T2))
        errS = abs((s2 - s1) * sgn - IS)
        tolS = S_RTOL.get(m.method, DT_RTOL) * scS + 10 * eS + li2_slack(m)[0]
        if errS > tolS:
            kind = 'precision' if errS <= tolS + 8 * res else 'mismatch'
            ctx.fail(f'S.dT|{f3_region(rg, kind)},hp={int(res > 0)}|{kind}',
                     f'{name} ref={pr} {ph}: S({T2})-S({T1}) = {s2 - s1!r}, quad(Cn/T) = {IS * sgn!r} '
                     f'({m.method}, grid spacing of the S integral {res!r})')
        return

    if clause == 'deriv':
        h = 0.05
        if hi - lo < 6 * h: ctx.reject('empty model range')
        T = draw_T(ch, 'T', lo + 2 * h, hi - 2 * h, specials)
        m = Cn_model(c, ph)
        pts = (T - 2 * h, T - h, T + h, T + 2 * h)
        Hs = [ctx.call('H.deriv', H_of, c, ph, t, P, region=rg) for t in pts]
        try:
            cn = ctx.call('Cn', Cn_of, c, ph, T, region=rg, allowed=(RuntimeError,))
            cns = [Cn_of(c, ph, t) for t in pts]
        except RuntimeError:
            ctx.reject('Cn model invalid inside its nominal range')
        # five-point central difference (error O(h^4) for smooth Cn).  A kink or step of the Cn model inside
        # the stencil (spline knots, tabular data, solid-solid transitions) limits what a finite difference
        # can resolve: allow for the variation of Cn over the stencil beyond its linear trend.
        var = max(abs(cns[0] - 2 * cn + cns[3]), abs(cns[1] - 2 * cn + cns[2]))
        d5 = lambda f: (f[0] - 8 * f[1] + 8 * f[2] - f[3]) / (12 * h)
        dH = d5(Hs)
        roundH = 4e-16 * sum(abs(x) for x in Hs) / h
        rt = DERIV_RTOL_M.get(m.method, DERIV_RTOL)
        ctx.metric_max('deriv:H_rel:' + m.method, max(0.0, abs(dH - cn) - var) / abs(cn))
        ctx.check(abs(dH - cn) <= rt * abs(cn) + var + roundH, f'H.deriv|{rg}|mismatch',
                  f'{name} ref={pr} {ph}: dH/dT at {T} = {dH!r}, Cn = {cn!r} ({m.method})')
        if any(pts[0] <= tj <= pts[3] for tj in li2_slack(m)[1]):
            # a finite difference cannot be taken across a step of the dependency's approximate antiderivative
            ctx.cell('avoided:Li2-split-in-stencil')
            return
        Ss = [ctx.call('S.deriv', S_of, c, ph, t, P, region=rg) for t in pts]
        dS = d5(Ss)
        roundS = 4e-16 * sum(abs(x) for x in Ss) / h
        res = s_resolution(c, ph, (T,))
        errS = abs(dS - cn / T)
        rtS = max(rt, S_RTOL.get(m.method, 0.0))
        tolS = (rtS * abs(cn) + var) / T + roundS
        if not res: ctx.metric_max('deriv:S_rel:' + m.method, max(0.0, errS * T - var) / abs(cn))
        if errS > tolS:
            kind = 'precision' if errS <= tolS + 8 * res / h else 'mismatch'
            ctx.fail(f'S.deriv|{f3_region(rg, kind)},hp={int(res > 0)}|{kind}',
                     f'{name} ref={pr} {ph}: dS/dT at {T} = {dS!r}, Cn/T = {cn / T!r} '
                     f'({m.method}, grid spacing of the S integral {res!r})')
        return


# ---------------------------------------------------------------------------
# (B) synthetic chemicals: closed-form reference model
# ---------------------------------------------------------------------------
CN_KINDS = ('const', 'lin', 'quad', 'inv')


class CnForm:
    """Cn(T) = a + b T + c T^2 + d / T with closed-form integrals (the independent oracle)."""

    def __init__(self, a, b, c, d):
        self.a, self.b, self.c, self.d = a, b, c, d

    def __call__(self, T):
        return self.a + self.b * T + self.c * T * T + self.d / T

    def F(self, T1, T2):
        return (self.a * (T2 - T1) + self.b / 2 * (T2 * T2 - T1 * T1) + self.c / 3 * (T2 ** 3 - T1 ** 3)
                + self.d * log(T2 / T1))

    def G(self, T1, T2):
        return (self.a * log(T2 / T1) + self.b * (T2 - T1) + self.c / 2 * (T2 * T2 - T1 * T1)
                - self.d * (1 / T2 - 1 / T1))


def draw_cn(ch, tag):
    kind = ch.choice(tag + '.kind', CN_KINDS)
    a = ch.float(tag + '.a', 10.0, 300.0)
    b = c = d = 0.0
    if kind in ('lin', 'quad'):
        b = ch.float(tag + '.b', -a / 4000.0, 0.3)
    if kind == 'quad':
        c = ch.float(tag + '.c', 0.0, 1e-4)
    if kind == 'inv':
        d = ch.float(tag + '.d', 0.0, 5000.0)
    return kind, CnForm(a, b, c, d)


def add_cn(model, kind, form, how, name=None):
    kw = {'name': name} if name else {}
    if how == 'number' and kind == 'const':
        model.add_model(form.a, **kw)
    elif how == 'analytic':
        model.add_model(form.__call__, f_int=form.F, f_int_over_T=form.G, **kw)
    else:
        model.add_model(form.__call__, **kw)


def draw_syn(ch, tag='syn', allow_lock=True, allow_modes=True):
    """Draw the full description of a synthetic chemical and build it.  Returns (chemical, spec)."""
    Tm = ch.float(tag + '.Tm', 60.0, 700.0)
    if ch.int(tag + '.Tb<Tm', 0, 5) == 0:
        Tb = ch.float(tag + '.Tb', max(40.0, Tm - 200.0), Tm - 1.0)
    else:
        Tb = ch.float(tag + '.Tb', Tm + 1.0, Tm + 500.0)
    Hfus = ch.choice(tag + '.Hfus0', (0.0, None))
    if Hfus is None: Hfus = ch.float(tag + '.Hfus', 10.0, 8e4)
    S0 = ch.choice(tag + '.S00', (0.0, None))
    if S0 is None: S0 = ch.float(tag + '.S0', 0.0, 600.0)
    A = ch.float(tag + '.HvapA', 5e3, 9e4)
    Bf = ch.choice(tag + '.HvapB0', (0.0, None))
    if Bf is None: Bf = ch.float(tag + '.HvapBf', 0.0, 1.0)
    B = Bf * A / (2.0 * Tb)
    lock = None
    if allow_lock and ch.int(tag + '.locked', 0, 4) == 4:
        lock = ch.choice(tag + '.lock', PHASES)
    how = ch.choice(tag + '.how', ('analytic', 'numeric', 'number'))
    forms = {}
    kinds = {}
    if lock:
        kinds[lock], forms[lock] = draw_cn(ch, tag + '.Cn')
        pr_req = None
        mode = 'ctor'
    else:
        for p in PHASES:
            kinds[p], forms[p] = draw_cn(ch, tag + '.Cn_' + p)
        pr_req = ch.choice(tag + '.phase_ref', ('s', 'l', 'g', None))
        mode = ch.choice(tag + '.mode', ('ctor', 'ctor', 'ref_setter', 'S0_setter', 'Tb_setter', 'at_state', 'copy_models', 'copy_edit')) if allow_modes else 'ctor'
    spec = dict(Tm=Tm, Tb=Tb, Hfus=Hfus, Sfus=Hfus / Tm, S0=S0, A=A, B=B, lock=lock, how=how, kinds=kinds,
                forms=forms, pr_req=pr_req, mode=mode)
    if mode == 'ref_setter':
        spec['pr_first'] = ch.choice(tag + '.phase_ref0', PHASES)
    if mode == 'Tb_setter':
        spec['Tb_first'] = ch.float(tag + '.Tb0', 40.0, 1200.0)
    if mode == 'S0_setter':
        spec['S0_first'] = ch.float(tag + '.S0_0', 0.0, 600.0)
    if mode == 'at_state':
        spec['lock_later'] = ch.choice(tag + '.at_state', PHASES)
    if mode == 'copy_edit':
        # Chemical.copy, then the copy's heat-capacity models are replaced (as for `Glucose.copy('Biomass')`), with
        # or without a later reset_free_energies; H and S of the copy must follow the copy's CURRENT Cn
        ek, ef = {}, {}
        for p in PHASES:
            ek[p], ef[p] = draw_cn(ch, tag + '.edit.Cn_' + p)
        spec['edit_kinds'], spec['edit_forms'] = ek, ef
        spec['edit_reset'] = ch.bool(tag + '.edit.reset')
    if mode == 'copy_models':
        # a donor with other Cn forms and another Hvap; the target adopts the named models with copy_models_from
        spec['copy_names'] = ch.choice(tag + '.copy.names', CMF_NAMES)
        dk, df = {}, {}
        for p in PHASES:
            dk[p], df[p] = draw_cn(ch, tag + '.donor.Cn_' + p)
        spec['donor_kinds'], spec['donor_forms'] = dk, df
        spec['donor_A'] = ch.float(tag + '.donor.HvapA', 5e3, 9e4)
        spec['donor_B'] = ch.float(tag + '.donor.HvapBf', 0.0, 1.0) * spec['donor_A'] / (2.0 * Tb)
    return spec


def build_syn(spec, ID='Syn'):
    Tm, Tb, Hfus, Sfus, S0 = spec['Tm'], spec['Tb'], spec['Hfus'], spec['Sfus'], spec['S0']
    A, B = spec['A'], spec['B']
    lock, how, mode = spec['lock'], spec['how'], spec['mode']
    pr0 = spec.get('pr_first', spec['pr_req'])
    Tb0 = spec.get('Tb_first', Tb)
    S00 = spec.get('S0_first', S0)
    c = tmo.Chemical.blank(ID, phase_ref=pr0, phase=lock, Tm=Tm, Tb=Tb0, Hfus=Hfus, Sfus=Sfus, S0=S00, MW=50.0)
    if lock:
        add_cn(c.Cn, spec['kinds'][lock], spec['forms'][lock], how)
    else:
        for p in PHASES:
            add_cn(getattr(c.Cn, p), spec['kinds'][p], spec['forms'][p], how)
    if B == 0.0 and how == 'number':
        c.Hvap.add_model(A)
    else:
        c.Hvap.add_model(lambda T: A - B * T)
    c.reset_free_energies()
    if mode == 'ref_setter':
        if spec['pr_req'] is not None:
            c.phase_ref = spec['pr_req']
    elif mode == 'Tb_setter':
        c.Tb = Tb
    elif mode == 'S0_setter':
        c.S0 = S0
    elif mode == 'copy_edit':
        c = c.copy(ID + 'Copy')
        for p in PHASES:
            # a new method name: the copy's models share their method tables with the original's (shallow copy)
            add_cn(getattr(c.Cn, p), spec['edit_kinds'][p], spec['edit_forms'][p], how, name='EDITED')
        spec['forms'], spec['kinds'] = spec['edit_forms'], spec['edit_kinds']
        if spec['edit_reset']:
            c.reset_free_energies()
        else:
            spec['live'] = True      # only the live parts of the functors (the in-phase integrals) follow the edit
    elif mode == 'copy_models':
        dspec = dict(spec, kinds=spec['donor_kinds'], forms=spec['donor_forms'], A=spec['donor_A'], B=spec['donor_B'],
                     mode='ctor', pr_req=None)
        donor = build_syn(dspec, ID + 'donor')
        c.copy_models_from(donor, list(spec['copy_names']))
        # the reference model follows the chemical's CURRENT models
        if 'Cn' in spec['copy_names']:
            spec['forms'], spec['kinds'] = spec['donor_forms'], spec['donor_kinds']
        if 'Hvap' in spec['copy_names']:
            spec['A'], spec['B'] = spec['donor_A'], spec['donor_B']
    elif mode == 'at_state':
        c.at_state(spec['lock_later'])       # locks in place; the reference phase becomes the locked phase
        spec['lock'] = spec['lock_later']
    return c


def ref_model(spec, pr, ph, T, P):
    """Closed-form (H, S, scaleH, scaleS) of phase ph at T, P for reference phase pr."""
    Tm, Tb, Hfus, S0 = spec['Tm'], spec['Tb'], spec['Hfus'], spec['S0']
    Hv = spec['A'] - spec['B'] * Tb
    f = spec['forms']
    lock = spec['lock']
    if lock:
        segs = [(f[lock], T_REF, T)]
        jumps = []
    else:
        order = {'s': 0, 'l': 1, 'g': 2}
        # walk from the reference phase to the evaluated phase through Tm and Tb
        segs, jumps = [], []
        cur, Tcur = pr, T_REF
        while cur != ph:
            up = order[ph] > order[cur]
            if cur == 's':
                nxt, Tt, dH = 'l', Tm, Hfus
            elif cur == 'g':
                nxt, Tt, dH = 'l', Tb, -Hv
            elif up:
                nxt, Tt, dH = 'g', Tb, Hv
            else:
                nxt, Tt, dH = 's', Tm, -Hfus
            segs.append((f[cur], Tcur, Tt))
            jumps.append((dH, Tt))
            cur, Tcur = nxt, Tt
        segs.append((f[ph], Tcur, T))
    H = 0.0; S = S0; scH = 1.0; scS = 1.0 + abs(S0)
    for form, Ta, Tb_ in segs:
        x = form.F(Ta, Tb_); y = form.G(Ta, Tb_)
        H += x; S += y; scH += abs(x); scS += abs(y)
    for dH, Tt in jumps:
        H += dH; S += dH / Tt; scH += abs(dH); scS += abs(dH / Tt)
    if (lock or ph) == 'g':
        y = -R * log(P / P_REF)
        S += y; scS += abs(y)
    return H, S, scH, scS


def prop_syn(ch, ctx):
    spec = draw_syn(ch)
    lock = spec['lock']
    rg0 = f'src=syn,req={spec["pr_req"]},lock={lock},mode={spec["mode"]}'
    c = ctx.call('build', build_syn, spec, region=rg0)
    pr = c.phase_ref
    lock = spec['lock']
    if spec['pr_req'] is not None and pr != spec['pr_req'] and spec['mode'] != 'at_state':
        ctx.fail(f'build|{rg0}|phase_ref-ignored', f'asked {spec["pr_req"]} got {pr}')
    if lock and pr != lock:
        ctx.fail(f'build|{rg0}|phase_ref-ignored', f'locked {lock} but phase_ref {pr}')
    ctx.cell('syn:ref=' + str(pr)); ctx.cell('syn:mode=' + spec['mode']); ctx.cell('syn:how=' + spec['how'])
    if spec['mode'] == 'copy_models':
        ctx.cell('syn:copy_models=' + ('+'.join(sorted(n for n in spec['copy_names'] if n in ('Cn', 'Hvap'))) or 'other'))
    if lock: ctx.cell('syn:locked')
    if spec['Tb'] < spec['Tm']: ctx.cell('syn:Tb<Tm')
    if (spec['Tm'] < T_REF) != (spec['Tb'] < T_REF): ctx.cell('syn:Tm<Tref<Tb' if spec['Tm'] < T_REF else 'syn:Tb<Tref<Tm')
    rtol = 1e-10 if spec['how'] != 'numeric' else 3e-7
    Tm, Tb = spec['Tm'], spec['Tb']
    if spec['mode'] == 'copy_edit': ctx.cell('syn:copy_edit=' + ('live' if spec.get('live') else 'reset'))
    if spec.get('live'):
        # copy edited without rebuild: reference state, and H/S differences inside each phase against the NEW forms
        rg = f'src=syn,ref={pr},ph={pr},xm=0,lock=0,mode=copy_edit_live'
        h0 = ctx.call('H.ref', H_of, c, pr, T_REF, P_REF, region=rg)
        s0 = ctx.call('S.ref', S_of, c, pr, T_REF, P_REF, region=rg)
        ctx.check(abs(h0) <= 1e-9, f'H.ref|{rg}|mismatch', f'H at the reference state = {h0!r}')
        ctx.check(close(s0, spec['S0'], 1e-12, max(1.0, abs(spec['S0']))), f'S.ref|{rg}|mismatch', f'S at the reference state = {s0!r}')
        for i in range(ch.int('n.pairs', 1, 3)):
            ph = ch.choice(f'pair{i}.phase', PHASES)
            T1 = draw_T(ch, f'pair{i}.T1', 30.0, 1500.0, (T_REF, Tb, Tm))
            T2 = draw_T(ch, f'pair{i}.T2', 30.0, 1500.0, (T_REF, Tb, Tm))
            P = ch.logfloat(f'pair{i}.P', 3, 7)
            rg = f'src=syn,ref={pr},ph={ph},xm={crosses_melting(pr, ph, False)},lock=0,mode=copy_edit_live'
            form = spec['forms'][ph]
            h1 = ctx.call('H.dT', H_of, c, ph, T1, P, region=rg); h2 = ctx.call('H.dT', H_of, c, ph, T2, P, region=rg)
            s1 = ctx.call('S.dT', S_of, c, ph, T1, P, region=rg); s2 = ctx.call('S.dT', S_of, c, ph, T2, P, region=rg)
            F, G = form.F(T1, T2), form.G(T1, T2)
            ctx.check(close(h2 - h1, F, rtol, abs(F) + 1e-5 * (abs(h1) + abs(h2)) + 1e-6), f'H.dT|{rg}|mismatch',
                      f'copy with edited Cn: H({ph},{T2})-H({ph},{T1}) = {h2 - h1!r}, integral of its current Cn = {F!r}')
            ctx.check(close(s2 - s1, G, rtol, abs(G) + 1e-5 * (abs(s1) + abs(s2)) + 1e-8), f'S.dT|{rg}|mismatch',
                      f'copy with edited Cn: S({ph},{T2})-S({ph},{T1}) = {s2 - s1!r}, integral of its current Cn/T = {G!r}')
            cn = ctx.call('Cn', Cn_of, c, ph, T1, region=rg)
            ctx.check(close(cn, form(T1), 1e-13, abs(cn)), f'Cn|{rg}|mismatch', 'Cn handle does not return the edited model')
        ctx.nontriv(['syn', 'copy_edit_live', pr, spec['how'], [spec['kinds'][p] for p in PHASES]])
        return
    # evaluation points: the reference state, both sides of each transition, and a random point
    points = [(lock or pr, T_REF, P_REF, 'ref')]
    if not lock:
        P1 = ch.logfloat('P.jump', 3, 7)
        points += [('l', Tb, P1, 'Tb'), ('g', Tb, P1, 'Tb'), ('s', Tm, P1, 'Tm'), ('l', Tm, P1, 'Tm')]
    n = ch.int('n.points', 1, 3)
    nfixed = len(points)
    for i in range(n):
        ph = lock or ch.choice(f'pt{i}.phase', PHASES)
        T = draw_T(ch, f'pt{i}.T', 30.0, 1500.0, (T_REF, Tb, Tm))
        P = ch.logfloat(f'pt{i}.P', 3, 7)
        points.append((ph, T, P, 'any'))
    for ph, T, P, what in points:
        xm = crosses_melting(pr, ph, bool(lock))
        rg = f'src=syn,ref={pr},ph={ph},xm={xm},lock={int(bool(lock))},mode={spec["mode"]}'
        Hw, Sw, scH, scS = ref_model(spec, pr, ph, T, P)
        Hg = ctx.call('H.path', H_of, c, ph, T, P, region=rg)
        Sg = ctx.call('S.path', S_of, c, ph, T, P, region=rg)
        ctx.metric_max('syn:H_rel:' + spec['how'], abs(Hg - Hw) / scH)
        ctx.metric_max('syn:S_rel:' + spec['how'], abs(Sg - Sw) / scS)
        ctx.check(close(Hg, Hw, rtol, scH), f'H.path|{rg}|mismatch',
                  f'H({ph},{T},{P}) = {Hg!r}, closed form {Hw!r} (at {what}; Tm={Tm}, Tb={Tb}, ref={pr})')
        ctx.check(close(Sg, Sw, rtol, scS), f'S.path|{rg}|mismatch',
                  f'S({ph},{T},{P}) = {Sg!r}, closed form {Sw!r} (at {what}; Tm={Tm}, Tb={Tb}, ref={pr})')
        cn = ctx.call('Cn', Cn_of, c, ph, T, region=rg)
        ctx.check(close(cn, spec['forms'][ph](T), 1e-13, abs(cn)), f'Cn|{rg}|mismatch', 'Cn handle does not return the model')
    if lock or any(p[0] != pr for p in points[nfixed:]):
        ctx.nontriv(['syn', pr, lock, spec['mode'], spec['how'], [spec['kinds'][p] for p in sorted(spec['kinds'])],
                     spec['Tm'] < T_REF, spec['Tb'] < T_REF, spec['Tb'] < spec['Tm'], spec['Hfus'] == 0,
                     sorted(set(p[0] for p in points[nfixed:]))])


# ---------------------------------------------------------------------------
# mixtures
# ---------------------------------------------------------------------------
_mix_cache = {}
MIX_PHASES = ('s', 'l', 'g', 'L', 'S')
MIX_VARIANTS = ('default', 'default', 'l', 'g', 's', 'lock')
DEFAULT_LOCK = {'N2': 'g', 'O2': 'g', 'CO2': 'g', 'Methane': 'g', 'Propane': 'g', 'Glucose': 's', 'SuccinicAcid': 's',
                'Urea': 's', 'LacticAcid': 'l', 'Glycerol': 'l'}


NO_VAP = ('Glucose',)     # Tb > Tc: Hvap(Tb) is None, so only the s/l branches have complete data


def draw_components(ch, ctx, site, side=None):
    """Returns (chemicals, tags, mixture).  Database chemicals are cached; synthetic ones are rebuilt.
    side='fluid' / 'solid' restricts database chemicals to reference phases on that side of the melting point
    (or phase-locked), which keeps the case outside the trigger region of finding C07-F1."""
    k = ch.int('k', 1, 5)
    use_syn = ch.int('syn.count', 0, 2) if ch.bool('with_syn') else 0
    use_syn = min(use_syn, k)
    names = ch.subset('names', DB_NAMES, min_size=k - use_syn, max_size=k - use_syn)
    chems, tags = [], []
    for i, nme in enumerate(names):
        variants = MIX_VARIANTS
        if side:
            dref = db_chemical(nme, 'default').phase_ref
            variants = [v for v in MIX_VARIANTS if v == 'lock'
                        or ((dref if v == 'default' else v) == 's') == (side == 'solid')]
        v = ch.choice(f'variant{i}', variants)
        if nme in NO_VAP: v = 'lock'
        if v == 'lock':
            v = 'lock:' + (DEFAULT_LOCK.get(nme) or ch.choice(f'lockphase{i}', PHASES))
        chems.append(ctx.call('build', db_chemical, nme, v, region='src=db'))
        tags.append([nme, v])
    for j in range(use_syn):
        spec = draw_syn(ch, f'syn{j}', allow_modes=False)
        chems.append(ctx.call('build', build_syn, spec, f'Syn{j}', region='src=syn'))
        tags.append(['syn', spec['lock'] or chems[-1].phase_ref])
    order = ch.permutation('order', len(chems)) if len(chems) > 1 else [0]
    chems = [chems[i] for i in order]; tags = [tags[i] for i in order]
    # documented configuration of IdealMixture.from_chemicals: H and S also add the chemicals' own excess energies
    excess = ch.bool('excess')
    ctx.cell(f'mix:excess={int(excess)}')
    key = (tuple(map(tuple, tags)), excess)
    if use_syn == 0 and key in _mix_cache:
        mix = _mix_cache[key]
    else:
        mix = ctx.call(site + '.build', tmo.IdealMixture.from_chemicals, chems, include_excess_energies=excess,
                       region=f'k={len(chems)},ex={int(excess)}')
        if use_syn == 0: _mix_cache[key] = mix
    if mix.include_excess_energies is not excess:
        ctx.fail(f'{site}.build|k={len(chems)},ex={int(excess)}|flag-ignored', 'include_excess_energies not stored')
    return chems, tags, mix, excess


def draw_mol(ch, label, k):
    """Amounts over many decades: 0 or 10**u, u in [-9, 4] (trace / lab scale up to plant scale), optionally with
    every component present, and optionally with exactly one present component pushed down to 1e-9..1e-6 while the
    others keep their magnitude (the property holds for ALL compositions, so nothing may count as 'negligible')."""
    mol = ch.flows(label, k, lo_exp=-9, hi_exp=4)
    if k > 1 and ch.bool(label + '.dense'):
        mol = [v or 1.0 for v in mol]          # every component present
    if not any(mol):
        mol[ch.int(label + '.nonzero', 0, k - 1)] = 1.0
    if ch.int(label + '.one_tiny', 0, 3) == 3:
        present = [i for i, v in enumerate(mol) if v]
        mol[present[ch.int(label + '.tiny.i', 0, len(present) - 1)]] = ch.logfloat(label + '.tiny', -9, -6)
    return np.array(mol, float)


def draw_scale(ch):
    kf = ch.choice('scale', (2.0, 0.5, 10.0, 1e-7, None, None))
    if kf is None: kf = ch.logfloat('scale.k', -9, 6)
    return kf


def magnitude_cells(ctx, mol, kf=1.0):
    present = mol[mol > 0] * kf
    if (present <= 1e-6).any():
        ctx.cell('mix:tiny_all' if (present <= 1e-6).all() else 'mix:tiny_some')
    if (present >= 1e3).any(): ctx.cell('mix:large')


def pure_values(ctx, site, fn, chems, ph, T, P):
    out = []
    ph = ph.lower()      # 'L' / 'S' (second liquid / solid) share the pure-component functors of 'l' / 's'
    for c in chems:
        pr = c.phase_ref
        xm = crosses_melting(pr, ph, is_locked(c))
        rg = f'src=mix,ref={pr},ph={ph},xm={xm},lock={int(is_locked(c))}'
        out.append(ctx.call(site, fn, c, ph, T, P, region=rg))
    return np.array(out, float)


def prop_mixH(ch, ctx):
    chems, tags, mix, excess = draw_components(ch, ctx, 'mix')
    k = len(chems)
    ph = ch.choice('phase', MIX_PHASES)
    T = ch.float('T', 200.0, 600.0)
    P = ch.logfloat('P', 3, 7)
    mol = draw_mol(ch, 'mol', k)
    ncomp = int((mol > 0).sum())
    ctx.cell('mix:n>=2' if ncomp >= 2 else 'mix:n=1')
    rg = f'ncomp={"1" if ncomp == 1 else ">=2"},ph={ph},ex={int(excess)}'
    if ncomp >= 2:
        ctx.nontriv(['mixH', tags, ph, (mol > 0).tolist()])
    Hi = pure_values(ctx, 'mix.pure.H', H_of, chems, ph, T, P)
    if excess:
        Hxi = pure_values(ctx, 'mix.pure.H_excess', Hx_of, chems, ph, T, P)
        if np.abs(Hi).max() > 1.0: ctx.metric_max('mix:Hx/H', float(np.abs(Hxi).max() / np.abs(Hi).max()))
        if np.abs(Hxi).max() > 1e-3 * np.abs(Hi).max(): ctx.cell('mix:excess>0.1%')
        Hi = Hi + Hxi
    Ci = pure_values(ctx, 'mix.pure.Cn', lambda c, ph, T, P: Cn_of(c, ph, T), chems, ph, T, P)
    as_list = ch.bool('mol.as_list')
    arg = mol.tolist() if as_list else mol
    Hm = ctx.call('mix.H', mix.H, ph, arg, T, P, region=rg)
    Cm = ctx.call('mix.Cn', mix.Cn, ph, arg, T, region=rg)
    scH = float(np.abs(mol * Hi).sum()) + 1e-300
    scC = float(np.abs(mol * Ci).sum()) + 1e-300
    ctx.metric_max('mix:H_rel', abs(Hm - float(mol @ Hi)) / scH)
    ctx.check(close(Hm, float(mol @ Hi), 1e-12, scH), f'mix.H|{rg}|mismatch',
              f'mixture H = {Hm!r}, sum n_i H_i = {float(mol @ Hi)!r} ({tags})')
    ctx.check(close(Cm, float(mol @ Ci), 1e-12, scC), f'mix.Cn|{rg}|mismatch',
              f'mixture Cn = {Cm!r}, sum n_i Cn_i = {float(mol @ Ci)!r} ({tags})')
    # one present component on its own (whatever its magnitude) contributes exactly n_i * pure_i
    present = [i for i in range(k) if mol[i] > 0]
    i1 = present[ch.int('alone.i', 0, len(present) - 1)]
    alone = np.zeros(k); alone[i1] = mol[i1]
    H1 = ctx.call('mix.H', mix.H, ph, alone, T, P, region=rg)
    C1 = ctx.call('mix.Cn', mix.Cn, ph, alone, T, region=rg)
    ctx.check(close(H1, mol[i1] * Hi[i1], 1e-13, abs(mol[i1] * Hi[i1])), f'mix.H.alone|{rg}|mismatch',
              f'H of component {tags[i1]} alone (n={mol[i1]!r}) = {H1!r}, n*H_i = {mol[i1] * Hi[i1]!r}')
    ctx.check(close(C1, mol[i1] * Ci[i1], 1e-13, abs(mol[i1] * Ci[i1])), f'mix.Cn.alone|{rg}|mismatch',
              f'Cn of component {tags[i1]} alone (n={mol[i1]!r}) = {C1!r}, n*Cn_i = {mol[i1] * Ci[i1]!r}')
    # extensive
    kf = draw_scale(ch)
    magnitude_cells(ctx, mol); magnitude_cells(ctx, mol, kf)
    Hk = ctx.call('mix.H', mix.H, ph, mol * kf, T, P, region=rg)
    Ck = ctx.call('mix.Cn', mix.Cn, ph, mol * kf, T, region=rg)
    ctx.check(close(Hk, kf * Hm, 1e-12, kf * scH), f'mix.H.extensive|{rg}|mismatch', f'H(k n) = {Hk!r}, k H(n) = {kf * Hm!r}')
    ctx.check(close(Ck, kf * Cm, 1e-12, kf * scC), f'mix.Cn.extensive|{rg}|mismatch', f'Cn(k n) = {Ck!r}, k Cn(n) = {kf * Cm!r}')
    # multi-phase: xH / xCn are the sums over the phases
    if ch.bool('multi'):
        ctx.cell('mix:multi')
        ph2 = ch.choice('phase2', [p for p in MIX_PHASES if p != ph])
        mol2 = draw_mol(ch, 'mol2', k)
        H2 = pure_values(ctx, 'mix.pure.H', H_of, chems, ph2, T, P)
        if excess: H2 = H2 + pure_values(ctx, 'mix.pure.H_excess', Hx_of, chems, ph2, T, P)
        C2 = pure_values(ctx, 'mix.pure.Cn', lambda c, ph, T, P: Cn_of(c, ph, T), chems, ph2, T, P)
        xH = ctx.call('mix.xH', mix.xH, [(ph, mol), (ph2, mol2)], T, P, region=rg)
        xC = ctx.call('mix.xCn', mix.xCn, [(ph, mol), (ph2, mol2)], T, P, region=rg)
        want = float(mol @ Hi + mol2 @ H2)
        sc = scH + float(np.abs(mol2 * H2).sum())
        ctx.check(close(xH, want, 1e-12, sc), f'mix.xH|{rg}|mismatch', f'xH = {xH!r}, sum over phases = {want!r}')
        wantC = float(mol @ Ci + mol2 @ C2)
        ctx.check(close(xC, wantC, 1e-12, abs(wantC)), f'mix.xCn|{rg}|mismatch', f'xCn = {xC!r}, sum = {wantC!r}')


def mixing_term(mol):
    n = mol[mol > 0]
    x = n / n.sum()
    return -R * float((n * np.log(x)).sum())


def prop_mixS(ch, ctx):
    # finding C07-F1 (Sfus=None) makes S raise for every phase on the other side of Tm from a database chemical's
    # reference phase; most cases are steered away from that region (the stateless db family covers it)
    side = ch.choice('side', ('fluid', 'fluid', 'fluid', 'solid', None))
    phases_ok = {'fluid': ('l', 'g', 'L'), 'solid': ('s', 'S'), None: MIX_PHASES}[side]
    chems, tags, mix, excess = draw_components(ch, ctx, 'mix', side)
    k = len(chems)
    ctx.cell('mixS:side=' + str(side))
    ph = ch.choice('phase', phases_ok)
    T = ch.float('T', 200.0, 600.0)
    P = ch.logfloat('P', 3, 7)
    mol = draw_mol(ch, 'mol', k)
    if ch.int('single', 0, 9) == 9:
        keep = ch.int('single.i', 0, k - 1)
        mol = np.array([v if i == keep else 0.0 for i, v in enumerate(mol)])
        if mol[keep] == 0: mol[keep] = 1.0
    ncomp = int((mol > 0).sum())
    ctx.cell('mix:n>=2' if ncomp >= 2 else 'mix:n=1')
    rg0 = f'ncomp={"1" if ncomp == 1 else ">=2"},ph={ph}'      # region of the mixing-term clause (finding C07-F2)
    rg = rg0 + f',ex={int(excess)}'
    if ncomp >= 2:
        ctx.nontriv(['mixS', tags, ph, (mol > 0).tolist()])
    Si = pure_values(ctx, 'mix.pure.S', S_of, chems, ph, T, P)
    if excess: Si = Si + pure_values(ctx, 'mix.pure.S_excess', Sx_of, chems, ph, T, P)
    Sm = ctx.call('mix.S', mix.S, ph, mol, T, P, region=rg)
    sc = float(np.abs(mol * Si).sum()) + R * float(mol.sum())
    # one present component on its own (whatever its magnitude): n_i * S_i, no mixing term
    present = [i for i in range(k) if mol[i] > 0]
    i1 = present[ch.int('alone.i', 0, len(present) - 1)]
    alone = np.zeros(k); alone[i1] = mol[i1]
    S1 = ctx.call('mix.S', mix.S, ph, alone, T, P, region=rg)
    ctx.check(close(S1, mol[i1] * Si[i1], 1e-13, abs(mol[i1] * Si[i1])), f'mix.S.alone|{rg}|mismatch',
              f'S of component {tags[i1]} alone (n={mol[i1]!r}) = {S1!r}, n*S_i = {mol[i1] * Si[i1]!r}')
    # homogeneous of degree one (holds for the pure part and for the mixing term)
    kf = draw_scale(ch)
    magnitude_cells(ctx, mol); magnitude_cells(ctx, mol, kf)
    Sk = ctx.call('mix.S', mix.S, ph, mol * kf, T, P, region=rg)
    ctx.check(close(Sk, kf * Sm, 1e-11, kf * sc), f'mix.S.extensive|{rg}|mismatch', f'S(k n) = {Sk!r}, k S(n) = {kf * Sm!r}')
    if ch.bool('multi'):
        ctx.cell('mix:multi')
        ph2 = ch.choice('phase2', [p for p in phases_ok if p != ph] or [p for p in MIX_PHASES if p != ph])
        mol2 = draw_mol(ch, 'mol2', k)
        pure_values(ctx, 'mix.pure.S', S_of, chems, ph2, T, P)
        S2 = ctx.call('mix.S', mix.S, ph2, mol2, T, P, region=rg)
        xS = ctx.call('mix.xS', mix.xS, [(ph, mol), (ph2, mol2)], T, P, region=rg)
        ctx.check(close(xS, Sm + S2, 1e-12, abs(Sm) + abs(S2)), f'mix.xS|{rg}|mismatch', f'xS = {xS!r}, S+S2 = {Sm + S2!r}')
    # the ideal mixing term (last, so that the clauses above are still examined inside finding C07-F2's region)
    pure = float(mol @ Si)
    want = pure + mixing_term(mol)
    ctx.metric_max('mix:S_rel', abs(Sm - want) / sc)
    if not close(Sm, want, 1e-11, sc):
        # name the observed wrong term, so that a *different* wrong mixing term is a different signature
        n = mol[mol > 0]
        plus_nlnx = float((n * np.log(n / n.sum())).sum())
        kind = 'term=+sum(n*ln(x))' if close(Sm - pure, plus_nlnx, 1e-11, sc) else 'mismatch'
        ctx.fail(f'mix.S.term|{rg0}|{kind}',
                 f'S_mix - sum n_i S_i = {Sm - pure!r}, -R sum n_i ln x_i = {want - pure!r} (mol={mol.tolist()}, {tags})')


# ---------------------------------------------------------------------------
# streams: mixing at equal T, P never lowers entropy
# ---------------------------------------------------------------------------
STREAM_PKGS = {
    'U1': (('Water', 'Ethanol', 'Methanol', 'Acetone', 'Hexane'), {}),
    'U2': (('Water', 'Glycerol', 'AceticAcid', 'Propanol'), {}),
    'U3': (('N2', 'O2', 'CO2', 'Water', 'Methane'), {'N2': 'g', 'O2': 'g', 'CO2': 'g'}),
    'U4': (('Benzene', 'Toluene', 'Octane'), {}),
    'U5': (('Water', 'Ethanol'), {}),
}


def prop_stream(ch, ctx):
    pk = ch.choice('pkg', sorted(STREAM_PKGS))
    names, locked = STREAM_PKGS[pk]
    th = chem.thermo_of(names, locked=locked)
    tmo.settings.set_thermo(th)
    n = len(names)
    kind = ch.choice('kind', ('S', 'S', 'S', 'M'))
    m = ch.int('n.inlets', 2, 4)
    T = ch.float('T', 280.0, 420.0)
    P = ch.logfloat('P', 4, 6)
    eb = ch.bool('energy_balance')
    same = ch.int('same_composition', 0, 3) == 0
    phases = ('l', 'g') if kind == 'M' else (ch.choice('phase', ('l', 'g', 'l', 'g', 'l', 's')),)
    ctx.cell('stream:kind=' + kind)
    base = None
    inlets, flows = [], []
    for i in range(m):
        if same and base is not None:
            f = ch.choice(f'in{i}.factor', (1.0, 2.0, 0.5, 3.0))
            rows = [[f * x for x in r] for r in base]
        else:
            rows = []
            for p in phases:
                v = ch.flows(f'in{i}.{p}', n, lo_exp=-7, hi_exp=4)
                if not any(v): v[ch.int(f'in{i}.{p}.nz', 0, n - 1)] = 1.0
                rows.append(v)
        if base is None: base = rows
        flows.append(rows)
        if kind == 'S':
            s = tmo.Stream(None, thermo=th, T=T, P=P, phase=phases[0])
            for j, v in enumerate(rows[0]):
                if v: s.imol[names[j]] = v
        else:
            s = tmo.MultiStream(None, thermo=th, T=T, P=P, phases=phases)
            for p, r in zip(phases, rows):
                for j, v in enumerate(r):
                    if v: s.imol[p, names[j]] = v
        inlets.append(s)
    arr = np.array(flows, float)               # inlet x phase x chemical
    tot = arr.sum(axis=0)                      # phase x chemical
    # are all inlets of identical composition in every phase (then mixing creates no entropy)
    distinct = False
    for pi in range(len(phases)):
        xs = [a[pi] / a[pi].sum() for a in arr]
        if any(np.abs(x - xs[0]).max() > 1e-12 for x in xs[1:]): distinct = True
    ctx.cell('stream:distinct' if distinct else 'stream:same')
    xm = int(any(crosses_melting(c.phase_ref, p, is_locked(c)) for c in th.chemicals for p in phases))
    rg = f'distinct={int(distinct)},kind={kind},eb={int(eb)},xm={xm}'
    if distinct:
        ctx.nontriv(['stream', pk, kind, phases, eb, [[[1 if v else 0 for v in r] for r in rows] for rows in flows]])
    # stream enthalpy and heat-capacity flow rates are the mole-weighted pure values (trace components included)
    for s_, a in ((inlets[0], arr[0]),):
        Hw = Cw = scH = scC = 0.0
        for pi, p in enumerate(phases):
            for j, c in enumerate(th.chemicals):
                if a[pi][j]:
                    h = H_of(c, p, T, P); cn = Cn_of(c, p, T)
                    Hw += a[pi][j] * h; Cw += a[pi][j] * cn; scH += abs(a[pi][j] * h); scC += abs(a[pi][j] * cn)
        Hg = ctx.call('stream.H', lambda: s_.H, region=rg)
        Cg = ctx.call('stream.C', lambda: s_.C, region=rg)
        ctx.check(close(Hg, Hw, 1e-11, scH), f'stream.H|{rg}|mismatch', f'Stream.H = {Hg!r}, sum n_i H_i = {Hw!r} (flows {a.tolist()})')
        ctx.check(close(Cg, Cw, 1e-11, scC), f'stream.C|{rg}|mismatch', f'Stream.C = {Cg!r}, sum n_i Cn_i = {Cw!r} (flows {a.tolist()})')
    # a reused Stream: read H, C, S, change ONLY the phase, read again -> the values of the new phase
    if kind == 'S':
        ph2 = ch.choice('probe.phase', [p for p in ('l', 'g', 's') if p != phases[0]])
        xm2 = int(any(crosses_melting(c.phase_ref, ph2, is_locked(c)) for c in th.chemicals))
        rgp = f'from={phases[0]},to={ph2},xm={xm2}'
        def make(phase):
            st_ = tmo.Stream(None, thermo=th, T=T, P=P, phase=phase)
            for j, v in enumerate(flows[0][0]):
                if v: st_.imol[names[j]] = v
            return st_
        probe = make(phases[0])
        before = ctx.call('stream.reuse', lambda: (probe.H, probe.C, probe.S), region=rgp)
        probe.phase = ph2
        after = ctx.call('stream.reuse', lambda: (probe.H, probe.C, probe.S), region=rgp)
        fresh = make(ph2)
        ref = ctx.call('stream.reuse', lambda: (fresh.H, fresh.C, fresh.S), region=rgp)
        Hw = Cw = scH = scC = 0.0
        for j, c in enumerate(th.chemicals):
            v = flows[0][0][j]
            if v:
                h = H_of(c, ph2, T, P); cn = Cn_of(c, ph2, T)
                Hw += v * h; Cw += v * cn; scH += abs(v * h); scC += abs(v * cn)
        ctx.check(close(after[0], Hw, 1e-11, scH), f'stream.reuse.H|{rgp}|stale',
                  f'after phase {phases[0]}->{ph2}: Stream.H = {after[0]!r}, sum n_i H_i({ph2}) = {Hw!r} (before: {before[0]!r})')
        ctx.check(close(after[1], Cw, 1e-11, scC), f'stream.reuse.C|{rgp}|stale',
                  f'after phase {phases[0]}->{ph2}: Stream.C = {after[1]!r}, sum n_i Cn_i({ph2}) = {Cw!r} (before: {before[1]!r})')
        ctx.check(after[2] == ref[2], f'stream.reuse.S|{rgp}|stale',
                  f'after phase {phases[0]}->{ph2}: Stream.S = {after[2]!r}, a fresh stream in {ph2} has {ref[2]!r} (before: {before[2]!r})')
        ctx.cell('stream:reuse')
    S_in = [ctx.call('stream.S', lambda s=s: s.S, region=rg) for s in inlets]
    C_in = sum(s.C for s in inlets)
    Trecv = T if not eb else ch.choice('recv.T', (T, T + 17.0, T - 23.0))
    if kind == 'S':
        out = tmo.Stream(None, thermo=th, T=Trecv, P=P, phase=phases[0])
    else:
        out = tmo.MultiStream(None, thermo=th, T=Trecv, P=P, phases=phases)
    ctx.call('stream.mix_from', out.mix_from, inlets, energy_balance=eb, region=rg)
    if sorted(out.phases) != sorted(phases) or abs(out.P - P) > 0:
        ctx.reject('mixing changed the phases or pressure (outside this clause)')
    got = np.array([[out.imol[p, nme] if kind == 'M' else out.imol[nme] for nme in names] for p in phases], float)
    if not np.allclose(got, tot, rtol=1e-12, atol=0):
        ctx.reject('material not conserved (reported by C01)')
    dT = abs(out.T - T)
    if dT > 1e-3:
        ctx.reject('outlet temperature differs (reported by C02)')
    S_out = ctx.call('stream.S', lambda: out.S, region=rg)
    Ssum = float(sum(S_in))
    tol = 1e-10 * (abs(Ssum) + abs(S_out)) + 2.0 * C_in * max(dT, 1e-9) / T
    if dT:
        # S(T) of a 'stable_polynomial' Cn model moves on a coarse floating-point grid (finding C07-F3);
        # a change of T by the solver tolerance can therefore move S by one grid step per mole
        tol += 2 * sum(float(tot[pi][j]) * s_resolution(c, p, (T,)) for pi, p in enumerate(phases)
                       for j, c in enumerate(th.chemicals))
    ctx.metric_max('stream:dT', dT)
    ctx.check(S_out >= Ssum - tol, f'stream.mix.S|{rg}|S-decreased',
              f'S_out = {S_out!r} < sum S_in = {Ssum!r} (T={T}, P={P}, phases={phases}, {pk})')
    # exact entropy production of ideal mixing
    want = sum(mixing_term(tot[pi]) for pi in range(len(phases))) - sum(
        mixing_term(a[pi]) for a in arr for pi in range(len(phases)))
    ctx.metric_max('stream:dS_abs', abs(S_out - Ssum - want))
    if abs(S_out - Ssum - want) > tol + 1e-10 * abs(want):
        # name the observed wrong term (cf. mix.S.term): +sum n ln x per phase instead of -R sum n ln x
        kind = 'term=+sum(n*ln(x))' if abs(S_out - Ssum + want / R) <= tol + 1e-10 * abs(want) else 'mismatch'
        ctx.fail(f'stream.mix.S|{rg}|{kind}', f'S_out - sum S_in = {S_out - Ssum!r}, ideal mixing entropy = {want!r}')


PROPS = {
    'db': (prop_db, 6000, 200000),
    'syn': (prop_syn, 3000, 80000),
    'mixH': (prop_mixH, 1500, 30000),
    'mixS': (prop_mixS, 1500, 30000),
    'stream': (prop_stream, 1000, 20000),
}
