"""C11 - molar, mass and volumetric views and unit conversions of a stream always agree (history check)."""
from __future__ import annotations

import numpy as np
import thermosteam as tmo
from thermosteam.exceptions import DimensionError

from vlib import chem, streams as vs
from vlib import c11_model as M
from vlib.c11_model import Pk, fam, twin

PROPERTY = 'C11'
RULE = ('History check. A case draws two streams a, b (Stream in any of s/l/g/S/L or MultiStream over >=2 of those '
        'labels, seven packages over 8 chemicals that all have molar-volume models in s, l and g, flows 0 or 10**u, '
        'T in [250,450] K, P in [1e4,5e6] Pa) and then up to 30 operations chosen through the chooser as a function '
        'of the current model state: writes through mol/mass/vol, imol/imass/ivol[key], indexer.set_data, set_flow '
        'in 19 units, total-flow setters (F_mol/F_mass/F_vol/set_total_flow), writes through MultiStream phase '
        'sub-streams, T=, P=, phase=, phases= (S->M, M->M, M->S), link_with (all 8 flag subsets), unlink, '
        'copy_like, _reset_thermo(other package), proxy, flow_proxy, empty, keyed reads in any unit and '
        'wrong-dimension units. Oracle: an independent cell model (dense per-phase vectors, T, P, label, explicit '
        'sharing cells); after every step every live stream must satisfy mass == mol*MW, vol == mol*1000*V_i(phase,'
        'T,P) with V_i evaluated on the chemical object, totals == sums, get_flow(u) == base*factor(u) with my own '
        'conversion table, written value reads back in the same and in other units, composition unchanged by total '
        'setters, DimensionError for wrong dimensions. Non-trivial: a history in which a view is read after a '
        'structural change (T/P/phase/phases/link/unlink/copy_like/reset/proxy); distinct by the sequence of '
        '(operation, kind, view, access form).')
ASSUMPTIONS = [
    'flows are finite and non-negative; T in [250,450] K and P in [1e4,5e6] Pa where every V model of the 8 chemicals evaluates',
    'property packages use the default ideal mixing rule, so the mixture molar volume equals the mole-weighted sum of V_i',
    'link_with is only generated between streams of the same package (and, for MultiStreams, the same phase tuple); '
    'a Stream<->MultiStream link must raise the documented RuntimeError',
    'phase-set changes respect the C12 precondition (target contains every non-empty phase up to case)',
    'copy_like placement of material and T/P is C13\'s subject: the model is re-read from the molar data after '
    'copy_like and only the agreement of the views with that molar data is required',
    'operations inside the trigger region of a known finding are not generated in most histories (mode 0-4) and '
    'are generated in the remaining modes, where they are tallied',
]
REQUIRED_CELLS = {'quick': ['op:write', 'op:total', 'op:T', 'op:P', 'op:phase', 'op:phases', 'op:link', 'op:unlink',
                            'op:copy_like', 'op:reset_thermo', 'op:proxy', 'op:flow_proxy', 'op:dim_error',
                            'ctor:S,total=1,units=nonbase', 'ctor:M,total=1,units=nonbase', 'ctor:M,total=1,units=none', 'dim_error:indexer.get_data', 'dim_error:get_property', 'dim_error:set_property', 'op:read_key', 'op:get_property', 'op:assign', 'op:reset_flow', 'reset_flow:kind=S', 'reset_flow:kind=M', 'reset_flow:dim=vol', 'assign:vol-different-conditions', 'write:view=mass', 'write:view=vol', 'write:via=sub',
                            'phases:S->M', 'phases:M->M', 'phases:M->S', 'link:full', 'link:partial'],
                  'thorough': []}

RT = 1e-11
TAGS = ('F1', 'F2', 'F3', 'F4', 'F5', 'F6', 'F7')
CANON = {   # canonical signature of each known-defect region (used to ask the runner whether it is still listed)
    'F1': 'C11|view.vol|kind=S,trig=phase-same-TP|mismatch',
    'F2': 'C11|view.mass|kind=M,trig=expand-cached|mismatch',
    'F3': 'C11|view.mass|kind=S,trig=cache-shared|mismatch',
    'F4': 'C11|op.proxy|born=M|exc:AttributeError@_stream.proxy',
    'F5': 'C11|op.reset_thermo|kind=M,trig=sub-of-removed-phase|exc:UndefinedPhase@_phase.__call__',
    'F6': 'C11|view.F_vol|kind=S,trig=proxy-propcache|mismatch',
}


def _listed_tags():
    """Finding tags (F1..) whose entry is still 'known' in the committed lists (known_findings.json overrides the
    per-property working file).  Read from the files, not from ctx.known, so that generation and replay (which the
    runner executes without the known list) perform exactly the same operations."""
    import json, os
    root = os.path.dirname(os.path.dirname(os.path.abspath(__file__)))
    status = {}
    for rel in (os.path.join('findings', PROPERTY + '.json'), 'known_findings.json'):
        path = os.path.join(root, rel)
        if not os.path.exists(path):
            continue
        with open(path) as f:
            for k in json.load(f):
                if k.get('property') == PROPERTY and '-' in k.get('id', ''):
                    status[k['id'].split('-', 1)[1]] = k.get('status')
    return {t for t, st in status.items() if st == 'known'}


LISTED = _listed_tags()


DERIVED = ('H', None, 'C', 'rho', 'S', 'Cn', 'Hvap', 'V')     # pure reads that go through Stream._get_property / mixture


def arr(x):
    if hasattr(x, 'to_array'):
        return np.asarray(x.to_array(), float)
    return np.asarray(x, float)


class PC:
    """identity cell for the _property_cache dict; ``shared`` once a proxy() was made on it (the dict keeps
    whatever the other key-holder stored even after that one left, so the mark stays with the dict)"""
    shared = False


class Run:
    def __init__(self, ch, ctx):
        self.ch = ch
        self.ctx = ctx
        self.live = []          # list of (name, real, SM)
        self.pc = {}            # name -> PC
        self.avoid = set()
        self.hist = []          # structural summary for non-triviality
        self.struct_then_read = False
        self.naux = 0

    # ------------------------------------------------------------------ utils
    def get(self, name):
        for n, r, m in self.live:
            if n == name:
                return r, m
        raise KeyError(name)

    def names(self):
        return [n for n, _, _ in self.live]

    def drop_aux_sharing(self, ix, keep):
        for t in list(self.live):
            if t[0] != keep and t[2].ix is ix:
                self.live.remove(t)
                self.ctx.cell('aux-dropped')

    def proxied(self, name):
        pc = self.pc.get(name)
        return bool(pc is not None and pc.shared)

    # ------------------------------------------------------ trigger predicates
    def vol_entry(self, sm, create=False):
        c = sm.ix.cache
        e = c.vol.get(id(sm.tc))
        if e is None and create:
            e = c.vol[id(sm.tc)] = (sm.tc, {})
        return e

    @staticmethod
    def same_tp(e, tc):
        return abs(e[0] - tc.T) < 1e-12 and abs(e[1] - tc.P) < 1e-12

    def stale_idx(self, sm, only_nonzero=True):
        """chemical indices whose cached molar volume belongs to another phase family (known defect F1)"""
        if sm.kind != 'S':
            return []
        e = self.vol_entry(sm)
        if e is None:
            return []
        f = fam(sm.ix.ph.label)
        row = sm.rows()[0]
        return [i for i, ent in e[1].items() if self.same_tp(ent, sm.tc) and ent[2] != f
                and (row[i] or not only_nonzero)]

    def touch(self, sm, idxs):
        """the code evaluates (and caches) V for these chemicals now"""
        if sm.kind != 'S':
            self.vol_entry(sm, True)
            return
        e = self.vol_entry(sm, True)[1]
        f = fam(sm.ix.ph.label)
        for i in idxs:
            ent = e.get(i)
            if ent is None or not self.same_tp(ent, sm.tc):
                e[i] = (sm.tc.T, sm.tc.P, f)

    def cache_is_shared(self, sm):
        return any(o.ix is not sm.ix and o.ix.cache is sm.ix.cache for n, r, o in self.live)

    def cache_conflict(self, name, sm, view):
        """another live stream uses the same _data_cache dict but other data / TC / phase container (F3)"""
        for n, _, o in self.live:
            if n == name or o.ix is sm.ix or o.ix.cache is not sm.ix.cache:
                continue
            if view == 'mass':
                if o.ix.data is not sm.ix.data:
                    return True
            else:
                if o.tc is sm.tc and (o.ix.data is not sm.ix.data or o.ix.ph is not sm.ix.ph):
                    return True
        return False

    def trig(self, name, sm, view, sub=False):
        """named trigger conditions (known-defect regions) that are active for this read"""
        t = []
        if sub:
            return 'none'
        base = {'mass': 'mass', 'vol': 'vol'}.get(view)
        if base == 'vol' and self.stale_idx(sm):
            t.append('phase-same-TP')
        if sm.kind == 'M' and sm.ix.cache.dirty:
            # a mass/volume view cached before an in-place phase expansion: reads through it are wrong and writes
            # through it land in other rows, so every view of the stream is inside the region from then on
            t.append('expand-cached')
        if sm.ix.cache.diverged or self.cache_conflict(name, sm, 'mass') or (base == 'vol' and self.cache_conflict(name, sm, 'vol')):
            t.append('cache-shared')
        if view == 'F_vol' and self.proxied(name):
            t.append('proxy-propcache')
        if getattr(sm.ix.data, 'broken', False):
            t.append('expand-shared-data')
        return '+'.join(t) if t else 'none'

    # ------------------------------------------------------------- comparisons
    def cmp(self, site, name, sm, view, got, want, sub=False, what=''):
        got = arr(got); want = np.asarray(want, float)
        kind = 'sub' if sub else sm.kind
        region = f'kind={kind},trig={self.trig(name, sm, view, sub)}'
        if got.shape != want.shape:
            self.ctx.fail(f'{site}|{region}|shape', f'{name}.{what or view}: shape {got.shape} want {want.shape} after {sm.last}')
        if got.size == 0:
            return
        den = np.maximum(np.abs(got), np.abs(want))
        err = np.abs(got - want)
        rel = np.where(den > 0, err / np.where(den > 0, den, 1.0), 0.0)
        worst = float(rel.max())
        if worst > RT:
            k = int(np.argmax(rel))
            self.ctx.fail(f'{site}|{region}|mismatch',
                          f'{name}.{what or view} after {sm.last}: got {got.ravel()[k]!r} want {want.ravel()[k]!r} '
                          f'(flat index {k}; T={sm.tc.T!r} P={sm.tc.P!r} labels={sm.labels()})')
        self.ctx.metric_max(f'{view}:rel_err', worst)

    def cmp_sum(self, site, name, sm, view, got, terms, sub=False, what=''):
        """scalar total against the sum of non-negative terms (tolerance relative to the sum of terms)"""
        terms = np.asarray(terms, float)
        want = float(terms.sum())
        kind = 'sub' if sub else sm.kind
        region = f'kind={kind},trig={self.trig(name, sm, view, sub)}'
        got = float(got)
        scale = max(abs(want), abs(got))
        err = abs(got - want) / scale if scale else 0.0
        if err > RT:
            self.ctx.fail(f'{site}|{region}|mismatch',
                          f'{name}.{what or view} after {sm.last}: got {got!r} want {want!r} (T={sm.tc.T!r} P={sm.tc.P!r} labels={sm.labels()})')
        self.ctx.metric_max(f'{view}:rel_err', err)

    # ---------------------------------------------------------------- invariant
    def check_single(self, name, real, sm, p, row, sub):
        """views of a single-phase object (Stream or phase sub-stream) against one model row"""
        ctx = self.ctx
        pk = sm.pk
        T, P = sm.tc.T, sm.tc.P
        if real.T != T or real.P != P:
            ctx.fail(f'sync.TP|kind={"sub" if sub else sm.kind}|mismatch', f'{name}: T,P {real.T!r},{real.P!r} model {T!r},{P!r} after {sm.last}')
        if real.phase != p:
            ctx.fail(f'sync.phase|kind={"sub" if sub else sm.kind}|mismatch', f'{name}: phase {real.phase!r} model {p!r} after {sm.last}')
        V = np.array([M.Vref(pk, i, fam(p), T, P) if x else 0.0 for i, x in enumerate(row)])
        self.cmp('view.mol', name, sm, 'mol', real.mol, row, sub)
        self.cmp('view.mass', name, sm, 'mass', real.mass, row * pk.MW, sub)
        self.cmp('view.vol', name, sm, 'vol', real.vol, row * V, sub)
        if not sub:
            self.touch(sm, [i for i, x in enumerate(row) if x])
        self.cmp_sum('view.F_mol', name, sm, 'F_mol', real.F_mol, row, sub)
        self.cmp_sum('view.F_mass', name, sm, 'F_mass', real.F_mass, row * pk.MW, sub)
        if not (self.proxied(name) and 'F6' in self.avoid):
            self.cmp_sum('view.F_vol', name, sm, 'F_vol', real.F_vol, row * V, sub)
        else:
            ctx.cell('avoided:F_vol-of-proxied-stream')

    def invariant(self, unit):
        ctx = self.ctx
        # another cached mixture property is read first, so that the F_vol / total-flow clauses below meet the
        # property cache in the state a process model leaves it in (write a flow, read H, then read F_vol)
        derived = DERIVED[M.ALL_UNITS.index(unit) % len(DERIVED)]
        for name, real, sm in list(self.live):
            pk = sm.pk
            if derived:
                ctx.call('read.derived', getattr, real, derived, region=f'kind={sm.kind},name={derived}')
                ctx.cell('derived:' + derived)
            if sm.kind == 'S':
                if type(real) is not tmo.Stream:
                    ctx.fail('sync.class|kind=S|mismatch', f'{name} is {type(real).__name__} after {sm.last}')
                self.check_single(name, real, sm, sm.ix.ph.label, sm.rows()[0], False)
            else:
                if type(real) is not tmo.MultiStream:
                    ctx.fail('sync.class|kind=M|mismatch', f'{name} is {type(real).__name__} after {sm.last}')
                if list(real.phases) != sm.labels():
                    ctx.fail('sync.phases|kind=M|mismatch', f'{name}: phases {real.phases} model {sm.labels()} after {sm.last}')
                if real.T != sm.tc.T or real.P != sm.tc.P:
                    ctx.fail('sync.TP|kind=M|mismatch', f'{name}: T,P {real.T!r},{real.P!r} model after {sm.last}')
                mol = sm.dense(); mass = np.array(sm.mass_rows()); vol = np.array(sm.vol_rows())
                self.cmp('view.mol', name, sm, 'mol', real.imol.data, mol, what='imol.data')
                self.cmp('view.mass', name, sm, 'mass', real.imass.data, mass, what='imass.data')
                sm.ix.cache.mass = True
                self.cmp('view.vol', name, sm, 'vol', real.ivol.data, vol, what='ivol.data')
                self.touch(sm, [])
                self.cmp('view.mol', name, sm, 'mol', real.mol, mol.sum(0), what='mol(sum)')
                self.cmp('view.mass', name, sm, 'mass-sum', real.mass, mass.sum(0), what='mass(sum)')
                self.cmp('view.vol', name, sm, 'vol', real.vol, vol.sum(0), what='vol(sum)')
                self.cmp_sum('view.F_mol', name, sm, 'F_mol', real.F_mol, mol)
                self.cmp_sum('view.F_mass', name, sm, 'F_mass', real.F_mass, mass)
                if not (self.proxied(name) and 'F6' in self.avoid):
                    self.cmp_sum('view.F_vol', name, sm, 'F_vol', real.F_vol, vol)
                for p in sorted(sm.subs.phases()) if name in ('a', 'b') else ():
                    if sm.subs.state(sm, p) == 'ok' and p in sm.ix.phases:
                        self.check_single(f'{name}[{p}]', real[p], sm, p, sm.row_of(p), True)
            if sm.kind == 'S':
                sm.ix.cache.mass = True
            # one unit per step, all three dimensions through get_flow / get_total_flow
            dim = M.UNIT_DIM[unit]; f = M.UNIT_FACTOR[unit]
            view = dim
            rows = sm.view_rows(view)
            if sm.kind == 'S':
                self.cmp('view.' + view, name, sm, view, real.get_flow(unit), rows[0] * f, what=f'get_flow({unit})')
                if view == 'vol':
                    self.touch(sm, [i for i, x in enumerate(sm.rows()[0]) if x])
            else:
                self.cmp('view.' + view, name, sm, view, real.get_flow(unit), np.array(rows).sum(0) * f, what=f'get_flow({unit})')
            fv = 'F_' + view
            if not (fv == 'F_vol' and self.proxied(name) and 'F6' in self.avoid):
                self.cmp_sum('view.' + fv, name, sm, fv, real.get_total_flow(unit), np.array(rows) * f, what=f'get_total_flow({unit})')

    # -------------------------------------------------------------- operations
    def pick(self, label, names=None):
        names = names or self.names()
        return self.ch.choice(label, names)

    def value(self, label, lo=-3, hi=3):
        k = self.ch.int(label + '.kind', 0, 5)
        if k == 0:
            return 0.0
        if k == 1:
            return self.ch.choice(label + '.simple', [1.0, 2.0, 0.5, 10.0])
        return self.ch.logfloat(label, lo, hi)

    def op_write(self, step):
        ch, ctx = self.ch, self.ctx
        name = self.pick('target')
        real, sm = self.get(name)
        pk = sm.pk
        view = ch.choice('view', ['mol', 'mass', 'vol', 'mass', 'vol'])
        unit = ch.choice('unit', list(M.UNITS[view]))
        f = M.UNIT_FACTOR[unit]
        sub = False
        if sm.kind == 'M':
            p = ch.choice('phase', sm.labels())
            want_sub = name in ('a', 'b') and ch.bool('via_sub')
            if want_sub:
                if sm.subs.state(sm, p) == 'stale':
                    ctx.cell('avoided:stale-sub-stream(C12)')
                else:
                    sub = True
                    sm.subs.create(sm, p)
            obj = real[p] if sub else real
        else:
            p = sm.ix.ph.label
            obj = real
        single = sub or sm.kind == 'S'
        form = ch.choice('form', ['item', 'some', 'all'])
        if form == 'item':
            idx = [ch.int('chem', 0, pk.n - 1)]
        elif form == 'some':
            idx = sorted(ch.subset('chems', list(range(pk.n)), min_size=1, max_size=min(3, pk.n)))
        else:
            idx = list(range(pk.n))
        vals = [self.value(f'v{i}') for i in idx]
        IDs = [pk.names[i] for i in idx]
        if single:
            accs = {'item': ['data', 'indexer', 'set_flow', 'set_data'],
                    'some': ['indexer', 'set_flow', 'set_data', 'data'],
                    'all': ['slice', 'setter', 'indexer', 'set_flow', 'set_property']}[form]
        else:
            accs = {'item': ['indexer', 'set_flow', 'set_data'], 'some': ['indexer', 'set_flow'],
                    'all': ['indexer', 'set_flow']}[form]
        acc = ch.choice('access', accs)
        uses_unit = acc in ('set_flow', 'set_data', 'set_property')
        if not uses_unit:
            unit = {'mol': 'kmol/hr', 'mass': 'kg/hr', 'vol': 'm3/hr'}[view]; f = 1.0
        region = f'kind={"sub" if sub else sm.kind},view={view},form={form},acc={acc}'
        ctx.cell('op:write'); ctx.cell('write:view=' + view); ctx.cell('write:acc=' + acc)
        if sub: ctx.cell('write:via=sub')
        stale_w = []
        if view == 'vol' and not sub and sm.kind == 'S':
            st = set(self.stale_idx(sm, only_nonzero=False))
            stale_w = [i for i, v in zip(idx, vals) if v and i in st]
        key1 = IDs[0] if form == 'item' else (tuple(IDs) if form == 'some' else ...)
        data = vals[0] if form == 'item' else np.array(vals, float)
        ind = getattr(obj, 'i' + view) if acc in ('indexer', 'set_data') else None
        if single:
            if acc == 'data':
                vec = getattr(obj, view)
                def w():
                    if form == 'item': vec[idx[0]] = data
                    else: vec[idx] = data
            elif acc == 'indexer':
                def w(): ind[key1] = data
            elif acc == 'set_flow':
                def w(): obj.set_flow(data, unit, key1)
            elif acc == 'set_data':
                def w(): ind.set_data(data, unit, key1)
            elif acc == 'set_property':
                def w(): obj.set_property(view, data, unit)
            elif acc == 'slice':
                vec = getattr(obj, view)
                def w(): vec[:] = data
            else:
                def w(): setattr(obj, view, data)
        else:
            key = p if form == 'all' else (p, key1)
            if acc == 'indexer':
                def w(): ind[key] = data
            elif acc == 'set_flow':
                def w(): obj.set_flow(data, unit, key)
            else:
                def w(): ind.set_data(data, unit, p, key1)
        ctx.call('op.write', w, region=region)
        # model
        row = sm.row_of(p)
        newmol = [sm.to_mol(view, p, i, v / f) for i, v in zip(idx, vals)]
        if view == 'vol' and not sub:
            self.touch(sm, [i for i, v in zip(idx, vals) if v])
        for i, x in zip(idx, newmol):
            row[i] = x
        if view == 'mass' and not sub: sm.ix.cache.mass = True
        if stale_w:
            # the write converted m3 -> kmol with a molar volume cached for another phase (trigger region of F1)
            got = arr(real.mol)[stale_w]; want = row[stale_w]
            if np.any(np.abs(got - want) > RT * np.maximum(np.abs(got), np.abs(want))):
                ctx.fail('view.vol|kind=S,trig=phase-same-TP|mismatch',
                         f'{name}: vol write of {pk.names[stale_w[0]]} after phase change at same T,P stored {got[0]!r} kmol/hr, want {want[0]!r}')
        # round trip: same access family reads back the written numbers in the same unit and in another unit
        sig_region = f'kind={"sub" if sub else sm.kind},trig={self.trig(name, sm, view, sub)}'
        def rd(u):
            if single:
                k = key1
                if acc in ('data', 'slice', 'setter'):
                    a = arr(getattr(obj, view))[idx] * M.UNIT_FACTOR[u]
                    return a[0] if form == 'item' else a
                if acc == 'set_data':
                    return getattr(obj, 'i' + view).get_data(u, k)
                if acc == 'set_property':
                    return obj.get_property(view, u)
                return obj.get_flow(u, k)
            k = p if form == 'all' else (p, key1)
            if acc == 'set_data':
                return getattr(obj, 'i' + view).get_data(u, p, key1)
            return obj.get_flow(u, k)
        u2 = ch.choice('unit2', list(M.UNITS[view]))
        for u in (unit, u2):
            got = arr(ctx.call('op.readback', rd, u, region=region))
            want = np.asarray(data, float) * (M.UNIT_FACTOR[u] / f)
            if form == 'all' and got.shape != want.shape:
                ctx.fail(f'roundtrip.{view}|{sig_region}|shape', f'{name}: read back shape {got.shape}')
            den = np.maximum(np.abs(got), np.abs(want))
            rel = np.where(den > 0, np.abs(got - want) / np.where(den > 0, den, 1), 0.0)
            if rel.size and rel.max() > RT:
                ctx.fail(f'roundtrip.{view}|{sig_region}|mismatch',
                         f'{name}: wrote {data!r} {unit} via {acc}, read {got!r} {u} want {want!r} after {sm.last}')
            if rel.size: ctx.metric_max('roundtrip:rel_err', float(rel.max()))
        self.hist.append(['write', 'sub' if sub else sm.kind, view, form, acc])

    def op_total(self, step):
        ch, ctx = self.ch, self.ctx
        name = self.pick('target')
        real, sm = self.get(name)
        sub = False; p = None
        if sm.kind == 'M' and name in ('a', 'b') and ch.bool('via_sub'):
            p = ch.choice('phase', sm.labels())
            if sm.subs.state(sm, p) == 'stale':
                ctx.cell('avoided:stale-sub-stream(C12)')
            else:
                sub = True; sm.subs.create(sm, p)
        obj = real[p] if sub else real
        which = ch.choice('which', ['F_mol', 'F_mass', 'F_vol', 'set_total_flow', 'set_property'])
        if which in ('set_total_flow', 'set_property'):
            unit = ch.choice('unit', M.ALL_UNITS)
            dim = M.UNIT_DIM[unit]
        else:
            dim = which[2:]; unit = {'mol': 'kmol/hr', 'mass': 'kg/hr', 'vol': 'm3/hr'}[dim]
        f = M.UNIT_FACTOR[unit]
        w = ch.logfloat('value', -2, 4)
        if dim == 'vol' and self.proxied(name) and 'F6' in self.avoid:
            ctx.cell('avoided:F_vol-of-proxied-stream'); dim = 'mass'; which = 'F_mass'; unit = 'kg/hr'; f = 1.0
        rows = [sm.row_of(p)] if sub else sm.rows()
        labels = [p] if sub else sm.labels()
        pk = sm.pk
        def per_mol(q, i):
            if dim == 'mol': return 1.0
            if dim == 'mass': return pk.MW[i]
            return M.Vref(pk, i, fam(q), sm.tc.T, sm.tc.P)
        cur = 0.0
        for q, r in zip(labels, rows):
            for i, x in enumerate(r):
                if x: cur += x * per_mol(q, i)
        kind = 'sub' if sub else sm.kind
        region = f'kind={kind},which={which},dim={dim},empty={int(cur == 0)}'
        ctx.cell('op:total'); ctx.cell('total:' + which)
        def call():
            if which == 'set_total_flow': obj.set_total_flow(w, unit)
            elif which == 'set_property': obj.set_property('F_' + dim, w, unit)
            else: setattr(obj, which, w)
        if cur == 0:
            try:
                ctx.call('op.total', call, allowed=(AttributeError,), region=region)
            except AttributeError as e:
                if 'undefined composition' not in str(e):
                    ctx.fail(f'op.total|{region}|exc:AttributeError', str(e)[:200])
                ctx.cell('total:empty-rejected')
                return
            ctx.fail(f'op.total|{region}|accepted', 'total flow of an empty stream was set without the documented AttributeError')
        ctx.call('op.total', call, region=region)
        ratio = (w / f) / cur
        for r in rows:
            r *= ratio
        if dim == 'vol' and self.proxied(name):
            got = vs.dense(real); want = sm.dense()
            if np.any(np.abs(got - want) > RT * np.maximum(np.abs(got), np.abs(want))):
                ctx.fail(f'view.F_vol|kind={kind},trig=proxy-propcache|mismatch', f'{name}: {which}={w!r} {unit} rescaled with a wrong current F_vol')
        tr = self.trig(name, sm, 'F_' + dim, sub)
        if which == 'set_property':
            got = ctx.call('op.total.readback', obj.get_property, 'F_' + dim, unit, region=region)
        else:
            got = ctx.call('op.total.readback', obj.get_total_flow, unit, region=region)
        if abs(got - w) > RT * max(abs(w), abs(got)):
            ctx.fail(f'roundtrip.F_{dim}|kind={kind},trig={tr}|mismatch', f'{name}: set total {w!r} {unit} via {which}, read {got!r}')
        self.hist.append(['total', kind, which, dim])

    def fresh_T(self, T):
        return T

    def op_T(self, step):
        name = self.pick('target'); real, sm = self.get(name)
        T = self.ch.float('T', *M.T_RANGE)
        self.ctx.call('op.T', setattr, real, 'T', T, region=f'kind={sm.kind}')
        sm.tc.T = float(T)
        self.mark(sm, 'T'); self.ctx.cell('op:T')

    def op_P(self, step):
        name = self.pick('target'); real, sm = self.get(name)
        P = self.ch.logfloat('P', 4, 6.69)
        self.ctx.call('op.P', setattr, real, 'P', P, region=f'kind={sm.kind}')
        sm.tc.P = float(P)
        self.mark(sm, 'P'); self.ctx.cell('op:P')

    def mark(self, sm, what):
        """record a structural change on every model stream that shares a cell with sm"""
        for n, r, o in self.live:
            if o is sm or o.tc is sm.tc or o.ix is sm.ix or o.ix.data is sm.ix.data or (o.ix.ph is not None and o.ix.ph is sm.ix.ph):
                o.last = what
        self.hist.append([what, sm.kind])
        self.pending_struct = True

    def op_phase(self, step):
        ch, ctx = self.ch, self.ctx
        singles = [n for n, r, m in self.live if m.kind == 'S']
        if not singles:
            return self.op_phases(step)
        name = ch.choice('target', singles); real, sm = self.get(name)
        p = ch.choice('phase', list(M.ALL_PHASES))
        via = ch.choice('via', ['phase', 'phases'])
        if via == 'phase':
            ctx.call('op.phase', setattr, real, 'phase', p, region='kind=S,via=phase')
        else:
            ctx.call('op.phase', setattr, real, 'phases', (p,), region='kind=S,via=phases')
        sm.ix.ph.label = p
        self.mark(sm, 'phase'); ctx.cell('op:phase')

    def draw_target(self, sm):
        ch = self.ch
        base = []
        for q in sm.nonempty_labels():
            t = twin(q)
            base.append(q if (t is None or not ch.bool(f'twin.{q}')) else t)
        if sm.kind == 'S' and not base:
            # an empty single-phase stream: keep its label representable (to_material_indexer indexes it regardless)
            q = sm.ix.ph.label; t = twin(q)
            base.append(q if (t is None or not ch.bool(f'twin.{q}')) else t)
        extra = ch.subset('extra', list(M.ALL_PHASES))
        target = M.sort_phases(base + extra)
        if not target:
            target = ['l']
        return target

    def op_phases(self, step):
        ch, ctx = self.ch, self.ctx
        name = ch.choice('target', [n for n in self.names() if n in ('a', 'b')]); real, sm = self.get(name)
        target = self.draw_target(sm)
        pk = sm.pk
        if sm.kind == 'M' and len(target) == 1 and ch.bool('via_phase_setter'):
            call = lambda: setattr(real, 'phase', target[0]); via = 'phase'
        else:
            call = lambda: setattr(real, 'phases', tuple(target)); via = 'phases'
        src = sm.kind
        dst = 'S' if len(target) == 1 else 'M'
        region = f'{src}->{dst},via={via}'
        ctx.call('op.phases', call, region=region)
        ctx.cell('op:phases'); ctx.cell(f'phases:{src}->{dst}')
        if src == 'S' and dst == 'S':
            sm.ix.ph.label = target[0]
        elif src == 'S' and dst == 'M':
            ph, rows = M.convert_rows(sm.labels(), sm.rows(), target, pk.n)
            sm.ix = M.Ix(sm.ix.pkg, 'M', ph, M.DataCell(rows))
            sm.subs = M.Subs()            # Stream.phases setter: self._streams = {}
        elif src == 'M' and dst == 'S':
            sm.ix = M.Ix(sm.ix.pkg, 'S', [], M.DataCell([sm.total()]), M.PhCell(target[0]))
            sm.subs.clear()               # MultiStream.phase setter: self._streams.clear() (in place: shared with proxies)
        else:
            if target != sm.labels():
                ph, rows = M.convert_rows(sm.labels(), sm.rows(), target, pk.n)
                sm.ix = M.Ix(sm.ix.pkg, 'M', ph, M.DataCell(rows))
                sm.subs.relink(sm)        # MultiStream.phases setter: reset_cache(); _relink_phase_streams()
                self.pc[name] = PC()
        self.mark(sm, f'phases:{src}->{dst}')

    def bad_sub(self, sm):
        """a sub-stream of a phase that is no longer in the phase set sits in _streams (left there by C12-F1):
        re-linking the sub-streams then raises UndefinedPhase (C11-F5)"""
        return sm.kind == 'M' and any(q not in sm.labels() and twin(q) not in sm.labels() for q in sm.subs.phases())

    def op_link(self, step):
        ch, ctx = self.ch, self.ctx
        name = ch.choice('target', ['a', 'b'])
        real, sm = self.get(name)
        other = ch.choice('other', [n for n in self.names() if n != name])
        oreal, om = self.get(other)
        flow = ch.bool('flow'); phase = ch.bool('phase'); TP = ch.bool('TP')
        if sm.ix.pkg != om.ix.pkg or (sm.kind == 'M' and om.kind == 'M' and sm.labels() != om.labels()) or om.ix is sm.ix:
            ctx.cell('skipped:link-incompatible-layout')
            return self.op_T(step)
        region = f'kind={sm.kind}{om.kind},flow={int(flow)},phase={int(phase)},TP={int(TP)}'
        if sm.kind != om.kind:
            try:
                ctx.call('op.link', real.link_with, oreal, flow, phase, TP, allowed=(RuntimeError,), region=region)
            except RuntimeError:
                ctx.cell('link:class-mismatch-rejected')
                return
            ctx.fail(f'op.link|{region}|accepted', 'Stream linked with MultiStream without the documented RuntimeError')
        full = TP and flow and (phase or sm.kind == 'M')
        shared = self.cache_is_shared(sm)
        diverges = shared and not full and any(
            o.ix is not sm.ix and o.ix.cache is sm.ix.cache and
            ((flow and o.ix.data is not om.ix.data) or (TP and o.tc is not om.tc) or (phase and sm.kind == 'S' and o.ix.ph is not om.ix.ph))
            for n, r, o in self.live)
        if diverges and 'F3' in self.avoid:
            ctx.cell('avoided:partial-link-with-shared-data-cache'); return self.op_T(step)
        relink = (flow or TP) and sm.kind == 'M'
        bad = relink and self.bad_sub(sm)
        if bad and 'F5' in self.avoid:
            ctx.cell('avoided:relink-with-sub-stream-of-removed-phase'); return self.op_T(step)
        if bad: region += ',trig=sub-of-removed-phase'
        ctx.call('op.link', real.link_with, oreal, flow, phase, TP, region=region)
        ctx.cell('op:link')
        ctx.cell('link:full' if full else 'link:partial')
        if full:
            sm.ix.cache = om.ix.cache
        else:
            sm.ix.cache = M.CacheCell()          # a partial link replaces the dict (it may be shared with an earlier partner)
        if TP:
            sm.tc = om.tc
        if flow:
            sm.ix.data = om.ix.data
        if phase and sm.kind == 'S':
            sm.ix.ph = om.ix.ph
        if relink:
            sm.subs.relink(sm)                   # _relink_phase_streams (also resets the property cache)
            self.pc[name] = PC()
        self.mark(sm, f'link({int(flow)}{int(phase)}{int(TP)})')

    def op_unlink(self, step):
        ch, ctx = self.ch, self.ctx
        name = self.pick('target'); real, sm = self.get(name)
        bad = self.bad_sub(sm)
        if bad and 'F5' in self.avoid:
            ctx.cell('avoided:relink-with-sub-stream-of-removed-phase'); return self.op_T(step)
        region = f'kind={sm.kind}' + (',trig=sub-of-removed-phase' if bad else '')
        ctx.call('op.unlink', real.unlink, region=region)
        ctx.cell('op:unlink')
        # the stream gets its own indexer (own data, phase container and cache), thermal condition and property cache
        old = sm.ix
        sm.ix = M.Ix(old.pkg, old.kind, old.phases, old.data.copy(), M.PhCell(old.ph.label) if old.kind == 'S' else None)
        sm.tc = sm.tc.copy()
        if sm.kind == 'M':
            sm.subs.relink(sm)
        self.pc[name] = PC()
        self.mark(sm, 'unlink')

    def resync(self, name, real, sm):
        """copy_like: take the molar data, T, P, labels from the object (placement is C13's subject)"""
        d = vs.dense(real)
        if isinstance(real, tmo.MultiStream):
            if sm.kind != 'M' or list(real.phases) != sm.labels() or len(sm.rows()) != d.shape[0]:
                raise AssertionError('resync: layout not predicted')
            for r, x in zip(sm.rows(), d):
                r[:] = x
        else:
            sm.rows()[0][:] = d[0]
            sm.ix.ph.label = real.phase
        sm.tc.T = real.T; sm.tc.P = real.P

    def op_copy_like(self, step):
        ch, ctx = self.ch, self.ctx
        name = ch.choice('target', ['a', 'b']); other = 'b' if name == 'a' else 'a'
        real, sm = self.get(name); oreal, om = self.get(other)
        if sm.ix.data is om.ix.data or not M.can_hold(sm.pk, om.pk, om.rows()):
            ctx.cell('skipped:copy_like-shared-or-missing-chemicals')
            return self.op_P(step)
        xp = sm.ix.pkg != om.ix.pkg
        region = f'kind={sm.kind}{om.kind},xpkg={int(xp)}'
        new_labels = []          # labels that MaterialIndexer._expand_phases will add in place
        if sm.kind == 'M' and om.kind == 'S':
            q = om.ix.ph.label
            if q not in sm.labels() and twin(q) not in sm.labels():
                new_labels = [q]
        elif sm.kind == 'M' and om.kind == 'M':
            P1, P2 = sm.labels(), om.labels()
            compat = ''.join(x.lower() for x in P1) == ''.join(x.lower() for x in P2)
            if P1 != P2 and not compat:
                new_labels = [q for q in P2 if q not in P1]
        expand = bool(new_labels)
        sharers = [o for n, r, o in self.live if o.ix is not sm.ix and o.ix.data is sm.ix.data]
        if expand and sharers and 'F7' in self.avoid:
            ctx.cell('avoided:copy_like-expands-phases-of-shared-flow-data'); return self.op_T(step)
        if expand and 'F2' in self.avoid and (sm.ix.cache.mass or sm.ix.cache.vol):
            ctx.cell('avoided:copy_like-expands-phases-with-cached-views'); return self.op_T(step)
        ctx.call('op.copy_like', real.copy_like, oreal, region=region + f',expand={int(expand)}')
        ctx.cell('op:copy_like'); ctx.cell(f'copy_like:{sm.kind}{om.kind}')
        if sm.kind == 'S' and om.kind == 'M' and len(om.labels()) >= 2:
            # Stream.copy_like: self.empty(); self.phase = phases[0]; self.phases = phases  (the first two act in place
            # on the shared flow data / phase container of linked streams)
            sm.rows()[0][:] = 0.0
            sm.ix.ph.label = om.labels()[0]
            sm.ix = M.Ix(sm.ix.pkg, 'M', om.labels(), M.DataCell([np.zeros(sm.pk.n) for _ in om.labels()]))
            sm.subs = M.Subs()
        if expand:
            c = sm.ix.cache
            if c.mass: c.dirty.add('expand-mass')
            for k in c.vol: c.dirty.add(('expand-vol', k))
            old = dict(zip(sm.labels(), sm.rows()))
            sm.ix.phases = M.sort_phases(sm.labels() + new_labels)
            sm.ix.data.rows = [old.get(q, np.zeros(sm.pk.n)) for q in sm.ix.phases]
            ctx.cell('copy_like:expand')
            if sharers:
                # the rows of the shared array changed under indexers that keep their old phase tuple (F7)
                sm.ix.data.broken = True
                for n, r, o in list(self.live):
                    if o in sharers:
                        nrows = len(r.imol.data.rows)
                        if nrows != len(r.phases):
                            ctx.fail('view.mol|kind=M,trig=expand-shared-data|shape',
                                     f'{n}: {nrows} rows of molar data for phases {r.phases} after {name}.copy_like expanded the shared flow data in place')
                        self.live.remove((n, r, o)); ctx.cell('aux-dropped')     # consistent again: semantics unspecified, stop tracking
                sm.ix.data.broken = False
        self.resync(name, real, sm)
        self.mark(sm, 'copy_like' + ('+expand' if expand else ''))

    def op_reset_thermo(self, step):
        ch, ctx = self.ch, self.ctx
        name = ch.choice('target', ['a', 'b']); real, sm = self.get(name)
        cands = [pid for pid in chem.PACKAGES if pid != sm.ix.pkg and M.can_hold(Pk(pid), sm.pk, sm.rows())]
        pid = ch.choice('pkg', cands)      # A or B always qualify
        bad_sub = self.bad_sub(sm)
        region = f'kind={sm.kind},trig={"sub-of-removed-phase" if bad_sub else "none"}'
        if bad_sub and 'F5' in self.avoid:
            ctx.cell('avoided:reset_thermo-with-sub-stream-of-removed-phase'); return self.op_T(step)
        ctx.call('op.reset_thermo', real._reset_thermo, chem.package(pid), region=region)
        ctx.cell('op:reset_thermo')
        self.drop_aux_sharing(sm.ix, name)
        new = Pk(pid)
        sm.ix.data = M.DataCell([M.remap(r, sm.pk, new) for r in sm.rows()])
        sm.ix.cache = M.CacheCell()
        sm.ix.pkg = pid
        if sm.kind == 'M':
            sm.subs.relink_data(sm)
        self.pc[name] = PC()
        self.mark(sm, 'reset_thermo')

    def op_proxy(self, step):
        ch, ctx = self.ch, self.ctx
        if self.naux >= 2:
            return self.op_P(step)
        name = ch.choice('target', ['a', 'b']); real, sm = self.get(name)
        which = ch.choice('which', ['proxy', 'flow_proxy'])
        new = f'x{self.naux}'
        if which == 'proxy':
            if sm.born == 'M' and 'F4' in self.avoid:
                ctx.cell('avoided:proxy-of-constructed-MultiStream'); which = 'flow_proxy'
        if which == 'proxy':
            r = ctx.call('op.proxy', real.proxy, region=f'born={sm.born}')
            m = M.SM(new, sm.ix, sm.tc, sm.born)
            m.subs = sm.subs                     # proxy() copies the _streams dict object
            self.pc[new] = PC()                  # a proxy keeps its own property cache
        else:
            r = ctx.call('op.flow_proxy', real.flow_proxy, region=f'kind={sm.kind}')
            ix = M.Ix(sm.ix.pkg, sm.kind, sm.ix.phases, sm.ix.data, M.PhCell(sm.ix.ph.label) if sm.kind == 'S' else None)
            m = M.SM(new, ix, sm.tc.copy(), sm.born)
            self.pc[new] = PC()
        m.last = which
        self.naux += 1
        self.live.append((new, r, m))
        ctx.cell('op:' + which)
        self.hist.append([which, sm.kind]); self.pending_struct = True

    def op_empty(self, step):
        name = self.pick('target'); real, sm = self.get(name)
        self.ctx.call('op.empty', real.empty, region=f'kind={sm.kind}')
        for r in sm.rows(): r[:] = 0.0
        self.ctx.cell('op:empty'); self.hist.append(['empty', sm.kind])

    def op_dim_error(self, step):
        """rejection clause: units of another dimension must be refused by every reader / writer, also when the same
        unit string was used legitimately (with the view of its own dimension) just before, and nothing may change"""
        import pint
        ch, ctx = self.ch, self.ctx
        name = self.pick('target'); real, sm = self.get(name)
        u = ch.choice('unit', M.BAD_UNITS)
        call = ch.choice('call', ['get_flow', 'set_flow', 'get_total_flow', 'set_total_flow',
                                  'indexer.get_data', 'indexer.set_data', 'get_property', 'set_property'])
        ID = sm.pk.names[0]
        before = vs.dense(real).copy()
        if call in ('get_flow', 'set_flow', 'get_total_flow', 'set_total_flow'):
            def f():
                if call == 'get_flow': return real.get_flow(u)
                if call == 'set_flow': return real.set_flow(1.0, u, ID if sm.kind == 'S' else (sm.labels()[0], ID))
                if call == 'get_total_flow': return real.get_total_flow(u)
                return real.set_total_flow(1.0, u)
            region = f'call={call}'
        else:
            view = ch.choice('view', ['mol', 'mass', 'vol'])
            cross = [x for x in M.ALL_UNITS if M.UNIT_DIM[x] != view]
            u = ch.choice('xunit', cross + M.BAD_UNITS)
            legit = u in M.UNIT_DIM
            if legit:
                # the unit string is first used where it belongs (fills whatever conversion caches exist)
                ctx.call('op.dim_error.legit', real.get_flow, u, region=f'unit-dim={M.UNIT_DIM[u]}')
            ind = getattr(real, 'i' + view)
            prop = ch.choice('prop', [view, 'F_' + view])
            p0 = sm.labels()[0]
            def f():
                if call == 'indexer.get_data':
                    return ind.get_data(u, ID) if sm.kind == 'S' else ind.get_data(u, p0, ID)
                if call == 'indexer.set_data':
                    return ind.set_data(1.0, u, ID) if sm.kind == 'S' else ind.set_data(1.0, u, p0, ID)
                if call == 'get_property': return real.get_property(prop, u)
                return real.set_property('F_' + view, 1.0, u)
            region = f'call={call},view={view},unit={"flow-unit-of-other-dimension" if legit else "not-a-flow-unit"}'
        try:
            ctx.call('op.dim_error', f, allowed=(DimensionError, pint.errors.DimensionalityError), region=region)
        except (DimensionError, pint.errors.DimensionalityError):
            after = vs.dense(real)
            if after.shape != before.shape or not np.array_equal(after, before):
                ctx.fail(f'op.dim_error|{region}|stream-modified', f'{name}: rejected {call} with {u!r} changed the flows')
            ctx.cell('op:dim_error'); ctx.cell('dim_error:' + call); self.hist.append(['dim_error', call]); return
        ctx.fail(f'op.dim_error|{region}|accepted', f'{name}: {call} accepted units {u!r} of a wrong dimension')

    def op_read_key(self, step):
        ch, ctx = self.ch, self.ctx
        name = self.pick('target'); real, sm = self.get(name)
        pk = sm.pk
        unit = ch.choice('unit', M.ALL_UNITS)
        view = M.UNIT_DIM[unit]; f = M.UNIT_FACTOR[unit]
        form = ch.choice('form', ['one', 'some', 'all'])
        if form == 'one': idx = [ch.int('chem', 0, pk.n - 1)]
        elif form == 'some': idx = ch.subset('chems', list(range(pk.n)), min_size=1, max_size=min(4, pk.n))
        else: idx = list(range(pk.n))
        IDs = [pk.names[i] for i in idx]
        key = IDs[0] if form == 'one' else (tuple(IDs) if form == 'some' else ...)
        acc = ch.choice('access', ['get_flow', 'get_data', 'indexer'])
        rows = sm.view_rows(view)
        if sm.kind == 'M':
            scope = ch.choice('scope', ['phase', 'sum'])
            if scope == 'phase':
                p = ch.choice('phase', sm.labels())
                want = rows[sm.labels().index(p)][idx]
                k = p if form == 'all' else (p, key)
            else:
                want = np.array(rows).sum(0)[idx]; k = key
        else:
            want = rows[0][idx]; k = key; scope = 'single'
        if form == 'one': want = want[0]
        ind = getattr(real, 'i' + view)
        if view == 'mass': sm.ix.cache.mass = True
        def rd():
            if acc == 'get_flow': return real.get_flow(unit, k)
            if acc == 'get_data':
                if sm.kind == 'M' and scope == 'phase' and form != 'all': return ind.get_data(unit, *k)
                return ind.get_data(unit, k)
            return ind[k] * f
        region = f'kind={sm.kind},view={view},form={form},acc={acc},scope={scope}'
        got = ctx.call('op.read_key', rd, region=region)
        self.cmp('view.' + view, name, sm, view, got, np.asarray(want) * f, what=f'{acc}({unit},{k})')
        if view == 'vol':
            self.touch(sm, [i for i in idx if sm.kind == 'S' and sm.rows()[0][i]])
        ctx.cell('op:read_key'); self.hist.append(['read', sm.kind, view, form, acc, scope])

    def op_get_property(self, step):
        """documented unit-converting reader: a pure read (result == model * factor, stream unchanged afterwards)"""
        ch, ctx = self.ch, self.ctx
        name = self.pick('target'); real, sm = self.get(name)
        sub = False; p = None
        if sm.kind == 'M' and name in ('a', 'b') and ch.bool('via_sub'):
            p = ch.choice('phase', sm.labels())
            if sm.subs.state(sm, p) == 'stale':
                ctx.cell('avoided:stale-sub-stream(C12)')
            else:
                sub = True; sm.subs.create(sm, p)
        obj = real[p] if sub else real
        prop = ch.choice('name', ['mol', 'mass', 'vol', 'F_mol', 'F_mass', 'F_vol'])
        dim = prop[2:] if prop.startswith('F_') else prop
        unit = ch.choice('unit', [None] + list(M.UNITS[dim]))
        f = 1.0 if unit is None else M.UNIT_FACTOR[unit]
        kind = 'sub' if sub else sm.kind
        region = f'kind={kind},name={prop},base-unit={int(f == 1.0)}'
        before = vs.dense(real).copy()
        got = ctx.call('read.get_property', obj.get_property, prop, unit, region=region)
        rows = sm.view_rows(dim)
        if sub: rows = [rows[sm.labels().index(p)]]
        if prop.startswith('F_'):
            self.cmp_sum('view.' + prop, name, sm, prop, got, np.array(rows) * f, sub, what=f'get_property({prop},{unit})')
        else:
            self.cmp('view.' + dim, name, sm, dim, got, np.array(rows).sum(0) * f, sub, what=f'get_property({prop},{unit})')
            if dim == 'vol' and sm.kind == 'S': self.touch(sm, [i for i, x in enumerate(sm.rows()[0]) if x])
            if dim == 'mass' and not sub: sm.ix.cache.mass = True
            if dim == 'vol' and not sub and sm.kind == 'M': self.touch(sm, [])
        after = vs.dense(real)
        if after.shape != before.shape or not np.array_equal(after, before):
            ctx.fail(f'read.get_property|{region}|stream-modified',
                     f'{name}: get_property({prop!r}, {unit!r}) changed the molar flows from {before.tolist()} to {after.tolist()}')
        ctx.cell('op:get_property'); self.hist.append(['get_property', kind, prop, unit is None])

    def op_assign(self, step):
        """write a view with the live view of another stream / phase row (converted out of the source view and into
        the target view: mass -> same molar flows on one package, vol -> mol_src * V_src / V_target)"""
        ch, ctx = self.ch, self.ctx
        name = self.pick('target'); real, sm = self.get(name)
        cands = [n for n in self.names() if n != name and self.get(n)[1].ix.pkg == sm.ix.pkg
                 and self.get(n)[1].ix.data is not sm.ix.data]
        if not cands:
            ctx.cell('skipped:assign-no-source-on-same-package'); return self.op_get_property(step)
        other = ch.choice('source', cands); oreal, om = self.get(other)
        view = ch.choice('view', ['mass', 'vol', 'vol', 'mol'])
        pk = sm.pk
        # source vector (live view object) and its expected content
        if om.kind == 'M':
            q = ch.choice('source.phase', om.labels())
            src_via = ch.choice('source.via', ['indexer', 'sub'] if other in ('a', 'b') and om.subs.state(om, q) != 'stale' else ['indexer'])
            if src_via == 'sub':
                om.subs.create(om, q); svec = getattr(oreal[q], view)
            else:
                svec = getattr(oreal, 'i' + view)[q]
            srow = om.view_rows(view)[om.labels().index(q)]
            if view == 'mass' and src_via == 'indexer': om.ix.cache.mass = True
            if view == 'vol' and src_via == 'indexer': self.touch(om, [])
        else:
            q = om.ix.ph.label; src_via = 'stream'
            svec = getattr(oreal, view)
            srow = om.view_rows(view)[0]
            if view == 'mass': om.ix.cache.mass = True
            if view == 'vol': self.touch(om, [i for i, x in enumerate(om.rows()[0]) if x])
        # target
        sub = False
        if sm.kind == 'M':
            p = ch.choice('phase', sm.labels())
            if name in ('a', 'b') and ch.bool('via_sub'):
                if sm.subs.state(sm, p) == 'stale': ctx.cell('avoided:stale-sub-stream(C12)')
                else: sub = True; sm.subs.create(sm, p)
            obj = real[p] if sub else real
        else:
            p = sm.ix.ph.label; obj = real
        single = sub or sm.kind == 'S'
        form = ch.choice('form', ['setter', 'slice', 'indexer', 'keyed'] if single else ['indexer', 'keyed'])
        idx = list(range(pk.n))
        if form == 'keyed':
            idx = sorted(ch.subset('chems', list(range(pk.n)), min_size=1, max_size=min(3, pk.n)))
        IDs = tuple(pk.names[i] for i in idx)
        kind = 'sub' if sub else sm.kind
        same_cond = (om.tc.T == sm.tc.T and om.tc.P == sm.tc.P and fam(q) == fam(p))
        region = f'kind={kind},view={view},form={form},src={om.kind}:{src_via},same-conditions={int(same_cond)}'
        def w():
            if form == 'setter': setattr(obj, view, svec)
            elif form == 'slice': getattr(obj, view)[:] = svec
            elif form == 'indexer':
                if single: getattr(obj, 'i' + view)[...] = svec
                else: getattr(obj, 'i' + view)[p] = svec
            else:
                vals = (getattr(oreal, 'i' + view)[(q, IDs)] if om.kind == 'M' else getattr(oreal, 'i' + view)[IDs])
                if single: getattr(obj, 'i' + view)[IDs] = vals
                else: getattr(obj, 'i' + view)[(p, IDs)] = vals
        ctx.call('op.assign', w, region=region)
        written = np.array([srow[i] for i in idx], float)
        row = sm.row_of(p)
        if form != 'keyed':
            row[:] = 0.0
        for i, v in zip(idx, written):
            row[i] = sm.to_mol(view, p, i, v) if v else 0.0
        if view == 'vol' and not sub:
            self.touch(sm, [i for i, v in zip(idx, written) if v])
        if view == 'mass' and not sub: sm.ix.cache.mass = True
        got = arr(getattr(obj, view))[idx] if single else arr(getattr(real, 'i' + view)[p])[idx]
        den = np.maximum(np.abs(got), np.abs(written))
        rel = np.where(den > 0, np.abs(got - written) / np.where(den > 0, den, 1), 0.0)
        if rel.size and rel.max() > RT:
            k = int(np.argmax(rel))
            ctx.fail(f'roundtrip.{view}|kind={kind},trig={self.trig(name, sm, view, sub)},assign=view,same-conditions={int(same_cond)}|mismatch',
                     f'{name}.{view} <- {other}.{view} ({form}): wrote {written[k]!r}, reads back {got[k]!r} ({pk.names[idx[k]]}; '
                     f'target {p} T={sm.tc.T!r} P={sm.tc.P!r}, source {q} T={om.tc.T!r} P={om.tc.P!r})')
        ctx.cell('op:assign'); ctx.cell('assign:view=' + view); ctx.cell('assign:form=' + form)
        if not same_cond and view == 'vol': ctx.cell('assign:vol-different-conditions')
        self.hist.append(['assign', kind, view, form, om.kind, src_via])

    def op_reset_flow(self, step):
        """reset_flow: everything not named becomes zero, the named flows read back in the given unit at the NEW phase(s)"""
        ch, ctx = self.ch, self.ctx
        name = self.pick('target'); real, sm = self.get(name)
        pk = sm.pk
        unit = ch.choice('unit', [None] + M.ALL_UNITS) if sm.kind == 'S' else ch.choice('unit', M.ALL_UNITS)
        dim = 'mol' if unit is None else M.UNIT_DIM[unit]
        f = 1.0 if unit is None else M.UNIT_FACTOR[unit]
        def draw_flows(tag):
            idx = sorted(ch.subset(tag + '.chems', list(range(pk.n)), min_size=0, max_size=min(3, pk.n)))
            return idx, [self.value(f'{tag}.v{i}') for i in idx]
        if sm.kind == 'S':
            new_phase = ch.choice('phase', [None] + list(M.ALL_PHASES))
            idx, vals = draw_flows('f')
            spec = {(new_phase or sm.ix.ph.label): (idx, vals)}
            labels_after = None
        else:
            keys = ch.subset('flow.phases', list(M.ALL_PHASES), min_size=0, max_size=3)
            given = ch.bool('phases.given')
            spec = {q: draw_flows(f'f.{q}') for q in keys}
            spec = {q: iv for q, iv in spec.items() if iv[0]}       # a phase keyword needs at least one (ID, value) pair
            keys = list(spec)
            if given:
                extra = ch.subset('phases.extra', list(M.ALL_PHASES))
                target = M.sort_phases(keys + extra)
                if len(target) < 2:
                    target = M.sort_phases(target + ['l', 'g'])
            else:
                target = M.sort_phases(keys + ['l', 'g'])
            labels_after = target
        positive = any(v for idx, vals in spec.values() for v in vals)
        total = ch.logfloat('total', -2, 4) if (positive and ch.bool('total.given')) else None
        kw = {}
        if sm.kind == 'S':
            (q, (idx, vals)), = spec.items()
            kw = {pk.names[i]: v for i, v in zip(idx, vals)}
            call = lambda: real.reset_flow(phase=new_phase, units=unit, total_flow=total, **kw)
            region = f'kind=S,dim={dim},phase={"same" if new_phase in (None, sm.ix.ph.label) else ("family" if fam(new_phase) != fam(sm.ix.ph.label) else "twin")},total={int(total is not None)}'
        else:
            kw = {q: [(pk.names[i], v) for i, v in zip(idx, vals)] for q, (idx, vals) in spec.items()}
            call = lambda: real.reset_flow(total_flow=total, units=unit, phases=(tuple(target) if given else None), **kw)
            region = f'kind=M,dim={dim},phases={"given" if given else "default"},changed={int(labels_after != sm.labels())},total={int(total is not None)}'
        ctx.call('op.reset_flow', call, region=region)
        ctx.cell('op:reset_flow'); ctx.cell('reset_flow:kind=' + sm.kind); ctx.cell('reset_flow:dim=' + dim)
        # model: empty in place, then the new phase(s), then the flows converted at the new conditions, then the total
        for r in sm.rows(): r[:] = 0.0
        if sm.kind == 'S':
            if new_phase: sm.ix.ph.label = new_phase
        elif labels_after != sm.labels():
            sm.ix = M.Ix(sm.ix.pkg, 'M', labels_after, M.DataCell([np.zeros(pk.n) for _ in labels_after]))
            sm.subs.relink(sm); self.pc[name] = PC()
        for q, (idx, vals) in spec.items():
            row = sm.row_of(q)
            for i, v in zip(idx, vals):
                row[i] = sm.to_mol(dim, q, i, v / f) if v else 0.0
            if dim == 'vol' and sm.kind == 'S': self.touch(sm, [i for i, v in zip(idx, vals) if v])
        if dim == 'mass': sm.ix.cache.mass = True
        if dim == 'vol' and sm.kind == 'M': self.touch(sm, [])
        scale = 1.0
        if total is not None:
            cur = 0.0
            for q, r in zip(sm.labels(), sm.rows()):
                for i, x in enumerate(r):
                    if x: cur += x * (1.0 if dim == 'mol' else (pk.MW[i] if dim == 'mass' else M.Vref(pk, i, fam(q), sm.tc.T, sm.tc.P)))
            scale = (total / f) / cur
            for r in sm.rows(): r *= scale
        # read back what was written, in the unit it was written in
        u = unit or 'kmol/hr'
        for q, (idx, vals) in spec.items():
            if not idx: continue
            IDs = tuple(pk.names[i] for i in idx)
            got = arr(real.get_flow(u, IDs if sm.kind == 'S' else (q, IDs)))
            want = np.array(vals, float) * scale
            den = np.maximum(np.abs(got), np.abs(want))
            rel = np.where(den > 0, np.abs(got - want) / np.where(den > 0, den, 1), 0.0)
            if rel.size and rel.max() > RT:
                ctx.fail(f'roundtrip.{dim}|kind={sm.kind},trig={self.trig(name, sm, dim)},reset_flow|mismatch',
                         f'{name}.reset_flow({region}): wrote {want.tolist()} {u} for {IDs} in {q!r}, reads back {got.tolist()}')
        if total is not None:
            got = real.get_total_flow(u)
            if abs(got - total) > RT * max(abs(got), abs(total)):
                ctx.fail(f'roundtrip.F_{dim}|kind={sm.kind},trig={self.trig(name, sm, "F_" + dim)},reset_flow|mismatch',
                         f'{name}.reset_flow total {total!r} {u} reads back {got!r}')
        # everything that was not named is zero
        if sm.kind == 'M' and list(real.phases) != sm.labels():
            ctx.fail(f'op.reset_flow|{region}|phases', f'{name}: phases {real.phases}, expected {sm.labels()}')
        self.cmp('view.mol', name, sm, 'mol', vs.dense(real), sm.dense(), what='imol after reset_flow')
        self.mark(sm, 'reset_flow')

    def op_sub(self, step):
        ch, ctx = self.ch, self.ctx
        multis = [n for n in ('a', 'b') if n in self.names() and self.get(n)[1].kind == 'M']
        if not multis:
            return self.op_read_key(step)
        name = ch.choice('target', multis); real, sm = self.get(name)
        p = ch.choice('phase', sm.labels())
        if sm.subs.state(sm, p) == 'stale':
            ctx.cell('avoided:stale-sub-stream(C12)'); return
        ctx.call('op.sub', real.__getitem__, p, region='kind=M')
        sm.subs.create(sm, p)
        ctx.cell('op:sub'); self.hist.append(['sub', p])

    # ------------------------------------------------------------------ avoid
    def nudge(self):
        """known defect F1: never read vol while a cached V of another phase family sits at the current (T, P)"""
        if 'F1' not in self.avoid:
            return
        for _ in range(60):
            hit = None
            for name, real, sm in self.live:
                if self.stale_idx(sm, only_nonzero=False):
                    hit = (real, sm); break
            if hit is None:
                return
            real, sm = hit
            T = sm.tc.T + 0.25 if sm.tc.T + 0.25 <= 460.0 else sm.tc.T - 7.125
            real.T = T; sm.tc.T = float(T)
            self.ctx.cell('avoided:vol-read-after-phase-change-at-same-TP(nudged T)')


OPS = [('write', 8), ('total', 3), ('T', 2), ('P', 2), ('phase', 3), ('phases', 3), ('link', 5), ('unlink', 2),
       ('copy_like', 2), ('reset_thermo', 2), ('proxy', 2), ('empty', 1), ('dim_error', 2), ('read_key', 2), ('sub', 1),
       ('get_property', 2), ('assign', 3), ('reset_flow', 3)]
OP_LIST = [n for n, w in OPS for _ in range(w)]
STRUCT = {'T', 'P', 'phase', 'phases', 'link', 'unlink', 'copy_like', 'reset_thermo', 'proxy'}


def prop_history(ch, ctx):
    M.reset_case()
    run = Run(ch, ctx)
    mode = ch.int('mode', 0, 11)
    known = {t for t in TAGS if t in LISTED}
    enter = {5: 'F1', 6: 'F2', 7: 'F3', 8: 'F4', 9: 'F5', 10: 'F6', 11: 'F7'}.get(mode)
    run.avoid = {t for t in known if t != enter}
    if enter == 'F7':
        run.avoid.discard('F2')      # F7 needs an in-place phase expansion, which F2's region contains
    pkgs = list(chem.PACKAGES)
    spec_a = vs.draw_spec(ch, 'a', pkgs, T=M.T_RANGE, P=M.P_RANGE, min_phases=2)
    same = ch.int('b.same_pkg', 0, 3) > 0
    spec_b = vs.draw_spec(ch, 'b', [spec_a['pkg']] if same else pkgs, T=M.T_RANGE, P=M.P_RANGE, min_phases=2)
    if spec_b['kind'] == 'M' and spec_a['kind'] == 'M' and same and ch.bool('b.same_phases'):
        n = len(chem.PACKAGES[spec_b['pkg']])
        spec_b['phases'] = list(spec_a['phases'])
        spec_b['flows'] = [ch.flows(f'b.{p}.flow2', n) for p in spec_b['phases']]
    for nm, sp in (('a', spec_a), ('b', spec_b)):
        real = vs.build(sp)
        run.live.append((nm, real, M.from_spec(nm, sp)))
        run.pc[nm] = PC()
    tmo.settings.set_thermo(chem.package(spec_a['pkg']))
    nsteps = ch.int('nsteps', 1, 30)
    unit = ch.choice('unit0', M.ALL_UNITS)
    lazy = ch.bool('lazy')      # lazy histories skip the full read after some steps, so that structural
    run.pending_struct = False  # operations also meet indexers whose view objects are not cached yet
    if not lazy or ch.bool('check'):
        run.invariant(unit)
    for step in range(nsteps):
        op = ch.choice('op', OP_LIST)
        getattr(run, 'op_' + op)(step)
        run.nudge()
        if lazy and step < nsteps - 1 and not ch.bool('check'):
            ctx.cell('lazy:skipped-read')
            continue
        unit = ch.choice('unit', M.ALL_UNITS)
        run.invariant(unit)
        if run.pending_struct:
            run.struct_then_read = True
        run.pending_struct = False
    if run.struct_then_read:
        ctx.nontriv([spec_a['kind'], spec_b['kind'], run.hist])


def prop_ctor(ch, ctx):
    """Construction with ``units`` and ``total_flow``: the named flows are in ``units``, ``total_flow`` is in ``units``
    too and rescales them keeping the composition; afterwards every view / unit clause of the invariant holds."""
    M.reset_case()
    kind = ch.choice('kind', ['S', 'M'])
    pkg = ch.choice('pkg', list(chem.PACKAGES)); pk = Pk(pkg); th = chem.package(pkg)
    T = ch.float('T', *M.T_RANGE); P = ch.logfloat('P', 4, 6.69)
    unit = ch.choice('unit', [None] + M.ALL_UNITS)
    dim = 'mol' if unit is None else M.UNIT_DIM[unit]
    f = 1.0 if unit is None else M.UNIT_FACTOR[unit]
    run = Run(ch, ctx)
    def draw_flows(tag):
        idx = sorted(ch.subset(tag + '.chems', list(range(pk.n)), min_size=0, max_size=min(4, pk.n)))
        return idx, [run.value(f'{tag}.v{i}') for i in idx]
    if kind == 'S':
        label = ch.choice('phase', list(M.ALL_PHASES))
        spec = {label: draw_flows('f')}
        labels = [label]
    else:
        keys = ch.subset('flow.phases', list(M.ALL_PHASES), min_size=0, max_size=3)
        spec = {q: draw_flows(f'f.{q}') for q in keys}
        spec = {q: iv for q, iv in spec.items() if iv[0]}
        given = ch.bool('phases.given')
        if given:
            labels = M.sort_phases(list(spec) + ch.subset('phases.extra', list(M.ALL_PHASES)))
            if len(labels) < 2: labels = M.sort_phases(labels + ['l', 'g'])
        else:
            labels = M.sort_phases(list(spec) + ['l', 'g'])
    positive = any(v for idx, vals in spec.values() for v in vals)
    total = ch.logfloat('total', -2, 4) if (positive and ch.bool('total.given')) else None
    utag = 'none' if unit is None else ('base' if f == 1.0 else 'nonbase')
    region = f'ctor={kind},total_flow={int(total is not None)},units={utag},dim={dim}'
    if kind == 'S':
        idx, vals = spec[label]
        kw = {pk.names[i]: v for i, v in zip(idx, vals)}
        real = ctx.call('ctor', lambda: tmo.Stream(None, phase=label, T=T, P=P, units=unit, total_flow=total, thermo=th, **kw), region=region)
        sm = M.SM('a', M.Ix(pkg, 'S', [], M.DataCell([np.zeros(pk.n)]), M.PhCell(label)), M.TCCell(T, P), 'S')
    else:
        kw = {q: [(pk.names[i], v) for i, v in zip(idx, vals)] for q, (idx, vals) in spec.items()}
        real = ctx.call('ctor', lambda: tmo.MultiStream(None, T=T, P=P, phases=(tuple(labels) if given else None), units=unit,
                                                       total_flow=total, thermo=th, **kw), region=region)
        sm = M.SM('a', M.Ix(pkg, 'M', labels, M.DataCell([np.zeros(pk.n) for _ in labels])), M.TCCell(T, P), 'M')
    ctx.cell('ctor:' + kind); ctx.cell(f'ctor:{kind},total={int(total is not None)},units={utag}')
    for q, (idx, vals) in spec.items():
        row = sm.row_of(q)
        for i, v in zip(idx, vals):
            row[i] = sm.to_mol(dim, q, i, v / f) if v else 0.0
    scale = 1.0
    if total is not None:
        given_sum = sum(v for idx, vals in spec.values() for v in vals)
        scale = total / given_sum
        for r in sm.rows(): r *= scale
    run.live.append(('a', real, sm)); run.pc['a'] = PC()
    u = unit or 'kmol/hr'
    for q, (idx, vals) in spec.items():
        if not idx: continue
        IDs = tuple(pk.names[i] for i in idx)
        got = arr(real.get_flow(u, IDs if kind == 'S' else (q, IDs)))
        want = np.array(vals, float) * scale
        den = np.maximum(np.abs(got), np.abs(want))
        rel = np.where(den > 0, np.abs(got - want) / np.where(den > 0, den, 1), 0.0)
        if rel.size and rel.max() > RT:
            ctx.fail(f'ctor.flows|{region}|mismatch', f'given {vals} {u} for {IDs} in {q!r}' + (f' with total_flow={total!r}' if total is not None else '')
                     + f': get_flow({u!r}) = {got.tolist()}, expected {want.tolist()}')
    if total is not None:
        got = real.get_total_flow(u)
        if abs(got - total) > RT * max(abs(got), abs(total)):
            ctx.fail(f'ctor.total|{region}|mismatch', f'total_flow={total!r} {u}: get_total_flow({u!r}) = {got!r}')
    run.invariant(ch.choice('unit2', M.ALL_UNITS))
    if positive:
        ctx.nontriv(['ctor', kind, utag, dim, total is not None, labels, sorted(spec)])


PROPS = {
    'ctor': (prop_ctor, 1500, 20000),
    'history': (prop_history, 8000, 100000),
}
