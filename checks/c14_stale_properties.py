"""C14 - every derived stream property reflects the current state, never a stale one.

History check.  One case is an operation sequence of up to 40 steps on a small world:

* ``a``  - the stream under test (Stream or MultiStream, four or five chemicals with complete
  transport data, one of four property packages),
* ``b``  - an optional partner stream of the same shape (``link_with`` / ``unlink`` / donor),
* proxies of ``a`` (``a.proxy()``, proxy of a proxy) and phase views ``a[phase]`` / ``b[phase]``.

Every step draws an operation *depending on the current reference model* (preconditions are honoured
constructively).  The reference model (``World``) keeps flows per phase keyed by chemical name, T, P,
phase(s), package and explicit sharing cells (flow container, thermal condition, phase container); it
is never read back from the stream under test, except for the temperature (and phase) produced by an
energy balance (``H`` setter, ``mix_from(energy_balance=True)``), which is thermosteam's own result.

Oracle, after every read of ``H S C Cn V rho mu kappa sigma epsilon Hvap Cp alpha nu Pr F_vol MW h Hnet``
through the stream, a proxy or a phase view: the value equals the same property of a stream created
freshly from the model state (rtol 1e-9); both sides raising the same exception type counts as equal.
"""
from __future__ import annotations

import numpy as np
import thermosteam as tmo
from vlib import chem, runner

PROPERTY = 'C14'
RULE = ('Hypothesis draws a start stream (Stream in l/g/s/L or MultiStream over 2-3 of those phases; packages P, Q '
        '(permuted), R (superset with Hexane), Pm (same order as P, other property models), Px / Pmx (the *same* Chemicals '
        'object as P / Pm, mixture with excess energies); flows 0 or 10**u or '
        'small dyadics; T, P from 5/4-value palettes or floats) and up to 40 steps.  Each step is drawn from the '
        'operations enabled in the current model state: reads of 19 derived properties on the stream, its proxies, '
        'its partner or a phase view (single, bursts, and the H reads inside mix_from of a temporary stream); item/'
        'slice/name writes on mol, mass, imol, imass; scale, F_mol, F_mass, F_vol; T; P; phase; phases (S->M, M->M, '
        'M->S); exchange of two phase rows; H setter; empty(+refill); mix_from; copy_like; copy_flow; link_with (all '
        'flag subsets, both directions); unlink; _reset_thermo; copy(thermo=); proxy(); new partner; exact restore of '
        'an earlier state; read-mutate-read-undo-read patterns (T, P, phase, scale by 2 and 0.5, row exchange, package '
        'switch among P/Pm/Px/Pmx); read - _reset_thermo of the stream and all its proxies - read [- back - read]. '
        'Oracle: property == same property of a fresh stream built from the reference model (rtol 1e-9) or same '
        'exception type.  Non-trivial: the case re-reads a property through the same access path after the state '
        'changed.  Distinct by (start kind, sequence of operation names with access-path kinds and property names).')
ASSUMPTIONS = [
    'operations that replace a container (phases/phase kind change, link_with by the receiver, unlink, _reset_thermo, '
    'copy) end the life of existing proxies of that stream in the world (what a proxy shares afterwards is not stated)',
    'kind changes and _reset_thermo are generated only while the stream shares nothing with its partner',
    'link_with only between streams of the same class, package and phase tuple (callers\' precondition)',
    'donors of a MultiStream receiver are on the same package and inside its phase set (M donors: identical phase tuple); '
    'cross-package donors only Stream->Stream with zero flow for chemicals the receiver lacks',
    'energy-balance mixing of single-phase receivers only with donors that share one phase; H targets inside [H(275 K), H(415 K)]',
    'T in [270, 420] K, P in [1e4, 3e6] Pa, flows finite and non-negative',
    'energy balances (H setter, mix_from(energy_balance=True)) only on packages without excess energies: with them H(T) of a '
    'compressed gas is not monotonic and the solved temperature is not unique',
    'writes through a view that the model knows to be detached (known finding C14-F2) are never generated',
    'regions of known findings (F1 cross-reads in a proxy group, F2 detached views, F5 mass writes through a _data_cache '
    'dict held by two streams) are entered only in cases whose drawn `explore` set names them; elsewhere they are avoided '
    'and counted in avoided:* cells',
    'cross-package transfers use only one of index_overlap / imol[CAS tuple] per receiver package and case (index-cache '
    'conflict owned by C10)',
]
REQUIRED_CELLS = {'quick': ['read:path=h', 'read:path=p', 'read:path=v', 'reread', 'op:w_flow', 'op:w_scale', 'op:w_T',
                            'op:w_P', 'op:w_phase', 'op:phases', 'op:w_H', 'op:mix_from', 'op:copy_like', 'op:copy_flow',
                            'op:link', 'op:unlink', 'op:reset_thermo', 'op:empty', 'op:proxy', 'op:restore', 'op:mixH', 'op:revisit', 'op:swap', 'op:pkgswitch', 'op:volpattern', 'op:H_same', 'H_same:eos', 'phases-expanded-in-place', 'pkgswitch:same-chemicals',
                            'pkgswitch:other-chemicals',
                            'start:S', 'start:M'],
                  'thorough': []}

READ_PROPS = ['H', 'S', 'C', 'Cn', 'V', 'rho', 'mu', 'kappa', 'sigma', 'epsilon', 'Hvap', 'Cp', 'alpha', 'nu', 'Pr',
              'F_vol', 'MW', 'h', 'Hnet']
# per-chemical flows derived from the molar volume / molecular weight (read as whole vectors)
VOL_READS = ['vol', 'ivol', 'z_vol', 'get_flow_m3', 'get_flow_L', 'vol_frac']
MASS_READS = ['mass', 'imass', 'z_mass', 'get_flow_kg', 'mass_frac']
READ_PROPS = READ_PROPS + VOL_READS + MASS_READS


def _arr(x):
    return np.asarray(x.to_array() if hasattr(x, 'to_array') else x, float)


def _per_key(o, f):
    names = list(o.chemicals.IDs)
    if isinstance(o, tmo.MultiStream):
        return np.array([[f((p, n)) for n in names] for p in sorted(o.phases)], float)
    return np.array([f(n) for n in names], float)


VREAD = {
    'vol': lambda o: _arr(o.vol),
    'mass': lambda o: _arr(o.mass),
    'z_vol': lambda o: _arr(o.z_vol),
    'z_mass': lambda o: _arr(o.z_mass),
    'ivol': lambda o: _per_key(o, lambda k: o.ivol[k]),
    'imass': lambda o: _per_key(o, lambda k: o.imass[k]),
    'get_flow_m3': lambda o: _per_key(o, lambda k: o.get_flow('m3/hr', k)),
    'get_flow_L': lambda o: _per_key(o, lambda k: o.get_flow('L/hr', k)),
    'get_flow_kg': lambda o: _per_key(o, lambda k: o.get_flow('kg/hr', k)),
    'vol_frac': lambda o: _arr((o.get_volumetric_composition if isinstance(o, tmo.MultiStream)
                                else o.get_volumetric_fraction)(tuple(o.chemicals.IDs))),
    'mass_frac': lambda o: _arr((o.get_mass_composition if isinstance(o, tmo.MultiStream)
                                 else o.get_mass_fraction)(tuple(o.chemicals.IDs))),
}


def V_m3_per_kmol(pkg, name, phase, T, P):
    """Molar volume of one chemical evaluated on the chemical object itself (reference for volumetric writes)."""
    V = getattr(_PK[pkg].chemicals, name).V
    f = getattr(V, phase) if hasattr(V, phase) else V
    return 1000. * float(f(T, P))


# properties computed from the same memo entry
_FAM = [['H', 'h', 'Hnet'], ['S'], ['C', 'Cn', 'Cp', 'alpha', 'Pr'], ['V', 'rho', 'F_vol', 'alpha', 'nu'], ['mu', 'nu', 'Pr'],
        ['kappa', 'alpha', 'Pr'], ['sigma'], ['epsilon'], ['Hvap'], ['MW', 'Cp', 'rho'], VOL_READS + ['F_vol'], MASS_READS]
SIBLINGS = {p: sorted({q for fam in _FAM if p in fam for q in fam}) for p in READ_PROPS}
T_PAL = [280., 300., 320., 350., 400.]
P_PAL = [101325., 5e4, 2e5, 1e6]
V_PAL = [0., 1., 2., 0.5, 10., None, None]
K_PAL = [2., 0.5, 4., 0.25, 10., 0.1, None, 0.]
PHASES = ['l', 'g', 's', 'L']
RTOL = 1e-9
T_TOL = 1e-6           # Mixture.T_tol
TWIN_OF = {'P': 'Px', 'Pm': 'Pmx'}                      # same Chemicals object, different mixture rules
TWIN = {'P': 'Px', 'Px': 'P', 'Pm': 'Pmx', 'Pmx': 'Pm'}
CHEMS = {'P': 'P', 'Px': 'P', 'Ppr': 'P', 'Pm': 'Pm', 'Pmx': 'Pm', 'Q': 'Q', 'R': 'R'}   # package -> its Chemicals object
SAME_IDS = ['P', 'Pm', 'Px', 'Pmx', 'Ppr']                      # same chemical IDs in the same order
ALL_PK = ['P', 'Q', 'R', 'Pm', 'Px', 'Pmx', 'Ppr']
NO_SOLVE = ('Px', 'Pmx', 'Ppr')                          # H(T) not monotonic / no unique root: no energy-balance solves
GAS_SENSITIVE = ['H', 'S', 'h', 'Hnet']                  # what the mixture rules of Px / Pmx change (gas phase)
EXPLORE = ['xread', 'detached', 'mproxy_ctor', 'mproxy_view', 'datacache', 'stranded']

_PK = {}
_NAMES = {}
_MW = {}


def packages():
    """Four property packages: P, Q = permutation, R = superset, Pm = P with other property models."""
    if _PK:
        return _PK
    base = ('Water', 'Ethanol', 'Methanol', 'Acetone')
    _PK['P'] = chem.thermo_of(base)
    _PK['Q'] = chem.thermo_of(('Acetone', 'Water', 'Methanol', 'Ethanol'))
    _PK['R'] = chem.thermo_of(('Ethanol', 'Hexane', 'Water', 'Acetone', 'Methanol'))
    mod = []
    for n in base:
        c = tmo.Chemical(n)
        for handle, two in ((c.Cn.l, 0), (c.Cn.g, 0), (c.mu.l, 1), (c.mu.g, 1), (c.kappa.l, 1), (c.kappa.g, 1),
                            (c.V.l, 1), (c.sigma, 0), (c.epsilon, 0), (c.Hvap, 0)):
            val = handle(300., 101325.) if two else handle(300.)
            handle.add_model(1.25 * float(val), top_priority=True)
        c.reset_free_energies()
        mod.append(c)
    th = tmo.Thermo(tmo.Chemicals(mod))
    runner.register_chemicals(th.chemicals)
    _PK['Pm'] = th
    # packages on the *same* Chemicals object as P / Pm, other mixture rules (excess energies: changes H, S of gases)
    for base_id, twin in TWIN_OF.items():
        c = _PK[base_id].chemicals
        _PK[twin] = tmo.Thermo(c, mixture=tmo.IdealMixture.from_chemicals(c, include_excess_energies=True))
        assert _PK[twin].chemicals is c
    # equation-of-state package on the Chemicals object of P (its mixture object keeps per-call state)
    from thermosteam.mixture import PRMixture
    c = _PK['P'].chemicals
    _PK['Ppr'] = tmo.Thermo(c, mixture=PRMixture.from_chemicals(c))
    for k, t in _PK.items():
        _NAMES[k] = list(t.chemicals.IDs)
        _MW[k] = {n: float(m) for n, m in zip(t.chemicals.IDs, t.chemicals.MW)}
    return _PK


def setup(ctx):
    packages()


# ---------------------------------------------------------------------------
# reference model
# ---------------------------------------------------------------------------
class Flow:
    """Flow container: rows[phase][name] = kmol/hr (single-phase streams use the row '')."""
    def __init__(self, rows):
        self.rows = rows

    def copy(self):
        return Flow({p: dict(r) for p, r in self.rows.items()})


class TC:
    def __init__(self, T, P):
        self.T = T; self.P = P

    def copy(self):
        return TC(self.T, self.P)


class Ph:
    def __init__(self, val):
        self.val = val

    def copy(self):
        return Ph(self.val)


class DC:
    """The indexer's _data_cache dict (holds the mass / volume views) and the streams that hold this very dict."""
    def __init__(self, owner):
        self.owners = [owner]

    def hazard(self):
        """Two holders of the dict look at different flow containers: the cached mass view belongs to one of them."""
        flows = []
        for o in self.owners:
            if not any(f is o.flow for f in flows): flows.append(o.flow)
        return len(flows) > 1


def new_dc(h):
    if getattr(h, 'dc', None) is not None:
        h.dc.owners = [o for o in h.dc.owners if o is not h]
    h.dc = DC(h)


class Handle:
    def __init__(self, name, kind, pkg, flow, tc, ph, phases, real, has_eq):
        self.name = name; self.kind = kind; self.pkg = pkg
        self.flow = flow; self.tc = tc; self.ph = ph; self.phases = phases
        self.dc = None; new_dc(self)
        self.real = real
        self.has_eq = has_eq          # the real object has an `equations` attribute
        self.fetched = set()          # phases whose view object sits in real._streams
        self.detached = set()         # ... and whose containers were replaced since (known finding C14-F2)
        self.stranded = set()         # ... left on the old flow data by a proxy's _reset_thermo (finding C14-F6)

    def names(self):
        return _NAMES[self.pkg]

    def vec(self, phase=None):
        return self.flow.rows['' if self.kind == 'S' else phase]

    def total(self):
        return sum(sum(r.values()) for r in self.flow.rows.values())

    def nonzero_names(self):
        return {n for r in self.flow.rows.values() for n, v in r.items() if v}


class World:
    def __init__(self):
        self.h = {}
        self.proxies = []         # real proxies of 'a' (all alias a's containers)
        self.consistent = {'a'}   # members of a's cache-sharing group whose key is known to describe the shared memo
        self.mut_since_read = False
        self.version = 0
        self.lastread = {}
        self.rereads = 0
        self.snaps = []
        self.trace = []
        self.muts = []            # mutations since the last read (for messages)
        self.explore = []
        self.dc_tainted = False   # a mass-based write went through a _data_cache serving two flow containers (finding F5)
        self.xpkg_mode = {}       # receiver package -> 'overlap' | 'setitem' (see xpkg_allowed)


def clean(vec):
    return {n: float(v) for n, v in vec.items() if v}


def state(W, path):
    """Model state seen through an access path (JSON-like dict)."""
    k = path[0]
    h = W.h['a'] if k in ('p', 'pv') else W.h[path[1]]
    if k in ('v', 'pv'):
        ph = path[2]
        return {'kind': 'S', 'pkg': h.pkg, 'phases': [ph], 'rows': {ph: clean(h.vec(ph))}, 'T': h.tc.T, 'P': h.tc.P}
    if h.kind == 'S':
        ph = h.ph.val
        return {'kind': 'S', 'pkg': h.pkg, 'phases': [ph], 'rows': {ph: clean(h.vec())}, 'T': h.tc.T, 'P': h.tc.P}
    return {'kind': 'M', 'pkg': h.pkg, 'phases': list(h.phases), 'rows': {p: clean(h.vec(p)) for p in h.phases},
            'T': h.tc.T, 'P': h.tc.P}


def fresh(st, T=None, phase=None):
    """A newly created stream with the model state (own, empty cache)."""
    th = _PK[st['pkg']] if isinstance(st['pkg'], str) else st['pkg']
    names = list(th.chemicals.IDs)
    T = st['T'] if T is None else T
    if st['kind'] == 'S':
        ph = st['phases'][0]
        row = st['rows'][ph]
        return tmo.Stream(None, flow=np.array([row.get(n, 0.) for n in names], float), phase=phase or ph,
                          T=T, P=st['P'], thermo=th)
    s = tmo.MultiStream(None, phases=tuple(st['phases']), T=T, P=st['P'], thermo=th)
    for p in st['phases']:
        d = s.imol.data.rows[s.imol.get_phase_index(p)].dct
        for i, n in enumerate(names):
            v = st['rows'][p].get(n, 0.)
            if v: d[i] = float(v)
    return s


def raw_state(obj):
    """State read back from a real object (only used to classify a mismatch)."""
    names = list(obj.chemicals.IDs)
    a = obj.imol.data.to_array()
    if isinstance(obj, tmo.MultiStream):
        phases = list(obj.phases)
        rows = {p: {n: float(v) for n, v in zip(names, a[i]) if v} for i, p in enumerate(phases)}
        kind = 'M'
    else:
        phases = [obj.phase]
        rows = {obj.phase: {n: float(v) for n, v in zip(names, a) if v}}
        kind = 'S'
    return {'kind': kind, 'pkg': obj.thermo, 'phases': phases, 'rows': rows, 'T': obj.T, 'P': obj.P}


def same_state(st, raw):
    if st['kind'] != raw['kind'] or sorted(st['phases']) != sorted(raw['phases']): return False
    if raw['pkg'] is not _PK[st['pkg']]: return False
    if st['T'] != raw['T'] or st['P'] != raw['P']: return False
    for p in st['phases']:
        a, b = st['rows'][p], raw['rows'][p]
        for n in set(a) | set(b):
            x, y = a.get(n, 0.), b.get(n, 0.)
            if abs(x - y) > 1e-12 * max(abs(x), abs(y)): return False
    return True


def attempt(obj, prop):
    try:
        return ('ok', VREAD[prop](obj) if prop in VREAD else getattr(obj, prop))
    except Exception as e:        # noqa: BLE001 - the exception type is the observation
        return ('exc', type(e).__name__, str(e)[:120])


def close(got, exp, prop, st):
    """(equal?, relative error)"""
    if got[0] != exp[0]:
        return False, None
    if got[0] == 'exc':
        return got[1] == exp[1], None
    a, b = got[1], exp[1]
    if a is None or b is None:
        return (a is None and b is None), None
    if isinstance(a, np.ndarray) or isinstance(b, np.ndarray):
        a = np.asarray(a, float); b = np.asarray(b, float)
        if a.shape != b.shape: return False, None
        nan = np.isnan(a)
        if (nan != np.isnan(b)).any(): return False, None
        a = np.where(nan, 0., a); b = np.where(nan, 0., b)
        scale = np.maximum(np.abs(a), np.abs(b))
        err = np.abs(a - b)
        ok = bool((err <= RTOL * scale).all())
        rel = float((err / np.where(scale > 0, scale, 1.)).max()) if a.size else 0.0
        return ok, rel
    a = float(a); b = float(b)
    if a == b:
        return True, 0.0
    if not (np.isfinite(a) and np.isfinite(b)):
        return (np.isnan(a) and np.isnan(b)), None
    scale = max(abs(a), abs(b))
    atol = 0.0
    if prop in ('H', 'Hnet', 'h'):
        # an enthalpy near its zero crossing is a difference of large terms: allow 1e-7 K worth of heat
        F = sum(sum(r.values()) for r in st['rows'].values()) if prop != 'h' else 1.0
        atol = 1e-7 * 300. * max(F, 0.0)
    err = abs(a - b)
    return err <= RTOL * scale + atol, err / scale


def pkey(path):
    return path[0] + ''.join(str(x) for x in path[1:])


def member(W, path):
    """Name of the cache-group member behind a path ('a', 'p0', ...) or None for b / views of a MultiStream."""
    if path[0] == 'h' and path[1] == 'a': return 'a'
    if path[0] == 'p': return f'p{path[1]}'
    if path[0] == 'v' and path[1] == 'a' and W.h['a'].kind == 'S': return 'a'   # Stream['l'] is the stream itself
    return None


def region_of(W, path):
    k = path[0]
    h = W.h['a'] if k in ('p', 'pv') else W.h[path[1]]
    m = member(W, path)
    xread = int(m is not None and m not in W.consistent)
    det = int(k == 'v' and path[2] in h.detached)     # a proxy keeps its own table of phase views (2719672)
    if k == 'v' and not det and path[2] in h.stranded: det = 2
    kind = 'S' if k in ('v', 'pv') else h.kind
    return f'path={k},kind={kind},parent={h.kind},xread={xread},det={det},dc={int(W.dc_tainted)}'


def get_obj(W, ctx, path):
    k = path[0]
    if k == 'h': return W.h[path[1]].real
    if k == 'p': return W.proxies[path[1]]
    region = region_of(W, path)
    if k == 'v':
        h = W.h[path[1]]
        o = ctx.call('view', lambda: h.real[path[2]], region=region)
        if h.kind == 'M': h.fetched.add(path[2])
        return o
    p = W.proxies[path[1]]
    return ctx.call('view', lambda: p[path[2]], region=region)


NAMES3 = ('a', 'b', 'c')


def handles(W):
    return [n for n in NAMES3 if n in W.h]


def read_paths(W):
    """Access paths for reading, in a fixed order; known-finding regions only when explored."""
    out = []
    a = W.h['a']
    ex = W.explore
    def ok_member(m):
        return m in W.consistent or 'xread' in ex
    if ok_member('a'): out.append(['h', 'a'])
    for i in range(len(W.proxies)):
        if ok_member(f'p{i}'): out.append(['p', i])
    for n in handles(W):
        h = W.h[n]
        if n != 'a': out.append(['h', n])
        if h.kind == 'M':
            for p in h.phases:
                if (p not in h.detached or 'detached' in ex) and (p not in h.stranded or 'stranded' in ex):
                    out.append(['v', n, p])
        elif n != 'a' or ok_member('a'):
            out.append(['v', n, h.ph.val])
    if a.kind == 'M' and W.proxies and 'mproxy_view' in ex:
        out.append(['pv', 0, a.phases[0]])
    return out


def write_paths(W, single=None):
    """Access paths for writing.  single=True: single-phase objects only; False: multi-phase objects only."""
    out = []
    a = W.h['a']
    for n in handles(W):
        h = W.h[n]
        if single is None or single == (h.kind == 'S'): out.append(['h', n])
        if h.kind == 'M' and single in (None, True):
            for p in h.phases:
                if p not in h.detached and p not in h.stranded: out.append(['v', n, p])
    for i in range(len(W.proxies)):
        if single is None or single == (a.kind == 'S'): out.append(['p', i])
    return out


def target(W, path):
    """(handle, list of model rows written through this path)"""
    k = path[0]
    h = W.h['a'] if k == 'p' else W.h[path[1]]
    if k == 'v': return h, [h.vec(path[2])]
    if h.kind == 'S': return h, [h.vec()]
    return h, [h.vec(p) for p in h.phases]


def member_read(W, m):
    """Bookkeeping for a read of the memo through member m of a's cache-sharing group (finding F1).
    `consistent` = members whose memo key is known to describe what the shared dict holds."""
    if m is None: return
    if m in W.consistent:
        if W.mut_since_read: W.consistent = {m}
    else:
        W.consistent = set()
    W.mut_since_read = False


def mutated(W, what):
    W.version += 1
    W.mut_since_read = True
    W.muts.append(what)
    if len(W.muts) > 12: del W.muts[0]


def drop_proxies(W, ctx, why):
    if W.proxies:
        ctx.cell('proxies-dropped:' + why)
        W.proxies = []
        W.consistent = {m for m in W.consistent if m == 'a'}


def cache_reset(W, h):
    """thermosteam gave h.real a new, empty memo (reset_cache)."""
    if h.name == 'a':
        W.consistent = {'a'}
        W.mut_since_read = False


def ghosts(h):
    """Cached views of phases that no longer exist (left behind by a `phases` change)."""
    return (h.fetched - set(h.phases)) if h.kind == 'M' else set()


def views_relinked(h):
    """link_with / unlink / _reset_thermo re-link every cached view (they raise when a ghost is among them)."""
    if h.kind == 'M': h.detached = set(); h.stranded = set()


def shares_pair(x, y):
    return x.flow is y.flow or x.tc is y.tc or (x.ph is not None and x.ph is y.ph)


def shares(W, h=None):
    """Does handle h (default: any handle) share a container with another handle?"""
    hs = [W.h[n] for n in handles(W)]
    for i, x in enumerate(hs):
        for y in hs[i + 1:]:
            if shares_pair(x, y) and (h is None or h is x or h is y): return True
    return False


# ---------------------------------------------------------------------------
# drawing helpers
# ---------------------------------------------------------------------------
def draw_T(ch, tag='T'):
    T = ch.choice(tag, T_PAL + [None])
    return ch.float(tag + '.f', 270., 420.) if T is None else T


def draw_P(ch, tag='P'):
    P = ch.choice(tag, P_PAL + [None])
    return ch.logfloat(tag + '.f', 4., 6.5) if P is None else P


def draw_v(ch, tag='v'):
    v = ch.choice(tag, V_PAL)
    return ch.logfloat(tag + '.f', -3, 3) if v is None else v


def draw_vec(ch, tag, names, allowed=None):
    vals = ch.flows(tag, len(names))
    return {n: (float(v) if (allowed is None or n in allowed) else 0.0) for n, v in zip(names, vals)}


def build(kind, pkg, phases, rows, T, P, convert=False):
    """Real stream from model values.  convert=True builds a MultiStream through Stream.phases."""
    st = {'kind': kind, 'pkg': pkg, 'phases': list(phases), 'rows': rows, 'T': T, 'P': P}
    if kind == 'M' and convert:
        th = _PK[pkg]
        s = tmo.Stream(None, phase=phases[0], T=T, P=P, thermo=th)
        s.phases = tuple(phases)
        names = _NAMES[pkg]
        for p in phases:
            d = s.imol.data.rows[s.imol.get_phase_index(p)].dct
            for i, n in enumerate(names):
                v = rows[p].get(n, 0.)
                if v: d[i] = float(v)
        return s
    return fresh(st)


def draw_handle(ch, tag, name, kind=None, pkg=None, phases=None, allowed=None):
    kind = kind or ch.choice(f'{tag}.kind', ['S', 'M'])
    pkg = pkg or ch.choice(f'{tag}.pkg', ALL_PK)
    names = _NAMES[pkg]
    T = draw_T(ch, f'{tag}.T'); P = draw_P(ch, f'{tag}.P')
    if kind == 'S':
        ph = phases[0] if phases else ch.choice(f'{tag}.phase', PHASES)
        vec = clean(draw_vec(ch, f'{tag}.flow', names, allowed))
        real = build('S', pkg, [ph], {ph: vec}, T, P)
        return Handle(name, 'S', pkg, Flow({'': vec}), TC(T, P), Ph(ph), None, real, True)
    if phases is None:
        phases = ch.subset(f'{tag}.phases', PHASES, min_size=2, max_size=3)
    phases = sorted(phases)
    rows = {}
    for p in phases:
        rows[p] = {} if ch.int(f'{tag}.{p}.empty', 0, 3) == 0 else clean(draw_vec(ch, f'{tag}.{p}.flow', names, allowed))
    convert = ch.bool(f'{tag}.convert')
    real = build('M', pkg, phases, rows, T, P, convert)
    return Handle(name, 'M', pkg, Flow(rows), TC(T, P), None, list(phases), real, convert)


def new_phases_for(recv):
    """Phases a single-phase donor may bring into a MultiStream receiver (neither the label nor its case twin present)."""
    return [p for p in PHASES if p not in recv.phases and p.swapcase() not in recv.phases]


def draw_donor(ch, tag, recv, allow_multi=True, need_phase=False, expand=False):
    """A new donor stream admissible for the receiver handle.  Returns (real, state)."""
    if recv.kind == 'S':
        pkg = ch.choice(f'{tag}.pkg', [recv.pkg, recv.pkg] + ALL_PK)
        kind = 'S'
        if allow_multi and pkg == recv.pkg and ch.int(f'{tag}.multi', 0, 3) == 0: kind = 'M'
        phases = None
        if kind == 'M' and need_phase:
            phases = set(ch.subset(f'{tag}.phases', PHASES, min_size=1, max_size=2)) | {recv.ph.val}
            if len(phases) < 2: phases.add('g' if recv.ph.val != 'g' else 'l')
            phases = sorted(phases)
        h = draw_handle(ch, tag, tag, kind=kind, pkg=pkg, phases=phases, allowed=set(recv.names()))
    else:
        kind = ch.choice(f'{tag}.kind', ['S', 'M']) if allow_multi else 'S'
        if kind == 'S':
            phs = list(recv.phases) + (new_phases_for(recv) * 2 if expand else [])
            h = draw_handle(ch, tag, tag, kind='S', pkg=recv.pkg, phases=[ch.choice(f'{tag}.phase', phs)])
        else:
            h = draw_handle(ch, tag, tag, kind='M', pkg=recv.pkg, phases=list(recv.phases))
    W = World(); W.h[tag] = h
    return h.real, state(W, ['h', tag])


# ---------------------------------------------------------------------------
# reading
# ---------------------------------------------------------------------------
def check_read(W, ctx, path, prop):
    st = state(W, path)
    region = region_of(W, path)
    obj = get_obj(W, ctx, path)
    got = attempt(obj, prop)
    exp = attempt(fresh(st), prop)
    ok, rel = close(got, exp, prop, st)
    key = (pkey(path), prop)
    prev = W.lastread.get(key)
    if prev is not None and prev[0] != W.version:
        W.rereads += 1
        ctx.cell('reread')
    W.lastread[key] = (W.version, list(path))
    ctx.cell('read:path=' + path[0])
    if got[0] == 'exc': ctx.cell('read:exc-both' if ok else 'read:exc')
    member_read(W, member(W, path))
    if ok:
        if rel is not None: ctx.metric_max('read:rel_err', rel)
        W.muts = []
        return
    try:
        diverged = not same_state(st, raw_state(obj))
    except Exception:  # noqa: BLE001
        diverged = True
    if got[0] != exp[0] or got[0] == 'exc':
        kind = 'exc-mismatch'
    else:
        kind = 'state' if diverged else 'stale'
    ctx.fail(f'read.{prop}|{region}|{kind}',
             f'{prop} via {path}: got {got!r} fresh {exp!r}; model {st}; real state differs from model: {diverged}; '
             f'mutations since last read: {W.muts}; trace tail: {W.trace[-8:]}')


def snapshot(W):
    a = W.h['a']
    snap = {'kind': a.kind, 'pkg': a.pkg, 'phases': list(a.phases) if a.kind == 'M' else [a.ph.val],
            'rows': {p: dict(r) for p, r in a.flow.rows.items()}, 'T': a.tc.T, 'P': a.tc.P}
    if not W.snaps or W.snaps[-1] != snap:
        W.snaps.append(snap)
        if len(W.snaps) > 4: del W.snaps[0]


# ---------------------------------------------------------------------------
# operations
# ---------------------------------------------------------------------------
def op_read(ch, W, ctx):
    paths = read_paths(W)
    if not paths:
        ctx.cell('avoided:no-readable-path'); return
    snapshot(W)
    n = ch.choice('read.n', [1, 1, 1, 2, 3, 4])
    for j in range(n):
        old = [[v[1], k[1]] for k, v in sorted(W.lastread.items()) if v[1] in paths]
        if old and ch.bool('read.again'):
            # prefer a property that was read before through the same path (the memo can only be stale for those)
            path, prop = ch.choice('read.old', old)
            if ch.bool('read.sibling'):
                prop = ch.choice('read.prop', SIBLINGS[prop])
        else:
            path = ch.choice('read.path', paths)
            prop = ch.choice('read.prop', READ_PROPS)
        W.trace.append(f'read {pkey(path)}.{prop}')
        check_read(W, ctx, path, prop)
        paths = read_paths(W)
        if not paths: break


def op_mixH(ch, W, ctx):
    """H of single-phase objects as read by mix_from of a temporary stream (energy balance)."""
    cands = [p for p in read_paths(W) if state(W, p)['kind'] == 'S' and p[0] != 'pv']
    if not cands:
        ctx.cell('avoided:mixH-no-single-phase'); return
    p1 = ch.choice('mixH.p1', cands)
    s1 = state(W, p1)
    ph = s1['phases'][0]
    c2 = [p for p in cands if state(W, p)['phases'][0] == ph and state(W, p)['pkg'] == s1['pkg']]
    use_new = ch.bool('mixH.new') or not c2
    o1 = get_obj(W, ctx, p1)
    if use_new:
        d = draw_handle(ch, 'mixH.d', 'd', kind='S', pkg=s1['pkg'], phases=[ph])
        o2 = d.real; Wd = World(); Wd.h['d'] = d; s2 = state(Wd, ['h', 'd']); p2 = None
    else:
        p2 = ch.choice('mixH.p2', c2)
        s2 = state(W, p2); o2 = get_obj(W, ctx, p2)
    region = region_of(W, p1) + (',second=new' if p2 is None else ',second=' + region_of(W, p2).replace(',', ';'))
    W.trace.append(f'mixH {pkey(p1)} {pkey(p2) if p2 else "new"}')
    F1 = sum(s1['rows'][ph].values()); F2 = sum(s2['rows'][ph].values())
    if not F1 or not F2 or ph in ('s',):
        ctx.cell('avoided:mixH-empty-or-solid'); return
    if s1['pkg'] in NO_SOLVE:
        ctx.cell('avoided:mixH-with-excess-energies'); return
    for p in (p1, p2):
        if p: member_read(W, member(W, p))
    t = tmo.Stream(None, thermo=_PK[s1['pkg']])
    ctx.call('read.mixH', t.mix_from, [o1, o2], energy_balance=True, region=region)
    rows = dict(s1['rows'][ph])
    for n, v in s2['rows'][ph].items(): rows[n] = rows.get(n, 0.) + v
    want = fresh(s1).H + fresh(s2).H
    if not isinstance(t, tmo.MultiStream) and t.phase == ph:
        st = {'kind': 'S', 'pkg': s1['pkg'], 'phases': [ph], 'rows': {ph: rows}, 'T': t.T, 'P': min(s1['P'], s2['P'])}
        f = fresh(st)
        tol = 100. * abs(f.C) * T_TOL + 1e-9 * abs(want) + 1e-9
        if abs(f.H - want) <= tol: ctx.metric_max('mixH:resid/tol', abs(f.H - want) / tol)
        if abs(f.H - want) > tol:
            ctx.fail(f'read.mixH|{region}|stale', f'mix of {pkey(p1)} and {pkey(p2) if p2 else "new"}: mixed T={t.T!r} gives H '
                     f'{f.H!r}, donors\' fresh H sum {want!r}; trace tail {W.trace[-8:]}')
    else:
        ctx.cell('mixH:phase-changed')
    ctx.cell('read:path=' + p1[0])


def vol_write(W, ctx, path, h, obj, how, ph, nme, v, region):
    """Write v m3/hr of one chemical through a volumetric view; the model takes v / V_i(phase, T, P)."""
    names = h.names()
    if ph is None:
        phase = path[2] if path[0] == 'v' else h.ph.val
        vec = h.vec(path[2]) if path[0] == 'v' else h.vec()
        if how == 'ivol_name': ctx.call('op.' + how, obj.ivol.__setitem__, nme, v, region=region)
        elif how == 'vol_item': ctx.call('op.' + how, obj.vol.__setitem__, names.index(nme), v, region=region)
        else: ctx.call('op.' + how, obj.set_flow, v, 'm3/hr', nme, region=region)
    else:
        phase = ph; vec = h.vec(ph)
        if how == 'ivol_pn': ctx.call('op.' + how, obj.ivol.__setitem__, (ph, nme), v, region=region)
        else: ctx.call('op.' + how, obj.set_flow, v, 'm3/hr', (ph, nme), region=region)
    vec[nme] = v / V_m3_per_kmol(h.pkg, nme, phase, h.tc.T, h.tc.P)


def op_volpattern(ch, W, ctx):
    """[change T / P / phase] - write one flow in m3/hr (first use of that molar volume at this condition) -
    change only T or only P - read the per-chemical volumetric flows."""
    paths = [p for p in write_paths(W) if not (p[0] != 'v' and target(W, p)[0].dc.hazard())]
    if not paths:
        ctx.cell('volpattern->read'); return op_read(ch, W, ctx)
    path = ch.choice('vp.path', paths)
    h, rows = target(W, path)
    obj = get_obj(W, ctx, path)
    multi = path[0] in ('h', 'p') and h.kind == 'M'
    names = h.names()
    def setTP(which, tag):
        if which == 'T':
            new = ch.choice(tag, [t for t in T_PAL if t != h.tc.T])
            ctx.call('op.T', setattr, obj, 'T', new, region=f'path={path[0]}'); h.tc.T = new
        else:
            new = ch.choice(tag, [x for x in P_PAL if x != h.tc.P])
            ctx.call('op.P', setattr, obj, 'P', new, region=f'path={path[0]}'); h.tc.P = new
    pre = ch.choice('vp.pre', ['T', 'P', 'none'])
    if pre != 'none': setTP(pre, 'vp.pre.val')
    nme = ch.choice('vp.name', names); v = draw_v(ch)
    region = f'path={path[0]},kind={"M" if multi else "S"}'
    if multi:
        ph = ch.choice('vp.phase', list(h.phases))
        how = ch.choice('vp.how', ['ivol_pn', 'set_flow_m3_pn'])
    else:
        ph = None
        how = ch.choice('vp.how', ['ivol_name', 'vol_item', 'set_flow_m3'])
    W.trace.append(f'volpattern {pkey(path)} pre={pre} {how} {nme}')
    vol_write(W, ctx, path, h, obj, how, ph, nme, v, region)
    mutated(W, W.trace[-1])
    post = ch.choice('vp.post', ['T', 'P'])
    setTP(post, 'vp.post.val')
    W.trace.append(f'volpattern {pkey(path)} then {post}')
    mutated(W, W.trace[-1])
    rp = [p for p in read_paths(W) if (('a' if p[0] in ('p', 'pv') else p[1]) == h.name)]
    if not rp:
        ctx.cell('avoided:volpattern-no-readable-path'); return
    p2 = ch.choice('vp.p2', ([path] * 2 if path in rp else []) + rp)
    q = ch.choice('vp.prop', VOL_READS * 2 + ['F_vol', 'V', 'rho'])
    W.trace.append(f'read {pkey(p2)}.{q}')
    check_read(W, ctx, p2, q)


def op_w_flow(ch, W, ctx):
    paths = write_paths(W)
    path = ch.choice('w.path', paths)
    h, rows = target(W, path)
    names = h.names(); n = len(names); mw = _MW[h.pkg]
    obj = get_obj(W, ctx, path)
    multi = len(rows) > 1 or (path[0] in ('h', 'p') and h.kind == 'M')
    region = f'path={path[0]},kind={"M" if multi else "S"}'
    if not multi:
        vec = rows[0]
        hows = ['mol_item', 'mol_slice', 'mol_all', 'mol_setter', 'mass_item', 'mass_slice', 'imol_name', 'imol_names',
                'imass_name', 'set_flow', 'ivol_name', 'vol_item', 'set_flow_m3']
        if path[0] != 'v' and h.dc.hazard() and 'datacache' in W.explore:
            hows = ['mass_item', 'imass_name', 'mass_slice', 'set_flow'] * 2 + hows
        how = ch.choice('w.how', hows)
        if path[0] == 'v' and how == 'mol_setter': how = 'mol_all'
        if how in ('mass_item', 'mass_slice', 'imass_name', 'set_flow', 'ivol_name', 'vol_item', 'set_flow_m3') \
                and path[0] != 'v' and h.dc.hazard():
            if 'datacache' not in W.explore:
                ctx.cell('avoided:mass-write-through-shared-data-cache'); return
            W.dc_tainted = True
        W.trace.append(f'w_flow {pkey(path)} {how}')
        if how in ('mol_item', 'mass_item'):
            i = ch.int('w.i', 0, n - 1); v = draw_v(ch)
            if how == 'mol_item':
                ctx.call('op.' + how, obj.mol.__setitem__, i, v, region=region); vec[names[i]] = v
            else:
                ctx.call('op.' + how, obj.mass.__setitem__, i, v, region=region); vec[names[i]] = v / mw[names[i]]
        elif how in ('mol_slice', 'mass_slice'):
            lo = ch.int('w.lo', 0, n - 1); hi = ch.int('w.hi', lo + 1, n)
            scalar = ch.bool('w.scalar')
            vals = [draw_v(ch)] * (hi - lo) if scalar else ch.flows('w.vals', hi - lo)
            arg = vals[0] if scalar else np.array(vals, float)
            if how == 'mol_slice':
                ctx.call('op.' + how, obj.mol.__setitem__, slice(lo, hi), arg, region=region)
                for i, v in zip(range(lo, hi), vals): vec[names[i]] = float(v)
            else:
                ctx.call('op.' + how, obj.mass.__setitem__, slice(lo, hi), arg, region=region)
                for i, v in zip(range(lo, hi), vals): vec[names[i]] = float(v) / mw[names[i]]
        elif how in ('mol_all', 'mol_setter'):
            vals = ch.flows('w.vals', n)
            if how == 'mol_all': ctx.call('op.' + how, obj.mol.__setitem__, slice(None), np.array(vals, float), region=region)
            else: ctx.call('op.' + how, setattr, obj, 'mol', np.array(vals, float), region=region)
            for nme, v in zip(names, vals): vec[nme] = float(v)
        elif how in ('ivol_name', 'vol_item', 'set_flow_m3'):
            nme = ch.choice('w.name', names); v = draw_v(ch)
            vol_write(W, ctx, path, h, obj, how, None, nme, v, region)
        elif how in ('imol_name', 'imass_name', 'set_flow'):
            nme = ch.choice('w.name', names); v = draw_v(ch)
            if how == 'imol_name':
                ctx.call('op.' + how, obj.imol.__setitem__, nme, v, region=region); vec[nme] = v
            elif how == 'imass_name':
                ctx.call('op.' + how, obj.imass.__setitem__, nme, v, region=region); vec[nme] = v / mw[nme]
            else:
                ctx.call('op.' + how, obj.set_flow, v, 'kg/hr', nme, region=region); vec[nme] = v / mw[nme]
        else:
            sub = ch.subset('w.names', names, min_size=1)
            vals = ch.flows('w.vals', len(sub))
            ctx.call('op.' + how, obj.imol.__setitem__, tuple(sub), np.array(vals, float), region=region)
            for nme, v in zip(sub, vals): vec[nme] = float(v)
    else:
        hows = ['imol_pn', 'imol_pnames', 'imass_pn', 'imol_prow', 'ivol_pn', 'set_flow_m3_pn']
        if h.dc.hazard() and 'datacache' in W.explore: hows = ['imass_pn'] * 3 + hows
        how = ch.choice('w.how', hows)
        ph = ch.choice('w.phase', list(h.phases))
        vec = h.vec(ph)
        if how in ('imass_pn', 'ivol_pn', 'set_flow_m3_pn') and h.dc.hazard():
            if 'datacache' not in W.explore:
                ctx.cell('avoided:mass-write-through-shared-data-cache'); return
            W.dc_tainted = True
        W.trace.append(f'w_flow {pkey(path)} {how} {ph}')
        if how in ('ivol_pn', 'set_flow_m3_pn'):
            nme = ch.choice('w.name', names); v = draw_v(ch)
            vol_write(W, ctx, path, h, obj, how, ph, nme, v, region)
        elif how in ('imol_pn', 'imass_pn'):
            nme = ch.choice('w.name', names); v = draw_v(ch)
            if how == 'imol_pn':
                ctx.call('op.' + how, obj.imol.__setitem__, (ph, nme), v, region=region); vec[nme] = v
            else:
                ctx.call('op.' + how, obj.imass.__setitem__, (ph, nme), v, region=region); vec[nme] = v / mw[nme]
        elif how == 'imol_pnames':
            sub = ch.subset('w.names', names, min_size=1)
            vals = ch.flows('w.vals', len(sub))
            ctx.call('op.' + how, obj.imol.__setitem__, (ph, tuple(sub)), np.array(vals, float), region=region)
            for nme, v in zip(sub, vals): vec[nme] = float(v)
        else:
            vals = ch.flows('w.vals', n)
            ctx.call('op.' + how, obj.imol.__setitem__, ph, np.array(vals, float), region=region)
            for nme, v in zip(names, vals): vec[nme] = float(v)
    mutated(W, W.trace[-1])


def op_w_scale(ch, W, ctx):
    path = ch.choice('sc.path', write_paths(W))
    h, rows = target(W, path)
    obj = get_obj(W, ctx, path)
    how = ch.choice('sc.how', ['scale', 'scale', 'F_mol', 'F_mass', 'F_vol'])
    total = sum(sum(r.values()) for r in rows)
    region = f'path={path[0]},kind={state(W, path)["kind"]}'
    if how != 'scale' and not total:
        ctx.cell('avoided:total-flow-setter-on-empty'); how = 'scale'
    fv = None
    m = member(W, path)
    if how == 'F_vol' and m is not None and m not in W.consistent:
        # the F_vol setter reads V through this member's memo (trigger region of finding F1)
        ctx.cell('avoided:F_vol-setter-through-inconsistent-member'); how = 'scale'
    if how == 'F_vol':
        r = attempt(fresh(state(W, path)), 'F_vol')
        if r[0] != 'ok' or not r[1] or not np.isfinite(r[1]):
            ctx.cell('avoided:F_vol-undefined'); how = 'scale'
        else:
            fv = float(r[1])
    W.trace.append(f'w_scale {pkey(path)} {how}')
    if how == 'scale':
        k = ch.choice('sc.k', K_PAL)
        if k is None: k = ch.logfloat('sc.k.f', -2, 2)
        ctx.call('op.scale', obj.scale, k, region=region)
    else:
        val = ch.choice('sc.val', [1., 10., 0.5, 100., None, 0.])
        if val is None: val = ch.logfloat('sc.val.f', -2, 3)
        if how == 'F_mol':
            k = val / total
        elif how == 'F_mass':
            mw = _MW[h.pkg]
            k = val / sum(v * mw[n] for r in rows for n, v in r.items())
        else:
            k = val / fv
            member_read(W, m)
        ctx.call('op.' + how, setattr, obj, how, val, region=region)
    for r in rows:
        for n in list(r): r[n] = r[n] * k
    mutated(W, W.trace[-1])


def op_w_T(ch, W, ctx):
    path = ch.choice('T.path', write_paths(W))
    h, _ = target(W, path)
    T = draw_T(ch)
    W.trace.append(f'w_T {pkey(path)} {T}')
    ctx.call('op.T', setattr, get_obj(W, ctx, path), 'T', T, region=f'path={path[0]}')
    h.tc.T = float(T)
    mutated(W, W.trace[-1])


def op_w_P(ch, W, ctx):
    path = ch.choice('P.path', write_paths(W))
    h, _ = target(W, path)
    P = draw_P(ch)
    W.trace.append(f'w_P {pkey(path)} {P}')
    ctx.call('op.P', setattr, get_obj(W, ctx, path), 'P', P, region=f'path={path[0]}')
    h.tc.P = float(P)
    mutated(W, W.trace[-1])


def op_w_phase(ch, W, ctx):
    cands = [p for p in write_paths(W, single=True) if p[0] != 'v']
    if not cands:
        ctx.cell('w_phase->phases'); return op_phases(ch, W, ctx)
    path = ch.choice('ph.path', cands)
    h, _ = target(W, path)
    ph = ch.choice('ph.phase', PHASES)
    W.trace.append(f'w_phase {pkey(path)} {ph}')
    ctx.call('op.phase', setattr, get_obj(W, ctx, path), 'phase', ph, region=f'path={path[0]},kind=S')
    h.ph.val = ph
    mutated(W, W.trace[-1])


def op_w_H(ch, W, ctx):
    path = ch.choice('H.path', write_paths(W))
    st = state(W, path)
    h, rows = target(W, path)
    if not sum(sum(r.values()) for r in st['rows'].values()):
        ctx.cell('avoided:H-setter-on-empty'); return
    if st['pkg'] in NO_SOLVE:
        # with excess energies H(T) of a compressed gas is not monotonic: the solved T is not unique (C02's subject)
        ctx.cell('avoided:H-setter-with-excess-energies'); return
    lo = attempt(fresh(st, T=275.), 'H'); hi = attempt(fresh(st, T=415.), 'H')
    if lo[0] != 'ok' or hi[0] != 'ok' or not (hi[1] > lo[1]):
        ctx.cell('avoided:H-range-undefined'); return
    Hq = lo[1] + ch.float('H.u', 0., 1.) * (hi[1] - lo[1])
    obj = get_obj(W, ctx, path)
    region = f'path={path[0]},kind={st["kind"]}'
    W.trace.append(f'w_H {pkey(path)}')
    ctx.call('op.H', setattr, obj, 'H', Hq, region=region)
    T = float(obj.T)          # thermosteam's own result
    if not (274. <= T <= 416.):
        ctx.fail(f'op.H|{region}|T-outside-bracket', f'H target inside [H(275), H(415)] but T={T!r}')
    if st['kind'] == 'S' and obj.phase != st['phases'][0]:
        ctx.fail(f'op.H|{region}|phase-changed', f'phase {st["phases"][0]} -> {obj.phase}')
    h.tc.T = T
    f = fresh(state(W, path))
    tol = 100. * abs(f.C) * T_TOL + 1e-9 * abs(Hq) + 1e-9
    ctx.metric_max('H_set:resid/tol', abs(f.H - Hq) / tol)
    if abs(f.H - Hq) > tol:
        ctx.fail(f'op.H|{region}|energy-mismatch', f'target {Hq!r}, fresh stream at solved T={T!r} has H {f.H!r}')
    mutated(W, W.trace[-1])


def op_H_same(ch, W, ctx):
    """Assign the enthalpy the stream already has (zero-duty energy balance): nothing may change - neither the
    stream, nor what a newly created stream in the same state reads afterwards."""
    cands = [p for p in write_paths(W) if state(W, p)['pkg'] not in ('Px', 'Pmx')]
    if not cands:
        ctx.cell('H_same->read'); return op_read(ch, W, ctx)
    path = ch.choice('Hs.path', cands)
    st = state(W, path)
    h, rows = target(W, path)
    if not sum(sum(r.values()) for r in st['rows'].values()):
        ctx.cell('avoided:H-setter-on-empty'); return
    obj = get_obj(W, ctx, path)
    m = member(W, path)
    if m is not None and m not in W.consistent:
        ctx.cell('avoided:H_same-through-inconsistent-member'); return
    which = ch.choice('Hs.which', ['H', 'H', 'Hnet'])
    region = f'path={path[0]},kind={st["kind"]},pkg={"eos" if st["pkg"] == "Ppr" else "ideal"}'
    probes = ['H', 'S', 'Cn']
    before = [attempt(fresh(st), q) for q in probes]
    member_read(W, m)
    W.trace.append(f'H_same {pkey(path)} {which}')
    def f():
        setattr(obj, which, getattr(obj, which))
    ctx.call('op.H_same', f, region=region)
    T = float(obj.T)
    if abs(T - st['T']) > 1e-4:
        ctx.fail(f'op.H_same|{region}|T-moved', f'{which} = {which} moved T from {st["T"]!r} to {T!r}')
    h.tc.T = T
    mutated(W, W.trace[-1])
    if T == st['T']:
        after = [attempt(fresh(st), q) for q in probes]
        for q, x, y in zip(probes, before, after):
            ok, rel = close(x, y, q, st)
            if not ok:
                ctx.fail(f'op.H_same|{region}|fresh-changed',
                         f'a newly created stream in the same state read {q}={x!r} before and {y!r} after `{which} = {which}` '
                         f'on {pkey(path)}; model {st}')
    if st['pkg'] == 'Ppr': ctx.cell('H_same:eos')


def op_empty(ch, W, ctx):
    path = ch.choice('e.path', write_paths(W))
    h, rows = target(W, path)
    obj = get_obj(W, ctx, path)
    refill = ch.bool('e.refill')
    W.trace.append(f'empty {pkey(path)} refill={int(refill)}')
    ctx.call('op.empty', obj.empty, region=f'path={path[0]},kind={state(W, path)["kind"]}')
    for r in rows: r.clear()
    mutated(W, W.trace[-1])
    if refill:
        ctx.cell('op:empty+refill')
        names = h.names()
        if len(rows) == 1 and not (path[0] in ('h', 'p') and h.kind == 'M'):
            vals = ch.flows('e.vals', len(names))
            ctx.call('op.refill', obj.mol.__setitem__, slice(None), np.array(vals, float), region=f'path={path[0]}')
            for n, v in zip(names, vals): rows[0][n] = float(v)
        else:
            ph = ch.choice('e.phase', list(h.phases))
            vals = ch.flows('e.vals', len(names))
            ctx.call('op.refill', obj.imol.__setitem__, ph, np.array(vals, float), region=f'path={path[0]},kind=M')
            for n, v in zip(names, vals): h.vec(ph)[n] = float(v)


def op_phases(ch, W, ctx):
    """Kind / phase-set change of a handle that shares nothing with its partner."""
    hn = ch.choice('phs.h', handles(W))
    h = W.h[hn]
    if shares(W, h):
        ctx.cell('avoided:kind-change-while-linked'); return
    if h.kind == 'S':
        extra = ch.subset('phs.new', PHASES, min_size=1, max_size=2)
        new = sorted(set(extra) | {h.ph.val})
        if len(new) == 1:
            new = sorted(set(new) | {'g' if new[0] != 'g' else 'l'})
        W.trace.append(f'phases {hn} S->M {new}')
        ctx.call('op.phases', setattr, h.real, 'phases', tuple(new), region='from=S,to=M')
        rows = {p: {} for p in new}
        rows[h.ph.val] = dict(h.vec())
        h.kind = 'M'; h.phases = list(new); h.flow = Flow(rows); h.ph = None
        h.fetched = set(); h.detached = set(); h.stranded = set(); new_dc(h)
    else:
        nonempty = [p for p in h.phases if any(h.vec(p).values())]
        to = ch.choice('phs.to', ['M', 'M', 'S.phase', 'S.phases'])
        if to == 'M':
            extra = ch.subset('phs.new', PHASES, min_size=0, max_size=3)
            new = set(extra) | set(nonempty)
            while len(new) < 2 or sorted(new) == sorted(h.phases):
                rest = [p for p in PHASES if p not in new]
                if not rest: break
                new.add(rest[0])
            new = sorted(new)
            if new == sorted(h.phases):
                ctx.cell('avoided:same-phase-set'); return
            W.trace.append(f'phases {hn} M->M {new}')
            ctx.call('op.phases', setattr, h.real, 'phases', tuple(new), region='from=M,to=M')
            rows = {p: dict(h.vec(p)) if p in h.phases else {} for p in new}
            h.phases = list(new); h.flow = Flow(rows); new_dc(h)
            h.detached = set(h.fetched)      # the views cached in _streams keep the old containers (finding F2)
            h.stranded = set()
            cache_reset(W, h)
        else:
            ph = ch.choice('phs.phase', PHASES)
            W.trace.append(f'phases {hn} M->S {ph} via {to}')
            if to == 'S.phase':
                ctx.call('op.phase', setattr, h.real, 'phase', ph, region='from=M,to=S')
            else:
                ctx.call('op.phases', setattr, h.real, 'phases', (ph,), region='from=M,to=S')
            vec = {}
            for p in h.phases:
                for n, v in h.vec(p).items(): vec[n] = vec.get(n, 0.) + v
            h.kind = 'S'; h.phases = None; h.flow = Flow({'': vec}); h.ph = Ph(ph)
            h.fetched = set(); h.detached = set(); h.stranded = set(); new_dc(h)
    if hn == 'a': drop_proxies(W, ctx, 'phases')
    mutated(W, W.trace[-1])


def xpkg_allowed(W, ctx, recv, donors, mode):
    """Cross-package transfers reach the receiver package's shared index cache in two incompatible ways
    (index_overlap stores kind 0 with a list, imol[CAS tuple] stores kind 1; defect owned by C10): within
    one case only the first way used on a package is generated."""
    if not any(CHEMS[st['pkg']] != CHEMS[recv.pkg] for st in donors): return True
    cur = W.xpkg_mode.get(recv.pkg)
    if cur is None or cur == mode:
        W.xpkg_mode[recv.pkg] = mode
        return True
    ctx.cell('avoided:xpkg-index-cache-conflict(C10)')
    return False


def donor_ok(recv, st, need_phase=False, expand=False):
    """Is a stream in model state st an admissible donor for the receiver handle?"""
    if recv.kind == 'S':
        if st['kind'] == 'M' and CHEMS[st['pkg']] != CHEMS[recv.pkg]: return False
        if st['kind'] == 'M' and len(st['phases']) < 2: return False
        if st['kind'] == 'M' and need_phase and recv.ph.val not in st['phases']: return False
        nz = {n for r in st['rows'].values() for n, v in r.items() if v}
        return nz <= set(recv.names())
    if CHEMS[st['pkg']] != CHEMS[recv.pkg]: return False
    if st['kind'] == 'S': return st['phases'][0] in recv.phases or (expand and st['phases'][0] in new_phases_for(recv))
    return sorted(st['phases']) == sorted(recv.phases)


def draw_donors(ch, W, ctx, tag, recv, nmax, allow_self=True, expand=False):
    """List of (real, state, label) donors for receiver handle recv."""
    out = []
    n = ch.int(f'{tag}.n', 0, nmax)
    for i in range(n):
        kinds = ['new', 'new']
        if allow_self: kinds.append('self')
        kinds += other_donors(W, recv, expand=expand)
        k = ch.choice(f'{tag}.{i}.src', kinds)
        if k == 'new':
            real, st = draw_donor(ch, f'{tag}.{i}', recv, expand=expand)
        elif k == 'self':
            real, st = recv.real, state(W, ['h', recv.name])
        else:
            real, st = W.h[k].real, state(W, ['h', k])
        out.append((real, st, k))
    return out


def other_donors(W, recv, need_phase=False, expand=False):
    """Names of the other handles that are admissible donors and share nothing with the receiver."""
    return [n for n in handles(W) if n != recv.name and not shares_pair(recv, W.h[n])
            and donor_ok(recv, state(W, ['h', n]), need_phase, expand)]


def add_phases(ctx, recv, phases):
    """In-place phase expansion of a MultiStream receiver (MaterialIndexer._expand_phases)."""
    new = [p for p in phases if p not in recv.flow.rows]
    for p in new: recv.flow.rows[p] = {}
    if new:
        recv.phases = sorted(set(recv.phases) | set(new))
        ctx.cell('phases-expanded-in-place')


def row_for(recv, st, p):
    """Model row of the receiver that takes the material of donor phase p."""
    return recv.vec() if recv.kind == 'S' else recv.vec(p)


def op_mix_from(ch, W, ctx):
    hn = ch.choice('mix.h', handles(W))
    recv = W.h[hn]
    donors = draw_donors(ch, W, ctx, 'mix', recv, 3, expand=(recv.kind == 'M' and not shares(W, recv)))
    eb = ch.bool('mix.eb')
    live = [(r, st, k) for r, st, k in donors if any(v for row in st['rows'].values() for v in row.values())]
    if recv.kind == 'S' and eb and any(st['kind'] == 'M' for _, st, _ in live):
        # a multi-phase donor turns the receiver into a MultiStream (copy_like) or leaves the phase undetermined
        ctx.cell('avoided:mix-S-from-M-with-energy-balance'); eb = False
    if recv.kind == 'S' and eb and len({st['phases'][0] for _, st, _ in live}) > 1:
        ctx.cell('avoided:mix-eb-mixed-phases'); eb = False
    if eb and any('s' in st['phases'] and st['rows'].get('s') for _, st, _ in live):
        ctx.cell('avoided:mix-eb-solid'); eb = False
    if eb and (recv.pkg in NO_SOLVE or any(st['pkg'] in NO_SOLVE for _, st, _ in live)):
        ctx.cell('avoided:mix-eb-with-excess-energies'); eb = False
    region = f'recv={recv.kind},n={min(len(live), 2)},eb={int(eb)},multi={int(any(st["kind"] == "M" for _, st, _ in live))},' \
             f'xpkg={int(any(st["pkg"] != recv.pkg for _, st, _ in live))},self={int(any(k == "self" for _, _, k in live))}'
    a_donor = any((k == 'self' and hn == 'a') or k == 'a' for _, _, k in live)
    if eb and len(live) >= 2 and a_donor and 'a' not in W.consistent:
        # the energy balance reads a.H through a's memo (trigger region of finding F1)
        ctx.cell('avoided:mix-eb-inconsistent-donor'); eb = False
    if not xpkg_allowed(W, ctx, recv, [st for _, st, _ in live], 'overlap'): return
    if eb and len(live) >= 2 and a_donor: member_read(W, 'a')
    W.trace.append(f'mix_from {hn} {[k for _, _, k in donors]} eb={int(eb)}')
    Hsum = sum(fresh(st).H for _, st, _ in live) if eb and len(live) >= 2 else None
    ctx.call('op.mix_from', recv.real.mix_from, [r for r, _, _ in donors], energy_balance=eb, region=region)
    # --- model
    if recv.kind == 'M': add_phases(ctx, recv, [p for _, st, _ in live for p in st['phases']])
    new_rows = {p: {} for p in recv.flow.rows}
    for _, st, _ in live:
        for p, row in st['rows'].items():
            tgt = new_rows[''] if recv.kind == 'S' else new_rows[p]
            for n, v in row.items(): tgt[n] = tgt.get(n, 0.) + v
    for p in recv.flow.rows:
        recv.flow.rows[p].clear(); recv.flow.rows[p].update(new_rows[p])
    if len(live) == 1 and eb:
        st = live[0][1]
        recv.tc.T = st['T']; recv.tc.P = st['P']
        if recv.kind == 'S': recv.ph.val = st['phases'][0]
    elif len(live) >= 1:
        if recv.kind == 'S':
            # the receiver adopts the phase shared by all single-phase inlets
            phs = {st['phases'][0] if st['kind'] == 'S' else None for _, st, _ in live}
            if len(phs) == 1 and None not in phs: recv.ph.val = phs.pop()
        if len(live) >= 2:
            recv.tc.P = min(st['P'] for _, st, _ in live)
        if eb and len(live) >= 2:
            T = float(recv.real.T)           # thermosteam's own result
            recv.tc.T = T
            if recv.kind == 'S' and (isinstance(recv.real, tmo.MultiStream) or recv.real.phase != recv.ph.val):
                ctx.fail(f'op.mix_from|{region}|phase-changed', 'energy balance changed the phase of the receiver')
            f = fresh(state(W, ['h', hn]))
            tol = 100. * abs(f.C) * T_TOL + 1e-9 * abs(Hsum) + 1e-9
            ctx.metric_max('mix:resid/tol', abs(f.H - Hsum) / tol)
            if abs(f.H - Hsum) > tol:
                ctx.fail(f'op.mix_from|{region}|energy-mismatch',
                         f'donors\' fresh H sum {Hsum!r}; fresh stream at mixed T={T!r} has H {f.H!r}; trace {W.trace[-6:]}')
    mutated(W, W.trace[-1])


def op_copy_like(ch, W, ctx):
    hn = ch.choice('cl.h', handles(W))
    recv = W.h[hn]
    (real, st, k), = draw_donors_fixed(ch, W, ctx, 'cl', recv, need_phase=True, expand=(recv.kind == 'M' and not shares(W, recv)))
    if recv.kind == 'S' and st['kind'] == 'M':
        if shares(W, recv):
            ctx.cell('avoided:kind-change-while-linked'); return
    if not xpkg_allowed(W, ctx, recv, [st], 'overlap'): return
    region = f'recv={recv.kind},donor={st["kind"]},xpkg={int(st["pkg"] != recv.pkg)}'
    W.trace.append(f'copy_like {hn} <- {k}:{st["kind"]}')
    ctx.call('op.copy_like', recv.real.copy_like, real, region=region)
    if recv.kind == 'S' and st['kind'] == 'M':
        recv.kind = 'M'; recv.phases = sorted(st['phases']); recv.ph = None
        recv.flow = Flow({p: dict(st['rows'][p]) for p in recv.phases})
        recv.fetched = set(); recv.detached = set(); recv.stranded = set(); new_dc(recv)
        if hn == 'a': drop_proxies(W, ctx, 'copy_like-kind-change')
    else:
        if recv.kind == 'M': add_phases(ctx, recv, st['phases'])
        for p in recv.flow.rows: recv.flow.rows[p].clear()
        for p, row in st['rows'].items():
            (recv.vec() if recv.kind == 'S' else recv.vec(p)).update(row)
        if recv.kind == 'S': recv.ph.val = st['phases'][0]
    recv.tc.T = st['T']; recv.tc.P = st['P']
    mutated(W, W.trace[-1])


def draw_donors_fixed(ch, W, ctx, tag, recv, need_phase=False, expand=False):
    """Exactly one donor (new or the other handle)."""
    kinds = ['new', 'new'] + other_donors(W, recv, need_phase, expand)
    k = ch.choice(f'{tag}.src', kinds)
    if k == 'new':
        real, st = draw_donor(ch, f'{tag}.d', recv, need_phase=need_phase, expand=expand)
    else:
        real, st = W.h[k].real, state(W, ['h', k])
    return [(real, st, k)]


def op_copy_flow(ch, W, ctx):
    hn = ch.choice('cf.h', handles(W))
    recv = W.h[hn]
    (real, st, k), = draw_donors_fixed(ch, W, ctx, 'cf', recv)
    xp = CHEMS[st['pkg']] != CHEMS[recv.pkg]
    if not xpkg_allowed(W, ctx, recv, [st], 'setitem'): return
    dn = _NAMES[st['pkg']]
    total = {}
    for row in st['rows'].values():
        for n, v in row.items(): total[n] = total.get(n, 0.) + v
    if recv.kind == 'S':
        idk = ch.choice('cf.ids', ['all', 'one', 'tuple'])
        excl = ch.bool('cf.exclude') if idk != 'all' else False
        if xp and idk == 'one' and not excl:
            ctx.cell('avoided:copy_flow-xpkg-single-ID'); idk = 'tuple'
        if idk == 'all':
            IDs = ...; chosen = set(dn)
        elif idk == 'one':
            IDs = ch.choice('cf.ID', dn); chosen = {IDs}
        else:
            sub = ch.subset('cf.IDs', dn, min_size=1); IDs = tuple(sub); chosen = set(sub)
        if excl: chosen = set(dn) - chosen
        chosen &= set(recv.names())
        region = f'recv=S,donor={st["kind"]},xpkg={int(xp)},ids={idk},excl={int(excl)}'
        W.trace.append(f'copy_flow {hn} <- {k}:{st["kind"]} {idk} excl={int(excl)}')
        ctx.call('op.copy_flow', recv.real.copy_flow, real, IDs, exclude=excl, region=region)
        vec = recv.vec()
        if idk == 'all': vec.clear()
        for n in chosen: vec[n] = total.get(n, 0.)
    else:
        region = f'recv=M,donor={st["kind"]}'
        W.trace.append(f'copy_flow {hn} <- {k}:{st["kind"]}')
        ctx.call('op.copy_flow', recv.real.copy_flow, real, region=region)
        for p in recv.phases: recv.vec(p).clear()
        for p, row in st['rows'].items(): recv.vec(p).update(row)
    mutated(W, W.trace[-1])


def compatible(a, b):
    return b is not None and a.kind == b.kind and a.pkg == b.pkg and (a.kind == 'S' or sorted(a.phases) == sorted(b.phases))


def op_link(ch, W, ctx):
    def pairs():
        hs = handles(W)
        return [[x, y] for x in hs for y in hs if x != y and compatible(W.h[x], W.h[y])]
    if not pairs():
        if shares(W, W.h['a']):
            ctx.cell('avoided:link-incompatible-but-sharing'); return
        op_partner(ch, W, ctx)
    flags = ch.choice('ln.flags', [[1, 1, 1], [1, 1, 1], [1, 0, 1], [1, 1, 0], [0, 1, 1], [1, 0, 0], [0, 1, 0], [0, 0, 1]])
    xn, yn = ch.choice('ln.pair', pairs())
    x, y = W.h[xn], W.h[yn]
    flow, phase, TP = [bool(f) for f in flags]
    gh = bool(ghosts(x)) and (flow or TP)
    if gh and 'detached' not in W.explore:
        ctx.cell('avoided:link-with-ghost-views'); return
    W.trace.append(f'link {x.name}.link_with({y.name}) flow={int(flow)} phase={int(phase)} TP={int(TP)}')
    ctx.call('op.link_with', x.real.link_with, y.real, flow, phase, TP,
             region=f'kind={x.kind},flags={"".join(map(str, flags))},det={int(gh)}')
    if TP: x.tc = y.tc
    if flow: x.flow = y.flow
    if phase and x.kind == 'S': x.ph = y.ph
    if TP and flow and (phase or x.kind == 'M') and x.dc is not y.dc:
        # link_with shares the _data_cache dict; otherwise the dict is cleared in place, whoever else holds it (F5)
        x.dc.owners = [o for o in x.dc.owners if o is not x]
        x.dc = y.dc; x.dc.owners.append(x)
    if flow or TP: views_relinked(x)
    if x.name == 'a': drop_proxies(W, ctx, 'link_with')
    mutated(W, W.trace[-1])


def op_unlink(ch, W, ctx):
    hn = ch.choice('ul.h', handles(W))
    h = W.h[hn]
    gh = bool(ghosts(h))
    if gh and 'detached' not in W.explore:
        ctx.cell('avoided:unlink-with-ghost-views'); return
    W.trace.append(f'unlink {hn}')
    ctx.call('op.unlink', h.real.unlink, region=f'kind={h.kind},det={int(gh)}')
    h.flow = h.flow.copy(); h.tc = h.tc.copy()
    if h.ph is not None: h.ph = h.ph.copy()
    new_dc(h)                    # unlink gives the stream its own indexer (own _data_cache)
    views_relinked(h)
    if hn == 'a': drop_proxies(W, ctx, 'unlink')
    cache_reset(W, h)
    mutated(W, W.trace[-1])


def op_reset_thermo(ch, W, ctx):
    hn = ch.choice('rt.h', handles(W))
    h = W.h[hn]
    if shares(W, h):
        ctx.cell('avoided:reset_thermo-while-linked'); return
    gh = bool(ghosts(h))
    if gh and 'detached' not in W.explore:
        ctx.cell('avoided:reset_thermo-with-ghost-views'); return
    nz = h.nonzero_names()
    cands = [p for p in ('P', 'Pm', 'Q', 'R', 'Pm', 'Px', 'Pmx', 'Ppr') if p != h.pkg and nz <= set(_NAMES[p])]
    if h.pkg in TWIN: cands += [TWIN[h.pkg]] * 2
    if not cands:
        ctx.cell('avoided:reset_thermo-no-admissible-package'); return
    pkg = ch.choice('rt.pkg', cands)
    W.trace.append(f'reset_thermo {hn} {h.pkg}->{pkg}')
    ctx.call('op._reset_thermo', h.real._reset_thermo, _PK[pkg], region=f'kind={h.kind},det={int(gh)}')
    h.pkg = pkg
    new_dc(h)
    views_relinked(h)
    for r in h.flow.rows.values():
        for n in [n for n, v in r.items() if not v]: del r[n]
    if hn == 'a': drop_proxies(W, ctx, 'reset_thermo')
    cache_reset(W, h)
    mutated(W, W.trace[-1])


def op_copy_replace(ch, W, ctx):
    if shares(W, W.h['a']):
        ctx.cell('avoided:copy-while-linked'); return
    h = W.h['a']
    nz = h.nonzero_names()
    cands = [None] + [p for p in ('P', 'Pm', 'Q', 'R', 'Px', 'Pmx', 'Ppr') if p != h.pkg and nz <= set(_NAMES[p])]
    pkg = ch.choice('cp.pkg', cands)
    W.trace.append(f'copy a thermo={pkg}')
    h.real = ctx.call('op.copy', h.real.copy, None, None if pkg is None else _PK[pkg], region=f'kind={h.kind},xpkg={int(pkg is not None)}')
    if pkg is not None: h.pkg = pkg
    h.flow = h.flow.copy(); h.tc = h.tc.copy(); new_dc(h)
    if h.ph is not None: h.ph = h.ph.copy()
    for r in h.flow.rows.values():
        for n in [n for n, v in r.items() if not v]: del r[n]
    h.fetched = set(); h.detached = set(); h.stranded = set(); h.has_eq = True
    drop_proxies(W, ctx, 'copy')
    cache_reset(W, h)
    W.lastread = {k: v for k, v in W.lastread.items() if not k[0].startswith(('ha', 'va', 'p'))}
    mutated(W, W.trace[-1])


def op_proxy(ch, W, ctx):
    a = W.h['a']
    if len(W.proxies) >= 2:
        ctx.cell('avoided:two-proxies-alive'); return
    if not a.has_eq and 'mproxy_ctor' not in W.explore:
        ctx.cell('avoided:proxy-of-constructed-MultiStream'); return
    src = ch.int('px.of', -1, len(W.proxies) - 1)
    origin = a.real if src < 0 else W.proxies[src]
    om = 'a' if src < 0 else f'p{src}'
    W.trace.append(f'proxy of {om}')
    p = ctx.call('op.proxy', origin.proxy, region=f'kind={a.kind},ctor={int(not a.has_eq)}')
    W.proxies.append(p)
    if om in W.consistent: W.consistent.add(f'p{len(W.proxies) - 1}')
    W.lastread = {k: v for k, v in W.lastread.items() if k[0] != f'p{len(W.proxies) - 1}'}


def op_partner(ch, W, ctx):
    a = W.h['a']
    W.trace.append('partner')
    b = draw_handle(ch, 'b', 'b', kind=a.kind, pkg=a.pkg, phases=(list(a.phases) if a.kind == 'M' else None))
    if 'b' in W.h:
        # the previous partner stays alive as 'c'
        old_c = W.h.get('c')
        if old_c is not None: old_c.dc.owners = [o for o in old_c.dc.owners if o is not old_c]
        W.h['c'] = W.h['b']; W.h['c'].name = 'c'
    W.h['b'] = b
    W.lastread = {k: v for k, v in W.lastread.items() if not k[0].startswith(('hb', 'vb', 'hc', 'vc'))}


def op_restore(ch, W, ctx):
    """Bring `a` back to exactly an earlier state (same floats) through public setters."""
    a = W.h['a']
    cands = [i for i, s in enumerate(W.snaps) if s['kind'] == a.kind and s['pkg'] == a.pkg and
             (a.kind == 'S' or s['phases'] == a.phases)]
    if not cands:
        ctx.cell('restore->read'); return op_read(ch, W, ctx)
    s = W.snaps[ch.choice('rs.i', cands)]
    what = ch.choice('rs.what', ['all', 'all', 'TP', 'flows'])
    names = a.names()
    via = ch.choice('rs.via', ['a'] + [f'p{i}' for i in range(len(W.proxies))])
    obj = a.real if via == 'a' else W.proxies[int(via[1:])]
    W.trace.append(f'restore {what} via {via}')
    region = f'kind={a.kind},what={what}'
    def f():
        if what in ('all', 'TP'):
            obj.T = s['T']; obj.P = s['P']
        if what in ('all', 'flows'):
            if a.kind == 'S':
                obj.phase = s['phases'][0]
                obj.mol[:] = np.array([s['rows'][''].get(n, 0.) for n in names], float)
            else:
                for p in a.phases:
                    obj.imol[p] = np.array([s['rows'][p].get(n, 0.) for n in names], float)
    ctx.call('op.restore', f, region=region)
    if what in ('all', 'TP'):
        a.tc.T = s['T']; a.tc.P = s['P']
    if what in ('all', 'flows'):
        if a.kind == 'S':
            a.ph.val = s['phases'][0]
            a.vec().clear(); a.vec().update(s['rows'][''])
        else:
            for p in a.phases:
                a.vec(p).clear(); a.vec(p).update(s['rows'][p])
    mutated(W, W.trace[-1])


def swap_rows(W, ctx, h, obj, p, q):
    """Exchange the contents of two phases of a MultiStream through imol[phase] writes."""
    names = h.names()
    ap = np.array([h.vec(p).get(n, 0.) for n in names], float)
    aq = np.array([h.vec(q).get(n, 0.) for n in names], float)
    def f():
        obj.imol[p] = aq
        obj.imol[q] = ap
    ctx.call('op.swap_rows', f, region='kind=M')
    rp, rq = dict(h.vec(p)), dict(h.vec(q))
    h.vec(p).clear(); h.vec(p).update(rq)
    h.vec(q).clear(); h.vec(q).update(rp)


def op_swap(ch, W, ctx):
    """Move material between the phases of a MultiStream: only the phase distribution changes."""
    cands = [p for p in write_paths(W, single=False)]
    if not cands:
        ctx.cell('swap->phases'); return op_phases(ch, W, ctx)
    path = ch.choice('sw.path', cands)
    h, _ = target(W, path)
    pq = ch.subset('sw.pq', list(h.phases), min_size=2, max_size=2)
    W.trace.append(f'swap {pkey(path)} {pq[0]}<->{pq[1]}')
    swap_rows(W, ctx, h, get_obj(W, ctx, path), pq[0], pq[1])
    mutated(W, W.trace[-1])


def switch_pkg(W, ctx, h, pkg):
    """_reset_thermo on a handle and - like a flowsheet does for all of its streams - on every proxy of it."""
    ctx.call('op._reset_thermo', h.real._reset_thermo, _PK[pkg], region=f'kind={h.kind},det=0')
    if h.name == 'a':
        for p in W.proxies:
            ctx.call('op._reset_thermo', p._reset_thermo, _PK[pkg], region=f'kind={h.kind},det=0,proxy=1')
        W.consistent = {'a'} | {f'p{i}' for i in range(len(W.proxies))}
        W.mut_since_read = False
    h.pkg = pkg; new_dc(h); views_relinked(h)
    if h.name == 'a' and W.proxies and h.kind == 'M':
        # every proxy re-indexes the shared indexer once more: the views `a` handed out stay on the previous data (F6)
        h.stranded = set(h.fetched)
    for r in h.flow.rows.values():
        for n in [n for n, v in r.items() if not v]: del r[n]


def op_pkgswitch(ch, W, ctx):
    """read - _reset_thermo (preferably to the package on the same Chemicals object) - read - [switch back - read]."""
    paths = read_paths(W)
    if not paths:
        ctx.cell('avoided:no-readable-path'); return
    p1 = ch.choice('ps.p1', paths)
    hn = 'a' if p1[0] in ('p', 'pv') else p1[1]
    h = W.h[hn]
    if shares(W, h) or ghosts(h):
        ctx.cell('pkgswitch->read'); return op_read(ch, W, ctx)
    nz = h.nonzero_names()
    cands = [x for x in ALL_PK if x != h.pkg and nz <= set(_NAMES[x])]
    if h.pkg in TWIN: cands = [TWIN[h.pkg]] * 4 + cands
    if not cands:
        ctx.cell('pkgswitch->read'); return op_read(ch, W, ctx)
    snapshot(W)
    prop = ch.choice('ps.prop', GAS_SENSITIVE * 2 + READ_PROPS)
    W.trace.append(f'read {pkey(p1)}.{prop}')
    check_read(W, ctx, p1, prop)
    old = h.pkg
    new = ch.choice('ps.pkg', cands)
    ctx.cell('pkgswitch:same-chemicals' if CHEMS[new] == CHEMS[old] else 'pkgswitch:other-chemicals')
    switch_pkg(W, ctx, h, new)
    W.trace.append(f'pkgswitch {hn} {old}->{new}')
    mutated(W, W.trace[-1])
    paths = read_paths(W)
    p2 = ch.choice('ps.p2', [p1] * 2 + paths if p1 in paths else paths)
    q = ch.choice('ps.prop2', [prop] * 2 + SIBLINGS[prop])
    W.trace.append(f'read {pkey(p2)}.{q}')
    check_read(W, ctx, p2, q)
    if ch.bool('ps.undo') and nz <= set(_NAMES[old]):
        switch_pkg(W, ctx, h, old)
        W.trace.append(f'pkgswitch {hn} {new}->{old}')
        mutated(W, W.trace[-1])
        if p1 in read_paths(W):
            W.trace.append(f'read {pkey(p1)}.{prop}')
            check_read(W, ctx, p1, prop)


def op_revisit(ch, W, ctx):
    """read - mutate - read (any path) - undo the mutation exactly - read again through the first path."""
    paths = read_paths(W)
    if not paths:
        ctx.cell('avoided:no-readable-path'); return
    snapshot(W)
    p1 = ch.choice('rv.p1', paths)
    prop = ch.choice('rv.prop', READ_PROPS)
    hn = 'a' if p1[0] in ('p', 'pv') else p1[1]
    h = W.h[hn]
    W.trace.append(f'read {pkey(p1)}.{prop}')
    check_read(W, ctx, p1, prop)
    muts = ['T', 'P', 'scale2']
    if h.kind == 'S': muts.append('phase')
    else: muts += ['swap', 'swap']
    if h.pkg in SAME_IDS and not shares(W, h) and not ghosts(h): muts += ['thermo', 'thermo']
    mut = ch.choice('rv.mut', muts)
    obj = h.real
    def reset_to(pkg):
        ctx.call('op._reset_thermo', obj._reset_thermo, _PK[pkg], region=f'kind={h.kind},det=0')
        h.pkg = pkg; new_dc(h); views_relinked(h)
        if hn == 'a': drop_proxies(W, ctx, 'reset_thermo')
        cache_reset(W, h)
    if mut == 'swap':
        pq = ch.subset('rv.pq', list(h.phases), min_size=2, max_size=2)
    if mut == 'T':
        old = h.tc.T; new = ch.choice('rv.T', [t for t in T_PAL if t != old])
        ctx.call('op.T', setattr, obj, 'T', new, region='path=h'); h.tc.T = new
    elif mut == 'P':
        old = h.tc.P; new = ch.choice('rv.P', [x for x in P_PAL if x != old])
        ctx.call('op.P', setattr, obj, 'P', new, region='path=h'); h.tc.P = new
    elif mut == 'phase':
        old = h.ph.val; new = ch.choice('rv.phase', [x for x in PHASES if x != old])
        ctx.call('op.phase', setattr, obj, 'phase', new, region='path=h,kind=S'); h.ph.val = new
    elif mut == 'swap':
        swap_rows(W, ctx, h, obj, pq[0], pq[1])
    elif mut == 'thermo':
        old = h.pkg; reset_to(ch.choice('rv.pkg', [x for x in SAME_IDS if x != old]))
    else:
        ctx.call('op.scale', obj.scale, 2., region=f'path=h,kind={h.kind}')
        for r in h.flow.rows.values():
            for n in list(r): r[n] = r[n] * 2.
    W.trace.append(f'revisit {hn} {mut}')
    mutated(W, W.trace[-1])
    paths = read_paths(W)
    if paths:
        p2 = ch.choice('rv.p2', paths)
        q = ch.choice('rv.prop2', SIBLINGS[prop])
        W.trace.append(f'read {pkey(p2)}.{q}')
        check_read(W, ctx, p2, q)
    if mut == 'T':
        ctx.call('op.T', setattr, obj, 'T', old, region='path=h'); h.tc.T = old
    elif mut == 'P':
        ctx.call('op.P', setattr, obj, 'P', old, region='path=h'); h.tc.P = old
    elif mut == 'phase':
        ctx.call('op.phase', setattr, obj, 'phase', old, region='path=h,kind=S'); h.ph.val = old
    elif mut == 'swap':
        swap_rows(W, ctx, h, obj, pq[0], pq[1])
    elif mut == 'thermo':
        reset_to(old)
    else:
        ctx.call('op.scale', obj.scale, 0.5, region=f'path=h,kind={h.kind}')
        for r in h.flow.rows.values():
            for n in list(r): r[n] = r[n] * 0.5
    W.trace.append(f'revisit {hn} undo-{mut}')
    mutated(W, W.trace[-1])
    if p1 in read_paths(W):
        W.trace.append(f'read {pkey(p1)}.{prop}')
        check_read(W, ctx, p1, prop)
    else:
        ctx.cell('avoided:revisit-final-read')


OPS = {
    'read': (op_read, 10), 'revisit': (op_revisit, 3), 'pkgswitch': (op_pkgswitch, 2), 'volpattern': (op_volpattern, 2), 'mixH': (op_mixH, 1),
    'w_flow': (op_w_flow, 3), 'w_scale': (op_w_scale, 3), 'w_T': (op_w_T, 3), 'w_P': (op_w_P, 2), 'w_phase': (op_w_phase, 2),
    'w_H': (op_w_H, 1), 'H_same': (op_H_same, 2), 'swap': (op_swap, 2), 'empty': (op_empty, 1), 'phases': (op_phases, 2), 'mix_from': (op_mix_from, 2),
    'copy_like': (op_copy_like, 1), 'copy_flow': (op_copy_flow, 1), 'link': (op_link, 2), 'unlink': (op_unlink, 1),
    'reset_thermo': (op_reset_thermo, 2), 'copy': (op_copy_replace, 1), 'proxy': (op_proxy, 2), 'partner': (op_partner, 1),
    'restore': (op_restore, 3),
}
OP_LIST = [n for n, (_, w) in OPS.items() for _ in range(w)]


def prop_history(ch, ctx):
    packages()
    W = World()
    W.explore = ch.subset('explore', EXPLORE)
    a = draw_handle(ch, 'a', 'a')
    W.h['a'] = a
    tmo.settings.set_thermo(_PK[a.pkg])
    ctx.cell('start:' + a.kind)
    start = [a.kind, a.pkg, sorted(a.phases) if a.kind == 'M' else [a.ph.val]]
    nsteps = ch.int('nsteps', 1, 40)
    names = []
    for step in range(nsteps):
        op = ch.choice('op', OP_LIST)
        ctx.cell('op:' + op)
        n0 = len(W.trace)
        OPS[op][0](ch, W, ctx)
        names.extend(t.split(' ')[0] + ':' + (t.split(' ')[1] if ' ' in t else '') for t in W.trace[n0:])
    # closing reads: every live access path once, so that no mutation goes unobserved
    done = set()
    while True:
        paths = [p for p in read_paths(W) if pkey(p) not in done and p[0] != 'pv']
        if not paths: break
        path = paths[0]; done.add(pkey(path))
        prop = ch.choice('final.prop', READ_PROPS)
        W.trace.append(f'read {pkey(path)}.{prop}')
        check_read(W, ctx, path, prop)
    ctx.cell('case:rereads>0' if W.rereads else 'case:no-reread')
    ctx.cell(f'case:steps={(nsteps - 1) // 10 * 10 + 1}-{(nsteps - 1) // 10 * 10 + 10}')
    if W.rereads:
        ctx.nontriv([start, names])


PROPS = {
    'history': (prop_history, 4000, 100000),
}
