"""C16 - activity-coefficient models are normalised, consistent and side-effect free."""
from __future__ import annotations

import math

import numpy as np
import thermosteam as tmo
from thermosteam import equilibrium as eq
from hypothesis import strategies as st

PROPERTY = 'C16'
RULE = ('Hypothesis draws a model class (UNIFAC, Dortmund, NIST with groups assigned by name, Ideal), 2-6 distinct '
        'group-bearing chemicals out of 20 (17 for NIST) plus 0-2 members without groups (O2, N2, CO2; for NIST also '
        'chemicals left without NIST groups) in arbitrary order, T in [250,450] K and a composition on the simplex '
        '(interior, exact zeros, 1e-12..1e-6 traces, a vertex, or 1-d next to a vertex). Oracles: caller array '
        'bit-identical after Gamma(x,T) and Gamma.f(x,T,*args); f(...) == Gamma(...) exactly and == '
        'activity_coefficients(x_sub) to 1e-12; gamma_i -> 1 as x_i -> 1; Gibbs-Duhem by central differences along a '
        'random multiplicative direction; permutation equivariance; group-less members exactly 1; ideal '
        'Gamma/Phi/PCF exactly 1. In two thirds of the cases the same model object is first evaluated at another drawn '
        'temperature and the equimolar composition (warm-up); after every judged evaluation the returned array is '
        'modified in place and the evaluation repeated (results must not alias internal state); a vertex is also '
        'passed as a list of ints and an int array; the construction check builds the requested class from a drawn '
        'container (tuple/list/generator/map/iterator) after another class was built for the same Chemical objects '
        'and compares class, chemicals and values with a model built in emptied caches. Non-trivial: >=2 group-bearing chemicals with 0<x<1 (for Gibbs-Duhem additionally '
        'gamma actually changed). Distinct by (check, class, chemical tuple, composition pattern, drawn index).')
ASSUMPTIONS = [
    'NIST groups are assigned by name as in the NISTActivityCoefficients doctest, on private Chemical objects',
    'compositions are normalised by the harness (sum within 1 ulp of 1); callers in thermosteam always pass '
    'normalised liquid fractions',
    'Gibbs-Duhem: eps=1e-5 relative perturbation, tolerance 1e-6*max|dln(gamma)/d(eps)| + 1e-8 (measured <= 1e-9 '
    'relative on the Dortmund model)',
    'at a composition where every group-bearing chemical has x=0 the property only fixes the value of the '
    'group-less members (exactly 1); the call must still return',
]
REQUIRED_CELLS = {'quick': ['int-typed-x', 'construct:first=other', 'construct:container=generator', 'warm-up', 'cls=UNIFAC', 'cls=Dortmund', 'cls=NIST', 'cls=Ideal', 'comp=vertex', 'comp=trace',
                            'comp=zeros', 'comp=nearvertex', 'gl=1', 'varies:Dortmund', 'varies:NIST', 'varies:UNIFAC'],
                  'thorough': []}

POOL = ['Water', 'Ethanol', 'Methanol', 'Propanol', 'Acetone', 'Hexane', 'Benzene', 'Toluene', 'Pentane', 'Heptane',
        'AceticAcid', 'Butanol', 'EthylAcetate', 'Chloroform', 'Cyclohexane', 'Octane', '2-Propanol', 'MEK',
        'DiethylEther', 'Acetonitrile']
GROUPLESS = ['O2', 'N2', 'CO2']
NIST_GROUPS = {
    'Water': {'H2O': 1},
    'Ethanol': {'CH3': 1, 'CH2': 1, 'OH prim': 1},
    'Methanol': {'CH3OH': 1},
    'Propanol': {'CH3': 1, 'CH2': 2, 'OH prim': 1},
    'Butanol': {'CH3': 1, 'CH2': 3, 'OH prim': 1},
    '2-Propanol': {'CH3': 2, 'CH': 1, 'OH sec': 1},
    'Acetone': {'CH3CO': 1, 'CH3': 1},
    'MEK': {'CH3': 1, 'CH2': 1, 'CH3CO': 1},
    'Pentane': {'CH3': 2, 'CH2': 3},
    'Hexane': {'CH3': 2, 'CH2': 4},
    'Heptane': {'CH3': 2, 'CH2': 5},
    'Octane': {'CH3': 2, 'CH2': 6},
    'Benzene': {'ACH': 6},
    'Toluene': {'ACH': 5, 'ACCH3': 1},
    'AceticAcid': {'CH3': 1, 'COOH': 1},
    'EthylAcetate': {'CH3': 1, 'CH2': 1, 'CH3COO': 1},
    'Acetonitrile': {'CH3CN': 1},
}
NIST_POOL = [n for n in POOL if n in NIST_GROUPS]
NIST_GROUPLESS = GROUPLESS + [n for n in POOL if n not in NIST_GROUPS]   # no NIST groups assigned -> group-less
CLASSES = {
    'UNIFAC': (eq.UNIFACActivityCoefficients, 'UNIFAC'),
    'Dortmund': (eq.DortmundActivityCoefficients, 'Dortmund'),
    'NIST': (eq.NISTActivityCoefficients, 'NIST'),
    'Ideal': (eq.IdealActivityCoefficients, None),
}
T_LO, T_HI = 250.0, 450.0
EPS = 1e-5

_chems = {}


def chemical(name):
    c = _chems.get(name)
    if c is None:
        c = _chems[name] = tmo.Chemical(name)
        if name in NIST_GROUPS:
            c.NIST.set_group_counts_by_name(dict(NIST_GROUPS[name]))
    return c


def setup(ctx):
    ideal = tmo.Thermo(tmo.Chemicals([chemical('Water'), chemical('Ethanol')])).ideal()
    assert ideal.Gamma is eq.IdealActivityCoefficients
    assert ideal.Phi is eq.IdealFugacityCoefficients
    assert ideal.PCF is eq.MockPoyintingCorrectionFactors


# ---------------------------------------------------------------------------
# case drawing
# ---------------------------------------------------------------------------
class Case:
    def __init__(self, cls, names, T, warm_T=None):
        self.warm_T = warm_T
        self.cls = cls
        self.names = list(names)
        self.n = len(names)
        self.T = T
        self.chems = tuple(chemical(n) for n in names)
        klass, field = CLASSES[cls]
        self.grouped = [bool(getattr(c, field)) if field else False for c in self.chems]
        self.gidx = [i for i in range(self.n) if self.grouped[i]]
        self.klass = klass

    def model(self, ctx, site, chems=None):
        """Create the model object; with a drawn warm-up temperature the SAME object is first evaluated at that
        temperature and at the equimolar composition (history inside the case: the objects are cached per chemical
        tuple and keep work buffers; the runner empties the caches before every case)."""
        G = ctx.call(site + '.new', self.klass, self.chems if chems is None else chems, region=f'cls={self.cls}')
        if self.warm_T is not None:
            ctx.cell('warm-up')
            ctx.call(site + '.warmup', G, np.ones(self.n) / self.n, self.warm_T, region=f'cls={self.cls}')
        return G

    def region(self, x, comp):
        xg0 = int(bool(self.gidx) and all(x[i] == 0 for i in self.gidx))
        gl = int(len(self.gidx) < self.n)
        return f'cls={self.cls},comp={comp},gl={gl},xg0={xg0}'

    def key(self, x):
        return [self.cls, self.names, ''.join('0' if v == 0 else ('t' if v < 1e-5 else 'x') for v in x)]

    def interesting(self, x):
        """>= 2 group-bearing chemicals with 0 < x < 1"""
        return sum(1 for i in self.gidx if 0 < x[i] < 1) >= 2


def draw_case(ch, ng_min=2, ng_max=6, groupless=(0, 2), classes=('Dortmund', 'UNIFAC', 'NIST', 'Dortmund', 'Ideal')):
    cls = ch.choice('cls', list(classes))
    pool = NIST_POOL if cls == 'NIST' else POOL
    glpool = NIST_GROUPLESS if cls == 'NIST' else GROUPLESS
    ng = ch.int('ng', ng_min, ng_max)
    names = ch.subset('grouped', pool, min_size=ng, max_size=ng) if ng else []
    n0 = ch.int('n0', groupless[0], groupless[1])
    if n0:
        names = names + ch.subset('groupless', glpool, min_size=n0, max_size=n0)
    order = ch.permutation('order', len(names))
    names = [names[i] for i in order]
    T = ch.float('T', T_LO, T_HI)
    warm_T = ch.float('warm.T', T_LO, T_HI) if ch.choice('warm', [True, False, True]) else None
    return Case(cls, names, T, warm_T)


def draw_x(ch, n, tag='x', kinds=('interior', 'zeros', 'trace', 'interior', 'vertex', 'nearvertex')):
    if n == 1:
        return np.array([1.0]), 'vertex'
    kind = ch.choice(tag + '.kind', list(kinds))
    if kind == 'vertex':
        i = ch.index(tag + '.i', n)
        return np.array([1.0 if j == i else 0.0 for j in range(n)]), kind
    w = ch.draw(tag + '.w', st.lists(st.floats(0.01, 1.0, allow_nan=False), min_size=n, max_size=n))
    if kind == 'nearvertex':
        i = ch.index(tag + '.i', n)
        d = ch.logfloat(tag + '.d', -12, -3)
        rest = sum(v for j, v in enumerate(w) if j != i)
        x = np.array([v * d / rest for v in w]); x[i] = 1.0 - d
        return x, kind
    if kind in ('zeros', 'trace'):
        keep = ch.index(tag + '.keep', n)
        mask = ch.draw(tag + '.mask', st.lists(st.booleans(), min_size=n, max_size=n))
        if not any(m for j, m in enumerate(mask) if j != keep):
            mask[(keep + 1) % n] = True
        for j in range(n):
            if j == keep or not mask[j]: continue
            w[j] = 0.0 if kind == 'zeros' else ch.logfloat(f'{tag}.t{j}', -12, -6)
    x = np.array(w, float)
    return x / x.sum(), kind


def cells(ctx, case, comp, x):
    ctx.cell('cls=' + case.cls)
    ctx.cell('comp=' + comp)
    ctx.cell('gl=' + str(int(len(case.gidx) < case.n)))
    ctx.cell(f'n={case.n}')
    if case.gidx and all(x[i] == 0 for i in case.gidx): ctx.cell('xg0=1')


def as_vec(g, n):
    return np.ones(n) * np.asarray(g, float)


def evaluate(ctx, G, x, T, site, region):
    raw = ctx.call(site, G, np.array(x, float), T, region=region)
    g = as_vec(raw, len(x)).copy()
    if not np.isfinite(g).all() or (g <= 0).any():
        ctx.fail(f'{site}|{region}|nonfinite', f'gamma = {g.tolist()} at x = {list(map(float, x))}')
    # an integer-typed composition (a vertex written [1, 0, 0]; the argument is documented array_like) is the same
    # composition: the result must equal the one for the float array
    if all(float(v).is_integer() for v in x):
        for label, xi in (('int-list', [int(v) for v in x]), ('int-array', np.array([int(v) for v in x]))):
            raw_i = np.asarray(ctx.call(site, G, xi, T, region=region))
            gi = as_vec(raw_i, len(x))
            if not np.array_equal(gi, g):
                ctx.fail(f'{site}|{region}|int-input', f'{label} {list(map(int, x))}: gamma = {gi.tolist()} ({raw_i.dtype}), '
                                                       f'float input gives {g.tolist()}')
        ctx.cell('int-typed-x')
    # results must not alias internal state: scribble on the returned array and evaluate again
    if isinstance(raw, np.ndarray) and raw.flags.writeable and raw.size:
        raw *= 0.5; raw += 7.0
        again = as_vec(ctx.call(site, G, np.array(x, float), T, region=region), len(x))
        if not np.array_equal(again, g):
            ctx.fail(f'{site}|{region}|result-aliased',
                     f'after modifying the returned array in place a second evaluation gives {again.tolist()} instead of {g.tolist()}')
    return g


# ---------------------------------------------------------------------------
# properties
# ---------------------------------------------------------------------------
def prop_purity(ch, ctx):
    case = draw_case(ch)
    x, comp = draw_x(ch, case.n)
    via = ch.choice('via', ['call', 'f', 'call-list'])
    cells(ctx, case, comp, x)
    region = case.region(x, comp)
    G = case.model(ctx, 'purity')
    site = 'purity.' + via
    if via == 'call-list':
        arg = [float(v) for v in x]; before = list(arg)
        ctx.call(site, G, arg, case.T, region=region)
        same = arg == before
    else:
        arg = np.array(x, dtype=float); snap = arg.tobytes()
        if via == 'call':
            ctx.call(site, G, arg, case.T, region=region)
        else:
            ctx.call(site, G.f, arg, case.T, *G.args, region=region)
        same = arg.tobytes() == snap and arg.dtype == np.float64 and arg.shape == (case.n,)
    if not same:
        ctx.fail(f'{site}|{region}|modified', f'caller\'s composition {list(map(float, x))} became {list(map(float, arg))}')
    if case.interesting(x):
        ctx.nontriv(['purity', via, case.key(x)])


def prop_functional(ch, ctx):
    case = draw_case(ch)
    x, comp = draw_x(ch, case.n)
    x2, comp2 = draw_x(ch, case.n, tag='x2', kinds=('interior',))
    cells(ctx, case, comp, x)
    region = case.region(x, comp)
    G = case.model(ctx, 'functional')
    g_call = evaluate(ctx, G, x, case.T, 'functional.call', region)
    g_f = as_vec(ctx.call('functional.f', G.f, np.array(x, float), case.T, *G.args, region=region), case.n)
    if not np.array_equal(g_call, g_f):
        ctx.fail(f'functional.f|{region}|mismatch', f'Gamma(x,T) = {g_call.tolist()} but Gamma.f(x,T,*args) = {g_f.tolist()}')
    xs = np.array([x[i] for i in case.gidx], float)
    # does gamma depend on the composition at all?  (informational, see DESIGN.md C16)
    if sum(1 for i in case.gidx if x[i] > 1e-3 and x2[i] > 1e-3) >= 2 and \
            max(abs(x[i] / max(xs.sum(), 1e-300) - x2[i] / sum(x2[j] for j in case.gidx)) for i in case.gidx) > 1e-2:
        g2 = evaluate(ctx, G, x2, case.T, 'functional.call', case.region(x2, comp2))
        ctx.cell(('varies:' if float(np.abs(g2 - g_call).max()) > 1e-9 else 'const:') + case.cls)
    if isinstance(G, eq.GroupActivityCoefficients) and xs.sum() > 0:
        g_sub = np.asarray(ctx.call('functional.sub', G.activity_coefficients, xs / xs.sum(), case.T, region=region), float)
        ref = g_call[case.gidx]
        err = float(np.abs(g_sub / ref - 1.0).max())
        if err <= 1e-12: ctx.metric_max('functional.sub:rel', err)
        else:
            ctx.fail(f'functional.sub|{region}|mismatch',
                     f'{case.names} x={list(map(float, x))} T={case.T!r}: Gamma(x,T) = {ref.tolist()} but '
                     f'activity_coefficients(x_sub,T) = {g_sub.tolist()}')
    if case.interesting(x):
        ctx.nontriv(['functional', case.key(x)])


def prop_pure_limit(ch, ctx):
    case = draw_case(ch)
    i = ch.index('i', case.n)
    mode = ch.choice('d.kind', ['1e-9', 'vertex', 'log'])
    d = 1e-9 if mode == '1e-9' else (0.0 if mode == 'vertex' else ch.logfloat('d', -12, -9))
    w = ch.draw('w', st.lists(st.floats(0.01, 1.0, allow_nan=False), min_size=case.n, max_size=case.n))
    rest = sum(v for j, v in enumerate(w) if j != i)
    x = np.array([v * d / rest for v in w]); x[i] = 1.0 - d
    comp = 'vertex' if d == 0 else 'nearvertex'
    cells(ctx, case, comp, x)
    region = case.region(x, comp)
    G = case.model(ctx, 'pure_limit')
    g = evaluate(ctx, G, x, case.T, 'pure_limit', region)
    err = abs(g[i] - 1.0)
    if err <= 1e-6: ctx.metric_max('pure_limit:|gamma_i-1|', err)
    else:
        ctx.fail(f'pure_limit|{region}|mismatch',
                 f'{case.names} T={case.T!r}: x[{i}] = 1-{d!r} but gamma[{i}] = {g[i]!r} (all: {g.tolist()})')
    if case.grouped[i] and len(case.gidx) >= 2:
        ctx.nontriv(['pure_limit', case.cls, case.names, i, mode])


def prop_gibbs_duhem(ch, ctx):
    case = draw_case(ch, classes=('Dortmund', 'UNIFAC', 'NIST', 'Dortmund', 'NIST', 'Ideal'))
    x, comp = draw_x(ch, case.n, kinds=('interior', 'interior', 'trace', 'zeros', 'nearvertex'))
    u = np.array(ch.draw('u', st.lists(st.floats(-1.0, 1.0, allow_nan=False), min_size=case.n, max_size=case.n)))
    path = ch.choice('path', ['call', 'sub'])
    cells(ctx, case, comp, x)
    region = case.region(x, comp)
    G = case.model(ctx, 'gd')
    if path == 'sub' and not isinstance(G, eq.GroupActivityCoefficients):
        path = 'call'
    if path == 'sub':
        idx = case.gidx
        base = np.array([x[i] for i in idx], float)
        if base.sum() == 0: ctx.reject('no group-bearing chemical present')
        base = base / base.sum(); uu = u[idx]
        fn = lambda v: np.asarray(ctx.call('gd.sub', G.activity_coefficients, v, case.T, region=region), float)
    else:
        base = np.array(x, float); uu = u
        fn = lambda v: evaluate(ctx, G, v, case.T, 'gd.call', region)
    xp = base * (1.0 + EPS * uu); xp = xp / xp.sum()
    xm = base * (1.0 - EPS * uu); xm = xm / xm.sum()
    gp = fn(xp); gm = fn(xm)
    if not (np.isfinite(gp).all() and np.isfinite(gm).all() and (gp > 0).all() and (gm > 0).all()):
        ctx.fail(f'gd.{path}|{region}|nonfinite', f'gamma = {gp.tolist()} / {gm.tolist()}')
    dln = (np.log(gp) - np.log(gm)) / (2 * EPS)
    s = float((base * dln).sum())
    scale = float(np.abs(dln).max())
    tol = 1e-6 * scale + 1e-8
    if abs(s) <= tol: ctx.metric_max(f'gd.{path}:{case.cls}:|sum x dln gamma|/tol', abs(s) / tol)
    else:
        ctx.fail(f'gd.{path}|{region}|mismatch',
                 f'{case.names} T={case.T!r} x={base.tolist()} u={uu.tolist()}: sum x_i dln(gamma_i)/d(eps) = {s!r}, '
                 f'max |dln(gamma)/d(eps)| = {scale!r}')
    pos = [k for k in range(len(base)) if (path == 'sub' or case.grouped[k]) and base[k] > 1e-3]
    if len(pos) >= 2 and max(uu[k] for k in pos) - min(uu[k] for k in pos) > 0.2:
        varied = scale > 1e-7
        ctx.cell(('gd-varies:' if varied else 'gd-const:') + case.cls)
        if varied and case.interesting(x):
            ctx.nontriv(['gd', path, case.key(x)])


def prop_permutation(ch, ctx):
    case = draw_case(ch)
    x, comp = draw_x(ch, case.n)
    p = ch.permutation('perm', case.n)
    cells(ctx, case, comp, x)
    region = case.region(x, comp)
    G = case.model(ctx, 'perm')
    g = evaluate(ctx, G, x, case.T, 'perm.base', region)
    case2 = Case(case.cls, [case.names[i] for i in p], case.T, case.warm_T)
    G2 = case2.model(ctx, 'perm')
    g2 = evaluate(ctx, G2, np.array([x[i] for i in p]), case.T, 'perm.permuted', region)
    want = np.array([g[i] for i in p])
    err = float(np.abs(g2 / want - 1.0).max())
    if err <= 1e-10: ctx.metric_max('perm:rel', err)
    else:
        ctx.fail(f'perm|{region}|mismatch', f'{case.names} x={list(map(float, x))} T={case.T!r} perm={p}: '
                                            f'{want.tolist()} expected, got {g2.tolist()}')
    if case.interesting(x) and p != list(range(case.n)):
        ctx.nontriv(['perm', case.key(x), p])


def prop_groupless(ch, ctx):
    few = ch.bool('few-grouped')
    if few:
        case = draw_case(ch, ng_min=0, ng_max=1, groupless=(1, 3), classes=('Dortmund', 'UNIFAC', 'NIST', 'Ideal'))
    else:
        case = draw_case(ch, groupless=(1, 2), classes=('Dortmund', 'UNIFAC', 'NIST', 'Ideal'))
    x, comp = draw_x(ch, case.n, kinds=('interior', 'zeros', 'trace', 'vertex', 'vertex', 'nearvertex'))
    cells(ctx, case, comp, x)
    if few: ctx.cell('groupless:few-grouped')
    region = case.region(x, comp)
    G = case.model(ctx, 'groupless')
    g = evaluate(ctx, G, x, case.T, 'groupless', region)
    for j in range(case.n):
        if not case.grouped[j] and g[j] != 1.0:
            ctx.fail(f'groupless|{region}|mismatch', f'{case.names}: {case.names[j]} has no {case.cls} groups but gamma = {g[j]!r}')
    if any(x[j] > 0 for j in range(case.n) if not case.grouped[j]):
        ctx.nontriv(['groupless', case.key(x), few])


def prop_ideal(ch, ctx):
    n = ch.int('n', 1, 6)
    names = ch.subset('names', POOL + GROUPLESS, min_size=n, max_size=n)
    chems = tuple(chemical(k) for k in names)
    x, comp = draw_x(ch, n) if n > 1 else (np.array([1.0]), 'vertex')
    T = ch.float('T', T_LO, T_HI)
    P = ch.logfloat('P', 3, 7)
    what = ch.choice('what', ['Gamma', 'Phi', 'PCF'])
    region = f'what={what},comp={comp}'
    ctx.cell('ideal:' + what); ctx.cell('cls=Ideal'); ctx.cell('comp=' + comp)
    arr = np.array(x, float)
    if what == 'Gamma':
        M = ctx.call('ideal.new', eq.IdealActivityCoefficients, chems, region=region)
        first = ctx.call('ideal.call', M, arr, T, region=region)
        vals = [np.array(first, float), ctx.call('ideal.f', M.f, arr, T, *M.args, region=region)]
        if isinstance(first, np.ndarray) and first.flags.writeable:
            first *= 3.0          # a caller working in place on the result must not change later results
            vals.append(ctx.call('ideal.call', M, arr, T, region=region))
    elif what == 'Phi':
        M = ctx.call('ideal.new', eq.IdealFugacityCoefficients, chems, region=region)
        vals = [ctx.call('ideal.call', M, arr, T, P, region=region), ctx.call('ideal.f', M.f, arr, T, P, *M.args, region=region)]
    else:
        M = ctx.call('ideal.new', eq.MockPoyintingCorrectionFactors, chems, region=region)
        Psats = np.array([float(c.Psat(T)) if c.Psat else 1.0 for c in chems])
        vals = [ctx.call('ideal.call', M, T, P, region=region), ctx.call('ideal.call', M, T, P, Psats, region=region)]
    for v in vals:
        v = np.asarray(v, float)
        if v.shape not in ((), (n,)) or not (v == 1.0).all():
            ctx.fail(f'ideal.{what}|{region}|mismatch', f'ideal {what} returned {v.tolist()}')
    ctx.nontriv(['ideal', what, names, comp])


def _activity_caches():
    import sys
    mod = sys.modules['thermosteam.equilibrium.activity_coefficients']
    seen = []
    for obj in vars(mod).values():
        if isinstance(obj, type):
            for k in obj.__mro__:
                d = k.__dict__.get('_cached')
                if isinstance(d, dict) and not any(d is e for e in seen):
                    seen.append(d)
    return seen


def prop_construction(ch, ctx):
    """The object returned for (class, chemicals) is that class's model for those chemicals, whatever iterable carried
    the chemicals and whichever other model classes were constructed for the same Chemical objects before."""
    case = draw_case(ch, classes=('Dortmund', 'UNIFAC', 'NIST'))
    x, comp = draw_x(ch, case.n)
    first = ch.choice('first', ['none', 'UNIFAC', 'Dortmund', 'NIST', 'Ideal'])
    container = ch.choice('container', ['tuple', 'list', 'generator', 'map', 'iter', 'tuple'])
    cells(ctx, case, comp, x)
    ctx.cell('construct:first=' + ('none' if first == 'none' else ('same' if first == case.cls else 'other')))
    ctx.cell('construct:container=' + container)
    region = f'cls={case.cls},first={first},container={container}'
    if first != 'none':
        G0 = ctx.call('construct.first', CLASSES[first][0], case.chems, region=region)
        ctx.call('construct.first.call', G0, np.ones(case.n) / case.n, case.T, region=region)
    arg = {'tuple': lambda: case.chems, 'list': lambda: list(case.chems), 'generator': lambda: (c for c in case.chems),
           'map': lambda: map(lambda c: c, case.chems), 'iter': lambda: iter(case.chems)}[container]()
    G = ctx.call('construct.new', case.klass, arg, region=region)
    want = case.klass if len(case.gidx) >= 2 else eq.IdealActivityCoefficients
    if type(G) is not want:
        ctx.fail(f'construct|{region}|wrong-class', f'{case.names}: requested {case.klass.__name__} ({len(case.gidx)} group-bearing '
                                                    f'chemicals), got {type(G).__name__}')
    if tuple(G.chemicals) != case.chems:
        ctx.fail(f'construct|{region}|wrong-chemicals', f'requested {case.names}, the model reports {[c.ID for c in G.chemicals]}')
    g = evaluate(ctx, G, x, case.T, 'construct.call', case.region(x, comp))
    # reference: the same class built from a tuple with every activity-model cache emptied
    for d in _activity_caches(): d.clear()
    Gref = ctx.call('construct.ref', case.klass, case.chems, region=region)
    gref = as_vec(ctx.call('construct.ref.call', Gref, np.array(x, float), case.T, region=region), case.n)
    if not np.array_equal(g, gref):
        ctx.fail(f'construct|{region}|mismatch', f'{case.names} x={list(map(float, x))} T={case.T!r}: {g.tolist()} but a freshly '
                                                 f'built model gives {gref.tolist()}')
    if case.interesting(x):
        ctx.nontriv(['construct', first, container, case.key(x)])


PROPS = {
    'purity': (prop_purity, 800, 30000),
    'functional': (prop_functional, 800, 30000),
    'pure_limit': (prop_pure_limit, 900, 35000),
    'gibbs_duhem': (prop_gibbs_duhem, 1400, 60000),
    'permutation': (prop_permutation, 800, 30000),
    'groupless': (prop_groupless, 700, 20000),
    'ideal': (prop_ideal, 300, 5000),
    'construction': (prop_construction, 600, 20000),
}
