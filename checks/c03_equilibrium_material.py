"""C03 - phase equilibrium never creates, destroys or makes negative any material."""
from __future__ import annotations

import numpy as np
import thermosteam as tmo
from thermosteam.exceptions import InfeasibleRegion, NoEquilibrium, UndefinedPhase
from vlib import chem, runner

PROPERTY = 'C03'
RULE = ('Hypothesis draws a property package with volatile, gas-locked (N2/O2/CO2) and liquid/solid-locked '
        '(LacticAcid, Glucose, NaCl; with and without N_solutes) chemicals, a non-empty composition on any subset '
        '(<=5 volatile, flows 0 or 10**u, u in [-3,3]), a container (Stream in l/g/s or MultiStream over g,l and optional '
        'extra rows s/L) with a free distribution of every chemical over the admissible rows, and a history of 1-3 '
        'equilibrium calls on the same object: vle with every supported pair among T,P,V,H,S,x,y (T 250-500 K, P '
        '1e4-5e6 Pa, V in [0,1] incl. 0 and 1, H/S between the all-liquid value at 250 K and the all-vapour value at '
        '500 K), lle(T[,P,top_chemical]), sle(solute, T|H[, solubility]), Stream.vlle(T,P), Stream(..., vlle=True), '
        'mix_from(vle=True) of 2-3 inlets.  Oracle after every call that returns: per-chemical totals over all rows '
        'equal the NumPy snapshot taken before the call (1e-9*max(1,total)), every entry >= -1e-12*total, gas-locked '
        'chemicals only in g and liquid/solid-locked chemicals absent from g after a vapour-liquid call.  Documented '
        'rejections are counted.  Non-trivial: the result has >=2 non-empty rows, or a locked chemical is present, or the '
        'material started in >=2 rows.  Distinct by (package, chemical subset, container, start pattern, operations).')
ASSUMPTIONS = ['solid rows hold only solid-locked chemicals and extra liquid rows only volatile chemicals (H/S defined there)',
               'x/y specifications are drawn for exactly two volatile chemicals; composition inside (0.02, 0.98)',
               'sle solutes have Tm, Hfus and liquid/solid heat capacities (Tetradecanol; Glucose with the doctest models); '
               'a given solubility is only passed to a solver that has run once (the fresh-solver failure belongs to C15)',
               'InfeasibleRegion, NoEquilibrium, UndefinedPhase, NotImplementedError, solver RuntimeError, the explicit '
               '"must be 2 to specify x/y" assertion and arithmetic failures (FloatingPointError/ZeroDivisionError/'
               'OverflowError) inside a solver mean the call did not return normally: counted as rejected',
               'flows of other chemicals are exactly zero; T/P values are plain floats']
REQUIRED_CELLS = {'quick': ['op:vle.TP', 'op:vle.TV', 'op:vle.TH', 'op:vle.TS', 'op:vle.PV', 'op:vle.PH', 'op:vle.PS',
                            'op:vle.Tx', 'op:vle.Ty', 'op:vle.Px', 'op:vle.Py', 'op:lle', 'op:sle', 'op:vlle', 'op:vlle-ctor',
                            'op:mix_vle', 'has:light', 'has:heavy', 'has:extra-rows', 'step>0',
                            'vedge:PV:V=1:heavy', 'vedge:PV:V=0:heavy', 'vedge:TV:V=1:heavy', 'vedge:TV:V=0:heavy',
                            'vedge:PV:V=1:noheavy', 'vedge:TV:V=0:noheavy', 'vlle:start-with-L', 'shgo:light', 'op:lle.single_loop'],
                  'thorough': []}

T_MIN, T_MAX = 250.0, 500.0
P_LOG = (4.0, np.log10(5e6))
U_A = list(chem.U_A)

# name -> (volatile, {locked name: (phase, N_solutes)})
PKG = {
    'L1': (U_A, {'N2': ('g', None), 'CO2': ('g', None), 'Glucose': ('s', None), 'LacticAcid': ('l', None)}),
    'L2': (['Water', 'Ethanol', 'Hexane', 'Acetone'], {'O2': ('g', None), 'NaCl': ('s', 2), 'LacticAcid': ('l', 1)}),
    'L3': (['Water'], {'N2': ('g', None), 'Glucose': ('s', 1)}),
    'L4': (['Ethanol', 'Water', 'Methanol'], {}),
    'L5': (['Water', '1-Butanol', 'Ethanol', 'Hexane', 'Octane'], {'CO2': ('g', None), 'NaCl': ('s', None)}),
}
SLE_PKG = 'SLE'
_pk = {}

REJECT = (InfeasibleRegion, NoEquilibrium, UndefinedPhase, NotImplementedError, RuntimeError,
          FloatingPointError, ZeroDivisionError, OverflowError)
PAIRS = ['TP', 'TV', 'TH', 'TS', 'PV', 'PH', 'PS', 'Tx', 'Ty', 'Px', 'Py']
TOL_CONS = 1e-9
TOL_NEG = 1e-12


def package(pid):
    th = _pk.get(pid)
    if th is None:
        if pid == SLE_PKG:
            G = tmo.Chemical('Glucose', Tm=419.15, Hfus=19930)
            G.Cn.s.add_model(224.114064, top_priority=True)
            G.Cn.l.add_model(360.312, top_priority=True)
            chems = [chem.chemical(n) for n in ('Water', 'Methanol', 'Octanol', 'Tetradecanol')] + [G]
        else:
            vol, locked = PKG[pid]
            if all(ns is None for _, ns in locked.values()):
                th = chem.thermo_of(list(vol) + list(locked), locked={k: ph for k, (ph, _) in locked.items()})
                _pk[pid] = th
                return th
            chems = [chem.chemical(n) for n in vol]
            for n, (ph, ns) in locked.items():
                c = tmo.Chemical(n, phase=ph)
                if ns is not None: c.N_solutes = ns
                chems.append(c)
        th = _pk[pid] = tmo.Thermo(tmo.Chemicals(chems))
        runner.register_chemicals(th.chemicals)
    return th


def pkg_lists(pid):
    if pid == SLE_PKG:
        return ['Water', 'Methanol', 'Octanol', 'Tetradecanol', 'Glucose'], {}
    return PKG[pid]


# ---------------------------------------------------------------------------
def dense(s):
    a = s.imol.data.to_array()
    return a.reshape(1, -1) if a.ndim == 1 else a


def phases_of(s):
    return tuple(s.phases) if isinstance(s, tmo.MultiStream) else (s.phase,)


def draw_material(ch, pid, tag='', need_two_volatile=False):
    """{name: total flow} on a subset of the package: 1..5 volatile (0 allowed when a locked one is present)."""
    vol, locked = pkg_lists(pid)
    nmin = 2 if need_two_volatile else (0 if locked else 1)
    nmax = 2 if need_two_volatile else min(5, len(vol))
    n = ch.int(tag + 'nvol', nmin, nmax)
    names = ch.subset(tag + 'vol', vol, min_size=n, max_size=n) if n else []
    lk = []
    for k in locked:
        if ch.int(tag + 'has.' + k, 0, 2) == 0: lk.append(k)
    if not names and not lk:
        lk = [list(locked)[0]]
    flows = {}
    for k in list(names) + lk:
        sp = ch.choice(tag + 'F.special.' + k, [None, None, 1.0, 10.0])
        flows[k] = ch.logfloat(tag + 'F.' + k, -3, 3) if sp is None else sp
    return names, lk, flows


def rows_for(th, name, phases):
    st = th.chemicals[name].locked_state
    out = []
    for p in phases:
        if p == 's' and st != 's': continue        # only solid-locked chemicals have H/S in a solid row
        if p in ('L', 'S') and st: continue         # extra rows hold volatile chemicals only
        out.append(p)
    return out


def draw_container(ch, th, flows, tag='', allow_extra=True, kinds=('M', 'M', 'S'), extras=('s', 'L')):
    """Build a Stream / MultiStream holding ``flows`` with a freely drawn distribution over admissible rows."""
    kind = ch.choice(tag + 'kind', list(kinds))
    T0 = ch.float(tag + 'T0', 280.0, 450.0)
    P0 = ch.logfloat(tag + 'P0', 4.0, 6.0)
    chems = th.chemicals
    if kind == 'S':
        can_s = all(chems[k].locked_state == 's' for k in flows)
        phase = ch.choice(tag + 'phase', ['l', 'g'] + (['s'] if can_s else []))
        arr = np.zeros(chems.size)
        for k, v in flows.items(): arr[chems.index(k)] = v
        s = tmo.Stream(None, flow=arr, phase=phase, T=T0, P=P0, thermo=th)
        return s, dict(kind='S', phases=[phase], nrows=1)
    extra = ch.subset(tag + 'extra', list(extras), 0, len(extras)) if allow_extra else []
    order = ch.permutation(tag + 'order', 2 + len(extra))
    phases = [(['g', 'l'] + list(extra))[i] for i in order]
    s = tmo.MultiStream(None, phases=tuple(phases), T=T0, P=P0, thermo=th)
    used = set()
    for k, v in flows.items():
        rows = rows_for(th, k, phases)
        mode = ch.choice(tag + f'dist.{k}', ['one', 'one', 'split'])
        if mode == 'one' or len(rows) == 1:
            parts = {ch.choice(tag + f'row.{k}', rows): 1.0}
        else:
            w = [ch.choice(tag + f'w.{k}.{p}', [0.0, 1.0, 0.5, 1e-6]) for p in rows]
            if not any(w): w[0] = 1.0
            parts = {p: x / sum(w) for p, x in zip(rows, w) if x}
        i = chems.index(k)
        for p, fr in parts.items():
            s.imol.data.rows[s.imol.get_phase_index(p)].dct[i] = v * fr
            used.add(p)
    return s, dict(kind='M', phases=phases, nrows=len(used))


def hypothetical(s, q, T, phase):
    """H or S of a copy with all g+l material of the unlocked chemicals in one phase at T (thermosteam; input only)."""
    c = s.copy()
    if not isinstance(c, tmo.MultiStream) or 'g' not in c.phases or 'l' not in c.phases:
        c.phases = tuple(dict.fromkeys(list(phases_of(c)) + ['g', 'l']))
    g = c.imol['g']; l = c.imol['l']
    tot = g + l
    chems = c.chemicals
    for i in list(tot.nonzero_keys()):
        st = chems.tuple[i].locked_state
        ph = phase if not st else ('g' if st == 'g' else 'l')
        if ph == 'g': g[i] = tot[i]; l[i] = 0.
        else: l[i] = tot[i]; g[i] = 0.
    c.T = T
    return getattr(c, q)


# ---------------------------------------------------------------------------
# oracle
# ---------------------------------------------------------------------------
def check_state(ctx, s, before_tot, site, region, vle_called):
    a = dense(s)
    tot = a.sum(axis=0)
    scale = np.maximum(1.0, before_tot)
    err = np.abs(tot - before_tot) / scale
    ctx.metric_max(f'{site.split(".")[0]}:conservation', float(err.max()))
    if err.max() > TOL_CONS:
        i = int(err.argmax())
        ctx.fail(f'{site}|{region}|not-conserved',
                 f'{s.chemicals.IDs[i]}: total {tot[i]!r} after the call, {before_tot[i]!r} before (rows {phases_of(s)})')
    lim = -TOL_NEG * np.maximum(before_tot, 1e-300)
    neg = a < lim[None, :]
    if neg.any():
        r, i = np.argwhere(neg)[0]
        ctx.fail(f'{site}|{region}|negative',
                 f'{s.chemicals.IDs[i]} in row {phases_of(s)[r]}: {a[r, i]!r} (total {before_tot[i]!r})')
    ctx.metric_max('most-negative/total', float(np.max(-a / np.maximum(before_tot, 1e-300)[None, :])))
    if vle_called:
        chems = s.chemicals
        ph = phases_of(s)
        for i in np.flatnonzero(tot):
            st = chems.tuple[i].locked_state
            if not st: continue
            for r, p in enumerate(ph):
                if st == 'g' and p == 'l' and a[r, i] != 0:
                    ctx.fail(f'{site}|{region}|gas-locked-in-liquid', f'{chems.IDs[i]}: {a[r, i]!r} in row l after vle')
                if st != 'g' and p == 'g' and a[r, i] != 0:
                    ctx.fail(f'{site}|{region}|heavy-locked-in-gas', f'{chems.IDs[i]}: {a[r, i]!r} in row g after vle')


def region_of(th, s, step):
    tot = dense(s).sum(axis=0)
    chems = th.chemicals.tuple
    nv = sum(1 for i in np.flatnonzero(tot) if not chems[i].locked_state)
    light = any(chems[i].locked_state == 'g' for i in np.flatnonzero(tot))
    heavy = any(chems[i].locked_state in ('l', 's') for i in np.flatnonzero(tot))
    counted = any(chems[i].locked_state in ('l', 's') and (chems[i].N_solutes or 0) for i in np.flatnonzero(tot))
    nvt = '0' if nv == 0 else ('1' if nv == 1 else '2+')
    return f'nvol={nvt},light={int(light)},heavy={int(heavy)}{"c" if counted else ""},hist={int(step > 0)}', nv, light, heavy


def guarded(ctx, site, region, fn):
    """Run a call under test.  Returns True when it returned normally, False for a documented rejection."""
    try:
        ctx.call(site, fn, allowed=REJECT + (AssertionError,), region=region)
        return True
    except AssertionError as e:
        if 'must be 2 to specify' in str(e):
            ctx.cell(f'rejected:{site}:two-species-assertion')
            return False
        ctx.fail(f'{site}|{region}|exc:AssertionError', str(e)[:200])
    except REJECT as e:
        ctx.cell(f'rejected:{site}:{type(e).__name__}')
        return False


# ---------------------------------------------------------------------------
# operations
# ---------------------------------------------------------------------------
def draw_vle_kwargs(ch, ctx, th, s, tag, pair, vol_present):
    kw = {}
    if 'T' in pair: kw['T'] = ch.float(tag + 'T', T_MIN, T_MAX)
    if 'P' in pair: kw['P'] = ch.logfloat(tag + 'P', *P_LOG)
    if 'V' in pair:
        v = ch.choice(tag + 'V.special', [None, 0.0, 1.0])
        kw['V'] = ch.float(tag + 'V', 0.0, 1.0) if v is None else v
    for q in 'HS':
        if q in pair:
            Tq = kw.get('T')
            try:
                lo = hypothetical(s, q, Tq if Tq else T_MIN, 'l')
                hi = hypothetical(s, q, Tq if Tq else T_MAX, 'g')
            except Exception:
                ctx.reject('H/S limits not computable for this container')
            kw[q] = lo + ch.float(tag + 'theta', 0.0, 1.0) * (hi - lo)
    for q in 'xy':
        if q in pair:
            kw[q] = draw_xy(ch, ctx, th, s, tag, q, kw)
    return kw


def draw_xy(ch, ctx, th, s, tag, q, kw):
    """Composition specification for the two volatile chemicals.  Besides free values, values are constructed so that
    the feed lies inside, or within a few 1e-6 of the ends of, the tie line (the lever rule accepts -1e-5..1+1e-5)."""
    mode = ch.choice(tag + 'xy.mode', ['free', 'inside', 'edge', 'edge'])
    if mode == 'free':
        x0 = ch.float(tag + q + '0', 0.02, 0.98)
        return [x0, 1.0 - x0]
    from vlib.c04_refthermo import RefFlash
    tot = gl_totals(s)
    chems = th.chemicals.tuple
    idx = [i for i in np.flatnonzero(tot) if not chems[i].locked_state]
    z = tot[idx] / tot[idx].sum()
    ref = RefFlash([chems[i] for i in idx], th)
    try:
        T = kw['T'] if 'T' in kw else None
        if q == 'x':
            # feed = x  <=> split 0 ;  feed = y(x) <=> x is the dew-point liquid of the feed  <=> split 1
            Tq = T if T else ref.dew_T(z, kw['P'])
            other = ref.dew_P(z, Tq)[1]
        else:
            Tq = T if T else ref.bubble_T(z, kw['P'])
            other = ref.bubble_P(z, Tq)[1]
    except Exception:
        ctx.reject('reference envelope not available for this pair')
    if mode == 'inside':
        u = ch.float(tag + 'xy.u', 0.0, 1.0)
    else:
        u = ch.choice(tag + 'xy.end', [0.0, 1.0]) + ch.choice(tag + 'xy.eps', [0.0, 3e-6, -3e-6, 8e-6, -8e-6, 5e-5, -5e-5])
    c0 = z[0] + u * (other[0] - z[0])
    c0 = min(max(c0, 1e-9), 1 - 1e-9)
    ctx.cell('xy:' + mode)
    return [float(c0), float(1.0 - c0)]


def gl_totals(s):
    """Per-chemical material in the rows a vapour-liquid calculation works on (g and l; a single-phase Stream is converted
    to g,l as a whole).  Material parked in extra rows (L, s) does not take part."""
    a = dense(s); ph = phases_of(s)
    if not isinstance(s, tmo.MultiStream): return a.sum(axis=0)
    rows = [i for i, p in enumerate(ph) if p in ('g', 'l')]
    return a[rows].sum(axis=0) if rows else 0 * a.sum(axis=0)


def op_vle(ch, ctx, th, s, step, tag):
    region, nv, light, heavy = region_of(th, s, step)
    # x / y specifications are for exactly two volatile chemicals TAKING PART, i.e. present in the g / l rows
    gl = gl_totals(s)
    two = sum(1 for i in np.flatnonzero(gl) if not th.chemicals.tuple[i].locked_state) == 2
    pairs = PAIRS if two else PAIRS[:7]
    pair = ch.choice(tag + 'pair', pairs)
    if pair[1] in 'xy' and not two:      # only reachable when an older log is replayed
        ctx.reject('x/y specification needs exactly two volatile chemicals in the g/l rows')
    kw = draw_vle_kwargs(ch, ctx, th, s, tag, pair, nv)
    ctx.cell('op:vle.' + pair)
    # solver method: the global optimiser costs seconds per call and is only drawn in the thorough tier (T,P only)
    methods = ['fixed-point'] * 29 + ['shgo'] if (ctx.tier == 'thorough' and pair == 'TP') else ['fixed-point']
    method = ch.choice(tag + 'method', methods)
    if method != 'fixed-point': ctx.cell('method:' + method)
    before = dense(s).sum(axis=0)
    site = 'vle.' + pair + ('' if method == 'fixed-point' else '.' + method)

    def call():
        v = s.vle
        v.method = method
        v(**kw)
    ok = guarded(ctx, site, region, call)
    if ok:
        check_state(ctx, s, before, site, region, True)
    else:
        # the object must still hold the same material after a rejected call that the code catches internally
        a = dense(s).sum(axis=0)
        if np.abs(a - before).max() > TOL_CONS * max(1.0, before.max()):
            ctx.cell('rejected-call-changed-totals')
    return ok, ['vle', pair]


def op_lle(ch, ctx, th, s, step, tag):
    region, nv, light, heavy = region_of(th, s, step)
    T = ch.float(tag + 'T', T_MIN, 400.0)
    kw = {}
    if ch.bool(tag + 'P.given'): kw['P'] = ch.logfloat(tag + 'P', *P_LOG)
    present = [th.chemicals.IDs[i] for i in np.flatnonzero(dense(s).sum(axis=0))]
    tc = ch.choice(tag + 'top', [None] + present)
    if tc: kw['top_chemical'] = tc
    # documented keywords of LLE.__call__: use_cache (reuse remembered coefficients) and single_loop (one-loop solver)
    single_loop, use_cache = ch.choice(tag + 'opts', [[False, True], [True, True], [True, False], [False, False]])
    if single_loop: kw['single_loop'] = True
    if not use_cache: kw['use_cache'] = False
    ctx.cell('op:lle' + ('.single_loop' if single_loop else ''))
    if single_loop: ctx.cell('op:lle')
    before = dense(s).sum(axis=0)
    ok = guarded(ctx, 'lle' + ('.single_loop' if single_loop else ''), region, lambda: s.lle(T, **kw))
    if ok: check_state(ctx, s, before, 'lle' + ('.single_loop' if single_loop else ''), region, False)
    return ok, ['lle', bool(tc), 'P' in kw, single_loop, use_cache]


def op_sle(ch, ctx, th, s, step, tag, state):
    region, nv, light, heavy = region_of(th, s, step)
    tot = dense(s).sum(axis=0)
    cands = [k for k in ('Tetradecanol', 'Glucose') if tot[th.chemicals.index(k)] > 0]
    if not cands: return None, None
    solute = ch.choice(tag + 'solute', cands)
    kw = {}
    spec = ch.choice(tag + 'spec', ['T', 'T', 'H'])
    if spec == 'T':
        kw['T'] = ch.float(tag + 'T', T_MIN, 450.0)
    else:
        c = s.copy()
        c.T = T_MIN; lo = c.H
        c.T = 450.0; hi = c.H
        kw['H'] = lo + ch.float(tag + 'theta', 0.0, 1.0) * (hi - lo)
    if state.get('sle_given') or (state.get('sle_ran') and ch.int(tag + 'sol.given', 0, 2) == 0):
        # once a solubility was given the solver keeps _index = slice(None); a later computed-solubility call then
        # uses mismatched arrays (SLE state defect, property C15): such calls are not generated here
        if state.get('sle_given'): ctx.cell('avoided:sle-computed-solubility-after-given')
        kw['solubility'] = ch.choice(tag + 'sol.special', [0.0, 1.0, None])
        if kw['solubility'] is None: kw['solubility'] = ch.logfloat(tag + 'sol', -4, 0)
    elif not state.get('sle_ran'):
        ctx.cell('avoided:sle-solubility-on-fresh-solver')
    if ch.bool(tag + 'P.given'): kw['P'] = ch.logfloat(tag + 'P', 4.0, 6.0)
    ctx.cell('op:sle')
    before = tot
    site = 'sle.' + spec + ('.sol' if 'solubility' in kw else '')
    ok = guarded(ctx, site, region, lambda: s.sle(solute, **kw))
    if 'solubility' in kw: state['sle_given'] = True
    if ok:
        state['sle_ran'] = True
        check_state(ctx, s, before, site, region, False)
    return ok, ['sle', solute, spec, 'solubility' in kw]


def op_vlle(ch, ctx, th, s, step, tag):
    region, nv, light, heavy = region_of(th, s, step)
    T = ch.float(tag + 'T', 280.0, 420.0); P = ch.logfloat(tag + 'P', 4.0, 6.0)
    ctx.cell('op:vlle')
    before = dense(s).sum(axis=0)
    ok = guarded(ctx, 'vlle', region, lambda: s.vlle(T, P))
    if ok: check_state(ctx, s, before, 'vlle', region, True)
    return ok, ['vlle']


def op_perturb(ch, ctx, th, s, flows_pool, tag):
    """Between calls: change the content of one row (this is the next call's initial distribution)."""
    a = dense(s)
    chems = th.chemicals
    ph = phases_of(s)
    k = ch.choice(tag + 'chem', flows_pool)
    i = chems.index(k)
    rows = [p for p in rows_for(th, k, ph)]
    p = ch.choice(tag + 'row', rows)
    what = ch.choice(tag + 'what', ['zero', 'set', 'scale'])
    d = s.imol.data.rows[s.imol.get_phase_index(p)] if isinstance(s, tmo.MultiStream) else s.imol.data
    cur = d.dct.get(i, 0.0)
    if what == 'zero': new = 0.0
    elif what == 'set': new = ch.logfloat(tag + 'val', -3, 3)
    else: new = cur * ch.logfloat(tag + 'fac', -2, 2)
    if new: d.dct[i] = float(new)
    elif i in d.dct: del d.dct[i]
    ctx.cell('op:perturb')
    return ['perturb', what]


# ---------------------------------------------------------------------------
def prop_history(ch, ctx):
    """vle / lle / vlle histories on one stream."""
    pid = ch.choice('pkg', ['L1', 'L1', 'L2', 'L3', 'L4', 'L5'])
    th = package(pid)
    tmo.settings.set_thermo(th)
    first = ch.choice('first', ['vle'] * 5 + ['lle'] * 2)
    need2 = first == 'vle' and pid != 'L3' and ch.int('two', 0, 2) == 0
    names, lk, flows = draw_material(ch, pid, need_two_volatile=need2)
    s, info = draw_container(ch, th, flows)
    if lk: ctx.cell('has:light' if any(th.chemicals[k].locked_state == 'g' for k in lk) else 'has:heavy-only')
    if any(th.chemicals[k].locked_state != 'g' for k in lk): ctx.cell('has:heavy')
    if info['kind'] == 'M' and len(info['phases']) > 2: ctx.cell('has:extra-rows')
    nsteps = ch.int('nsteps', 1, 3)
    ops = []
    returned = 0
    for step in range(nsteps):
        tag = f's{step}.'
        if step > 0:
            ctx.cell('step>0')
            if ch.int(tag + 'perturb', 0, 2) == 0:
                ops.append(op_perturb(ch, ctx, th, s, list(flows), tag + 'pt.'))
                if not dense(s).any(): break
        op = first if step == 0 else ch.choice(tag + 'op', ['vle', 'vle', 'vle', 'lle'])
        if op == 'vle': ok, key = op_vle(ch, ctx, th, s, step, tag)
        else: ok, key = op_lle(ch, ctx, th, s, step, tag)
        ops.append(key)
        if not ok: break
        returned += 1
    if not returned:
        ctx.reject('first call was a documented rejection')
    a = dense(s)
    rows_used = int((a.sum(axis=1) > 0).sum())
    if rows_used >= 2 or lk or info['nrows'] >= 2:
        ctx.nontriv(['hist', pid, sorted(flows), info['kind'], info['phases'], info['nrows'], ops])


def prop_sle(ch, ctx):
    th = package(SLE_PKG)
    tmo.settings.set_thermo(th)
    vol = ['Water', 'Methanol', 'Octanol']
    solutes = ch.subset('solutes', ['Tetradecanol', 'Glucose'], 1, 2)
    solv = ch.subset('solvents', vol, 0, 3)
    flows = {}
    for k in list(solutes) + list(solv):
        sp = ch.choice('F.special.' + k, [None, None, 1.0, 10.0])
        flows[k] = ch.logfloat('F.' + k, -3, 3) if sp is None else sp
    kind = ch.choice('kind', ['M', 'M', 'Sl', 'Ss'])
    T0 = ch.float('T0', 280.0, 420.0)
    chems = th.chemicals
    if kind == 'M':
        s = tmo.MultiStream(None, phases=('s', 'l'), T=T0, P=101325., thermo=th)
        for k, v in flows.items():
            i = chems.index(k)
            fr = 0.0 if k in solv else ch.choice(f'solid.{k}', [0.0, 1.0, 0.5])     # solvents stay liquid
            if fr: s.imol.data.rows[s.imol.get_phase_index('s')].dct[i] = v * fr
            if fr < 1: s.imol.data.rows[s.imol.get_phase_index('l')].dct[i] = v * (1 - fr)
        nrows = 2
    else:
        if kind == 'Ss' and solv: kind = 'Sl'
        arr = np.zeros(chems.size)
        for k, v in flows.items(): arr[chems.index(k)] = v
        s = tmo.Stream(None, flow=arr, phase=kind[1], T=T0, P=101325., thermo=th)
        nrows = 1
    state = {}
    ops = []
    returned = 0
    for step in range(ch.int('nsteps', 1, 3)):
        if step: ctx.cell('step>0')
        ok, key = op_sle(ch, ctx, th, s, step, f's{step}.', state)
        if ok is None: break
        ops.append(key)
        if not ok: break
        returned += 1
    if not returned: ctx.reject('first call was a documented rejection')
    ctx.nontriv(['sle', sorted(flows), kind, ops])


def prop_vlle(ch, ctx):
    pid = ch.choice('pkg', ['L5', 'L1', 'L2'])
    th = package(pid)
    tmo.settings.set_thermo(th)
    names, lk, flows = draw_material(ch, pid)
    if lk: ctx.cell('has:light' if any(th.chemicals[k].locked_state == 'g' for k in lk) else 'has:heavy-only')
    ctor = ch.int('ctor', 0, 2) == 0
    if ctor:
        chems = th.chemicals
        arr = np.zeros(chems.size)
        for k, v in flows.items(): arr[chems.index(k)] = v
        T = ch.float('T', 280.0, 420.0); P = ch.logfloat('P', 4.0, 6.0)
        phase = ch.choice('phase', ['l', 'g'])
        ctx.cell('op:vlle-ctor')
        box = {}
        region = f'nvol={min(len(names), 2)},locked={int(bool(lk))},ctor=1'
        ok = guarded(ctx, 'vlle-ctor', region,
                     lambda: box.setdefault('s', tmo.Stream(None, flow=arr, phase=phase, T=T, P=P, thermo=th, vlle=True)))
        if not ok: ctx.reject('documented rejection')
        check_state(ctx, box['s'], arr, 'vlle-ctor', region, True)
        s = box['s']
    else:
        # material may already sit in the second liquid row L (vlle pools L into l before it starts), and vlle may be
        # called again on its own three-phase result
        s, info = draw_container(ch, th, flows, extras=('L',))
        if 'L' in info['phases'] and dense(s)[list(phases_of(s)).index('L')].any(): ctx.cell('vlle:start-with-L')
        ok, key = op_vlle(ch, ctx, th, s, 0, 's0.')
        if not ok: ctx.reject('documented rejection')
        if ch.choice('again', [False, True, True]):
            ctx.cell('step>0')
            a = dense(s)
            if 'L' in phases_of(s) and a[list(phases_of(s)).index('L')].any(): ctx.cell('vlle:again-with-L')
            ok, key = op_vlle(ch, ctx, th, s, 1, 's1.')
    ctx.nontriv(['vlle', pid, sorted(flows), ctor, list(phases_of(s))])


def prop_mix(ch, ctx):
    pid = ch.choice('pkg', ['L1', 'L2', 'L4', 'L3'])
    th = package(pid)
    tmo.settings.set_thermo(th)
    n = ch.int('n', 2, 3)
    inlets = []; keys = []
    for i in range(n):
        names, lk, flows = draw_material(ch, pid, tag=f'in{i}.')
        s, info = draw_container(ch, th, flows, tag=f'in{i}.', allow_extra=False)
        inlets.append(s); keys.append([sorted(flows), info['kind'], info['phases']])
    eb = ch.bool('energy_balance')
    rk = ch.choice('recv', ['S', 'M'])
    recv = tmo.Stream(None, thermo=th) if rk == 'S' else tmo.MultiStream(None, phases=('g', 'l'), thermo=th)
    if ch.bool('recv.dirty'):
        dirt = ch.logfloat('recv.dirt', -3, 3)      # mix_from ignores the receiver's initial contents
        if rk == 'S': recv.imol[th.chemicals.IDs[0]] = dirt
        else: recv.imol['l', th.chemicals.IDs[0]] = dirt
    recv.T = ch.float('recv.T', 280.0, 450.0)
    want = sum(dense(s).sum(axis=0) for s in inlets)
    befores = [dense(s).copy() for s in inlets]
    tot = want
    chems = th.chemicals.tuple
    nv = sum(1 for i in np.flatnonzero(tot) if not chems[i].locked_state)
    region = f'nvol={"0" if nv == 0 else "1" if nv == 1 else "2+"},eb={int(eb)},recv={rk}'
    ctx.cell('op:mix_vle')
    ok = guarded(ctx, 'mix_vle', region, lambda: recv.mix_from(inlets, energy_balance=eb, vle=True))
    if not ok: ctx.reject('documented rejection')
    check_state(ctx, recv, want, 'mix_vle', region, True)
    for k, (s, b) in enumerate(zip(inlets, befores)):
        if not np.array_equal(dense(s), b):
            ctx.fail(f'mix_vle|{region}|inlet-modified', f'inlet {k} changed')
    ctx.nontriv(['mix', pid, keys, eb, rk])


def prop_vedge(ch, ctx):
    """The closed ends of the vapour-fraction range: V exactly 0 and exactly 1 (the code branches on V == 0 / V == 1),
    for both P,V and T,V, with and without gas-locked and liquid/solid-locked chemicals (counted and uncounted)."""
    pid = ch.choice('pkg', ['L1', 'L2', 'L3', 'L5'])
    th = package(pid)
    tmo.settings.set_thermo(th)
    vol, locked = pkg_lists(pid)
    n = ch.int('nvol', 1, min(4, len(vol)))
    names = ch.subset('vol', vol, min_size=n, max_size=n)
    want = ch.choice('locked', ['heavy', 'heavy', 'light', 'both', 'none'])
    heavy = [k for k, (ph, _) in locked.items() if ph != 'g']
    light = [k for k, (ph, _) in locked.items() if ph == 'g']
    lk = []
    if want in ('heavy', 'both') and heavy: lk += ch.subset('heavy', heavy, min_size=1, max_size=len(heavy))
    if want in ('light', 'both') and light: lk += ch.subset('light', light, min_size=1, max_size=len(light))
    flows = {}
    for k in list(names) + lk:
        sp = ch.choice('F.special.' + k, [None, 1.0, 10.0])
        flows[k] = ch.logfloat('F.' + k, -3, 3) if sp is None else sp
    s, info = draw_container(ch, th, flows)
    pair = ch.choice('pair', ['PV', 'TV'])
    V = ch.choice('V', [1.0, 0.0])
    kw = {'V': V}
    if pair == 'PV': kw['P'] = ch.logfloat('P', *P_LOG)
    else: kw['T'] = ch.float('T', T_MIN, T_MAX)
    region, nv, li, he = region_of(th, s, 0)
    region += f',V={int(V)}'
    ctx.cell(f'vedge:{pair}:V={int(V)}:' + ('heavy' if he else 'noheavy'))
    ctx.cell('op:vle.' + pair)
    if li: ctx.cell('has:light')
    if he: ctx.cell('has:heavy')
    before = dense(s).sum(axis=0)
    site = 'vle.' + pair
    if not guarded(ctx, site, region, lambda: s.vle(**kw)):
        ctx.reject('documented rejection')
    check_state(ctx, s, before, site, region, True)
    ctx.nontriv(['vedge', pid, sorted(flows), info['kind'], info['phases'], pair, V])


def prop_hs_light(ch, ctx):
    """P,H / P,S with a gas-locked chemical present and the specification in the lower part of the all-liquid..all-vapour range:
    with an inert gas the code lowers its bubble temperature bound, and the final split correction (condense / vaporise a
    fraction) is exercised with large fractions there."""
    pid = ch.choice('pkg', ['L1', 'L2', 'L5'])
    th = package(pid)
    tmo.settings.set_thermo(th)
    vol, locked = pkg_lists(pid)
    n = ch.int('nvol', 2, 4)
    names = ch.subset('vol', vol, min_size=n, max_size=n)
    light = [k for k, (ph, _) in locked.items() if ph == 'g']
    heavy = [k for k, (ph, _) in locked.items() if ph != 'g']
    lk = ch.subset('light', light, min_size=1, max_size=len(light)) + ch.subset('heavy', heavy, min_size=0, max_size=len(heavy))
    flows = {}
    for k in list(names) + lk:
        sp = ch.choice('F.special.' + k, [None, 1.0, 10.0])
        flows[k] = ch.logfloat('F.' + k, -2, 2) if sp is None else sp
    s, info = draw_container(ch, th, flows)
    pair = ch.choice('pair', ['PS', 'PH'])
    q = pair[1]
    P = ch.logfloat('P', 4.3, 6.0)
    try:
        lo = hypothetical(s, q, T_MIN + 40.0, 'l'); hi = hypothetical(s, q, T_MAX - 100.0, 'g')
    except Exception:
        ctx.reject('H/S limits not computable for this container')
    kw = {'P': P, q: lo + ch.float('theta', 0.0, 0.4) * (hi - lo)}
    region, nv, li, he = region_of(th, s, 0)
    ctx.cell('op:vle.' + pair); ctx.cell('hs_light:' + pair)
    before = dense(s).sum(axis=0)
    if not guarded(ctx, 'vle.' + pair, region, lambda: s.vle(**kw)):
        ctx.reject('documented rejection')
    check_state(ctx, s, before, 'vle.' + pair, region, True)
    ctx.nontriv(['hs_light', pid, sorted(flows), info['kind'], info['phases'], pair])


def prop_shgo(ch, ctx):
    """Quick-tier stratum for the global-optimiser method (`vle.method = 'shgo'`, T,P only): 2-3 volatile chemicals with a
    gas-locked chemical present, at a T,P strictly inside the (Raoult) two-phase window of the volatile part.  One call
    costs 0.01-0.6 s."""
    from vlib.c04_refthermo import RefFlash
    pid = ch.choice('pkg', ['L2', 'L1', 'L5'])
    th = package(pid)
    tmo.settings.set_thermo(th)
    vol, locked = pkg_lists(pid)
    n = ch.int('nvol', 2, 3)
    names = ch.subset('vol', vol, min_size=n, max_size=n)
    light = [k for k, (ph, _) in locked.items() if ph == 'g']
    heavy = [k for k, (ph, _) in locked.items() if ph != 'g']
    lk = ch.subset('light', light, min_size=0 if ch.int('nolight', 0, 3) == 0 else 1, max_size=len(light))
    lk += ch.subset('heavy', heavy, min_size=0, max_size=len(heavy))
    flows = {}
    for k in list(names) + lk:
        sp = ch.choice('F.special.' + k, [None, 1.0, 10.0])
        flows[k] = ch.logfloat('F.' + k, -2, 2) if sp is None else sp
    s, info = draw_container(ch, th, flows, allow_extra=False)
    chems = th.chemicals
    order = sorted(names, key=chems.index)
    z = np.array([flows[k] for k in order]); z = z / z.sum()
    ref = RefFlash([chems[k] for k in order], th, ideal=True)
    T = ch.float('T', 290.0, 420.0)
    Pb = ref.bubble_P(z, T)[0]; Pd = ref.dew_P(z, T)[0]
    P = float(Pd + ch.float('theta', 0.05, 0.95) * (Pb - Pd))
    region, nv, li, he = region_of(th, s, 0)
    ctx.cell('op:vle.TP.shgo'); ctx.cell('method:shgo')
    if li: ctx.cell('shgo:light')
    before = dense(s).sum(axis=0)

    def call():
        v = s.vle
        v.method = 'shgo'
        v(T=T, P=P)
    if not guarded(ctx, 'vle.TP.shgo', region, call):
        ctx.reject('documented rejection')
    check_state(ctx, s, before, 'vle.TP.shgo', region, True)
    ctx.nontriv(['shgo', pid, sorted(flows), info['kind'], info['phases']])


PROPS = {
    'history': (prop_history, 1100, 50000),
    'vedge': (prop_vedge, 200, 8000),
    'shgo': (prop_shgo, 48, 800, {'shrink': False}),
    'hs_light': (prop_hs_light, 200, 6000),
    'sle': (prop_sle, 250, 12000),
    'vlle': (prop_vlle, 96, 1500, {'shrink': False}),
    'mix_vle': (prop_mix, 250, 10000),
}
