"""C06 - heat of reaction and adiabatic reaction close the energy balance."""
from __future__ import annotations

import numpy as np
import thermosteam as tmo
from thermosteam.exceptions import InfeasibleRegion
from thermosteam._phase import phase_tuple

from vlib import c06_rxn as R

PROPERTY = 'C06'
RULE = ('Hypothesis draws a property package (15 CHO chemicals with gas+liquid models / 12 incl. Glucose, liquid '
        'feeds / 11 with phase-locked Glucose(s) and light gases(g)), 1-4 exactly balanced reactions (integer '
        'combinations of a Fraction null-space basis of the C/H/O formula matrix over a drawn subset, optionally '
        'divided to fractional coefficients), reactant = any participant, X in [0,1] incl. 0 and 1, basis mol or '
        'wt (copy(basis=wt) / basis setter / weight coefficients), definition as string or dict, structure '
        'Reaction / ParallelReaction / SeriesReaction / ReactionSystem (nested), phase-less on a gas or liquid '
        'Stream or phase-tagged (g/l; s too for the pure dH clause) on a MultiStream, feed flows 0 or 10**u '
        '(u in [-3,3]) topped up to feasibility, T = 298.15 or 280-450 K, optionally a stream on a permuted '
        'package. Multi-step pattern: before the clause is evaluated a counterpart may be derived from the reaction, '
        'the set, the item or the item\'s parent set (copy(basis=other), plain copy(), copy + basis setter; optionally '
        'the counterpart gets another X); then the ORIGINAL or the counterpart is used (dH clause: both, plus the member '
        'Reaction the set was built from), each against the oracle of its own basis and X. Oracles: (dH) X*sum nu_i (Hf_i + L_i)/MW_r with L from enthalpy levels s<l<g (Hfus, Hvap(298.15)); '
        '(iso) NumPy reference extents -> dHf = sum e_r nu_ri Hf_i, dHnet = sum dn_pi (Hf_i + H_i(p,T,P)) with '
        'pure-component H read from the Chemical objects, and rxn.dH*n_fed = dHnet at 298.15 K in reference '
        'phases; (adiabatic) Hnet_after = Hnet_before + Q within 100*C*T_tol, Q drawn as 0 (with ballast) or '
        'computed for a target outlet T in 250-600 K. Non-trivial: |heat released| > 1 kJ/hr (dH clause: '
        '|dH| > 1 J/mol and X > 0). Distinct by (clause, structure, participants, signs, reactants, basis, '
        'phases, package, mode, zero pattern of the feed); raw floats (flows, X, T, Q) are not part of the key.')
ASSUMPTIONS = [
    'stoichiometries are exactly balanced in rational arithmetic; only chemicals with a database Hf',
    'ideal mixture without excess enthalpy (library default), so stream H = sum n_i H_i(phase,T,P)',
    'dH*n_fed = dHnet is required only at 298.15 K with every participant in its reference phase; elsewhere the '
    'same statement with sensible/latent terms read from the pure-component models (DESIGN.md C06)',
    'phase-tagged reactions are applied to MultiStreams holding exactly the reaction phases; phase-less ones to '
    'single-phase Streams',
    'infeasible feeds (InfeasibleRegion) are C05 subject matter and are counted as rejected here',
    'reaction sets (Parallel/Series/System) expose no dH attribute; item dH is checked on ReactionItem',
]
REQUIRED_CELLS = {
    'quick': ['dH:kind=rxn', 'dH:kind=item', 'dH:tagged', 'dH:wt', 'iso:rxn', 'iso:par', 'iso:ser', 'iso:sys',
              'iso:item', 'adb:item', 'dH:derive=copy_other', 'dH:derive=copy_other,set', 'dH:derive=copy_set',
              'dH:reactant-inferred', 'dH:intX', 'iso:reactant-inferred', 'adb:reactant-inferred', 'iso:trace',
              'adb:trace', 'iso:reX=whole', 'iso:reX=members', 'adb:reX=whole', 'adb:reX=members',
              'iso:via=copy_other', 'iso:via=copy_set', 'iso:obj=cp', 'adb:via=copy_other', 'adb:obj=cp', 'iso:ref298.reported', 'iso:xpkg', 'adb:xpkg', 'iso:locked', 'adb:locked',
              'iso:wt', 'iso:tagged', 'iso:ref298', 'iso:phase=g', 'iso:phase=l', 'adb:rxn', 'adb:par', 'adb:ser',
              'adb:sys', 'adb:wt', 'adb:tagged', 'adb:phase=g', 'adb:phase=l', 'adb:Q=0', 'adb:Q=target'],
    'thorough': [],
}

T_TOL = 1e-6        # Mixture.T_tol
REL = 1e-11       # relative to the magnitude of the summed terms (observed <= 3e-16)
MAT = 1e-12


# ---------------------------------------------------------------------------
# drawing
# ---------------------------------------------------------------------------

def draw_X(ch, tag, ints=False):
    if ints:      # conversions written as Python integers (X=1 is the most common spelling in user code)
        return ch.choice(f'{tag}.X.int', [1, 1, 0])
    k = ch.choice(f'{tag}.X.kind', ['float', 'float', 'float', 'one', 'zero', 'small'])
    if k == 'one': return 1.0
    if k == 'zero': return 0.0
    if k == 'small': return ch.logfloat(f'{tag}.X', -6, -1)
    return ch.float(f'{tag}.X', 0.0, 1.0)


def draw_spec(ch, tag, pool, basis, tag_phases=None, fixed_phase=None, restrict=None, kmin=2, intX=False):
    """One reaction description.  tag_phases: list of phases for a phase-tagged reaction (None: phase-less).
    fixed_phase: {name: phase} forcing the tagged phase (reference-phase mode).
    restrict: {name: [allowed phases]} (e.g. Glucose has no gas enthalpy model)."""
    names, nu = R.draw_stoichiometry(ch, tag, pool, kmin=kmin)
    if names is None:
        return None
    # a reaction with a single reactant may leave `reactant` to be inferred (documented default)
    infer = False
    nneg = sum(1 for x in nu if x < 0)
    if (nneg == 1 or nneg == len(nu) - 1) and ch.bool(f'{tag}.infer'):
        infer = True
        if nneg != 1: nu = [-x for x in nu]
        reactant = [nm for nm, x in zip(names, nu) if x < 0][0]
    else:
        reactant = ch.choice(f'{tag}.reactant', names)
    spec = {'names': names, 'nu': nu,
            'reactant': reactant,
            'X': draw_X(ch, tag, intX),
            'how': 'mol' if basis == 'mol' else ch.choice(f'{tag}.how', ['copy_wt', 'set_wt', 'wt_coeff']),
            'form': ch.choice(f'{tag}.form', ['str', 'dict'])}
    if tag_phases:
        if fixed_phase:
            spec['phase_of'] = {nm: fixed_phase[nm] for nm in names}
        else:
            po = {}
            for nm in names:
                allowed = [p for p in tag_phases if not restrict or p in restrict.get(nm, tag_phases)]
                po[nm] = ch.choice(f'{tag}.phase.{nm}', allowed)
            spec['phase_of'] = po
        spec['phases_kw'] = list(tag_phases)
    if infer: spec['infer'] = True
    return spec


def build_reaction(spec, th):
    rxn = R.build_reaction(spec, th)
    return rxn


def build_tagged_aware(spec, th):
    """Reaction; phase-tagged ones get phases= so that every member of a set has the same phase tuple."""
    if spec.get('phase_of'):
        names, nu, phase_of = spec['names'], spec['nu'], spec['phase_of']
        chems = th.chemicals
        if spec['how'] == 'wt_coeff':
            coeff = [x * chems[nm].MW for nm, x in zip(names, nu)]; basis = 'wt'
        else:
            coeff = list(nu); basis = 'mol'
        defn = (R.reaction_string(names, coeff, phase_of) if spec['form'] == 'str'
                else R.reaction_dict(names, coeff, phase_of))
        used = sorted(set(phase_of.values()))
        kw = {}
        if used != sorted(spec['phases_kw']) or spec.get('force_phases_kw'):
            kw['phases'] = tuple(spec['phases_kw'])
        rxn = tmo.Reaction(defn, reactant=None if spec.get('infer') else spec['reactant'], X=spec['X'],
                           chemicals=chems, basis=basis, **kw)
        if spec['how'] == 'copy_wt': rxn = rxn.copy(basis='wt')
        elif spec['how'] == 'set_wt': rxn.basis = 'wt'
        return rxn
    return R.build_reaction(spec, th)


def build_struct(struct, th):
    kind, body = struct
    if kind == 'rxn': return build_tagged_aware(body, th)
    if kind == 'par': return tmo.ParallelReaction([build_tagged_aware(sp, th) for sp in body])
    if kind == 'ser': return tmo.SeriesReaction([build_tagged_aware(sp, th) for sp in body])
    return tmo.ReactionSystem(*[build_struct(sub, th) for sub in body])


def draw_struct(ch, tag, kind, mk, depth=0):
    """mk(tag) draws one reaction spec."""
    if kind == 'rxn':
        return ('rxn', mk(tag, ch.int(f'{tag}.intX', 0, 3) == 3))
    if kind in ('par', 'ser'):
        n = ch.int(f'{tag}.n', 1, 3)
        ints = ch.int(f'{tag}.intX', 0, 3) == 3      # every member written with an integer conversion
        return (kind, [mk(f'{tag}.r{i}', ints) for i in range(n)])
    n = ch.int(f'{tag}.nsys', 1, 3)
    subs = []
    for i in range(n):
        kinds = ['rxn', 'par', 'ser'] + (['sys'] if depth == 0 else [])
        k = ch.choice(f'{tag}.m{i}.kind', kinds)
        subs.append(draw_struct(ch, f'{tag}.m{i}', k, mk, depth + 1))
    return ('sys', subs)


OTHER = {'mol': 'wt', 'wt': 'mol'}


def copy_obj(obj, basis):
    """obj.copy(basis=...) (member-wise for a ReactionSystem, which has no copy method)."""
    if isinstance(obj, tmo.ReactionSystem):
        return tmo.ReactionSystem(*[copy_obj(m, basis) for m in obj.reactions])
    return obj.copy(basis=basis) if basis else obj.copy()


def set_basis_obj(obj, basis):
    """Plain copy, then the basis setter on the copy (sets refuse the setter by design: copy(basis=) there)."""
    if isinstance(obj, tmo.ReactionSystem):
        return tmo.ReactionSystem(*[set_basis_obj(m, basis) for m in obj.reactions])
    c = obj.copy()
    if isinstance(c, (tmo.ParallelReaction, tmo.SeriesReaction)):
        return obj.copy(basis=basis)
    c.basis = basis
    return c


def set_X_obj(obj, X):
    if isinstance(obj, tmo.ReactionSystem):
        for m in obj.reactions: set_X_obj(m, X)
    else:
        obj.X = X


def with_X(struct, X):
    kind, body = struct
    if kind == 'rxn': return ('rxn', dict(body, X=X))
    if kind in ('par', 'ser'): return (kind, [dict(sp, X=X) for sp in body])
    return ('sys', [with_X(sub, X) for sub in body])


def redraw_X(ch, struct, tag='reX'):
    """New (float) conversion for every reaction of the structure; returns the structure with them."""
    kind, body = struct
    if kind == 'rxn': return ('rxn', dict(body, X=draw_X(ch, tag)))
    if kind in ('par', 'ser'): return (kind, [dict(sp, X=draw_X(ch, f'{tag}.r{i}')) for i, sp in enumerate(body)])
    return ('sys', [redraw_X(ch, sub, f'{tag}.m{i}') for i, sub in enumerate(body)])


def nested_X(struct):
    kind, body = struct
    if kind == 'rxn': return body['X']
    if kind in ('par', 'ser'): return [sp['X'] for sp in body]
    return [nested_X(sub) for sub in body]


def assign_X(obj, struct, via):
    """Re-assign conversions after construction: through the object's own X setter (whole array / nested
    list) or member by member (items of a set, members of a system)."""
    kind, body = struct
    if kind == 'rxn':
        obj.X = body['X']
    elif kind in ('par', 'ser'):
        if via == 'whole':
            obj.X = [sp['X'] for sp in body]
        else:
            for i, sp in enumerate(body): obj[i].X = sp['X']
    else:
        if via == 'whole':
            obj.X = nested_X(struct)
        else:
            for m, sub in zip(obj.reactions, body): assign_X(m, sub, via)


def derive(ch, ctx, obj, basis, site, region):
    """Multi-step pattern: derive a counterpart of ``obj`` (other-basis copy, plain copy, copy + basis setter),
    optionally give the counterpart another conversion.  Returns (how, counterpart|None, its basis, new X|None).
    Afterwards the ORIGINAL and the counterpart must each still satisfy their own oracle."""
    how = ch.choice('derive', ['none', 'copy_other', 'copy_other', 'copy_same', 'copy_set'])
    if how == 'none':
        return how, None, basis, None
    cb = basis if how == 'copy_same' else OTHER[basis]
    reg = f'{region},via={how}'
    if how == 'copy_set':
        cp = ctx.call(site, set_basis_obj, obj, cb, region=reg)
    else:
        cp = ctx.call(site, copy_obj, obj, None if how == 'copy_same' else cb, region=reg)
    newX = None
    if ch.bool('derive.touchX'):
        newX = draw_X(ch, 'derive')
        ctx.call(site + '.setX', set_X_obj, cp, newX, region=reg)
    return how, cp, cb, newX


def struct_ok(struct):
    return all(sp is not None for sp in R.all_specs(struct))


def struct_key(struct):
    kind, body = struct
    if kind == 'rxn':
        sp = body
        return ['rxn', sp['names'], [1 if x > 0 else -1 for x in sp['nu']], sp['reactant'], sp['how'],
                sorted(sp['phase_of'].items()) if sp.get('phase_of') else None,
                'X0' if sp['X'] == 0 else 'X1' if sp['X'] == 1 else 'X']
    if kind in ('par', 'ser'):
        return [kind, [struct_key(('rxn', sp)) for sp in body]]
    return ['sys', [struct_key(s) for s in body]]


def draw_case(ch, ctx, clause):
    """Common part of the stream clauses.  Returns a dict describing package, structure, feed, T, P."""
    mode = ch.choice('mode', ['general', 'ref298'])
    tagged = ch.bool('tagged')
    pkg = ch.choice('pkg', ['GL', 'GL', 'LQ', 'LK'])
    if tagged and pkg == 'LK':
        pkg = 'GL'      # phase-tagged reactions over phase-locked chemicals: not a documented use
    basis = ch.choice('basis', ['mol', 'wt'])
    kind = ch.choice('kind', ['rxn', 'par', 'ser', 'sys', 'item'])
    th = R.thermo(pkg)
    chems = th.chemicals
    names_all = list(R.PKG[pkg])
    by = {c.ID: c for c in chems}
    locked = R.LOCKED.get(pkg, {})
    restrict = {'Glucose': ['l']}
    kmin = 2
    fixed = None
    if tagged:
        phases = ['g', 'l']
        if mode == 'ref298':
            pool = [nm for nm in names_all if by[nm].phase_ref in ('g', 'l')]
            fixed = {nm: by[nm].phase_ref for nm in pool}
        else:
            pool = names_all
        sphase = None
    else:
        phases = None
        if pkg == 'LQ':
            sphase = 'l'
        else:
            sphase = ch.choice('stream.phase', ['g', 'l'])
        if mode == 'ref298':
            pool = [nm for nm in names_all if (locked.get(nm) or sphase) == by[nm].phase_ref]
            kmin = 4
        else:
            pool = names_all
    mk = lambda t, ints=False: draw_spec(ch, t, pool, basis, tag_phases=phases, fixed_phase=fixed,
                                        restrict=restrict, kmin=kmin, intX=ints)
    item = None
    if kind == 'item':
        # one member of a reaction set, used on its own (a ReactionItem)
        item = {'set': ch.choice('item.set', ['par', 'ser']), 'via': ch.choice('item.via', ['iter', 'index']),
                'n': ch.int('item.n', 1, 3)}
        ints = ch.int('item.intX', 0, 3) == 3
        item['specs'] = [mk(f'S.r{i}', ints) for i in range(item['n'])]
        item['k'] = ch.int('item.k', 0, item['n'] - 1)
        if any(sp is None for sp in item['specs']):
            ctx.reject('no balanced reaction over the drawn subset')
        struct = ('rxn', item['specs'][item['k']])
    else:
        struct = draw_struct(ch, 'S', kind, mk)
    if not struct_ok(struct):
        ctx.reject('no balanced reaction over the drawn subset')
    if mode == 'ref298' or ch.int('T.ref', 0, 3) == 0:
        T = R.T_REF
    else:
        T = ch.float('T', 280.0, 450.0)
    P = ch.choice('P', [101325.0, 101325.0, 5e4, 1e6])
    sph = list(phase_tuple(phases)) if tagged else [sphase]
    n = len(names_all)
    rows = []
    for p in sph:
        row = ch.flows(f'feed.{p}', n)
        if 'Glucose' in names_all and p == 'g' and pkg != 'LK':
            row[names_all.index('Glucose')] = 0.0
        rows.append(row)
    feed = np.array(rows, float)
    # a reaction whose reactant is absent is trivial: mostly give it some reactant
    for i, sp in enumerate(R.all_specs(struct)):
        r = sph.index(sp['phase_of'][sp['reactant']]) if tagged else 0
        j = names_all.index(sp['reactant'])
        if feed[r, j] == 0.0 and ch.int(f'feed.boost{i}', 0, 3) != 0:
            feed[r, j] = ch.logfloat(f'feed.reactant{i}', -2, 2)
    margin = ch.choice('margin', [0.5, 0.0, 0.01, 2.0])
    xpkg = (pkg == 'GL') and ch.int('xpkg', 0, 3) == 0
    return dict(mode=mode, tagged=tagged, pkg=pkg, basis=basis, kind=kind, th=th, struct=struct, T=T, P=P,
                phases=sph, feed=feed, margin=margin, xpkg=xpkg, item=item)


def stream_thermo(case):
    """Thermo of the stream (same package, or the reversed-order twin of GL)."""
    if not case['xpkg']:
        return case['th']
    from vlib import chem
    return chem.thermo_of(tuple(reversed(R.PKG['GL'])))


def region_of(case):
    return (f"kind={case['kind']},basis={case['basis']},tagged={int(case['tagged'])},"
            f"xpkg={int(case['xpkg'])},lock={int(case['pkg'] == 'LK')},"
            f"via={case.get('via', 'none')},obj={case.get('obj', 'orig')}")


def prepare(ch, ctx, clause):
    case = draw_case(ch, ctx, clause)
    th = case['th']
    tmo.settings.set_thermo(th)
    sth = stream_thermo(case)
    schems = list(sth.chemicals)
    case.update(sth=sth, schems=schems, via='none', obj='orig')
    # feed was drawn in the order of the reaction package; move to the stream's order
    if case['xpkg']:
        order = [R.PKG['GL'].index(c.ID) for c in schems]
        case['feed'] = case['feed'][:, order]
    region = region_of(case)
    parent = None
    if case['item']:
        it = case['item']
        def build_item():
            cls = tmo.ParallelReaction if it['set'] == 'par' else tmo.SeriesReaction
            rset = cls([build_tagged_aware(sp, th) for sp in it['specs']])
            return rset, (list(rset)[it['k']] if it['via'] == 'iter' else rset[it['k']])
        parent, rxn = ctx.call(f'{clause}.build', build_item, region=region)
    else:
        rxn = ctx.call(f'{clause}.build', build_struct, case['struct'], th, region=region)
    # conversions re-assigned after construction (item / set / system X setters)
    if ch.bool('reX'):
        via = ch.choice('reX.via', ['whole', 'members'])
        case['struct'] = redraw_X(ch, case['struct'])
        ctx.cell(f'{clause}:reX={via}')
        ctx.call(f'{clause}.setX', assign_X, rxn, case['struct'], via, region=f'{region},reX={via}')
    # derive a counterpart first (other-basis copy, plain copy, basis setter on a copy), then use one of the two
    src = rxn
    if parent is not None and ch.bool('derive.from_set'):
        src = parent                      # copy the whole parent set; the counterpart is the copy's item k
    how, cp, cb, newX = derive(ch, ctx, src, case['basis'], f'{clause}.derive', region)
    case['via'] = how
    case['single'] = case['kind'] == 'rxn'
    if cp is not None and ch.bool('derive.use_counterpart'):
        case['obj'] = 'cp'
        case['basis'] = cb
        if src is parent:
            cp = ctx.call(f'{clause}.derive.item', lambda: cp[case['item']['k']], region=region_of(case))
        elif case['kind'] == 'item':
            case['single'] = True         # item.copy() is a stand-alone Reaction
        if newX is not None:
            case['struct'] = with_X(case['struct'], newX)
        rxn = cp
    case['rxn'] = rxn
    feed, ok = R.make_feasible(case['struct'], case['feed'], schems, case['phases'], case['margin'])
    # topped up with no margin: a co-reactant is consumed exactly, feasibility is decided by round-off
    case['boundary'] = case['margin'] == 0.0 and not np.array_equal(feed, case['feed'])
    # trace streams: the same composition at a total flow of 1e-12..1e-10 kmol/hr (all balances are linear in it)
    case['trace'] = False
    if ch.choice('feed.scale', ['normal', 'normal', 'normal', 'trace']) == 'trace' and feed.sum() > 0:
        feed = feed * (ch.logfloat('feed.total', -12, -10) / feed.sum())
        case['trace'] = True
        ctx.cell(f'{clause}:trace')
    case['feed'] = feed
    case['unit'] = min(1.0, float(feed.sum()))        # absolute floors scale with the stream
    out, ext = R.ref_react(case['struct'], feed, schems, case['phases'])
    case.update(ref_out=out, ext=ext, feasible=ok and not (out < 0).any())
    return case


def heat_terms(case, T):
    """Reference quantities at temperature T of the feed (kJ/hr)."""
    chems, phases, P = case['schems'], case['phases'], case['P']
    feed, out = case['feed'], case['ref_out']
    return dict(
        Hf0=R.Hf_total(chems, feed), Hf1=R.Hf_total(chems, out),
        H0=R.H_total(chems, phases, feed, T, P), H1=R.H_total(chems, phases, out, T, P))


def scale_of(case, T):
    chems, phases, P = case['schems'], case['phases'], case['P']
    tot = np.abs(case['feed']) + np.abs(case['ref_out'])
    s_hf = 0.0; s_h = 0.0
    for r, p in enumerate(phases):
        for j, c in enumerate(chems):
            if tot[r, j]:
                s_hf += tot[r, j] * abs(c.Hf)
                s_h += tot[r, j] * abs(R.pure_H(c, p, T, P))
    return s_hf, s_h


def check_material(ctx, case, s, site, region):
    got = R.dense(s)
    want = np.where(case['ref_out'] < 0, 0.0, case['ref_out'])
    sc = float(np.abs(case['feed']).sum()) or 1.0
    err = float(np.abs(got - want).max()) if got.shape == want.shape else float('inf')
    if not err <= MAT * sc:
        ctx.fail(f'{site}.material|{region}|mismatch', f'flows differ from the reference by {err!r} (scale {sc!r})')
    ctx.metric_max(f'{site}.material:rel_err', err / sc)


def cells(ctx, pre, case):
    ctx.cell(f'{pre}:{case["kind"]}')
    if case['basis'] == 'wt': ctx.cell(f'{pre}:wt')
    if case['tagged']: ctx.cell(f'{pre}:tagged')
    else: ctx.cell(f'{pre}:phase={case["phases"][0]}')
    if case['xpkg']: ctx.cell(f'{pre}:xpkg')
    if case['pkg'] == 'LK': ctx.cell(f'{pre}:locked')
    ctx.cell(f'{pre}:via={case["via"]}'); ctx.cell(f'{pre}:obj={case["obj"]}')
    specs = R.all_specs(case['struct'])
    if any(sp.get('infer') for sp in specs): ctx.cell(f'{pre}:reactant-inferred')
    if any(isinstance(sp['X'], int) for sp in specs): ctx.cell(f'{pre}:intX')


# ---------------------------------------------------------------------------
# clause (i): the reported heat of reaction
# ---------------------------------------------------------------------------

def prop_dH(ch, ctx):
    pkg = ch.choice('pkg', ['GL', 'LQ', 'LK'])
    tagged = ch.bool('tagged') and pkg != 'LK'
    basis = ch.choice('basis', ['mol', 'wt'])
    kind = ch.choice('kind', ['rxn', 'rxn', 'rxn', 'par_iter', 'par_index', 'ser_iter', 'ser_index', 'slice'])
    th = R.thermo(pkg)
    tmo.settings.set_thermo(th)
    chems = list(th.chemicals)
    pool = list(R.PKG[pkg])
    tag_phases = None
    if tagged:
        tag_phases = ch.choice('phases', [['g', 'l'], ['g', 'l', 's'], ['l', 's'], ['g', 's'], ['g'], ['l'], ['s']])
    n = 1 if kind == 'rxn' else ch.int('n', 1, 4)
    ints = ch.int('intX', 0, 3) == 3
    specs = [draw_spec(ch, f'r{i}', pool, basis, tag_phases=tag_phases, intX=ints) for i in range(n)]
    if any(sp is None for sp in specs):
        ctx.reject('no balanced reaction over the drawn subset')
    k = 0 if n == 1 else ch.int('k', 0, n - 1)
    region = f'kind={"rxn" if kind == "rxn" else "item"},basis={basis},tagged={int(tagged)}'
    ctx.cell('dH:kind=' + ('rxn' if kind == 'rxn' else 'item')); ctx.cell('dH:via=' + kind)
    if tagged: ctx.cell('dH:tagged'); ctx.cell('dH:phases=' + ''.join(tag_phases))
    if basis == 'wt': ctx.cell('dH:wt')
    if specs[k].get('infer'): ctx.cell('dH:reactant-inferred')
    if ints: ctx.cell('dH:intX')
    rxns = [ctx.call('dH.build', build_tagged_aware, sp, th, region=region) for sp in specs]
    if kind == 'rxn':
        target = rxns[0]
    else:
        cls = tmo.ParallelReaction if kind.startswith('par') or kind == 'slice' else tmo.SeriesReaction
        rset = ctx.call('dH.build', cls, rxns, region=region)
        if kind.endswith('iter'):
            target = ctx.call('dH.item', lambda: list(rset)[k], region=region)
        elif kind == 'slice':
            lo = ch.int('lo', 0, k)
            sub = ctx.call('dH.item', lambda: rset[lo:n], region=region)
            target = ctx.call('dH.item', lambda: sub[k - lo], region=region)
        else:
            target = ctx.call('dH.item', lambda: rset[k], region=region)
    # multi-step pattern: derive a counterpart (of the reaction / item itself, or of the whole parent set) first
    src = target
    from_set = kind != 'rxn' and ch.bool('derive.from_set')
    if from_set:
        src = rset
    how, cp, cb, cpX = derive(ch, ctx, src, basis, 'dH.derive', region)
    ctx.cell('dH:derive=' + how + (',set' if from_set and how != 'none' else ''))
    if cp is not None and from_set:
        cp = ctx.call('dH.derive.item', lambda: cp[k], region=f'{region},via={how}')
    spec = dict(specs[k])
    newX = None
    if ch.bool('setX'):
        newX = draw_X(ch, 'new')
        def setx(): target.X = newX
        ctx.call('dH.setX', setx, region=region)
        spec['X'] = newX
    by = {c.ID: c for c in chems}

    def compare(obj, sp, bs, reg, what):
        got = ctx.call('dH', lambda: obj.dH, region=reg)
        want = R.dH_oracle(sp, chems, bs == 'wt')
        if np.ndim(got) != 0:
            if np.size(got) != 1:
                ctx.fail(f'dH|{reg},n>=2|not-scalar',
                         f'dH of {what} {k} of {n} is {np.asarray(got).tolist()!r}; expected the scalar {want!r}')
            ctx.cell('dH:array-of-one')     # numerically one value: compared below
            got = np.asarray(got).item()
        nu_r = abs(dict(zip(sp['names'], sp['nu']))[sp['reactant']])
        sc = sum(abs(x / nu_r) * (abs(by[nm].Hf) + (abs(R.latent(by[nm], sp['phase_of'][nm])) if tagged else 0.0))
                 for nm, x in zip(sp['names'], sp['nu'])) * sp['X']
        if bs == 'wt': sc /= by[sp['reactant']].MW
        err = abs(float(got) - want)
        if sc: ctx.metric_max('dH:rel_err', err / sc)
        if not err <= REL * sc + 1e-12:
            ctx.fail(f'dH|{reg}|mismatch', f'dH of {what} = {float(got)!r}, X*sum nu (Hf+L) = {want!r}  [{sp}, {bs}]')
        return want

    full = f'{region},via={how},obj=orig'
    want = compare(target, spec, basis, full, 'the reaction' if kind == 'rxn' else 'item')
    if kind != 'rxn':
        # the Reaction object the set was built from keeps its own definition and conversion
        compare(rxns[k], specs[k], basis, f'{region},via={how},obj=member', 'the member Reaction')
    if cp is not None:
        cspec = dict(spec if cpX is None else dict(specs[k], X=cpX))
        if cpX is None and newX is not None:
            cspec['X'] = specs[k]['X']      # the copy was taken before the original's X was reassigned
        compare(cp, cspec, cb, f'{region},via={how},obj=cp', 'the counterpart')
    if abs(want) > 1.0 and spec['X'] > 0:
        ctx.cell('dH:nontrivial')
        ctx.nontriv(['dH', kind, pkg, basis, struct_key(('rxn', spec)), n, k, newX is not None, how, from_set])


# ---------------------------------------------------------------------------
# clause (ii): isothermal reaction
# ---------------------------------------------------------------------------

def exactly_consumed(case):
    """Some chemical is consumed down to (numerically) nothing in the reference: the library's absolute
    -1e-12 threshold then decides feasibility by round-off of the running sums (kg/hr on the wt basis)."""
    chems, phases = case['schems'], case['phases']
    consumed = np.zeros_like(case['feed'])
    for sp, e in case['ext']:
        nu, _rc = R.ref_nu(sp, chems, phases)
        consumed += abs(e) * np.where(nu < 0, -nu, 0.0)
    return bool(((consumed > 0) & (np.abs(case['ref_out']) <= 1e-10 * consumed)).any())


def react(ctx, case, site, region, fn):
    """Run fn(); documented rejection = InfeasibleRegion on an infeasible feed."""
    try:
        ctx.call(site, fn, allowed=(InfeasibleRegion,), region=region)
    except InfeasibleRegion as e:
        if case['boundary'] or exactly_consumed(case):
            ctx.reject('exactly consumed co-reactant: feasibility decided by round-off')
        if case['feasible'] and float(case['ref_out'].min()) >= 0.0:
            ctx.fail(f'{site}|{region}|exc:InfeasibleRegion', f'feasible feed rejected: {e}')
        ctx.reject('infeasible feed (InfeasibleRegion)')
    if not case['feasible'] and float(case['ref_out'].min()) < -1e-12 * float(case['feed'].sum()):
        ctx.reject('infeasible feed accepted (C05 subject)')


def prop_iso(ch, ctx):
    case = prepare(ch, ctx, 'iso')
    region = region_of(case)
    cells(ctx, 'iso', case)
    T, P = case['T'], case['P']
    chems = case['schems']
    s = R.make_stream(case['sth'], case['phases'], case['feed'], T, P, case['tagged'])
    rxn = case['rxn']
    Hf0 = s.Hf; Hnet0 = s.Hnet
    single = case['single']
    reported = None
    n_fed = None
    if single:
        sp = case['struct'][1]
        reported = ctx.call('iso.dH', lambda: rxn.dH, region=region)
        idx = [c.ID for c in chems].index(sp['reactant'])
        r = case['phases'].index(sp['phase_of'][sp['reactant']]) if case['tagged'] else 0
        n_fed = case['feed'][r, idx] * (chems[idx].MW if case['basis'] == 'wt' else 1.0)
    react(ctx, case, 'iso.call', region, lambda: rxn(s))
    check_material(ctx, case, s, 'iso', region)
    if s.T != T or s.P != P:
        ctx.fail(f'iso.call|{region}|TP-changed', f'T,P {T},{P} -> {s.T},{s.P}')
    Hf1 = s.Hf; Hnet1 = s.Hnet
    t = heat_terms(case, T)
    s_hf, s_h = scale_of(case, T)
    # change of the formation enthalpy = sum_r extent_r * sum_i nu_ri Hf_i
    by = {c.ID: c for c in chems}
    want_dHf = 0.0
    for sp, e in case['ext']:
        nu_r = -dict(zip(sp['names'], sp['nu']))[sp['reactant']]
        want_dHf += e * sum((x / nu_r) * by[nm].Hf for nm, x in zip(sp['names'], sp['nu']))
    err = abs((Hf1 - Hf0) - want_dHf)
    if s_hf: ctx.metric_max('iso.Hf:rel_err', err / s_hf)
    if not err <= REL * s_hf + 1e-9 * case['unit']:
        ctx.fail(f'iso.Hf|{region}|mismatch',
                 f'change of stream.Hf {Hf1 - Hf0!r}, X*sum(nu*Hf)*n_fed = {want_dHf!r}')
    # the reported dH (minus its latent part) times the reactant fed is that change, at any T
    if single:
        if np.ndim(reported) != 0:
            ctx.fail(f'iso.dH|{region}|not-scalar', f'dH = {reported!r}')
        nu_r = -dict(zip(sp['names'], sp['nu']))[sp['reactant']]
        lat = sp['X'] * sum((x / nu_r) * R.latent(by[nm], sp['phase_of'][nm])
                            for nm, x in zip(sp['names'], sp['nu'])) if case['tagged'] else 0.0
        if case['basis'] == 'wt': lat /= by[sp['reactant']].MW
        want = (float(reported) - lat) * n_fed
        err = abs((Hf1 - Hf0) - want)
        s_lat = abs(lat * n_fed)
        if s_hf: ctx.metric_max('iso.dHfed:rel_err', err / (s_hf + s_lat))
        if not err <= REL * (s_hf + s_lat) + 1e-9 * case['unit']:
            ctx.fail(f'iso.dHfed|{region}|mismatch',
                     f'(dH - latent)*n_fed = {want!r} but stream.Hf changed by {Hf1 - Hf0!r}')
    # change of Hnet = sum dn (Hf + H(phase,T,P)), pure-component enthalpies read independently
    want_dHnet = (t['Hf1'] - t['Hf0']) + (t['H1'] - t['H0'])
    err = abs((Hnet1 - Hnet0) - want_dHnet)
    if s_hf + s_h: ctx.metric_max('iso.Hnet:rel_err', err / (s_hf + s_h))
    if not err <= REL * (s_hf + s_h) + 1e-9 * case['unit']:
        ctx.fail(f'iso.Hnet|{region}|mismatch',
                 f'change of stream.Hnet {Hnet1 - Hnet0!r}, sum dn (Hf + H) = {want_dHnet!r} at T={T}')
    # at 298.15 K with every participant in its reference phase: dHnet = dH * n_fed
    locked = R.LOCKED.get(case['pkg'], {})
    inref = T == R.T_REF
    if inref:
        for sp in R.all_specs(case['struct']):
            for nm in sp['names']:
                ph = sp['phase_of'][nm] if case['tagged'] else (locked.get(nm) or case['phases'][0])
                if ph != by[nm].phase_ref: inref = False
    if inref:
        ctx.cell('iso:ref298')
        if single:
            ctx.cell('iso:ref298.reported')
            if np.ndim(reported) != 0:
                ctx.fail(f'iso.dH|{region}|not-scalar', f'dH = {reported!r}')
            want = float(reported) * n_fed
            err = abs((Hnet1 - Hnet0) - want)
            if s_hf + s_h: ctx.metric_max('iso.ref298:rel_err', err / (s_hf + s_h))
            if not err <= REL * (s_hf + s_h) + 1e-9 * case['unit']:
                ctx.fail(f'iso.ref298|{region}|mismatch',
                         f'dH*n_fed = {want!r} but stream.Hnet changed by {Hnet1 - Hnet0!r}')
        err = abs((Hnet1 - Hnet0) - want_dHf)
        if not err <= REL * (s_hf + s_h) + 1e-9 * case['unit']:
            ctx.fail(f'iso.ref298|{region}|mismatch-sets',
                     f'sum dH_r*n_fed_r = {want_dHf!r} but stream.Hnet changed by {Hnet1 - Hnet0!r}')
    if abs(want_dHnet) > 1.0 * case['unit']:
        ctx.cell('iso:nontrivial')
        ctx.nontriv(['iso', case['pkg'], case['basis'], case['phases'], case['xpkg'], case['mode'],
                     T == R.T_REF, struct_key(case['struct']), (case['feed'] != 0).astype(int).tolist(),
                     case['via'], case['obj']])


# ---------------------------------------------------------------------------
# clause (iii): adiabatic reaction with heat input
# ---------------------------------------------------------------------------

def prop_adiabatic(ch, ctx):
    case = prepare(ch, ctx, 'adb')
    region = region_of(case)
    cells(ctx, 'adb', case)
    T, P = case['T'], case['P']
    chems, phases = case['schems'], case['phases']
    feed, out = case['feed'], np.where(case['ref_out'] < 0, 0.0, case['ref_out'])
    qmode = ch.choice('Q.mode', ['target', 'target', 'zero', 'zero_given'])
    if not feed.any():
        qmode = 'zero'
    t = heat_terms(case, T)
    heat = (t['Hf1'] - t['Hf0']) + (t['H1'] - t['H0'])     # isothermal enthalpy change of the reaction
    T_target = None
    if qmode == 'target':
        T_target = ch.float('T_out', 250.0, 600.0)
        Q = (R.Hf_total(chems, out) + R.H_total(chems, phases, out, T_target, P)) - (t['Hf0'] + t['H0'])
    else:
        Q = 0.0
        # ballast: an inert amount that keeps the adiabatic temperature change below dT_max
        dT_max = ch.float('dT_max', 0.5, 30.0)
        C_out = R.C_total(chems, phases, out, T, P)
        need = abs(heat) / dT_max - C_out
        if need > 0:
            used = set()
            for sp in R.all_specs(case['struct']): used.update(sp['names'])
            inert = [j for j, c in enumerate(chems) if c.ID not in used and not (c.ID == 'Glucose' and case['pkg'] != 'LK')]
            if not inert:
                ctx.reject('no inert chemical available as ballast')
            j = inert[ch.int('ballast', 0, len(inert) - 1)]
            r = 0 if len(phases) == 1 else ch.int('ballast.phase', 0, len(phases) - 1)
            add = need / R.pure_Cn(chems[j], phases[r], T, P) * 1.05
            feed = feed.copy(); feed[r, j] += add
            case['feed'] = feed
            case['ref_out'], case['ext'] = R.ref_react(case['struct'], feed, chems, phases)
            out = np.where(case['ref_out'] < 0, 0.0, case['ref_out'])
            t = heat_terms(case, T)
    ctx.cell('adb:Q=' + ('target' if qmode == 'target' else '0'))
    rxn = case['rxn']
    # material first, on a twin stream: a wrong composition is reported as such, not as an energy failure
    twin = R.make_stream(case['sth'], phases, feed, T, P, case['tagged'])
    react(ctx, case, 'adb.pre', region, lambda: rxn(twin))
    check_material(ctx, case, twin, 'adb.pre', region)
    s = R.make_stream(case['sth'], phases, feed, T, P, case['tagged'])
    Hnet0 = s.Hnet
    phase0 = s.phase
    if qmode == 'zero':
        react(ctx, case, 'adb.call', region, lambda: rxn.adiabatic_reaction(s))
    else:
        react(ctx, case, 'adb.call', region, lambda: rxn.adiabatic_reaction(s, Q))
    check_material(ctx, case, s, 'adb', region)
    if s.P != P:
        ctx.fail(f'adb.call|{region}|P-changed', f'P {P} -> {s.P}')
    if (tuple(s.phases) != tuple(phases)) if case['tagged'] else (s.phase != phase0):
        ctx.fail(f'adb.call|{region}|phase-changed', f'phase {phase0!r} -> {s.phase!r} (T {T} -> {s.T}, Q={Q!r})')
    T1 = s.T
    if not (np.isfinite(T1) and 200.0 < T1 < 700.0):
        ctx.fail(f'adb.T|{region}|out-of-range', f'outlet T = {T1!r}, reference target {T_target!r}, Q = {Q!r}')
    Hnet1 = s.Hnet
    C1 = R.C_total(chems, phases, out, T1, P)
    s_hf, s_h = scale_of(case, T)
    s_h1 = sum(out[r, j] * abs(R.pure_H(c, p, T1, P)) for r, p in enumerate(phases) for j, c in enumerate(chems) if out[r, j])
    tol = 100.0 * C1 * T_TOL + REL * (s_hf + s_h + s_h1) + 1e-9 * case['unit']
    err = abs(Hnet1 - (Hnet0 + Q))
    if tol > 0: ctx.metric_max('adb.Hnet:err/tol', err / tol)
    if not err <= tol:
        ctx.fail(f'adb.Hnet|{region}|mismatch',
                 f'Hnet after {Hnet1!r} != Hnet before {Hnet0!r} + Q {Q!r} (off by {Hnet1 - Hnet0 - Q!r}, tol {tol!r}); T {T}->{T1}')
    # the same balance recomputed without Stream.Hnet/Hf/H: reference flows, pure-component models
    ref1 = R.Hf_total(chems, out) + R.H_total(chems, phases, out, T1, P)
    ref0 = t['Hf0'] + t['H0']
    err = abs(ref1 - (ref0 + Q))
    if tol > 0: ctx.metric_max('adb.ref:err/tol', err / tol)
    if not err <= tol:
        ctx.fail(f'adb.ref|{region}|mismatch',
                 f'reference Hnet at outlet T {ref1!r} != reference Hnet of feed {ref0!r} + Q {Q!r}; T {T}->{T1}')
    if T_target is not None:
        dT = abs(T1 - T_target)
        ctx.metric_max('adb.T:abs_err', dT)
        if not dT <= 1e-4:
            ctx.fail(f'adb.T|{region}|mismatch', f'outlet T {T1!r}, reference {T_target!r}')
    if abs(heat) > 1.0 * case['unit']:
        ctx.cell('adb:nontrivial')
        ctx.nontriv(['adb', case['pkg'], case['basis'], phases, case['xpkg'], case['mode'], qmode,
                     struct_key(case['struct']), (feed != 0).astype(int).tolist(), case['via'], case['obj']])


def setup(ctx):
    for pk in R.PKG:
        for c in R.thermo(pk).chemicals:
            got = tuple(int(c.atoms.get(e, 0)) for e in 'CHO')
            if got != R.FORMULAS[c.ID] or set(c.atoms) - set('CHO') or c.Hf is None:
                from vlib.runner import HarnessError
                raise HarnessError(f'formula/Hf table out of date for {c.ID}: {c.atoms} Hf={c.Hf}')


PROPS = {
    'dH': (prop_dH, 3000, 40000),
    'iso': (prop_iso, 4000, 40000),
    'adiabatic': (prop_adiabatic, 4000, 40000),
}
