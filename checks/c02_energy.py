"""C02 - enthalpy is conserved on mixing/separating and invertible in temperature."""
from __future__ import annotations

import numpy as np
import thermosteam as tmo
from vlib import chem, streams as vs

PROPERTY = 'C02'
RULE = ('Hypothesis draws 1-4 non-empty inlets (Stream in l or g, or MultiStream over g,l; T 250-500 K, P 1e4-1e7 Pa; '
        'packages over permuted subsets of 8 volatile chemicals), a heat input Q given as keyword and/or as Heat-like '
        'objects, a Stream or MultiStream receiver (optionally one of the inlets); oracle: H_out = sum(H_in read before '
        'the call) + Q within 100*C*T_tol + 1e-9|H|, P_out = min P of non-empty inlets; separate_out(energy_balance=True) '
        'leaves H_before - H_other.  Setter round trips: X* = X(T*) read from the stream at T* in [250,500], stream moved '
        'to T0, s.X = X* for X in H, h, S, Hnet on single-phase and frozen-split multi-phase streams; oracle: read-back '
        'equals X*, |T-T*| <= 1e-4 K, re-assigning the current value moves T by <= 1e-5 K.  Non-trivial: >=2 inlets with '
        'different T or phase, or Q != 0, or a multi-phase participant, or a round trip with |T0-T*| > 20 K; distinct by '
        '(kinds, phases, packages, zero patterns, sign of Q, setter).')
ASSUMPTIONS = ['property models are monotone in T on 250-500 K for the drawn compositions (Cn > 0 is checked, else the case is rejected)',
               'mixed temperature is required to land in 200-600 K, otherwise the case is counted as rejected (outside model range)',
               'tolerances from Mixture.T_tol = 1e-6 K (DESIGN.md section 4)']
REQUIRED_CELLS = {'quick': ['mix:recv=S', 'mix:recv=M', 'mix:multi-inlet', 'mix:Q!=0', 'mix:heat-object', 'mix:self',
                            'set:H', 'set:h', 'set:S', 'set:Hnet', 'set:multi', 'sep:multi', 'sep:other-at-mixture-T', 'mix:empty-inlet-lowest-P', 'mixvle:Q!=0', 'set:PR', 'set:T*=Tref', 'mix:all-inlets-at-Tref', 'set:composition-edit-before-same', 'mixpr:self-above-min-P', 'set:F_mol=1', 'sep:own-phase-stream', 'set:maxiter<20'], 'thorough': []}

PKGS = ['A', 'B', 'C', 'D']
T_TOL = 1e-6


class Heat:
    """Heat-like object as mix_from documents ('must be a heat or power object')."""
    def __init__(self, heat): self.heat = heat
    def __bool__(self): return True


def draw_inlet(ch, tag, pkgs, nonempty=True):
    sp = vs.draw_spec(ch, tag, pkgs, phases=('l', 'g'), T=(250., 500.), P=(1e4, 1e7), allow_empty=not nonempty)
    if nonempty and not any(v for row in sp['flows'] for v in row):
        # make it non-empty constructively
        j = ch.index(f'{tag}.fill', len(sp['flows'][0]))
        sp['flows'][0][j] = 1.0
    return sp


def skey(spec):
    return [spec['kind'], spec['pkg'] if isinstance(spec['pkg'], str) else 'PR', spec['phases'], [[1 if v else 0 for v in row] for row in spec['flows']]]


def tol_H(s, H):
    C = abs(s.C) if not s.isempty() else 0.0
    # measured noise is ~1e-6 of C*T_tol, so one C*T_tol (not the 100x of DESIGN.md section 4) keeps >1e4 head-room
    return C * T_TOL + 1e-10 * abs(H) + 1e-9


def cn_positive(s):
    """Monotonicity guard: heat capacity flow positive at the ends and the middle of the range."""
    T0 = s.T
    try:
        for T in (250., 375., 500.):
            s.T = T
            if not (s.C > 0): return False
        return True
    finally:
        s.T = T0


def prop_mix(ch, ctx):
    recv_pkg = ch.choice('recv.pkg', chem.SUPERSETS)
    n = ch.int('n', 1, 4)
    self_idx = ch.int('self', -1, n - 1)
    # inlet 0 is non-empty by construction; the others may be empty (their pressure must then be ignored)
    specs = [draw_inlet(ch, f'in{i}', [recv_pkg] if i == self_idx else PKGS, nonempty=(i == 0)) for i in range(n)]
    rkind = ch.choice('recv.kind', ['S', 'M']) if self_idx < 0 else specs[self_idx]['kind']
    dT = ch.choice('Q.kind', [0.0, None, None])
    if dT is None: dT = ch.float('Q.dT', -40., 40.)
    nheat = ch.int('heat.objects', 0, 2)
    op = ch.choice('op', ['mix_from', 'mix_from', 'sum'])
    th = chem.package(recv_pkg)
    tmo.settings.set_thermo(th)
    if ch.choice('inlets.all_at_Tref', [False, False, False, True]):
        for sp in specs: sp['T'] = 298.15      # liquid inlets of liquid-reference chemicals: sum(H_in) is exactly 0
        ctx.cell('mix:all-inlets-at-Tref')
    inlets = [vs.build(sp) for sp in specs]
    if self_idx >= 0:
        recv = inlets[self_idx]
    elif rkind == 'S':
        recv = tmo.Stream(None, thermo=th, T=ch.float('recv.T', 250., 500.))
    else:
        recv = tmo.MultiStream(None, phases=('g', 'l'), thermo=th, T=ch.float('recv.T', 250., 500.))
    # a phase stream (ms['g']) of a multi-phase inlet - possibly of the receiver itself - listed as a further inlet
    nview = 0
    parents = list({id(s): s for s in inlets if isinstance(s, tmo.MultiStream)}.values())
    if parents and ch.choice('views', [0, 0, 0, 1]):
        par = parents[ch.index('view.parent', len(parents))]
        inlets.insert(ch.int('view.pos', 0, len(inlets)), par[ch.choice('view.phase', list(par.phases))])
        nview = 1 + int(par is recv)
        ctx.cell('mix:view-inlet' + ('-of-receiver' if par is recv else ''))
    Hs = [s.H for s in inlets]
    Ctot = sum(s.C for s in inlets)
    Q = dT * Ctot
    Pmin = min(s.P for s in inlets if vs.dense(s).any())
    if any(not vs.dense(s).any() for s in inlets): ctx.cell('mix:empty-inlet')
    if any((not vs.dense(s).any()) and s.P < Pmin for s in inlets): ctx.cell('mix:empty-inlet-lowest-P')
    parts = [Q]
    if nheat:
        # split Q over the keyword and heat objects
        w = [ch.float(f'heat.w{i}', 0.0, 1.0) for i in range(nheat)]
        tot = sum(w) + 1.0
        parts = [Q / tot] + [Q * wi / tot for wi in w]
    Qsum = sum(parts)
    want = sum(Hs) + Qsum
    multi = any(sp['kind'] == 'M' for sp in specs)
    region = f'recv={rkind},multi={int(multi)},self={int(self_idx >= 0)},n={min(n, 2)},op={op}' + (f',view={nview}' if nview else '')
    ctx.cell(f'mix:recv={rkind}')
    if multi: ctx.cell('mix:multi-inlet')
    if Q: ctx.cell('mix:Q!=0')
    if nheat: ctx.cell('mix:heat-object')
    if self_idx >= 0: ctx.cell('mix:self')
    others = list(inlets) + [Heat(p) for p in parts[1:]]
    if op == 'sum' and self_idx < 0 and not nheat and not Q:
        cls = tmo.Stream if rkind == 'S' else tmo.MultiStream
        recv = ctx.call('mix.sum', cls.sum, inlets, None, th, True, region=region)
    else:
        op = 'mix_from'
        # "any collection": list, tuple or a one-shot iterator over streams and heat objects
        cont = ch.choice('container', ['list', 'list', 'tuple', 'iter'])
        if cont != 'list': ctx.cell('mix:container=' + cont)
        arg = others if cont == 'list' else tuple(others) if cont == 'tuple' else iter(list(others))
        ctx.call('mix.mix_from', recv.mix_from, arg, energy_balance=True, Q=parts[0], region=region)
    if not (200. < recv.T < 600.):
        ctx.reject('mixed temperature outside the model range')
    if not cn_positive(recv):
        ctx.reject('non-monotone enthalpy model for this composition')
    got = recv.H
    err = abs(got - want)
    ctx.metric_max('mix:H_err/tol', err / tol_H(recv, want))
    if err > tol_H(recv, want):
        ctx.fail(f'mix.{op}|{region}|H-mismatch', f'H_out={got!r} want sum(H_in)+Q={want!r} (sum H_in={sum(Hs)!r}, Q={Qsum!r}) T={recv.T}')
    if recv.P != Pmin:
        ctx.fail(f'mix.{op}|{region}|P-not-min', f'P_out={recv.P!r} min P of inlets={Pmin!r}')
    Ts = {round(sp['T'], 6) for sp in specs}
    ph = {tuple(sp['phases']) for sp in specs}
    if (n >= 2 and (len(Ts) > 1 or len(ph) > 1)) or Q or multi:
        ctx.nontriv(['mix', op, [skey(s) for s in specs], rkind, self_idx, (Q > 0) - (Q < 0), nheat, nview])


def prop_separate(ch, ctx):
    recv_pkg = ch.choice('recv.pkg', chem.SUPERSETS)
    n = ch.int('n', 2, 4)
    specs = [draw_inlet(ch, f'in{i}', PKGS) for i in range(n)]
    k = ch.int('k', 0, n - 1)
    rkind = ch.choice('recv.kind', ['S', 'M'])
    th = chem.package(recv_pkg)
    tmo.settings.set_thermo(th)
    inlets = [vs.build(sp) for sp in specs]
    recv = tmo.Stream(None, thermo=th) if rkind == 'S' else tmo.MultiStream(None, phases=('g', 'l'), thermo=th)
    try:
        recv.mix_from(inlets, energy_balance=True)
    except Exception:
        ctx.reject('mix failed (reported by the mix check)')
    if not (200. < recv.T < 600.): ctx.reject('mixed temperature outside the model range')
    other = inlets[k]
    if ch.bool('other.at_recv_T'):
        # the separated stream need not be at its original temperature: same material, at exactly the mixture's T
        other.T = recv.T
        ctx.cell('sep:other-at-mixture-T')
    own_view = False
    if rkind == 'M' and len(recv.phases) > 1 and ch.choice('other.own-view', [False, False, False, True]):
        # one of the mixture's own phase streams is separated out of it (ms.separate_out(ms['g']), ms -= ms['l'])
        cand = [p for p in recv.phases if not recv[p].isempty()]
        if len(cand) > 1:
            other = recv[ch.choice('view.phase', cand)]
            own_view = True
            ctx.cell('sep:own-phase-stream')
    H_before = recv.H
    H_other = other.H
    region = f'recv={rkind},other={vs.kind_tag(specs[k])},xpkg={int(specs[k]["pkg"] != recv_pkg)}' if not own_view else f'recv={rkind},other=own-view'
    if specs[k]['kind'] == 'M': ctx.cell('sep:multi')
    want = H_before - H_other
    try:
        ctx.call('separate.separate_out', recv.separate_out, other, energy_balance=True, region=region,
                 allowed=(RuntimeError,))
    except RuntimeError as e:
        # The material has been removed before the temperature solve; a solver error is a documented rejection only
        # if no temperature in the model range gives the required enthalpy (checked on the remainder itself).
        if recv.isempty(): ctx.reject('nothing left')
        recv.T = 200.; H_lo = recv.H
        recv.T = 600.; H_hi = recv.H
        if not (H_lo <= want <= H_hi): ctx.reject('no temperature in 200-600 K gives H_before - H_other')
        ctx.fail(f'separate.separate_out|{region}|exc:RuntimeError', f'{str(e)[:200]} although H({200})={H_lo!r} <= {want!r} <= H(600)={H_hi!r}')
    if recv.isempty(): ctx.reject('nothing left')
    if not (200. < recv.T < 600.): ctx.reject('remainder temperature outside the model range')
    if not cn_positive(recv): ctx.reject('non-monotone enthalpy model for this composition')
    got = recv.H
    err = abs(got - want)
    t = tol_H(recv, H_before) + 1e-9 * abs(H_other)
    ctx.metric_max('sep:H_err/tol', err / t)
    if err > t:
        ctx.fail(f'separate.separate_out|{region}|H-mismatch', f'H_after={got!r} want H_before-H_other={want!r}')
    ctx.nontriv(['sep', [skey(s) for s in specs], k, rkind])


def prop_mix_vle(ch, ctx):
    """mix_from(..., vle=True, Q=Q): the flash is specified by H = sum(H_in) + Q, so the balance must still close."""
    pkg = ch.choice('pkg', ['D', 'C'])
    n = ch.int('n', 2, 3)
    specs = [vs.draw_spec(ch, f'in{i}', [pkg], kinds=('S',), phases=('l', 'g'), T=(300., 420.), P=(5e4, 5e5),
                          lo_exp=-1, hi_exp=2, allow_empty=False) for i in range(n)]
    for sp in specs:
        if not any(sp['flows'][0]): sp['flows'][0][0] = 1.0
    dT = ch.choice('Q.kind', [0.0, None, None])
    if dT is None: dT = ch.float('Q.dT', -30., 30.)
    nheat = ch.int('heat.objects', 0, 1)
    th = chem.package(pkg)
    tmo.settings.set_thermo(th)
    inlets = [vs.build(sp) for sp in specs]
    self_idx = ch.int('self', -1, n - 1)
    recv = inlets[self_idx] if self_idx >= 0 else tmo.Stream(None, thermo=th)
    Hs = [s.H for s in inlets]
    Q = dT * sum(s.C for s in inlets)
    parts = [Q / 2, Q / 2] if nheat else [Q]
    want = sum(Hs) + Q
    Pmin = min(s.P for s in inlets)
    region = f'self={int(self_idx >= 0)},heat={nheat},Q={int(bool(Q))}'
    ctx.cell('mixvle:Q!=0' if Q else 'mixvle:Q=0')
    others = list(inlets) + [Heat(p) for p in parts[1:]]
    try:
        ctx.call('mix_vle', recv.mix_from, others, energy_balance=True, vle=True, Q=parts[0], region=region,
                 allowed=(RuntimeError, FloatingPointError, ZeroDivisionError))
    except (RuntimeError, FloatingPointError, ZeroDivisionError):
        ctx.reject('flash did not converge (documented solver rejection)')
    if not (200. < recv.T < 600.): ctx.reject('mixed temperature outside the model range')
    got = recv.H
    tol = 1e-5 * recv.F_mass + 100 * abs(recv.C) * T_TOL + 1e-9 * abs(want)
    ctx.metric_max('mixvle:H_err/tol', abs(got - want) / tol)
    if abs(got - want) > tol:
        ctx.fail(f'mix_vle|{region}|H-mismatch', f'H_out={got!r} want sum(H_in)+Q={want!r} (Q={Q!r}) T={recv.T} phases={recv.phases}')
    if recv.P != Pmin:
        ctx.fail(f'mix_vle|{region}|P-not-min', f'P_out={recv.P!r} min P={Pmin!r}')
    ctx.nontriv(['mixvle', [skey(s) for s in specs], self_idx, (Q > 0) - (Q < 0), nheat])


SETTERS = ['H', 'h', 'S', 'Hnet']


_pr_cache = {}


def pr_package(pid):
    """The same chemicals as package `pid` with a Peng-Robinson (equation-of-state) mixture instead of the ideal one."""
    th = _pr_cache.get(pid)
    if th is None:
        from thermosteam.mixture import PRMixture
        from vlib import runner
        chems = tmo.Chemicals([chem.chemical(n) for n in chem.PACKAGES[pid]])
        th = _pr_cache[pid] = tmo.Thermo(chems, mixture=PRMixture.from_chemicals(chems))
        runner.register_chemicals(th.chemicals)
    return th


def _div(s):
    """Outcome class of a failed solve: the temperature left the model range altogether (the secant iteration
    diverged) versus a wrong temperature inside the range (the solver converged to something else)."""
    return '' if 200. < s.T < 600. else ':diverged'


def prop_setter(ch, ctx):
    sp = draw_inlet(ch, 's', PKGS)
    X = ch.choice('setter', SETTERS)
    # Configuration: `Mixture.maxiter` bounds the accelerated fixed-point stage; with a small value that stage stops
    # early and the secant polish of the anchored mechanism has to finish the solve (runner.fresh_state restores 20).
    maxiter = ch.choice('Mixture.maxiter', [20, 20, 20, 1, 2, 3])
    from thermosteam.mixture.mixture import Mixture
    Mixture.maxiter = maxiter
    if maxiter < 20: ctx.cell('set:maxiter<20')
    mixture_kind = ch.choice('mixture', ['ideal', 'ideal', 'ideal', 'PR'])
    if mixture_kind == 'PR':
        # Equation-of-state package.  A cubic EOS has no gas root below the saturation temperature at elevated
        # pressure (H(T) of "gas" water at 50 bar drops by 3 MJ/kmol at 440 K), so the pressure is kept <= 3 bar and
        # the enthalpy is required to be increasing over the whole range (guard below), else the case is rejected.
        sp = dict(sp, pkg=pr_package(sp['pkg']), P=min(sp['P'], 3e5))
        ctx.cell('set:PR')
    # open interval: several heat-capacity correlations end exactly at 500 K / 250 K and jump by ~1e-6 relative there
    Tstar = ch.float('T*', 250.5, 499.5)
    T0 = ch.float('T0', 250.5, 499.5)
    if ch.choice('T*.special', [None, None, None, 298.15]) is not None and mixture_kind != 'PR':
        Tstar = 298.15      # the reference temperature: the assigned enthalpy can be exactly 0.0
        ctx.cell('set:T*=Tref')
    if mixture_kind == 'PR':
        # keep 40 K away from the ends of the range on which monotonicity is verified: just outside it the EOS
        # enthalpy turns (found by the thorough tier: H(250.5 K) is reached again at 220 K, a legitimate second root)
        Tstar = 290.0 + (Tstar - 250.5) * 180.0 / 249.0
        T0 = 290.0 + (T0 - 250.5) * 180.0 / 249.0
    unit_total = False
    if sp['kind'] == 'S' and mixture_kind != 'PR' and ch.choice('unit-total', [False, False, False, True]):
        # total flow exactly 1.0 kmol/hr (already "normalised" data): dyadic fractions over 2-3 chemicals
        nchem = len(sp['flows'][0])
        idx = ch.subset('unit.chems', list(range(nchem)), min_size=2, max_size=3)
        vals = [0.25, 0.75] if len(idx) == 2 else [0.5, 0.125, 0.375]
        row = [0.0] * nchem
        for i, v in zip(idx, vals): row[i] = v
        sp = dict(sp, flows=[row]); sp.pop('order', None)
        unit_total = True
        ctx.cell('set:F_mol=1')
    s = vs.build(sp)
    tmo.settings.set_thermo(s.thermo)
    # Liquid heat-capacity correlations diverge towards the critical point (hexane Tc = 507.6 K): a liquid row is only
    # inside "the validity range of the property models" below ~0.9 Tc of its chemicals, so the temperatures of
    # streams holding liquid are mapped linearly from (250.5, 499.5) into (250.5, min(499.5, 0.9 Tc_min)).
    Tc_min = None
    for p, row in zip(sp['phases'], sp['flows']):
        if p in ('l', 'L'):
            for c, v in zip(s.chemicals, row):
                if v and c.Tc: Tc_min = c.Tc if Tc_min is None else min(Tc_min, c.Tc)
    if Tc_min is not None:
        hi = min(499.5, 0.9 * Tc_min)
        if Tstar != 298.15: Tstar = 250.5 + (Tstar - 250.5) * (hi - 250.5) / 249.0
        T0 = 250.5 + (T0 - 250.5) * (hi - 250.5) / 249.0
    if not cn_positive(s): ctx.reject('non-monotone enthalpy model for this composition')
    if mixture_kind == 'PR':
        Tkeep = s.T; prev = None
        for Tg in np.linspace(250.5, 499.5, 84):
            s.T = float(Tg); val = getattr(s, 'S' if X == 'S' else 'H')
            if prev is not None and not (val > prev):
                s.T = Tkeep; ctx.reject('equation-of-state enthalpy/entropy not increasing over 250-500 K (root switching)')
            prev = val
        s.T = Tkeep
    region = f'kind={vs.kind_tag(sp)},setter={X},phases={"".join(sorted(sp["phases"]))},mix={mixture_kind}' + (',maxiter=low' if maxiter < 20 else '')
    ctx.cell('set:' + X)
    if sp['kind'] == 'M': ctx.cell('set:multi')
    s.T = Tstar
    Xstar = getattr(s, X)
    # Region predicate `stair`: the installed `thermo` library evaluates the Cn/T integral of several correlations
    # (HEOS_FIT, ...) as a difference of huge terms, so S(T) is a staircase / noisy at the 1e-7..1e-6 relative level
    # (C07-F3).  Measure it locally, independently of the setter: deviation of S from a straight line over
    # T* +- 8e-4 K, in units of the increment expected from the heat capacity over one sample spacing.
    stair = 0
    noise = 0.0
    if X == 'S':
        # 17 samples (33 for equation-of-state mixtures, whose entropy shows sporadic jumps: 3 of 10 samples off the
        # line by 1e-7 relative in the case kept as replays/regress/C02-pr-entropy-not-injective.json) over +-8e-4 K
        half, hT = (16, 5e-5) if mixture_kind == 'PR' else (8, 1e-4)
        ys = []
        for j in range(-half, half + 1):
            s.T = Tstar + j * hT
            ys.append(s.S)
        s.T = Tstar
        slope_S = abs(s.C) / Tstar
        lin = [ys[half] + (j - half) * hT * slope_S for j in range(2 * half + 1)]
        noise = max(abs(a - b) for a, b in zip(ys, lin))
        stair = int(noise > 0.05 * slope_S * 2e-4)
        ctx.cell(f'set:S:stair={stair}')
    s.T = T0
    flows0 = vs.by_phase(s)
    region = region + f',stair={stair}'
    ctx.call('setter.' + X, setattr, s, X, Xstar, region=region)
    if vs.by_phase(s) != flows0:
        # the setter switched phases: the target was not reachable in the given phase (outside the domain)
        ctx.reject('setter changed the phase')
    back = getattr(s, X)
    slope = abs(s.C) * (1.0 if X in ('H', 'Hnet') else 1.0 / s.F_mol if X == 'h' else 1.0 / max(Tstar, T0))
    tol = 100.0 * slope * T_TOL + 1e-9 * abs(Xstar) + 1e-9 + 4 * noise
    T_tol_rt = 1e-4 + 4 * noise / slope
    err = abs(back - Xstar)
    ctx.metric_max(f'set:{X}_err/tol:stair={stair}', err / tol)
    ctx.metric_max(f'set:dT:{X}:stair={stair}', abs(s.T - Tstar))
    if err > tol:
        ctx.fail(f'setter.{X}|{region}|readback{_div(s)}', f'assigned {Xstar!r}, read back {back!r}; T={s.T!r} T*={Tstar!r} T0={T0!r}')
    if abs(s.T - Tstar) > T_tol_rt:
        # "T equals T*" follows from the read-back clause only where X(T) is injective at this resolution.  If the
        # value read back at T agrees with X(T*) to much better than slope*|T - T*|, the model function itself takes
        # the same value at both temperatures (sporadic 1e-4 K-sized jumps of the equation-of-state entropy were
        # measured) and the clause is undecidable there; the read-back clause above has already held.
        if err < 0.5 * slope * abs(s.T - Tstar):
            ctx.cell('set:T-clause-undecidable(model not injective)')
        else:
            ctx.fail(f'setter.{X}|{region}|T-mismatch{_div(s)}', f'T={s.T!r} but the assigned value is that of T*={Tstar!r} (T0={T0!r})')
    # assigning the value it already has leaves T unchanged - also right after an in-place composition change at the
    # same T, P with another derived property read in between (the value read must belong to the current flows)
    if ch.bool('edit.before.same') and X != 'S':   # the measured S noise region belongs to the unedited composition
        data = s.imol.data
        rows = data.rows if hasattr(data, 'rows') else [data]
        for r in rows:
            if unit_total:
                # rotate the values among the stored keys: the total stays exactly 1.0
                ks = list(r.dct); vs_ = [r.dct[k] for k in ks]
                for k, v in zip(ks, vs_[1:] + vs_[:1]): r.dct[k] = v
                continue
            for k in list(r.dct):
                r.dct[k] = r.dct[k] * (2.0 if k % 2 == 0 else 0.5)
        _ = s.C
        ctx.cell('set:composition-edit-before-same')
    T1 = s.T
    cur = getattr(s, X)
    ctx.call('setter.same.' + X, setattr, s, X, cur, region=region)
    ctx.metric_max(f'set:same_dT:{X}:stair={stair}', abs(s.T - T1))
    if abs(s.T - T1) > 1e-5 + 4 * noise / slope:
        ctx.fail(f'setter.same.{X}|{region}|T-moved{_div(s)}', f'assigning the current {X} moved T from {T1!r} to {s.T!r}')
    if abs(T0 - Tstar) > 20. or sp['kind'] == 'M':
        ctx.nontriv(['set', X, skey(sp), T0 > Tstar])


def prop_mix_pr(ch, ctx):
    """mix_from on an equation-of-state package (Peng-Robinson): the enthalpy depends on pressure, so the balance
    only closes if every inlet's enthalpy - the receiver's own included - is read at that inlet's pressure."""
    pid = ch.choice('pkg', PKGS)
    th = pr_package(pid)
    tmo.settings.set_thermo(th)
    n = ch.int('n', 2, 3)
    self_idx = ch.int('self', -1, n - 1)
    specs = []
    for i in range(n):
        sp = vs.draw_spec(ch, f'in{i}', [pid], kinds=('S',), phases=('g',), T=(300., 460.), P=(1e4, 3e5),
                          lo_exp=-1, hi_exp=2, allow_empty=False)
        if not any(sp['flows'][0]): sp['flows'][0][ch.index(f'in{i}.fill', len(sp['flows'][0]))] = 1.0
        specs.append(dict(sp, pkg=th))
    dT = ch.choice('Q.kind', [0.0, 0.0, None])
    if dT is None: dT = ch.float('Q.dT', -20., 20.)
    inlets = [vs.build(sp) for sp in specs]
    recv = inlets[self_idx] if self_idx >= 0 else tmo.Stream(None, thermo=th, phase='g', T=ch.float('recv.T', 300., 460.))
    Hs = [s.H for s in inlets]
    Q = dT * sum(s.C for s in inlets)
    want = sum(Hs) + Q
    Pmin = min(s.P for s in inlets)
    self_hiP = self_idx >= 0 and recv.P > Pmin
    region = f'self={int(self_idx >= 0)},selfP={"high" if self_hiP else "min"},Q={int(bool(Q))}'
    ctx.cell('mixpr:self-above-min-P' if self_hiP else 'mixpr:other')
    ctx.call('mix_pr', recv.mix_from, inlets, energy_balance=True, Q=Q, region=region)
    if not (290. < recv.T < 470.): ctx.reject('mixed temperature outside the range on which the EOS gas root is checked')
    # monotone guard (as for the PR setter stratum): H(T) of the mixture increasing over the range
    Tkeep = recv.T; prev = None
    for Tg in np.linspace(270., 490., 45):
        recv.T = float(Tg); val = recv.H
        if prev is not None and not (val > prev):
            recv.T = Tkeep; ctx.reject('equation-of-state enthalpy not increasing over 270-490 K (root switching)')
        prev = val
    recv.T = Tkeep
    got = recv.H
    err = abs(got - want)
    tol = 100 * tol_H(recv, want)
    ctx.metric_max('mixpr:H_err/tol', err / tol)
    if err > tol:
        ctx.fail(f'mix_pr|{region}|H-mismatch', f'H_out={got!r} want sum(H_in)+Q={want!r} (Q={Q!r}) T={recv.T} P={recv.P}')
    if recv.P != Pmin:
        ctx.fail(f'mix_pr|{region}|P-not-min', f'P_out={recv.P!r} min P={Pmin!r}')
    ctx.nontriv(['mixpr', [skey(s) for s in specs], self_idx, self_hiP, (Q > 0) - (Q < 0)])


PROPS = {
    'mix': (prop_mix, 1200, 60000),
    'mix_vle': (prop_mix_vle, 320, 12000),
    'separate': (prop_separate, 500, 25000),
    'setter': (prop_setter, 1500, 60000),
    'mix_pr': (prop_mix_pr, 320, 12000),
}
